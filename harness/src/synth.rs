//! Audio synthesis for receiver-level runs: continuous-phase AFSK bursts with
//! fractional samples per symbol, impairments, noise, and hostile segments.
//! Everything random derives from one splitmix64 state.

pub const MARK_HZ: f64 = 2083.3;
pub const SPACE_HZ: f64 = 1562.5;
pub const BAUD_HZ: f64 = 520.83;

pub struct Rng(pub u64);
impl Rng {
    pub fn next(&mut self) -> u64 {
        self.0 = self.0.wrapping_add(0x9E3779B97F4A7C15);
        let mut z = self.0;
        z = (z ^ (z >> 30)).wrapping_mul(0xBF58476D1CE4E5B9);
        z = (z ^ (z >> 27)).wrapping_mul(0x94D049BB133111EB);
        z ^ (z >> 31)
    }
    pub fn unit(&mut self) -> f64 {
        ((self.next() >> 11) as f64 + 0.5) / (1u64 << 53) as f64
    }
    pub fn gauss(&mut self) -> f64 {
        let u1 = self.unit();
        let u2 = self.unit();
        (-2.0 * u1.ln()).sqrt() * (2.0 * std::f64::consts::PI * u2).cos()
    }
}

#[derive(Clone, Debug)]
pub struct Params {
    pub rate: u32,
    pub amp: f64,
    pub dc: f64,
    pub phase: f64,
    pub frac: f64,
    pub baud_err: f64,
    /// signal-to-noise ratio in dB for additive noise (None = noiseless)
    pub snr_db: Option<f64>,
    pub seed: u64,
}

/// Segment script, tokens separated by ','
///   S<sec>            silence (plus dc, plus noise if snr given)
///   Z<sec>            exact digital zero (no dc, no noise)
///   B<hex>            FSK burst of these bytes, LSb first
///   N<sec>:<amp>      gaussian noise of the given rms amplitude
///   T<sec>:<hz>:<amp> tone
///   Q<sec>:<amp>:<hz> square wave
///   D<value>          change the dc offset from here on
///   A<value>          change the signal amplitude from here on
///   F<sec>:<amp>      FSK carrier of random valid SAME characters
///   R<sec>:<start>:<step>:<len>  staircase: sample i is (start + step * (i / len)) as f32 (no dc, no noise)
pub fn synthesize(p: &Params, script: &str) -> Vec<f32> {
    let fs = p.rate as f64;
    let mut rng = Rng(p.seed);
    let mut out: Vec<f32> = Vec::new();
    let mut dc = p.dc;
    let mut amp = p.amp;
    let mut phase = p.phase;
    let noise_rms = |amp: f64| -> f64 {
        match p.snr_db {
            // sine power = amp^2 / 2
            Some(snr) => (amp * amp / 2.0 / 10f64.powf(snr / 10.0)).sqrt(),
            None => 0.0,
        }
    };
    for tok in script.split(',').filter(|t| !t.is_empty()) {
        let (kind, rest) = tok.split_at(1);
        let args: Vec<&str> = rest.split(':').collect();
        match kind {
            "S" => {
                let n = (args[0].parse::<f64>().unwrap() * fs).round() as usize;
                let nr = noise_rms(p.amp);
                for _ in 0..n {
                    out.push((dc + nr * rng.gauss()) as f32);
                }
            }
            "Z" => {
                let n = (args[0].parse::<f64>().unwrap() * fs).round() as usize;
                out.extend(std::iter::repeat(0.0f32).take(n));
            }
            "B" | "F" => {
                let bytes: Vec<u8> = if kind == "B" {
                    crate::hexio::bytes_of_hex(args[0])
                } else {
                    const VALID: &[u8] = b"ABCDEFGHIJKLMNOPQRSTUVWXYZ0123456789-+/ ";
                    let nbytes = (args[0].parse::<f64>().unwrap() * BAUD_HZ / 8.0) as usize;
                    (0..nbytes).map(|_| VALID[(rng.next() % VALID.len() as u64) as usize]).collect()
                };
                let a = if kind == "F" { args[1].parse::<f64>().unwrap() } else { amp };
                let nbits = bytes.len() * 8;
                let tsym = 1.0 / (BAUD_HZ * (1.0 + p.baud_err));
                let total = nbits as f64 * tsym;
                let nr = noise_rms(a);
                // sample n of the burst is at time (n + frac) / fs
                let mut n = 0usize;
                loop {
                    let t = (n as f64 + p.frac) / fs;
                    if t >= total {
                        break;
                    }
                    let k = (t / tsym) as usize;
                    let bit = (bytes[k / 8] >> (k % 8)) & 1;
                    let f = if bit == 1 { MARK_HZ } else { SPACE_HZ };
                    phase += 2.0 * std::f64::consts::PI * f * (1.0 + p.baud_err) / fs;
                    if phase > 2.0 * std::f64::consts::PI {
                        phase -= 2.0 * std::f64::consts::PI;
                    }
                    out.push((a * phase.cos() + dc + nr * rng.gauss()) as f32);
                    n += 1;
                }
            }
            "N" => {
                let n = (args[0].parse::<f64>().unwrap() * fs).round() as usize;
                let a: f64 = args[1].parse().unwrap();
                for _ in 0..n {
                    out.push((dc + a * rng.gauss()) as f32);
                }
            }
            "T" => {
                let n = (args[0].parse::<f64>().unwrap() * fs).round() as usize;
                let hz: f64 = args[1].parse().unwrap();
                let a: f64 = args[2].parse().unwrap();
                for i in 0..n {
                    out.push((dc + a * (2.0 * std::f64::consts::PI * hz * i as f64 / fs).cos()) as f32);
                }
            }
            "Q" => {
                let n = (args[0].parse::<f64>().unwrap() * fs).round() as usize;
                let a: f64 = args[1].parse().unwrap();
                let hz: f64 = args[2].parse().unwrap();
                for i in 0..n {
                    let ph = (hz * i as f64 / fs).fract();
                    out.push((dc + if ph < 0.5 { a } else { -a }) as f32);
                }
            }
            "R" => {
                let n = (args[0].parse::<f64>().unwrap() * fs).round() as usize;
                let start: f64 = args[1].parse().unwrap();
                let step: f64 = args[2].parse().unwrap();
                let len: usize = args[3].parse().unwrap();
                for i in 0..n {
                    out.push((start + step * (i / len) as f64) as f32);
                }
            }
            "D" => dc = args[0].parse().unwrap(),
            "A" => amp = args[0].parse().unwrap(),
            _ => panic!("bad segment {}", tok),
        }
    }
    out
}
