//! dump: prints constants and tables of the built crate, one per line,
//! for the generator of coq/Gen/Generated.v
use sameold::verif;
use sameold::{Originator, SameReceiverBuilder, SignificanceLevel};
use verif_harness::hexio::hex_of_bytes;

fn hs(s: &str) -> String {
    hex_of_bytes(s.as_bytes())
}

fn main() {
    for (k, v) in verif::constants() {
        println!("const {} {}", k, v);
    }
    let b = SameReceiverBuilder::default();
    println!("const DEFAULT_PREAMBLE_MAX_ERRORS {}", b.preamble_max_errors());
    println!("const DEFAULT_FRAME_PREFIX_MAX_ERRORS {}", b.frame_prefix_max_errors());
    println!("const DEFAULT_FRAME_MAX_INVALID {}", b.frame_max_invalid());
    println!("const DEFAULT_INPUT_RATE {}", b.input_rate());

    for p in verif::phenomena() {
        let flags = [p.is_national() as u8, p.is_test() as u8, p.is_weather() as u8];
        println!(
            "row PHENOMENA {} {} {} {}",
            hs(&format!("{:?}", p)),
            hs(p.as_brief_str()),
            hs(verif::phenomenon_pattern(p)),
            hex_of_bytes(&flags)
        );
    }
    for (k, p, s) in verif::codebook3() {
        println!("row CODEBOOK3 {} {} {}", hs(k), hs(&format!("{:?}", p)), hs(&format!("{:?}", s)));
    }
    for (k, p) in verif::codebook2() {
        println!("row CODEBOOK2 {} {}", hs(k), hs(&format!("{:?}", p)));
    }
    for s in verif::significance_levels() {
        println!(
            "row SIGNIFICANCE {} {} {} {}",
            hs(&format!("{:?}", s)),
            hs(s.as_code_str()),
            hs(s.as_display_str()),
            hex_of_bytes(&[s as u8])
        );
    }
    let origs = [
        Originator::Unknown,
        Originator::PrimaryEntryPoint,
        Originator::CivilAuthority,
        Originator::NationalWeatherService,
        Originator::EnvironmentCanada,
        Originator::BroadcastStation,
    ];
    let mut cands: Vec<String> = vec!["".to_owned()];
    for o in origs.iter() {
        println!(
            "row ORIGINATORS {} {} {}",
            hs(&format!("{:?}", o)),
            hs(o.as_code_str()),
            hs(o.as_display_str())
        );
        cands.push(format!("{:?}", o));
        cands.push(o.as_code_str().to_owned());
    }
    cands.sort();
    cands.dedup();
    // which strings the derived FromStr accepts (probed over codes and variant names)
    for c in cands {
        if let Ok(o) = c.parse::<Originator>() {
            println!("row ORIGINATOR_PARSE {} {}", hs(&c), hs(&format!("{:?}", o)));
        }
    }
    let _ = SignificanceLevel::Unknown;
}
