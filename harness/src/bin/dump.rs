//! dump: prints constants and tables of the built crate, one per line,
//! for the generator of coq/Gen/Generated.v
use sameold::verif;

fn main() {
    for (k, v) in verif::constants() {
        println!("const {} {}", k, v);
    }
}
