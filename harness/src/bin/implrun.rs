//! implrun: answers the same line protocol as `modelrun`, from the real code.
use std::convert::TryFrom;
use std::io::{BufRead, Write};
use std::panic::{catch_unwind, AssertUnwindSafe};

use sameold::verif;
use sameold::{Message, MessageHeader};
use verif_harness::canon::*;
use verif_harness::hexio::*;

fn handle(line: &str) -> String {
    let toks: Vec<&str> = line.split(' ').filter(|s| !s.is_empty()).collect();
    match toks.as_slice() {
        ["vote2", a, b] => {
            let (v, e) = verif::bit_vote_detect(a.parse().unwrap(), b.parse().unwrap());
            format!("{} {}", v, e)
        }
        ["vote3", a, b, c] => {
            let (v, e) =
                verif::bit_vote_correct(a.parse().unwrap(), b.parse().unwrap(), c.parse().unwrap());
            format!("{} {}", v, e)
        }
        ["vote2all"] => {
            let mut h = FNV_INIT;
            for a in 0..=255u8 {
                for b in 0..=255u8 {
                    let (v, e) = verif::bit_vote_detect(a, b);
                    h = fnv_step(fnv_step(h, v as u32), e);
                }
            }
            format!("{:016x}", h)
        }
        ["vote3block", a] => {
            let a: u8 = a.parse().unwrap();
            let mut h = FNV_INIT;
            for b in 0..=255u8 {
                for c in 0..=255u8 {
                    let (v, e) = verif::bit_vote_correct(a, b, c);
                    h = fnv_step(fnv_step(h, v as u32), e);
                }
            }
            format!("{:016x}", h)
        }
        ["allowed", a] => {
            if verif::is_allowed_byte(a.parse().unwrap()) {
                "1".into()
            } else {
                "0".into()
            }
        }
        ["estimate", bursts @ ..] => {
            let bs: Vec<Vec<u8>> = bursts.iter().map(|b| bytes_of_hex(b)).collect();
            let refs: Vec<&[u8]> = bs.iter().map(|b| b.as_slice()).collect();
            let (m, c, e) = verif::estimate_message(&refs);
            format!("{} {} {}", hex_of_bytes(&m), hex_of_bytes(&c), hex_of_bytes(&e))
        }
        ["combine", bursts @ ..] => {
            let bs: Vec<Vec<u8>> = bursts.iter().map(|b| bytes_of_hex(b)).collect();
            let refs: Vec<&[u8]> = bs.iter().map(|b| b.as_slice()).collect();
            match verif::combine(&refs) {
                None => "none".into(),
                Some(r) => msg_result_str(&r),
            }
        }
        ["hdr", s] => {
            let b = bytes_of_hex(s);
            match String::from_utf8(b) {
                Err(_) => "NOT-UTF8".into(),
                Ok(st) => match MessageHeader::new(st) {
                    Err(e) => format!("err {}", err_str(&e)),
                    Ok(h) => format!("ok {}", header_fields(&h)),
                },
            }
        }
        ["msgstr", s] => {
            let b = bytes_of_hex(s);
            match String::from_utf8(b) {
                Err(_) => "NOT-UTF8".into(),
                Ok(st) => msg_result_str(&Message::try_from(st)),
            }
        }
        ["msgbytes", s, e, c] => {
            let (s, e, c) = (bytes_of_hex(s), bytes_of_hex(e), bytes_of_hex(c));
            msg_result_str(&Message::try_from((s.as_slice(), e.as_slice(), c.as_slice())))
        }
        ["utf8", s] => {
            if std::str::from_utf8(&bytes_of_hex(s)).is_ok() {
                "1".into()
            } else {
                "0".into()
            }
        }
        _ => verif_harness_ext(&toks),
    }
}

fn verif_harness_ext(_toks: &[&str]) -> String {
    "HARNESS-ERROR unknown command".into()
}

fn main() {
    std::panic::set_hook(Box::new(|_| {}));
    let stdin = std::io::stdin();
    let stdout = std::io::stdout();
    let mut out = std::io::BufWriter::new(stdout.lock());
    for line in stdin.lock().lines() {
        let line = line.unwrap();
        let r = match catch_unwind(AssertUnwindSafe(|| handle(&line))) {
            Ok(s) => s,
            Err(_) => "PANIC".to_owned(),
        };
        writeln!(out, "{}", r).unwrap();
    }
}
