//! implrun: answers the same line protocol as `modelrun`, from the real code.
use std::convert::TryFrom;
use std::io::{BufRead, Write};
use std::panic::{catch_unwind, AssertUnwindSafe};

use sameold::verif;
use sameold::{Message, MessageHeader};
use verif_harness::canon::*;
use verif_harness::hexio::*;

/// the 32 bits of a float, every NaN mapped to the one canonical quiet NaN (the model has a single NaN)
fn fbits(v: f32) -> u32 {
    if v.is_nan() {
        0x7fc0_0000
    } else {
        v.to_bits()
    }
}

fn handle(line: &str) -> String {
    let toks: Vec<&str> = line.split(' ').filter(|s| !s.is_empty()).collect();
    match toks.as_slice() {
        // DCBlocker::new(len), then filter() on each sample (decimal IEEE-754 bit patterns, ','-separated): the bits of every output
        ["dcbrun", len, xs] => {
            let mut d = verif::DCBlocker::new(len.parse().unwrap());
            let outs: Vec<String> = xs
                .split(',')
                .filter(|t| !t.is_empty())
                .map(|t| fbits(d.filter(f32::from_bits(t.parse::<u32>().unwrap()))).to_string())
                .collect();
            outs.join(",")
        }
        // Agc::new(bw, min, max), then operations i<bits> (input), L0 / L1 (lock), R (reset): the bits of every output, then the gain
        ["agcrun", bw, lo, hi, ops] => {
            let fb = |t: &str| f32::from_bits(t.parse::<u32>().unwrap());
            let mut a = verif::Agc::new(fb(bw), fb(lo), fb(hi));
            let mut outs: Vec<String> = Vec::new();
            for t in ops.split(',').filter(|t| !t.is_empty()) {
                match t.as_bytes()[0] {
                    b'i' => outs.push(fbits(a.input(fb(&t[1..]))).to_string()),
                    b'L' => a.lock(&t[1..] == "1"),
                    b'R' => a.reset(),
                    _ => panic!("bad agc op"),
                }
            }
            outs.push(fbits(a.gain()).to_string());
            outs.join(",")
        }
        // TimingLoop::new(samples_per_symbol, bandwidth, max_deviation), then input(sample, offset) for each "s:o" pair (bit patterns):
        // "cfg spt,pmin,pmax,alpha,beta" (bits, read from the Debug rendering), then for every call the bits of the returned period
        // and of the estimate's error (0 when there is none), then the bits of period_avg
        ["tlrun", sps, bw, dev, ins] => {
            let fb = |t: &str| f32::from_bits(t.parse::<u32>().unwrap());
            let mut tl = verif::TimingLoop::new(fb(sps), fb(bw), fb(dev));
            let field = |d: &str, k: &str| -> u32 {
                let i = d.find(&format!("{}: ", k)).unwrap() + k.len() + 2;
                let rest = &d[i..];
                let j = rest.find(|c: char| c == ',' || c == ' ' || c == '}').unwrap();
                fbits(rest[..j].parse::<f32>().unwrap())
            };
            let d = format!("{:?}", tl);
            let mut outs: Vec<String> = vec![format!(
                "{},{},{},{},{}",
                field(&d, "samples_per_ted"),
                field(&d, "period_min"),
                field(&d, "period_max"),
                field(&d, "loop_alpha"),
                field(&d, "loop_beta")
            )];
            for t in ins.split(',').filter(|t| !t.is_empty()) {
                let (a, b) = t.split_once(':').unwrap();
                let (p, sym) = tl.input(fb(a), fb(b));
                outs.push(fbits(p).to_string());
                outs.push(sym.map(|e| fbits(e.err)).unwrap_or(0).to_string());
            }
            let d = format!("{:?}", tl);
            outs.push(field(&d, "period_avg").to_string());
            outs.join(",")
        }
        ["vote2", a, b] => {
            let (v, e) = verif::bit_vote_detect(a.parse().unwrap(), b.parse().unwrap());
            format!("{} {}", v, e)
        }
        ["vote3", a, b, c] => {
            let (v, e) =
                verif::bit_vote_correct(a.parse().unwrap(), b.parse().unwrap(), c.parse().unwrap());
            format!("{} {}", v, e)
        }
        ["vote2all"] => {
            let mut h = FNV_INIT;
            for a in 0..=255u8 {
                for b in 0..=255u8 {
                    let (v, e) = verif::bit_vote_detect(a, b);
                    h = fnv_step(fnv_step(h, v as u32), e);
                }
            }
            format!("{:016x}", h)
        }
        ["vote3block", a] => {
            let a: u8 = a.parse().unwrap();
            let mut h = FNV_INIT;
            for b in 0..=255u8 {
                for c in 0..=255u8 {
                    let (v, e) = verif::bit_vote_correct(a, b, c);
                    h = fnv_step(fnv_step(h, v as u32), e);
                }
            }
            format!("{:016x}", h)
        }
        ["allowed", a] => {
            if verif::is_allowed_byte(a.parse().unwrap()) {
                "1".into()
            } else {
                "0".into()
            }
        }
        ["estimate", bursts @ ..] => {
            let bs: Vec<Vec<u8>> = bursts.iter().map(|b| bytes_of_hex(b)).collect();
            let refs: Vec<&[u8]> = bs.iter().map(|b| b.as_slice()).collect();
            let (m, c, e) = verif::estimate_message(&refs);
            format!("{} {} {}", hex_of_bytes(&m), hex_of_bytes(&c), hex_of_bytes(&e))
        }
        ["combine", bursts @ ..] => {
            let bs: Vec<Vec<u8>> = bursts.iter().map(|b| bytes_of_hex(b)).collect();
            let refs: Vec<&[u8]> = bs.iter().map(|b| b.as_slice()).collect();
            match verif::combine(&refs) {
                None => "none".into(),
                Some(r) => msg_result_str(&r),
            }
        }
        ["hdr", s] => {
            let b = bytes_of_hex(s);
            match String::from_utf8(b) {
                Err(_) => "NOT-UTF8".into(),
                Ok(st) => match MessageHeader::new(st) {
                    Err(e) => format!("err {}", err_str(&e)),
                    Ok(h) => format!("ok {}", header_fields(&h)),
                },
            }
        }
        ["msgstr", s] => {
            let b = bytes_of_hex(s);
            match String::from_utf8(b) {
                Err(_) => "NOT-UTF8".into(),
                Ok(st) => msg_result_str(&Message::try_from(st)),
            }
        }
        ["msgbytes", s, e, c] => {
            let (s, e, c) = (bytes_of_hex(s), bytes_of_hex(e), bytes_of_hex(c));
            msg_result_str(&Message::try_from((s.as_slice(), e.as_slice(), c.as_slice())))
        }
        ["issue", j, h, m, ry, ro] => {
            let v = issue_val(j.parse().unwrap(), h.parse().unwrap(), m.parse().unwrap(),
                              ry.parse().unwrap(), ro.parse().unwrap());
            if v == -1 { "err".into() } else { format!("{}", v) }
        }
        ["issueblock", yi, h, m] => {
            let yi: i32 = yi.parse().unwrap();
            let (h, m): (u32, u32) = (h.parse().unwrap(), m.parse().unwrap());
            let mut hh = FNV_INIT;
            let ylen = if chrono::NaiveDate::from_yo_opt(yi, 366).is_some() { 366 } else { 365 };
            for oi in 1..=ylen {
                let d0 = chrono::NaiveDate::from_yo_opt(yi, oi).unwrap();
                for off in -90i64..=90 {
                    let d = d0 + chrono::Duration::days(off);
                    use chrono::Datelike;
                    let v = issue_val(oi, h, m, d.year(), d.ordinal());
                    for k in 0..8 {
                        hh = fnv_step(hh, ((v >> (8 * k)) & 0xff) as u32);
                    }
                }
            }
            format!("{:016x}", hh)
        }
        ["expired", j, h, m, dh, dm, ry, ro, sod, ns] => {
            use chrono::TimeZone;
            let hdr = issue_header(j.parse().unwrap(), h.parse().unwrap(), m.parse().unwrap(),
                                   dh.parse().unwrap(), dm.parse().unwrap());
            let d = chrono::NaiveDate::from_yo_opt(ry.parse().unwrap(), ro.parse().unwrap()).unwrap();
            let sod: u32 = sod.parse().unwrap();
            let now = chrono::Utc.from_utc_datetime(
                &d.and_hms_nano_opt(sod / 3600, (sod / 60) % 60, sod % 60, ns.parse().unwrap()).unwrap());
            if hdr.is_expired_at(&now) { "1".into() } else { "0".into() }
        }
        ["event", s] => {
            let st = String::from_utf8(bytes_of_hex(s)).expect("utf8");
            event_line(&st)
        }
        ["eventblock", a] => {
            let a: u8 = a.parse().unwrap();
            let mut h = FNV_INIT;
            for b in 0..128u8 {
                for c in 0..128u8 {
                    let st = String::from_utf8(vec![a, b, c]).unwrap();
                    let e = sameold::EventCode::from(&st);
                    for x in format!("{:?}", e.phenomenon()).bytes() {
                        h = fnv_step(h, x as u32);
                    }
                    h = fnv_step(h, e.significance() as u8 as u32);
                }
            }
            format!("{:016x}", h)
        }
        ["orig", o, c] => {
            let o = String::from_utf8(bytes_of_hex(o)).expect("utf8");
            let c = String::from_utf8(bytes_of_hex(c)).expect("utf8");
            hex_of_bytes(format!("{:?}", sameold::Originator::from_org_and_call(&o, &c)).as_bytes())
        }
        ["utf8", s] => {
            if std::str::from_utf8(&bytes_of_hex(s)).is_ok() {
                "1".into()
            } else {
                "0".into()
            }
        }
        _ => verif_harness_ext(&toks),
    }
}

fn event_line(st: &str) -> String {
    let e = sameold::EventCode::from(st);
    let b = |x: bool| if x { "1" } else { "0" };
    format!(
        "{} {} {} {} {} {} {}",
        hex_of_bytes(format!("{:?}", e.phenomenon()).as_bytes()),
        e.significance() as u8,
        hex_of_bytes(e.to_string().as_bytes()),
        b(e.is_test()),
        b(e.phenomenon().is_national()),
        b(e.phenomenon().is_weather()),
        b(e.is_unrecognized())
    )
}

fn issue_header(j: u32, h: u32, m: u32, dh: u32, dm: u32) -> MessageHeader {
    MessageHeader::new(format!(
        "ZCZC-WXR-RWT-012345+{:02}{:02}-{:03}{:02}{:02}-NOCALL  -",
        dh, dm, j, h, m
    ))
    .expect("header")
}

/// issue_datetime through the public API; -1 = Err
fn issue_val(j: u32, h: u32, m: u32, ry: i32, ro: u32) -> i64 {
    use chrono::TimeZone;
    let hdr = issue_header(j, h, m, 0, 0);
    let d = chrono::NaiveDate::from_yo_opt(ry, ro).expect("receive date");
    let rx = chrono::Utc.from_utc_datetime(&d.and_hms_opt(12, 0, 0).unwrap());
    match hdr.issue_datetime(&rx) {
        Ok(t) => t.timestamp(),
        Err(_) => -1,
    }
}

fn link_str(l: &sameold::LinkState) -> String {
    match l {
        sameold::LinkState::NoCarrier => "n".into(),
        sameold::LinkState::Searching => "s".into(),
        sameold::LinkState::Reading => "r".into(),
        sameold::LinkState::Burst(b) => format!("B{}", hex_of_bytes(b)),
        _ => "?".into(),
    }
}

fn transport_str(t: &sameold::TransportState) -> String {
    match t {
        sameold::TransportState::Idle => "i".into(),
        sameold::TransportState::Assembling => "a".into(),
        sameold::TransportState::Message(Ok(m)) => format!("M{}", verif_harness::rxrun::msg_short(m)),
        sameold::TransportState::Message(Err(e)) => format!("E{}", err_str(e)),
        _ => "?".into(),
    }
}

fn kv<'a>(toks: &'a [&'a str], key: &str) -> Option<&'a str> {
    toks.iter().find_map(|t| t.strip_prefix(key).and_then(|r| r.strip_prefix('=')))
}

fn verif_harness_ext(toks: &[&str]) -> String {
    use verif_harness::rxrun::{self, RxCfg, Schedule};
    use verif_harness::synth::{self, Params};
    match toks {
        // framer <prefix budget> <invalid budget> <script>
        ["framer", pfx, inv, script] => {
            let mut f = verif::Framer::new(pfx.parse().unwrap(), inv.parse().unwrap());
            let mut out = Vec::new();
            for (i, t) in script.split(',').filter(|t| !t.is_empty()).enumerate() {
                let (k, rest) = t.split_at(1);
                let l = match k {
                    "b" => f.input(u8::from_str_radix(rest, 16).unwrap(), i as u64, false),
                    "r" => f.input(u8::from_str_radix(rest, 16).unwrap(), i as u64, true),
                    "e" => f.end(),
                    _ => panic!("bad framer token"),
                };
                out.push(link_str(&l));
            }
            if out.is_empty() { "-".into() } else { out.join(",") }
        }
        ["prefixerr", w] => format!("{}", verif::message_prefix_errors(w.parse().unwrap())),
        // squelch <max errors> <script>: one char per symbol 0..7 = bit | po<<1 | pc<<2; L/U lock; E end
        ["squelch", maxerr, script] => {
            let mut sq = verif::CodeAndPowerSquelch::new(0xabababab, maxerr.parse().unwrap(), 0.5, 0.25, 1.0);
            let mut out = String::new();
            for c in script.chars() {
                match c {
                    'L' => sq.lock(true),
                    'U' => sq.lock(false),
                    'E' => sq.end(),
                    '0'..='7' => {
                        let v = c as u8 - b'0';
                        let mag = if v & 2 != 0 { 1.0f32 } else if v & 4 != 0 { 0.6f32 } else { 0.1f32 };
                        let sym = if v & 1 != 0 { mag } else { -mag };
                        match sq.input(&[0.0f32, sym]) {
                            verif::SquelchState::NoCarrier => out.push('n'),
                            verif::SquelchState::DroppedCarrier => out.push('d'),
                            verif::SquelchState::Reading => out.push('r'),
                            verif::SquelchState::Ready(re, o) => {
                                let mut byte = 0u8;
                                for i in 0..8 {
                                    byte |= ((o.samples[2 * i + 1] >= 0.0) as u8) << i;
                                }
                                out.push_str(&format!("{}{:02x}", if re { 'Y' } else { 'y' }, byte));
                            }
                        }
                    }
                    _ => panic!("bad squelch token"),
                }
            }
            if out.is_empty() { "-".into() } else { out }
        }
        // asm <script>: a<time>:<hex> assemble, i<time> idle
        ["asm", script] => {
            let mut a = verif::Assembler::new();
            let mut out = Vec::new();
            for t in script.split(',').filter(|t| !t.is_empty()) {
                let (k, rest) = t.split_at(1);
                let st = match k {
                    "a" => {
                        let (tm, hx) = rest.split_once(':').unwrap();
                        a.assemble(bytes_of_hex(hx), tm.parse().unwrap())
                    }
                    "i" => a.idle(rest.parse().unwrap()),
                    _ => panic!("bad asm token"),
                };
                out.push(transport_str(&st));
            }
            if out.is_empty() { "-".into() } else { out.join(";") }
        }
        // rxaudio key=value ... : synthesize, run, report "<rx request for the model>|<events>|<extras>"
        ["rxaudio", rest @ ..] => {
            let g = |k: &str, d: &str| kv(rest, k).unwrap_or(d).to_owned();
            let cfg = RxCfg {
                rate: g("rate", "22050").parse().unwrap(),
                prefix_err: g("pfx", "2").parse().unwrap(),
                max_invalid: g("inv", "5").parse().unwrap(),
                preamble_err: g("pre", "2").parse().unwrap(),
                squelch: kv(rest, "sqopen").map(|o| (o.parse().unwrap(), g("sqclose", "0").parse().unwrap())),
                agc: kv(rest, "gmin").map(|o| (o.parse().unwrap(), g("gmax", "1000000").parse().unwrap())),
                more: verif_harness::rxrun::more_options(&|k| kv(rest, k).map(|v| v.to_string())),
            };
            let p = Params {
                rate: cfg.rate,
                amp: g("amp", "10000").parse().unwrap(),
                dc: g("dc", "0").parse().unwrap(),
                phase: g("phase", "0").parse().unwrap(),
                frac: g("frac", "0").parse().unwrap(),
                baud_err: g("baud", "0").parse().unwrap(),
                snr_db: kv(rest, "snr").map(|s| s.parse().unwrap()),
                seed: g("seed", "1").parse().unwrap(),
            };
            let audio = synth::synthesize(&p, &g("script", ""));
            let sched_s = g("sched", "whole");
            let sched = match sched_s.split(':').collect::<Vec<_>>().as_slice() {
                ["whole"] => Schedule::Whole,
                ["chunks", s, m] => Schedule::Chunks(s.parse().unwrap(), m.parse().unwrap()),
                ["one"] => Schedule::OneAtATime,
                ["mixed", s] => Schedule::Mixed(s.parse().unwrap()),
                _ => panic!("bad sched"),
            };
            let mut rx = rxrun::build(&cfg);
            // optional: process a prefix, then reset(), then the rest (C18)
            let reset_at: Option<usize> = kv(rest, "reset_at").map(|s| s.parse().unwrap());
            let (audio_run, start): (&[f32], u64) = match reset_at {
                Some(k) => {
                    let k = usize::min(k, audio.len());
                    for _e in rx.iter_events(audio[..k].iter().copied()) {}
                    rx.reset();
                    (&audio[k..], 0)
                }
                None => match kv(rest, "skip").map(|s| s.parse::<usize>().unwrap()) {
                    // a fresh receiver on the same suffix (C18: compared with reset_at=<k>)
                    Some(k) => (&audio[usize::min(k, audio.len())..], 0),
                    None => (&audio[..], 0),
                },
            };
            let out = rxrun::run(&mut rx, audio_run, &sched);
            let consumed = rx.input_sample_counter();
            let flush_n: usize = g("flush", "0").parse().unwrap();
            // flush() calls: each call's tick trace is recorded so that the model can replay the call
            let mut flushed: Vec<String> = Vec::new();
            let mut flush_items: Vec<String> = Vec::new();
            for _ in 0..flush_n {
                sameold::verif::trace_enable(true);
                let _ = sameold::verif::take_trace();
                let before = rx.input_sample_counter();
                let m = rx.flush();
                let tr = sameold::verif::take_trace();
                sameold::verif::trace_enable(false);
                flush_items.push(rxrun::trace_items(&tr, rx.input_sample_counter(), before));
                match m {
                    Some(m) => flushed.push(rxrun::msg_short(&m)),
                    None => { flushed.push("none".to_owned()); break; }
                }
            }
            let items = rxrun::trace_items(&out.trace, audio_run.len() as u64, start);
            let evs = if out.events.is_empty() { "-".to_owned() } else { out.events.join(";") };
            let dbg = format!("{:?}", rx);
            let finite = !(dbg.contains("NaN") || dbg.contains("inf"));
            format!(
                "rx {} {} {} {} {}|{}|samples={} counter={} checks={} flushed={} finite={}|{}",
                cfg.rate, cfg.prefix_err, cfg.max_invalid, cfg.preamble_err, items, evs,
                audio_run.len(), consumed,
                if out.consumed_checks.is_empty() { "-".to_owned() } else {
                    out.consumed_checks.iter().map(|(a, b)| format!("{}:{}", a, b)).collect::<Vec<_>>().join(",") },
                if flushed.is_empty() { "-".to_owned() } else { flushed.join("/") },
                finite as u8,
                if flush_items.is_empty() { "-".to_owned() } else { flush_items.join(" ") }
            )
        }
        // synthfile <rxaudio params> out=<path> [odd=1]: write the synthesized audio as raw native-endian i16 (what samedec
        // reads) and decode the SAME quantized samples with the library configured as samedec configures it: one pass of
        // iter_messages, then flush() until None.  Reports each message's text and the sample counter when it was returned.
        ["synthfile", rest @ ..] => {
            use std::io::Write as _;
            let g = |k: &str, d: &str| kv(rest, k).unwrap_or(d).to_owned();
            let rate: u32 = g("rate", "22050").parse().unwrap();
            let p = Params {
                rate,
                amp: g("amp", "10000").parse().unwrap(),
                dc: g("dc", "0").parse().unwrap(),
                phase: g("phase", "0").parse().unwrap(),
                frac: g("frac", "0").parse().unwrap(),
                baud_err: g("baud", "0").parse().unwrap(),
                snr_db: kv(rest, "snr").map(|s| s.parse().unwrap()),
                seed: g("seed", "1").parse().unwrap(),
            };
            let audio = synth::synthesize(&p, &g("script", ""));
            let q: Vec<i16> = audio.iter().map(|x| x.round().clamp(-32768.0, 32767.0) as i16).collect();
            let mut bytes: Vec<u8> = Vec::with_capacity(q.len() * 2 + 1);
            for s in &q { bytes.extend_from_slice(&s.to_ne_bytes()); }
            if g("odd", "0") == "1" { bytes.push(0x55); }
            let mut f = std::fs::File::create(g("out", "/dev/null")).unwrap();
            f.write_all(&bytes).unwrap();
            drop(f);
            let mut rx = sameold::SameReceiverBuilder::new(rate)
                .with_agc_gain_limits(1.0f32 / (i16::MAX as f32), 1.0 / 200.0)
                .build();
            let mut msgs = Vec::new();
            {
                let mut src = q.iter().map(|s| *s as f32);
                loop {
                    let m = { let mut it = rx.iter_messages(src.by_ref()); it.next() };
                    match m {
                        Some(m) => msgs.push(format!("{}@{}", hex_of_bytes(format!("{}", m).as_bytes()), rx.input_sample_counter())),
                        None => break,
                    }
                }
            }
            let mut flushed = Vec::new();
            for _ in 0..8 {
                match rx.flush() {
                    Some(m) => flushed.push(hex_of_bytes(format!("{}", m).as_bytes())),
                    None => break,
                }
            }
            format!("ok n={} msgs={} flushed={}", q.len(),
                if msgs.is_empty() { "-".to_owned() } else { msgs.join(";") },
                if flushed.is_empty() { "-".to_owned() } else { flushed.join(";") })
        }
        // readi16 <hex,hex,...>: the expression samedec's main.rs builds its sample iterator from,
        //   std::iter::from_fn(|| Some(inbuf.read_i16::<NativeEndian>().ok()?))  over  io::BufReader::new(source),
        // on a source whose successive read() calls return exactly the given chunks; every sample up to the first None,
        // then two further calls (which must also yield None)
        ["readi16", chunks] => {
            use byteorder::{NativeEndian, ReadBytesExt};
            struct Chunked(std::collections::VecDeque<Vec<u8>>);
            impl std::io::Read for Chunked {
                fn read(&mut self, buf: &mut [u8]) -> std::io::Result<usize> {
                    match self.0.pop_front() {
                        None => Ok(0),
                        Some(c) => {
                            let n = usize::min(buf.len(), c.len());
                            buf[..n].copy_from_slice(&c[..n]);
                            if n < c.len() { self.0.push_front(c[n..].to_vec()); }
                            Ok(n)
                        }
                    }
                }
            }
            let cs: std::collections::VecDeque<Vec<u8>> =
                if *chunks == "-" { Default::default() } else { chunks.split(',').map(bytes_of_hex).collect() };
            let mut inbuf: Box<dyn std::io::BufRead> = Box::new(std::io::BufReader::new(Chunked(cs)));
            let mut it = std::iter::from_fn(|| Some(inbuf.read_i16::<NativeEndian>().ok()?));
            let mut out: Vec<String> = Vec::new();
            while let Some(s) = it.next() { out.push(format!("{}", s)); }
            let again = it.next().is_some() || it.next().is_some();
            if again { "NOT-FUSED".to_owned() } else if out.is_empty() { "-".to_owned() } else { out.join(",") }
        }
        // cfgcalls <rate> <call;call;...>: apply builder calls in the given order, print the builder's getters as
        // order-preserving integer keys of the f32 values, build, and print the constructed window lengths
        ["cfgcalls", rate, calls] => {
            fn key(x: f32) -> i64 {
                let b = x.to_bits();
                if b & 0x8000_0000 != 0 { -((b & 0x7fff_ffff) as i64) } else { b as i64 }
            }
            fn fb(v: &str) -> f32 { f32::from_bits(u32::from_str_radix(v.trim_start_matches("0x"), 16).unwrap()) }
            fn window_len(dbg: &str, marker: &str) -> usize {
                match dbg.find(marker) {
                    Some(i) => {
                        let rest = &dbg[i + marker.len()..];
                        let end = rest.find(']').unwrap();
                        let body = rest[..end].trim();
                        if body.is_empty() { 0 } else { body.split(',').count() }
                    }
                    None => usize::MAX,
                }
            }
            let rate: u32 = rate.parse().unwrap();
            let mut b = sameold::SameReceiverBuilder::new(rate);
            for c in calls.split(';').filter(|c| !c.is_empty() && *c != "-") {
                let a: Vec<&str> = c.split(':').collect();
                match a[0] {
                    "dc" => { b.with_dc_blocker_length(fb(a[1])); }
                    "agc" => { b.with_agc_bandwidth(fb(a[1])); }
                    "gain" => { b.with_agc_gain_limits(fb(a[1]), fb(a[2])); }
                    "tbw" => { b.with_timing_bandwidth(fb(a[1]), fb(a[2])); }
                    "dev" => { b.with_timing_max_deviation(fb(a[1])); }
                    "sqp" => { b.with_squelch_power(fb(a[1]), fb(a[2])); }
                    "sqbw" => { b.with_squelch_bandwidth(fb(a[1])); }
                    "pre" => { b.with_preamble_max_errors(a[1].parse().unwrap()); }
                    "pfx" => { b.with_frame_prefix_max_errors(a[1].parse().unwrap()); }
                    "inv" => { b.with_frame_max_invalid(a[1].parse().unwrap()); }
                    "noeq" => { b.without_adaptive_equalizer(); }
                    "eq" => {
                        let mut e = sameold::EqualizerBuilder::new();
                        if a[1] != "-" { e.with_filter_order(a[1].parse().unwrap(), a[2].parse().unwrap()); }
                        if a[3] != "-" { e.with_relaxation(fb(a[3])); }
                        if a[4] != "-" { e.with_regularization(fb(a[4])); }
                        b.with_adaptive_equalizer(&e);
                    }
                    _ => panic!("bad call"),
                }
            }
            let eqs = match b.adaptive_equalizer() {
                Some(e) => format!("{}:{}:{}:{}", e.filter_order().0, e.filter_order().1, key(e.relaxation()), key(e.regularization())),
                None => "none".to_owned(),
            };
            let getters = format!("{} {} {} {} {} {} {} {} {} {} {} {} {} {}",
                key(b.dc_blocker_length()), key(b.agc_bandwidth()), key(b.agc_gain_limits()[0]), key(b.agc_gain_limits()[1]),
                key(b.timing_bandwidth().0), key(b.timing_bandwidth().1), key(b.timing_max_deviation()),
                key(b.squelch_power().0), key(b.squelch_power().1), key(b.squelch_bandwidth()),
                b.preamble_max_errors(), eqs, b.frame_prefix_max_errors(), b.frame_max_invalid());
            let rx = b.build();
            let dbg = format!("{:?}", rx);
            format!("ok {} lens={},{},{},{}", getters,
                window_len(&dbg, "ff: MovingAverage { window: Window(["),
                window_len(&dbg, "window_input: Window(["),
                window_len(&dbg, "feedforward_wind: Window(["),
                window_len(&dbg, "feedback_wind: Window(["))
        }
        // cfgbuild key=value ...: build a receiver from builder parameters and run it briefly
        ["cfgbuild", rest @ ..] => {
            let f = |k: &str| -> Option<f32> {
                kv(rest, k).map(|v| {
                    if let Some(h) = v.strip_prefix("0x") {
                        f32::from_bits(u32::from_str_radix(h, 16).unwrap())
                    } else {
                        v.parse().unwrap()
                    }
                })
            };
            let u = |k: &str| -> Option<u32> { kv(rest, k).map(|v| v.parse().unwrap()) };
            let rate = u("rate").unwrap_or(22050);
            let mut b = sameold::SameReceiverBuilder::new(rate);
            if let Some(v) = f("dc") { b.with_dc_blocker_length(v); }
            if let Some(v) = f("agcbw") { b.with_agc_bandwidth(v); }
            if let (Some(lo), Some(hi)) = (f("gmin"), f("gmax")) { b.with_agc_gain_limits(lo, hi); }
            if let (Some(a), Some(c)) = (f("tbu"), f("tbl")) { b.with_timing_bandwidth(a, c); }
            if let Some(v) = f("tdev") { b.with_timing_max_deviation(v); }
            if let (Some(a), Some(c)) = (f("sqo"), f("sqc")) { b.with_squelch_power(a, c); }
            if let Some(v) = f("sqbw") { b.with_squelch_bandwidth(v); }
            if let Some(v) = u("pre") { b.with_preamble_max_errors(v); }
            if let Some(v) = u("pfx") { b.with_frame_prefix_max_errors(v); }
            if let Some(v) = u("inv") { b.with_frame_max_invalid(v); }
            match kv(rest, "eq") {
                Some("none") => { b.without_adaptive_equalizer(); }
                Some(spec) => {
                    let p: Vec<&str> = spec.split(':').collect();
                    let mut e = sameold::EqualizerBuilder::new();
                    e.with_filter_order(p[0].parse().unwrap(), p[1].parse().unwrap());
                    if p.len() > 2 { e.with_relaxation(p[2].parse().unwrap()); }
                    if p.len() > 3 { e.with_regularization(p[3].parse().unwrap()); }
                    b.with_adaptive_equalizer(&e);
                }
                None => {}
            }
            let mut rx = b.build();
            let secs: f64 = kv(rest, "run").unwrap_or("0").parse().unwrap();
            let mut nev = 0usize;
            if secs > 0.0 {
                let hdr: Vec<u8> = std::iter::repeat(0xabu8).take(16)
                    .chain(b"ZCZC-WXR-RWT-012345+0015-0011122-NOCALL  -".iter().copied()).collect();
                let p = Params { rate, amp: 8000.0, dc: 100.0, phase: 0.3, frac: 0.25, baud_err: 0.0,
                                 snr_db: Some(25.0), seed: u("seed").unwrap_or(1) as u64 };
                // long=1: the burst runs on into six seconds of a carrier of valid characters (a burst as long as the framer lets it
                // become, whatever ends it in this configuration), then silence
                let script = if kv(rest, "long").is_some() {
                    format!("S0.05,B{},F6.0:8000,S0.5,N0.3:3000", hex_of_bytes(&hdr))
                } else {
                    format!("S0.05,B{},S0.05,N0.05:3000,Q0.05:20000:300", hex_of_bytes(&hdr))
                };
                let audio = synth::synthesize(&p, &script);
                let n = usize::min(audio.len(), (secs * rate as f64) as usize);
                nev = rx.iter_events(audio[..n].iter().copied()).count();
            }
            format!("ok events={}", nev)
        }
        // dbgdump <rxaudio params> reset_at=<k>: pretty Debug of the receiver before reset(), after reset(), and of a
        // fresh one; lines joined by 0x1f, the three renderings by 0x1e
        ["dbgdump", rest @ ..] => {
            let g = |k: &str, d: &str| kv(rest, k).unwrap_or(d).to_owned();
            let cfg = RxCfg {
                rate: g("rate", "22050").parse().unwrap(),
                prefix_err: g("pfx", "2").parse().unwrap(),
                max_invalid: g("inv", "5").parse().unwrap(),
                preamble_err: g("pre", "2").parse().unwrap(),
                squelch: kv(rest, "sqopen").map(|o| (o.parse().unwrap(), g("sqclose", "0").parse().unwrap())),
                agc: kv(rest, "gmin").map(|o| (o.parse().unwrap(), g("gmax", "1000000").parse().unwrap())),
                more: verif_harness::rxrun::more_options(&|k| kv(rest, k).map(|v| v.to_string())),
            };
            let p = Params {
                rate: cfg.rate,
                amp: g("amp", "10000").parse().unwrap(),
                dc: g("dc", "0").parse().unwrap(),
                phase: g("phase", "0").parse().unwrap(),
                frac: g("frac", "0").parse().unwrap(),
                baud_err: g("baud", "0").parse().unwrap(),
                snr_db: kv(rest, "snr").map(|s| s.parse().unwrap()),
                seed: g("seed", "1").parse().unwrap(),
            };
            let audio = synth::synthesize(&p, &g("script", ""));
            let k = usize::min(g("reset_at", "0").parse().unwrap(), audio.len());
            let mut rx = rxrun::build(&cfg);
            for _e in rx.iter_events(audio[..k].iter().copied()) {}
            let before = format!("{:#?}", rx);
            rx.reset();
            let after = format!("{:#?}", rx);
            let fresh = format!("{:#?}", rxrun::build(&cfg));
            format!("{}\x1e{}\x1e{}", before.replace('\n', "\x1f"), after.replace('\n', "\x1f"), fresh.replace('\n', "\x1f"))
        }
        // resetdbg <rxaudio params> reset_at=<k>: Debug of a reset receiver vs a fresh one
        ["resetdbg", rest @ ..] => {
            let g = |k: &str, d: &str| kv(rest, k).unwrap_or(d).to_owned();
            let cfg = RxCfg {
                rate: g("rate", "22050").parse().unwrap(),
                prefix_err: g("pfx", "2").parse().unwrap(),
                max_invalid: g("inv", "5").parse().unwrap(),
                preamble_err: g("pre", "2").parse().unwrap(),
                squelch: kv(rest, "sqopen").map(|o| (o.parse().unwrap(), g("sqclose", "0").parse().unwrap())),
                agc: kv(rest, "gmin").map(|o| (o.parse().unwrap(), g("gmax", "1000000").parse().unwrap())),
                more: verif_harness::rxrun::more_options(&|k| kv(rest, k).map(|v| v.to_string())),
            };
            let p = Params {
                rate: cfg.rate,
                amp: g("amp", "10000").parse().unwrap(),
                dc: g("dc", "0").parse().unwrap(),
                phase: g("phase", "0").parse().unwrap(),
                frac: g("frac", "0").parse().unwrap(),
                baud_err: g("baud", "0").parse().unwrap(),
                snr_db: kv(rest, "snr").map(|s| s.parse().unwrap()),
                seed: g("seed", "1").parse().unwrap(),
            };
            let audio = synth::synthesize(&p, &g("script", ""));
            let k = usize::min(g("reset_at", "0").parse().unwrap(), audio.len());
            let mut rx = rxrun::build(&cfg);
            for _e in rx.iter_events(audio[..k].iter().copied()) {}
            rx.reset();
            let a = format!("{:#?}", rx);
            let b = format!("{:#?}", rxrun::build(&cfg));
            if a == b {
                "same".into()
            } else {
                let mut diffs = Vec::new();
                let mut ctx: Vec<String> = Vec::new();
                for (la, lb) in a.lines().zip(b.lines()) {
                    let t = la.trim();
                    if t.ends_with('{') || t.ends_with('[') || t.ends_with('(') {
                        ctx.push(t.trim_end_matches(|c| c == '{' || c == '[' || c == '(' || c == ' ').to_owned());
                    } else if t.starts_with('}') || t.starts_with(']') || t.starts_with(')') {
                        ctx.pop();
                    }
                    if la != lb && diffs.len() < 8 {
                        diffs.push(format!("{}/{} vs {}", ctx.join("/"), la.trim(), lb.trim()).replace(' ', "_"));
                    }
                }
                format!("diff:{}", diffs.join(";"))
            }
        }
        _ => "HARNESS-ERROR unknown command".into(),
    }
}

fn main() {
    std::panic::set_hook(Box::new(|_| {}));
    let stdin = std::io::stdin();
    let stdout = std::io::stdout();
    let mut out = std::io::BufWriter::new(stdout.lock());
    for line in stdin.lock().lines() {
        let line = line.unwrap();
        let r = match catch_unwind(AssertUnwindSafe(|| handle(&line))) {
            Ok(s) => s,
            Err(_) => "PANIC".to_owned(),
        };
        writeln!(out, "{}", r).unwrap();
    }
}
