//! implrun: answers the same line protocol as `modelrun`, from the real code.
use std::convert::TryFrom;
use std::io::{BufRead, Write};
use std::panic::{catch_unwind, AssertUnwindSafe};

use sameold::verif;
use sameold::{Message, MessageHeader};
use verif_harness::canon::*;
use verif_harness::hexio::*;

fn handle(line: &str) -> String {
    let toks: Vec<&str> = line.split(' ').filter(|s| !s.is_empty()).collect();
    match toks.as_slice() {
        ["vote2", a, b] => {
            let (v, e) = verif::bit_vote_detect(a.parse().unwrap(), b.parse().unwrap());
            format!("{} {}", v, e)
        }
        ["vote3", a, b, c] => {
            let (v, e) =
                verif::bit_vote_correct(a.parse().unwrap(), b.parse().unwrap(), c.parse().unwrap());
            format!("{} {}", v, e)
        }
        ["vote2all"] => {
            let mut h = FNV_INIT;
            for a in 0..=255u8 {
                for b in 0..=255u8 {
                    let (v, e) = verif::bit_vote_detect(a, b);
                    h = fnv_step(fnv_step(h, v as u32), e);
                }
            }
            format!("{:016x}", h)
        }
        ["vote3block", a] => {
            let a: u8 = a.parse().unwrap();
            let mut h = FNV_INIT;
            for b in 0..=255u8 {
                for c in 0..=255u8 {
                    let (v, e) = verif::bit_vote_correct(a, b, c);
                    h = fnv_step(fnv_step(h, v as u32), e);
                }
            }
            format!("{:016x}", h)
        }
        ["allowed", a] => {
            if verif::is_allowed_byte(a.parse().unwrap()) {
                "1".into()
            } else {
                "0".into()
            }
        }
        ["estimate", bursts @ ..] => {
            let bs: Vec<Vec<u8>> = bursts.iter().map(|b| bytes_of_hex(b)).collect();
            let refs: Vec<&[u8]> = bs.iter().map(|b| b.as_slice()).collect();
            let (m, c, e) = verif::estimate_message(&refs);
            format!("{} {} {}", hex_of_bytes(&m), hex_of_bytes(&c), hex_of_bytes(&e))
        }
        ["combine", bursts @ ..] => {
            let bs: Vec<Vec<u8>> = bursts.iter().map(|b| bytes_of_hex(b)).collect();
            let refs: Vec<&[u8]> = bs.iter().map(|b| b.as_slice()).collect();
            match verif::combine(&refs) {
                None => "none".into(),
                Some(r) => msg_result_str(&r),
            }
        }
        ["hdr", s] => {
            let b = bytes_of_hex(s);
            match String::from_utf8(b) {
                Err(_) => "NOT-UTF8".into(),
                Ok(st) => match MessageHeader::new(st) {
                    Err(e) => format!("err {}", err_str(&e)),
                    Ok(h) => format!("ok {}", header_fields(&h)),
                },
            }
        }
        ["msgstr", s] => {
            let b = bytes_of_hex(s);
            match String::from_utf8(b) {
                Err(_) => "NOT-UTF8".into(),
                Ok(st) => msg_result_str(&Message::try_from(st)),
            }
        }
        ["msgbytes", s, e, c] => {
            let (s, e, c) = (bytes_of_hex(s), bytes_of_hex(e), bytes_of_hex(c));
            msg_result_str(&Message::try_from((s.as_slice(), e.as_slice(), c.as_slice())))
        }
        ["issue", j, h, m, ry, ro] => {
            let v = issue_val(j.parse().unwrap(), h.parse().unwrap(), m.parse().unwrap(),
                              ry.parse().unwrap(), ro.parse().unwrap());
            if v == -1 { "err".into() } else { format!("{}", v) }
        }
        ["issueblock", yi, h, m] => {
            let yi: i32 = yi.parse().unwrap();
            let (h, m): (u32, u32) = (h.parse().unwrap(), m.parse().unwrap());
            let mut hh = FNV_INIT;
            let ylen = if chrono::NaiveDate::from_yo_opt(yi, 366).is_some() { 366 } else { 365 };
            for oi in 1..=ylen {
                let d0 = chrono::NaiveDate::from_yo_opt(yi, oi).unwrap();
                for off in -90i64..=90 {
                    let d = d0 + chrono::Duration::days(off);
                    use chrono::Datelike;
                    let v = issue_val(oi, h, m, d.year(), d.ordinal());
                    for k in 0..8 {
                        hh = fnv_step(hh, ((v >> (8 * k)) & 0xff) as u32);
                    }
                }
            }
            format!("{:016x}", hh)
        }
        ["expired", j, h, m, dh, dm, ry, ro, sod, ns] => {
            use chrono::TimeZone;
            let hdr = issue_header(j.parse().unwrap(), h.parse().unwrap(), m.parse().unwrap(),
                                   dh.parse().unwrap(), dm.parse().unwrap());
            let d = chrono::NaiveDate::from_yo_opt(ry.parse().unwrap(), ro.parse().unwrap()).unwrap();
            let sod: u32 = sod.parse().unwrap();
            let now = chrono::Utc.from_utc_datetime(
                &d.and_hms_nano_opt(sod / 3600, (sod / 60) % 60, sod % 60, ns.parse().unwrap()).unwrap());
            if hdr.is_expired_at(&now) { "1".into() } else { "0".into() }
        }
        ["event", s] => {
            let st = String::from_utf8(bytes_of_hex(s)).expect("utf8");
            event_line(&st)
        }
        ["eventblock", a] => {
            let a: u8 = a.parse().unwrap();
            let mut h = FNV_INIT;
            for b in 0..128u8 {
                for c in 0..128u8 {
                    let st = String::from_utf8(vec![a, b, c]).unwrap();
                    let e = sameold::EventCode::from(&st);
                    for x in format!("{:?}", e.phenomenon()).bytes() {
                        h = fnv_step(h, x as u32);
                    }
                    h = fnv_step(h, e.significance() as u8 as u32);
                }
            }
            format!("{:016x}", h)
        }
        ["orig", o, c] => {
            let o = String::from_utf8(bytes_of_hex(o)).expect("utf8");
            let c = String::from_utf8(bytes_of_hex(c)).expect("utf8");
            hex_of_bytes(format!("{:?}", sameold::Originator::from_org_and_call(&o, &c)).as_bytes())
        }
        ["utf8", s] => {
            if std::str::from_utf8(&bytes_of_hex(s)).is_ok() {
                "1".into()
            } else {
                "0".into()
            }
        }
        _ => verif_harness_ext(&toks),
    }
}

fn event_line(st: &str) -> String {
    let e = sameold::EventCode::from(st);
    let b = |x: bool| if x { "1" } else { "0" };
    format!(
        "{} {} {} {} {} {} {}",
        hex_of_bytes(format!("{:?}", e.phenomenon()).as_bytes()),
        e.significance() as u8,
        hex_of_bytes(e.to_string().as_bytes()),
        b(e.is_test()),
        b(e.phenomenon().is_national()),
        b(e.phenomenon().is_weather()),
        b(e.is_unrecognized())
    )
}

fn issue_header(j: u32, h: u32, m: u32, dh: u32, dm: u32) -> MessageHeader {
    MessageHeader::new(format!(
        "ZCZC-WXR-RWT-012345+{:02}{:02}-{:03}{:02}{:02}-NOCALL  -",
        dh, dm, j, h, m
    ))
    .expect("header")
}

/// issue_datetime through the public API; -1 = Err
fn issue_val(j: u32, h: u32, m: u32, ry: i32, ro: u32) -> i64 {
    use chrono::TimeZone;
    let hdr = issue_header(j, h, m, 0, 0);
    let d = chrono::NaiveDate::from_yo_opt(ry, ro).expect("receive date");
    let rx = chrono::Utc.from_utc_datetime(&d.and_hms_opt(12, 0, 0).unwrap());
    match hdr.issue_datetime(&rx) {
        Ok(t) => t.timestamp(),
        Err(_) => -1,
    }
}

fn verif_harness_ext(_toks: &[&str]) -> String {
    "HARNESS-ERROR unknown command".into()
}

fn main() {
    std::panic::set_hook(Box::new(|_| {}));
    let stdin = std::io::stdin();
    let stdout = std::io::stdout();
    let mut out = std::io::BufWriter::new(stdout.lock());
    for line in stdin.lock().lines() {
        let line = line.unwrap();
        let r = match catch_unwind(AssertUnwindSafe(|| handle(&line))) {
            Ok(s) => s,
            Err(_) => "PANIC".to_owned(),
        };
        writeln!(out, "{}", r).unwrap();
    }
}
