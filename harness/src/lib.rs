//! Shared helpers for the verification harness binaries.
pub mod canon;
pub mod hexio;
pub mod rxrun;
pub mod synth;
