//! Shared helpers for the verification harness binaries.
pub mod hexio;
pub mod canon;
