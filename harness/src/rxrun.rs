//! Receiver-level runs: drive the real SameReceiver over synthesized audio under a
//! call schedule, record the tick trace (hook) and every event the public API returned.
use sameold::verif::{self, TickRecord};
use sameold::{
    LinkState, Message, SameEventType, SameReceiver, SameReceiverBuilder, SameReceiverEvent,
    TransportState,
};

use crate::canon::err_str;
use crate::hexio::hex_of_bytes;
use crate::synth::Rng;

pub fn msg_short(m: &Message) -> String {
    match m {
        Message::EndOfMessage => "eom".to_owned(),
        Message::StartOfMessage(h) => format!(
            "som:{}:{}:{}",
            hex_of_bytes(h.as_str().as_bytes()),
            h.parity_error_count(),
            h.voting_byte_count()
        ),
    }
}

pub fn event_str(e: &SameReceiverEvent) -> String {
    let w = match e.what() {
        SameEventType::Link(LinkState::NoCarrier) => "Ln".to_owned(),
        SameEventType::Link(LinkState::Searching) => "Ls".to_owned(),
        SameEventType::Link(LinkState::Reading) => "Lr".to_owned(),
        SameEventType::Link(LinkState::Burst(b)) => format!("LB{}", hex_of_bytes(b)),
        SameEventType::Transport(TransportState::Idle) => "Ti".to_owned(),
        SameEventType::Transport(TransportState::Assembling) => "Ta".to_owned(),
        SameEventType::Transport(TransportState::Message(Ok(m))) => format!("TM{}", msg_short(m)),
        SameEventType::Transport(TransportState::Message(Err(er))) => format!("TE{}", err_str(er)),
        _ => "??".to_owned(),
    };
    format!("{}@{}", w, e.input_sample_counter())
}

/// Render the tick trace as the item stream the model replays:
/// `T<gap>:<flags>[:<byte>]` = gap samples without a tick, then a tick.
pub fn trace_items(trace: &[TickRecord], total_samples: u64, start_sample: u64) -> String {
    let mut out = String::new();
    let mut last = start_sample;
    for t in trace {
        let gap = t.sample - last - 1;
        last = t.sample;
        let flags = (t.bit as u8) | ((t.power_open as u8) << 1) | ((t.power_close as u8) << 2);
        if !out.is_empty() {
            out.push(',');
        }
        match t.byte {
            Some(b) => out.push_str(&format!("T{}:{}:{:02x}", gap, flags, b)),
            None => out.push_str(&format!("T{}:{}", gap, flags)),
        }
    }
    let tail = total_samples - last;
    if tail > 0 {
        if !out.is_empty() {
            out.push(',');
        }
        out.push_str(&format!("G{}", tail));
    }
    if out.is_empty() {
        out.push('-');
    }
    out
}

#[derive(Clone, Debug)]
pub struct RxCfg {
    pub rate: u32,
    pub prefix_err: u32,
    pub max_invalid: u32,
    pub preamble_err: u32,
    /// power squelch thresholds (open, close); None = the builder's defaults
    pub squelch: Option<(f32, f32)>,
    /// AGC gain limits (min, max); None = the builder's defaults
    pub agc: Option<(f32, f32)>,
    /// further builder options by key: tbu / tbl (timing bandwidth unlocked / locked), tdev (timing max deviation),
    /// dclen (DC blocker length), agcbw (AGC bandwidth), sqbw (squelch bandwidth)
    pub more: Vec<(String, f32)>,
}

/// parse the optional builder keys of an input line
pub fn more_options(kv: &dyn Fn(&str) -> Option<String>) -> Vec<(String, f32)> {
    ["tbu", "tbl", "tdev", "dclen", "agcbw", "sqbw"]
        .iter()
        .filter_map(|k| kv(k).map(|v| (k.to_string(), v.parse::<f32>().unwrap())))
        .collect()
}

pub fn build(cfg: &RxCfg) -> SameReceiver {
    let mut b = SameReceiverBuilder::new(cfg.rate);
    b.with_frame_prefix_max_errors(cfg.prefix_err)
        .with_frame_max_invalid(cfg.max_invalid)
        .with_preamble_max_errors(cfg.preamble_err);
    if let Some((open, close)) = cfg.squelch {
        b.with_squelch_power(open, close);
    }
    if let Some((min, max)) = cfg.agc {
        b.with_agc_gain_limits(min, max);
    }
    let get = |k: &str| cfg.more.iter().find(|(n, _)| n == k).map(|(_, v)| *v);
    if get("tbu").is_some() || get("tbl").is_some() {
        b.with_timing_bandwidth(get("tbu").unwrap_or(0.125), get("tbl").unwrap_or(0.05));
    }
    if let Some(v) = get("tdev") {
        b.with_timing_max_deviation(v);
    }
    if let Some(v) = get("dclen") {
        b.with_dc_blocker_length(v);
    }
    if let Some(v) = get("agcbw") {
        b.with_agc_bandwidth(v);
    }
    if let Some(v) = get("sqbw") {
        b.with_squelch_bandwidth(v);
    }
    b.build()
}

/// How the audio is fed and the iterators are driven
#[derive(Clone, Debug)]
pub enum Schedule {
    /// one iter_events binding over the whole stream
    Whole,
    /// random consecutive chunks, one iter_events binding per chunk, drained
    Chunks(u64, usize),
    /// one shared source; bind iter_events, take ONE event, drop the iterator; repeat
    OneAtATime,
    /// shared source; mix iter_events (take k) / iter_messages (take k) / drops, from the seed
    Mixed(u64),
}

pub struct RunOut {
    pub events: Vec<String>,
    /// (events delivered so far, receiver.input_sample_counter(), samples consumed from source)
    pub consumed_checks: Vec<(u64, u64)>,
    pub trace: Vec<TickRecord>,
}

/// Run the receiver over `audio` under `sched`. For `Mixed`, events swallowed by
/// iter_messages' filter are not observable; only delivered items are listed, with
/// messages rendered as `TM...@?` (no timestamp is available from iter_messages).
pub fn run(rx: &mut SameReceiver, audio: &[f32], sched: &Schedule) -> RunOut {
    verif::trace_enable(true);
    let _ = verif::take_trace();
    let mut events = Vec::new();
    let mut consumed_checks = Vec::new();
    match sched {
        Schedule::Whole => {
            for e in rx.iter_events(audio.iter().copied()) {
                events.push(event_str(&e));
            }
        }
        Schedule::Chunks(seed, maxlen) => {
            let mut rng = Rng(*seed);
            let mut pos = 0usize;
            while pos < audio.len() {
                let r = rng.next();
                let len = if r % 7 == 0 { 1 } else { 1 + (rng.next() as usize % *maxlen) };
                let end = usize::min(audio.len(), pos + len);
                for e in rx.iter_events(audio[pos..end].iter().copied()) {
                    events.push(event_str(&e));
                }
                pos = end;
            }
        }
        Schedule::OneAtATime => {
            let mut consumed = 0u64;
            let mut src = audio.iter().copied().inspect(|_| consumed += 1);
            loop {
                let got = {
                    let mut it = rx.iter_events(src.by_ref());
                    it.next()
                };
                match got {
                    Some(e) => {
                        events.push(event_str(&e));
                    }
                    None => break,
                }
                consumed_checks.push((rx.input_sample_counter(), 0));
            }
            drop(src);
            // pair each check with the consumed count is not possible inside the closure borrow;
            // the final totals are compared instead
            consumed_checks.push((rx.input_sample_counter(), consumed));
        }
        Schedule::Mixed(seed) => {
            let mut rng = Rng(*seed);
            let mut consumed = 0u64;
            let mut src = audio.iter().copied().inspect(|_| consumed += 1);
            let mut idle_rounds = 0;
            loop {
                let k = 1 + (rng.next() % 3) as usize;
                let mut got_any = false;
                if rng.next() % 3 == 0 {
                    let it = rx.iter_messages(src.by_ref());
                    for m in it.take(k) {
                        events.push(format!("TM{}@?", msg_short(&m)));
                        got_any = true;
                    }
                } else {
                    let it = rx.iter_events(src.by_ref());
                    for e in it.take(k) {
                        events.push(event_str(&e));
                        got_any = true;
                    }
                }
                if !got_any {
                    idle_rounds += 1;
                    if idle_rounds > 2 {
                        break;
                    }
                } else {
                    idle_rounds = 0;
                }
            }
            drop(src);
            consumed_checks.push((rx.input_sample_counter(), consumed));
        }
    }
    let trace = verif::take_trace();
    verif::trace_enable(false);
    RunOut {
        events,
        consumed_checks,
        trace,
    }
}

/// Repeated flush() until None
pub fn flush_all(rx: &mut SameReceiver, limit: usize) -> Vec<String> {
    let mut out = Vec::new();
    for _ in 0..limit {
        match rx.flush() {
            Some(m) => out.push(msg_short(&m)),
            None => break,
        }
    }
    out
}
