//! Hex encoding used by the model/impl line protocol

pub fn bytes_of_hex(s: &str) -> Vec<u8> {
    if s == "-" {
        return Vec::new();
    }
    let b = s.as_bytes();
    let hv = |c: u8| -> u8 {
        match c {
            b'0'..=b'9' => c - 48,
            b'a'..=b'f' => c - 87,
            b'A'..=b'F' => c - 55,
            _ => panic!("bad hex"),
        }
    };
    (0..b.len() / 2).map(|i| 16 * hv(b[2 * i]) + hv(b[2 * i + 1])).collect()
}

pub fn hex_of_bytes(b: &[u8]) -> String {
    if b.is_empty() {
        return "-".to_owned();
    }
    let mut s = String::with_capacity(b.len() * 2);
    for x in b {
        s.push_str(&format!("{:02x}", x));
    }
    s
}

pub const FNV_INIT: u64 = 0xcbf29ce484222325;
pub fn fnv_step(h: u64, b: u32) -> u64 {
    (h ^ ((b & 0xff) as u64)).wrapping_mul(0x100000001b3)
}
