//! Canonical textual rendering of implementation results, in the same
//! format `modelrun` uses for the model's results.
use std::panic::{catch_unwind, AssertUnwindSafe};

use sameold::{Message, MessageDecodeErr, MessageHeader, MessageResult};

use crate::hexio::hex_of_bytes;

pub fn err_str(e: &MessageDecodeErr) -> &'static str {
    match e {
        MessageDecodeErr::UnrecognizedPrefix => "U",
        MessageDecodeErr::NotAscii => "A",
        MessageDecodeErr::Malformed => "M",
    }
}

fn guarded<F: FnOnce() -> String>(f: F) -> String {
    match catch_unwind(AssertUnwindSafe(f)) {
        Ok(s) => s,
        Err(_) => "PANIC".to_owned(),
    }
}

pub fn header_fields(h: &MessageHeader) -> String {
    let text = hex_of_bytes(h.as_str().as_bytes());
    let org = guarded(|| hex_of_bytes(h.originator_str().as_bytes()));
    let evt = guarded(|| hex_of_bytes(h.event_str().as_bytes()));
    let locs = guarded(|| {
        h.location_str_iter()
            .map(|l| hex_of_bytes(l.as_bytes()))
            .collect::<Vec<_>>()
            .join(",")
    });
    let dur = guarded(|| {
        let (a, b) = h.valid_duration_fields();
        format!("{}:{}", a, b)
    });
    let iss = guarded(|| {
        let (j, hh, mm) = h.issue_daytime_fields();
        format!("{}:{}:{}", j, hh, mm)
    });
    let call = guarded(|| hex_of_bytes(h.callsign().as_bytes()));
    let nat = guarded(|| if h.is_national() { "1".to_owned() } else { "0".to_owned() });
    let orig = guarded(|| hex_of_bytes(format!("{:?}", h.originator()).as_bytes()));
    format!(
        "{} {} {} org={} evt={} locs={} dur={} iss={} call={} nat={} orig={}",
        text,
        h.parity_error_count(),
        h.voting_byte_count(),
        org,
        evt,
        locs,
        dur,
        iss,
        call,
        nat,
        orig
    )
}

pub fn msg_result_str(r: &MessageResult) -> String {
    match r {
        Err(e) => format!("err {}", err_str(e)),
        // documented: error and voting counts are not tracked for EndOfMessage (both accessors return 0)
        Ok(m @ Message::EndOfMessage) => {
            if m.parity_error_count() == 0 && m.voting_byte_count() == 0 && m.as_str() == "NNNN" {
                "eom".to_owned()
            } else {
                format!("eom-with-counts {} {} {}", m.parity_error_count(), m.voting_byte_count(), m.as_str())
            }
        }
        Ok(Message::StartOfMessage(h)) => format!("som {}", header_fields(h)),
    }
}

/// Strip the panic-site number so model `PANIC<n>` and impl `PANIC` compare equal
pub fn strip_panic_sites(s: &str) -> String {
    let mut out = String::with_capacity(s.len());
    let mut it = s.char_indices().peekable();
    let b = s.as_bytes();
    let mut i = 0;
    while i < b.len() {
        if s[i..].starts_with("PANIC") {
            out.push_str("PANIC");
            i += 5;
            while i < b.len() && b[i].is_ascii_digit() {
                i += 1;
            }
        } else {
            out.push(b[i] as char);
            i += 1;
        }
    }
    let _ = &mut it;
    out
}
