"""Assembler-level histories (burst arrivals + idle polling at every symbol tick while the link is idle),
run on the real Assembler (hook) and on the model; report extraction; oracles from C02/C05/C08."""
import vlib, samegen
from vlib import hx

SPS = 520.83            # symbols per second
HOLD = 682              # MAX_INTERBURST_SYMBOLS
WINDOW = 5652           # MAX_HISTORY_DURATION


def sym(seconds):
    return int(round(seconds * SPS))


class Burst:
    def __init__(self, gap, data, sync=None, junk=b"", kind="?"):
        self.gap, self.data, self.sync, self.junk, self.kind = gap, data, sync, junk, kind


def build_script(rng, bursts, tail=None, start=1000, poll_every=1):
    """bursts: list of Burst (gap in symbols from the end of the previous burst to the start of this preamble).
    Idle is polled at every symbol from the previous burst end until this burst's sync instant, then the burst
    (data+junk) is assembled at its end. Returns (script, [(end_time, data)])."""
    toks = []
    now = start
    ends = []
    for b in bursts:
        # the squelch synchronises somewhere inside the 16-byte preamble (32 symbols at the earliest) or on the byte after it;
        # idle polling stops there.  Both ends of the range matter for what is due before the burst is handed over
        sync = b.sync if b.sync is not None else rng.choice([rng.range(32, 72), rng.range(32, 136), 32, 128, 136])
        sync_at = now + b.gap + sync
        t = now + poll_every
        while t <= sync_at:
            toks.append("i%d" % t)
            t += poll_every
        data = b.data + b.junk
        end = now + b.gap + (16 + len(data)) * 8 + rng.range(0, 16)
        toks.append("a%d:%s" % (end, hx(data)))
        ends.append((end, b))
        now = end
    tail = tail if tail is not None else HOLD + 50
    t = now + 1
    while t <= now + tail:
        toks.append("i%d" % t)
        t += 1
    return ",".join(toks), ends


def reports(script, out):
    """pair each step of the script with its output; returns [(time, 'som:<hex>:p:v' | 'eom' | 'ERR:x')]"""
    rep = []
    for tok, o in zip(script.split(","), out.split(";")):
        if o[0] in "ME":
            t = int(tok[1:].split(":")[0])
            rep.append((t, o[1:] if o[0] == "M" else "ERR:" + o[1:]))
    return rep


def rep_kind(r):
    return "eom" if r == "eom" else ("err" if r.startswith("ERR") else "som")


def rep_text(r):
    return bytes.fromhex(r.split(":")[1]) if r.startswith("som:") else None


def junk(rng):
    """what follows the data of a burst on a real channel: a few identical allowed characters or nothing"""
    return rng.choice([b"", b"   ", b"fff", b"  ", b"f"])


def transmission(rng, H, mask, gap_ht, pause=None, corrupt=None, first_gap=None, trailer=b"NNNN"):
    """the six bursts of one transmission as a Burst list; absent bursts are skipped but their time passes"""
    out = []
    acc = first_gap if first_gap is not None else sym(1.0)
    for i in range(6):
        data = H if i < 3 else trailer
        if i > 0:
            acc += sym(gap_ht) if i == 3 else sym(pause if pause is not None else rng.choice([0.95, 1.0, 1.05]))
        if (mask >> i) & 1:
            d = corrupt[i] if (corrupt and i in corrupt) else data
            out.append(Burst(acc, d, junk=junk(rng), kind=("H%d" % (i + 1)) if i < 3 else ("N%d" % (i - 2))))
            acc = 0
        else:
            acc += (16 + len(data)) * 8
    return out


def run_scripts(scripts):
    lines = ["asm " + s for s in scripts]
    model = vlib.run_lines_parallel(vlib.MODELRUN, lines)
    impl = vlib.run_lines_parallel(vlib.IMPLRUN, lines)
    return model, impl


def classify_f8(sc):
    """F8 class, decided on the input history once burst end times are known: some burst ends after the duplicate
    record of the first EndOfMessage report (first trailer burst end + WINDOW) has expired while the second and third
    trailer bursts are still inside the history window (second trailer burst end + WINDOW)."""
    tr = [e for (e, b) in sc.ends if b.data[:4] == b"NNNN"]
    if len(tr) < 3:
        return False
    t1, t2 = tr[0], tr[1]
    return any(t1 + WINDOW <= e < t2 + WINDOW for (e, b) in sc.ends if e > tr[2])


# ---------------------------------------------------------------------------------------------
# The concrete histories of the Coq witness lemmas (Proofs/AssemblerP.v: tx_ops, F1.., normal_transmission),
# rebuilt here with the same arithmetic, run on the IMPLEMENTATION and on the extracted model, and
# compared with what the Coq Example states.  This ties each `_refuted` theorem to the code.
STR_A = b"ZCZC-EAS-DMO-999000+0015-0011122-NOCALL00-"
STR_B = b"ZCZC-WXR-TOR-039173+0030-0011122-KCLE/NWS-"
STR_N = b"NNNN"
SEC = 521


def coq_tx_ops(now, bursts, tail):
    toks = []
    for gap, d in bursts:
        e = now + gap + (16 + len(d)) * 8
        toks += ["i%d" % t for t in range(now + 1, now + gap + 50 + 1)]
        toks.append("a%d:%s" % (e, hx(d)))
        now = e
    toks += ["i%d" % t for t in range(now + 1, now + tail + 1)]
    return ",".join(toks)


def kinds(script, out):
    res = []
    for (t, r) in reports(script, out):
        k = 3 if r == "eom" else (0 if r.startswith("ERR") else (1 if rep_text(r) == STR_A else 2 if rep_text(r) == STR_B else 0))
        res.append((t, k))
    return res


WITNESSES = {
    "F1": ([(SEC, STR_A)] * 3 + [(SEC, STR_B)] * 3, 800, [(7592, 2)]),
    "F2": ([(SEC, STR_A), (SEC + SEC + (16 + 42) * 8, STR_A), (SEC, STR_N), (SEC, STR_N)], 6000, [(5318, 1)]),
    "F3": ([(SEC, STR_A)] * 6, 800, [(7592, 1)]),
    "F8": ([(SEC, STR_N)] * 3 + [(4272, STR_B)], 800, [(1681, 3), (7779, 3)]),
    "normal": ([(SEC, STR_A)] * 3 + [(1300, STR_N), (SEC, STR_N), (SEC, STR_N)], 800, [(4637, 1), (6096, 3)]),
}


def run_witnesses(ctx, names):
    """returns {name: reproduced_on_impl}; a model/Coq disagreement is a correspondence violation"""
    scripts = {n: coq_tx_ops(1000, WITNESSES[n][0], WITNESSES[n][1]) for n in names}
    model, impl = run_scripts([scripts[n] for n in names])
    res = {}
    for n, mo, im in zip(names, model, impl):
        want = WITNESSES[n][2]
        km, ki = kinds(scripts[n], mo), kinds(scripts[n], im)
        if km != want:
            ctx.violation("correspondence", "extracted model disagrees with the Coq witness lemma %s: %s vs %s" % (n, km, want),
                          {"input": "asm " + scripts[n][:200] + "...", "witness": n})
        res[n] = (ki == want)
        if n == "normal" and ki != want:
            ctx.violation("property" if mo == im else "correspondence",
                          "the ordinary six-burst history (Coq Example normal_transmission) gives %s on the implementation, expected %s" % (ki, want),
                          {"input": "asm " + scripts[n], "witness": n})
        elif mo != im:
            ctx.violation("correspondence", "model and implementation differ on the witness history %s (impl %s, model %s)" % (n, ki, km),
                          {"input": "asm " + scripts[n], "witness": n})
    return res


# ---------------------------------------------------------------------------------------------
# Instances of the scenario THEOREMS (coq/Properties/C01.v, C02.v, C08.v): random values for the universally quantified
# contents and times that satisfy the hypotheses, the history run on the implementation, and the outcome compared with what
# the theorem states.  This ties the theorem STATEMENTS (not only the model) to the code.
def _polls(rng, lo, hi, k):
    """k distinct poll times in [lo, hi), sorted"""
    if hi <= lo:
        return []
    return sorted(set(rng.range(lo, hi - 1) for _ in range(k)))


def theorem_instances(rng, n):
    out = []
    for j in range(n):
        H = samegen.gen_header(rng, nloc=rng.choice([1, 2, 5, 13, 31]))
        kind = ["two_of_three", "two_only", "trailer", "clean", "no_gap", "hold", "lossy"][j % 7]
        t1 = rng.range(100, 100000)
        mk = lambda toks: ",".join(toks)
        if kind == "two_of_three":
            p = rng.below(3)
            X = rng.choice([rng.bytes(rng.range(1, 300)), samegen.flip_bits(rng, H, rng.range(1, 40)), samegen.gen_header(rng), b"NNNN", H[: rng.range(1, len(H))]])
            bursts = [H, H]; bursts.insert(p, X)
            t2 = t1 + rng.range(1, 2600); t3 = min(t2 + rng.range(1, 2600), t1 + WINDOW - 1)
            p1 = _polls(rng, t1 + 1, t2, 20); p2 = _polls(rng, t2 + 1, min(t3, t2 + HOLD), 20)
            p3 = _polls(rng, t3 + 1, t3 + HOLD, 10) + _polls(rng, t3 + HOLD, t3 + 3 * HOLD, 6) + [t3 + 20000]
            toks = ["a%d:%s" % (t1, hx(bursts[0]))] + ["i%d" % t for t in p1] + ["a%d:%s" % (t2, hx(bursts[1]))] + ["i%d" % t for t in p2] \
                + ["a%d:%s" % (t3, hx(bursts[2]))] + ["i%d" % t for t in p3]
            tf = min(t for t in p3 if t >= t3 + HOLD)
            out.append(("C02_header_two_of_three_any_third", mk(toks), {"som": [(tf, H)]}))
        elif kind == "two_only":
            t2 = min(t1 + rng.range(1, 5600), t1 + WINDOW - 1)
            p1 = _polls(rng, t1 + 1, t2, 30)
            p2 = _polls(rng, t2 + 1, t2 + 3 * HOLD, 12) + [t2 + 9000]
            toks = ["a%d:%s" % (t1, hx(H))] + ["i%d" % t for t in p1] + ["a%d:%s" % (t2, hx(H))] + ["i%d" % t for t in p2]
            tf = min(t for t in p2 if t >= t2 + HOLD)
            out.append(("C02_header_two_bursts_only", mk(toks), {"som": [(tf, H)]}))
        elif kind == "trailer":
            ns = [b"NN" + bytes(rng.choice(samegen.ALLOWED) for _ in range(rng.range(0, 12))) for _ in range(3)]
            t2 = t1 + rng.range(1, 2500); t3 = min(t2 + rng.range(1, 2500), t1 + WINDOW - 1)
            p1 = _polls(rng, t1 + 1, t2, 15); p2 = _polls(rng, t2 + 1, t3, 15); p3 = _polls(rng, t3 + 1, t3 + 12000, 15)
            toks = ["a%d:%s" % (t1, hx(ns[0]))] + ["i%d" % t for t in p1] + ["a%d:%s" % (t2, hx(ns[1]))] + ["i%d" % t for t in p2] \
                + ["a%d:%s" % (t3, hx(ns[2]))] + ["i%d" % t for t in p3]
            out.append(("C02_trailer_exactly_one_eom", mk(toks), {"all": [(t1, "eom")]}))
        elif kind in ("clean", "no_gap"):
            ns = [b"NNNN" + bytes(rng.choice(samegen.ALLOWED) for _ in range(rng.range(0, 6))) for _ in range(3)]
            t2 = t1 + rng.range(400, 1200); t3 = t2 + rng.range(400, 1200)
            p1 = _polls(rng, t1 + 1, t2, 10); p2 = _polls(rng, t2 + 1, min(t3, t2 + HOLD), 10)
            if kind == "clean":
                pa = _polls(rng, t3 + 1, t3 + HOLD, 8)
                tf = t3 + HOLD + rng.range(0, 40)
                u1 = tf + rng.range(0, 2000)
                pb = _polls(rng, tf + 1, u1, 6)
            else:
                pa = _polls(rng, t3 + 1, t3 + HOLD, 8)
                u1 = t3 + HOLD + rng.range(0, 300); tf = None; pb = []
            u2 = u1 + rng.range(300, 1000); u3 = u2 + rng.range(300, 1000)
            if u3 >= t2 + WINDOW:
                continue
            p4 = _polls(rng, u1 + 1, u2, 6); p5 = _polls(rng, u2 + 1, u3, 6); p6 = _polls(rng, u3 + 1, u3 + 9000, 8)
            toks = ["a%d:%s" % (t1, hx(H))] + ["i%d" % t for t in p1] + ["a%d:%s" % (t2, hx(H))] + ["i%d" % t for t in p2] \
                + ["a%d:%s" % (t3, hx(H))] + ["i%d" % t for t in pa] + (["i%d" % tf] if tf else []) + ["i%d" % t for t in pb] \
                + ["a%d:%s" % (u1, hx(ns[0]))] + ["i%d" % t for t in p4] + ["a%d:%s" % (u2, hx(ns[1]))] + ["i%d" % t for t in p5] \
                + ["a%d:%s" % (u3, hx(ns[2]))] + ["i%d" % t for t in p6]
            exp = [(tf if tf else u1, H), (u2, "eom")]
            out.append(("C01_clean_transmission_exact" if kind == "clean" else "C02_no_voice_gap_transmission", mk(toks), {"all": exp}))
        elif kind == "lossy":
            # C02_clean_lossy_transmission: any two header bursts, hold released, two or three trailer bursts starting NN
            third = rng.chance(1, 2)
            ns = [b"NN" + bytes(rng.choice(samegen.ALLOWED) for _ in range(rng.range(0, 10))) for _ in range(3)]
            ta = t1; tb = ta + rng.range(300, 2400)
            p1 = _polls(rng, ta + 1, tb, 10); pa = _polls(rng, tb + 1, tb + HOLD, 8)
            tf = tb + HOLD + rng.range(0, 40); u1 = tf + rng.range(0, 1500); pb = _polls(rng, tf + 1, u1, 6)
            u2 = u1 + rng.range(300, 1100); u3 = u2 + rng.range(300, 1100)
            if u3 >= ta + WINDOW:
                continue
            p4 = _polls(rng, u1 + 1, u2, 6); p5 = _polls(rng, u2 + 1, u3 if third else min(u2 + 2000, ta + WINDOW), 6)
            toks = ["a%d:%s" % (ta, hx(H))] + ["i%d" % t for t in p1] + ["a%d:%s" % (tb, hx(H))] + ["i%d" % t for t in pa] + ["i%d" % tf] \
                + ["i%d" % t for t in pb] + ["a%d:%s" % (u1, hx(ns[0]))] + ["i%d" % t for t in p4] + ["a%d:%s" % (u2, hx(ns[1]))] + ["i%d" % t for t in p5]
            if third:
                toks += ["a%d:%s" % (u3, hx(ns[2]))] + ["i%d" % t for t in _polls(rng, u3 + 1, u3 + 9000, 8)]
            out.append(("C02_clean_lossy_transmission", mk(toks), {"all": [(tf, H), (u2, "eom")]}))
        else:
            # C08: after ANY history, the poll 682 symbols after the last burst empties the slot: no later poll reports anything
            toks, t, last = [], t1, t1
            for _ in range(rng.range(1, 7)):
                t += rng.range(1, 1500)
                if rng.chance(1, 2):
                    b = rng.choice([H, H, b"NNNN", rng.bytes(rng.range(1, 60)), samegen.flip_bits(rng, H, 3)])
                    toks.append("a%d:%s" % (t, hx(b))); last = t
                else:
                    toks.append("i%d" % t)
            rel = max(t, last + HOLD)
            toks.append("i%d" % rel)
            later = _polls(rng, rel + 1, rel + 9000, 8)
            toks += ["i%d" % x for x in later]
            out.append(("C08_released_by_first_poll_after_hold", mk(toks), {"quiet_after": rel}))
    return out


def check_instances(ctx, insts):
    """run on implementation and model; compare with the theorem's statement; returns number of confirmed instances"""
    model, impl = run_scripts([s for _, s, _ in insts])
    ok, names = 0, {}
    for (name, script, exp), mo, im in zip(insts, model, impl):
        names[name] = names.get(name, 0) + 1
        rep = reports(script, im)
        got_all = [(t, "eom" if r == "eom" else ("err" if r.startswith("ERR") else rep_text(r))) for t, r in rep]
        bad = None
        if "som" in exp:
            got = [(t, x) for t, x in got_all if isinstance(x, bytes)]
            if got != exp["som"]:
                bad = "StartOfMessage reports %s, theorem %s states %s" % ([(t, x[:12]) for t, x in got], name, [(t, x[:12]) for t, x in exp["som"]])
        if "all" in exp and got_all != exp["all"]:
            bad = "messages %s, theorem %s states %s" % ([(t, x if isinstance(x, str) else x[:12]) for t, x in got_all], name,
                                                         [(t, x if isinstance(x, str) else x[:12]) for t, x in exp["all"]])
        if "quiet_after" in exp and any(t > exp["quiet_after"] for t, _ in got_all):
            bad = "a message was reported after the poll at last burst + 682 (%d), contradicting %s" % (exp["quiet_after"], name)
        if mo != im:
            ctx.violation("correspondence", "assembler model and implementation differ on an instance of theorem %s" % name,
                          {"input": "asm " + script, "model": mo[-800:], "impl": im[-800:]})
        if bad:
            ctx.violation("property" if mo == im else "correspondence", "instance of a proved scenario theorem fails on the implementation: " + bad,
                          {"input": "asm " + script, "theorem": name})
        elif mo == im:
            ok += 1
    return ok, names
