"""Assembler-level histories (burst arrivals + idle polling at every symbol tick while the link is idle),
run on the real Assembler (hook) and on the model; report extraction; oracles from C02/C05/C08."""
import vlib, samegen
from vlib import hx

SPS = 520.83            # symbols per second
HOLD = 682              # MAX_INTERBURST_SYMBOLS
WINDOW = 5652           # MAX_HISTORY_DURATION


def sym(seconds):
    return int(round(seconds * SPS))


class Burst:
    def __init__(self, gap, data, sync=None, junk=b"", kind="?"):
        self.gap, self.data, self.sync, self.junk, self.kind = gap, data, sync, junk, kind


def build_script(rng, bursts, tail=None, start=1000, poll_every=1):
    """bursts: list of Burst (gap in symbols from the end of the previous burst to the start of this preamble).
    Idle is polled at every symbol from the previous burst end until this burst's sync instant, then the burst
    (data+junk) is assembled at its end. Returns (script, [(end_time, data)])."""
    toks = []
    now = start
    ends = []
    for b in bursts:
        sync = b.sync if b.sync is not None else rng.range(32, 72)
        sync_at = now + b.gap + sync
        t = now + poll_every
        while t <= sync_at:
            toks.append("i%d" % t)
            t += poll_every
        data = b.data + b.junk
        end = now + b.gap + (16 + len(data)) * 8 + rng.range(0, 16)
        toks.append("a%d:%s" % (end, hx(data)))
        ends.append((end, b))
        now = end
    tail = tail if tail is not None else HOLD + 50
    t = now + 1
    while t <= now + tail:
        toks.append("i%d" % t)
        t += 1
    return ",".join(toks), ends


def reports(script, out):
    """pair each step of the script with its output; returns [(time, 'som:<hex>:p:v' | 'eom' | 'ERR:x')]"""
    rep = []
    for tok, o in zip(script.split(","), out.split(";")):
        if o[0] in "ME":
            t = int(tok[1:].split(":")[0])
            rep.append((t, o[1:] if o[0] == "M" else "ERR:" + o[1:]))
    return rep


def rep_kind(r):
    return "eom" if r == "eom" else ("err" if r.startswith("ERR") else "som")


def rep_text(r):
    return bytes.fromhex(r.split(":")[1]) if r.startswith("som:") else None


def junk(rng):
    """what follows the data of a burst on a real channel: a few identical allowed characters or nothing"""
    return rng.choice([b"", b"   ", b"fff", b"  ", b"f"])


def transmission(rng, H, mask, gap_ht, pause=None, corrupt=None, first_gap=None, trailer=b"NNNN"):
    """the six bursts of one transmission as a Burst list; absent bursts are skipped but their time passes"""
    out = []
    acc = first_gap if first_gap is not None else sym(1.0)
    for i in range(6):
        data = H if i < 3 else trailer
        if i > 0:
            acc += sym(gap_ht) if i == 3 else sym(pause if pause is not None else rng.choice([0.95, 1.0, 1.05]))
        if (mask >> i) & 1:
            d = corrupt[i] if (corrupt and i in corrupt) else data
            out.append(Burst(acc, d, junk=junk(rng), kind=("H%d" % (i + 1)) if i < 3 else ("N%d" % (i - 2))))
            acc = 0
        else:
            acc += (16 + len(data)) * 8
    return out


def run_scripts(scripts):
    lines = ["asm " + s for s in scripts]
    model = vlib.run_lines_parallel(vlib.MODELRUN, lines)
    impl = vlib.run_lines_parallel(vlib.IMPLRUN, lines)
    return model, impl


def classify_f8(sc):
    """F8 class, decided on the input history once burst end times are known: some burst ends after the duplicate
    record of the first EndOfMessage report (first trailer burst end + WINDOW) has expired while the second and third
    trailer bursts are still inside the history window (second trailer burst end + WINDOW)."""
    tr = [e for (e, b) in sc.ends if b.data[:4] == b"NNNN"]
    if len(tr) < 3:
        return False
    t1, t2 = tr[0], tr[1]
    return any(t1 + WINDOW <= e < t2 + WINDOW for (e, b) in sc.ends if e > tr[2])
