"""Assembler-level histories (burst arrivals + idle polling at every symbol tick while the link is idle),
run on the real Assembler (hook) and on the model; report extraction; oracles from C02/C05/C08."""
import vlib, samegen
from vlib import hx

SPS = 520.83            # symbols per second
HOLD = 682              # MAX_INTERBURST_SYMBOLS
WINDOW = 5652           # MAX_HISTORY_DURATION


def sym(seconds):
    return int(round(seconds * SPS))


class Burst:
    def __init__(self, gap, data, sync=None, junk=b"", kind="?"):
        self.gap, self.data, self.sync, self.junk, self.kind = gap, data, sync, junk, kind


def build_script(rng, bursts, tail=None, start=1000, poll_every=1):
    """bursts: list of Burst (gap in symbols from the end of the previous burst to the start of this preamble).
    Idle is polled at every symbol from the previous burst end until this burst's sync instant, then the burst
    (data+junk) is assembled at its end. Returns (script, [(end_time, data)])."""
    toks = []
    now = start
    ends = []
    for b in bursts:
        sync = b.sync if b.sync is not None else rng.range(32, 72)
        sync_at = now + b.gap + sync
        t = now + poll_every
        while t <= sync_at:
            toks.append("i%d" % t)
            t += poll_every
        data = b.data + b.junk
        end = now + b.gap + (16 + len(data)) * 8 + rng.range(0, 16)
        toks.append("a%d:%s" % (end, hx(data)))
        ends.append((end, b))
        now = end
    tail = tail if tail is not None else HOLD + 50
    t = now + 1
    while t <= now + tail:
        toks.append("i%d" % t)
        t += 1
    return ",".join(toks), ends


def reports(script, out):
    """pair each step of the script with its output; returns [(time, 'som:<hex>:p:v' | 'eom' | 'ERR:x')]"""
    rep = []
    for tok, o in zip(script.split(","), out.split(";")):
        if o[0] in "ME":
            t = int(tok[1:].split(":")[0])
            rep.append((t, o[1:] if o[0] == "M" else "ERR:" + o[1:]))
    return rep


def rep_kind(r):
    return "eom" if r == "eom" else ("err" if r.startswith("ERR") else "som")


def rep_text(r):
    return bytes.fromhex(r.split(":")[1]) if r.startswith("som:") else None


def junk(rng):
    """what follows the data of a burst on a real channel: a few identical allowed characters or nothing"""
    return rng.choice([b"", b"   ", b"fff", b"  ", b"f"])


def transmission(rng, H, mask, gap_ht, pause=None, corrupt=None, first_gap=None, trailer=b"NNNN"):
    """the six bursts of one transmission as a Burst list; absent bursts are skipped but their time passes"""
    out = []
    acc = first_gap if first_gap is not None else sym(1.0)
    for i in range(6):
        data = H if i < 3 else trailer
        if i > 0:
            acc += sym(gap_ht) if i == 3 else sym(pause if pause is not None else rng.choice([0.95, 1.0, 1.05]))
        if (mask >> i) & 1:
            d = corrupt[i] if (corrupt and i in corrupt) else data
            out.append(Burst(acc, d, junk=junk(rng), kind=("H%d" % (i + 1)) if i < 3 else ("N%d" % (i - 2))))
            acc = 0
        else:
            acc += (16 + len(data)) * 8
    return out


def run_scripts(scripts):
    lines = ["asm " + s for s in scripts]
    model = vlib.run_lines_parallel(vlib.MODELRUN, lines)
    impl = vlib.run_lines_parallel(vlib.IMPLRUN, lines)
    return model, impl


def classify_f8(sc):
    """F8 class, decided on the input history once burst end times are known: some burst ends after the duplicate
    record of the first EndOfMessage report (first trailer burst end + WINDOW) has expired while the second and third
    trailer bursts are still inside the history window (second trailer burst end + WINDOW)."""
    tr = [e for (e, b) in sc.ends if b.data[:4] == b"NNNN"]
    if len(tr) < 3:
        return False
    t1, t2 = tr[0], tr[1]
    return any(t1 + WINDOW <= e < t2 + WINDOW for (e, b) in sc.ends if e > tr[2])


# ---------------------------------------------------------------------------------------------
# The concrete histories of the Coq witness lemmas (Proofs/AssemblerP.v: tx_ops, F1.., normal_transmission),
# rebuilt here with the same arithmetic, run on the IMPLEMENTATION and on the extracted model, and
# compared with what the Coq Example states.  This ties each `_refuted` theorem to the code.
STR_A = b"ZCZC-EAS-DMO-999000+0015-0011122-NOCALL00-"
STR_B = b"ZCZC-WXR-TOR-039173+0030-0011122-KCLE/NWS-"
STR_N = b"NNNN"
SEC = 521


def coq_tx_ops(now, bursts, tail):
    toks = []
    for gap, d in bursts:
        e = now + gap + (16 + len(d)) * 8
        toks += ["i%d" % t for t in range(now + 1, now + gap + 50 + 1)]
        toks.append("a%d:%s" % (e, hx(d)))
        now = e
    toks += ["i%d" % t for t in range(now + 1, now + tail + 1)]
    return ",".join(toks)


def kinds(script, out):
    res = []
    for (t, r) in reports(script, out):
        k = 3 if r == "eom" else (0 if r.startswith("ERR") else (1 if rep_text(r) == STR_A else 2 if rep_text(r) == STR_B else 0))
        res.append((t, k))
    return res


WITNESSES = {
    "F1": ([(SEC, STR_A)] * 3 + [(SEC, STR_B)] * 3, 800, [(7592, 2)]),
    "F2": ([(SEC, STR_A), (SEC + SEC + (16 + 42) * 8, STR_A), (SEC, STR_N), (SEC, STR_N)], 6000, [(5318, 1)]),
    "F3": ([(SEC, STR_A)] * 6, 800, [(7592, 1)]),
    "F8": ([(SEC, STR_N)] * 3 + [(4272, STR_B)], 800, [(1681, 3), (7779, 3)]),
    "normal": ([(SEC, STR_A)] * 3 + [(1300, STR_N), (SEC, STR_N), (SEC, STR_N)], 800, [(4637, 1), (6096, 3)]),
}


def run_witnesses(ctx, names):
    """returns {name: reproduced_on_impl}; a model/Coq disagreement is a correspondence violation"""
    scripts = {n: coq_tx_ops(1000, WITNESSES[n][0], WITNESSES[n][1]) for n in names}
    model, impl = run_scripts([scripts[n] for n in names])
    res = {}
    for n, mo, im in zip(names, model, impl):
        want = WITNESSES[n][2]
        km, ki = kinds(scripts[n], mo), kinds(scripts[n], im)
        if km != want:
            ctx.violation("correspondence", "extracted model disagrees with the Coq witness lemma %s: %s vs %s" % (n, km, want),
                          {"input": "asm " + scripts[n][:200] + "...", "witness": n})
        res[n] = (ki == want)
        if n == "normal" and ki != want:
            ctx.violation("property" if mo == im else "correspondence",
                          "the ordinary six-burst history (Coq Example normal_transmission) gives %s on the implementation, expected %s" % (ki, want),
                          {"input": "asm " + scripts[n], "witness": n})
        elif mo != im:
            ctx.violation("correspondence", "model and implementation differ on the witness history %s (impl %s, model %s)" % (n, ki, km),
                          {"input": "asm " + scripts[n], "witness": n})
    return res
