"""Generators for SAME headers and byte strings (shared by several properties)."""
ORGS = [b"PEP", b"CIV", b"WXR", b"EAS"]
EVTS = [b"EAN", b"NIC", b"DMO", b"NAT", b"NPT", b"NST", b"RMT", b"RWT", b"ADR", b"BLU", b"CAE", b"CDW",
        b"CEM", b"EQW", b"EVI", b"FRW", b"HMW", b"LAE", b"LEW", b"NMN", b"NUW", b"RHW", b"SPW", b"TOE",
        b"VOW", b"HLS", b"SPS", b"SVR", b"SVS", b"TOR", b"FSW", b"AVA", b"BZW", b"CFW", b"DSW", b"EWW",
        b"FFA", b"FLS", b"FZW", b"HUW", b"HWA", b"SMW", b"SQW", b"SSA", b"TRW", b"TSA", b"WSW", b"TOA"]
ALLOWED = (b"-0123456789ABCDEFGHIJKLMNOPQRSTUVWXYZabcdefghijklmnopqrstuvwxyz/?()[]._,+ ")
CALL_CHARS = b"ABCDEFGHIJKLMNOPQRSTUVWXYZ0123456789/ "
LETTERS = b"ABCDEFGHIJKLMNOPQRSTUVWXYZabcdefghijklmnopqrstuvwxyz"


def is_allowed(c):
    return c in ALLOWED


def digits(rng, n):
    return bytes(48 + rng.below(10) for _ in range(n))


def gen_header(rng, nloc=None, calllen=None, call_chars=CALL_CHARS, trailing=b""):
    """A grammar-generated SAME header (bytes)."""
    org = rng.choice(ORGS) if rng.chance(3, 4) else bytes(rng.choice(LETTERS) for _ in range(3))
    evt = rng.choice(EVTS) if rng.chance(3, 4) else bytes(rng.choice(LETTERS) for _ in range(3))
    if nloc is None:
        nloc = rng.choice([1, 1, 2, 3, 5, 8, 13, 21, 31, rng.range(1, 31)])
    locs = b"".join(b"-" + digits(rng, 6) for _ in range(nloc))
    if rng.chance(1, 14):
        # around the national-location rule (exactly ONE location code, 000000, with a national event code)
        zero, real = b"000000", digits(rng, 6)
        pats = {1: [[zero]], 2: [[zero, zero], [zero, real], [real, zero]], 3: [[zero, zero, zero], [real, zero, real]]}
        if nloc in pats:
            locs = b"".join(b"-" + l for l in rng.choice(pats[nloc]))
            if rng.chance(2, 3):
                evt = rng.choice([b"EAN", b"NIC", b"NAT", b"NPT", b"NST"])
    tttt = digits(rng, 4)
    jjj = b"%03d" % rng.range(1, 366) + b"%02d" % rng.below(24) + b"%02d" % rng.below(60)
    special_call = None
    if calllen is None:
        calllen = rng.range(3, 8)
        if call_chars is CALL_CHARS and rng.chance(1, 12):
            # callsigns around the Environment Canada rule (ORG WXR and a callsign that BEGINS "EC/")
            special_call = rng.choice([b"EC/GC/CA", b"KEC/NWS", b"WXKEC/", b"XEC/", b"EC/XY", b"AEC/B", b"EC/", b"EC//"])
    call = bytes(rng.choice(call_chars) for _ in range(calllen))
    call = call.replace(b"-", b"/")
    if special_call is not None:
        call = special_call
    return b"ZCZC-" + org + b"-" + evt + locs + b"+" + tttt + b"-" + jjj + b"-" + call + b"-" + trailing


def mutate(rng, s, nedits=1, alphabet=None):
    s = bytearray(s)
    for _ in range(nedits):
        kind = rng.below(3)
        c = rng.below(256) if alphabet is None else rng.choice(alphabet)
        if kind == 0 and s:
            s[rng.below(len(s))] = c
        elif kind == 1:
            s.insert(rng.below(len(s) + 1), c)
        elif s:
            del s[rng.below(len(s))]
    return bytes(s)


def flip_bits(rng, s, nbits):
    s = bytearray(s)
    for _ in range(nbits):
        if s:
            i = rng.below(len(s))
            s[i] ^= 1 << rng.below(8)
    return bytes(s)
