#!/bin/sh
# independent re-check of every compiled property file and everything it depends on (about 11 min);
# prints coqchk's context summary: the axioms must be exactly the four standard-library ones Flocq's reals bring in
cd "$(dirname "$0")/../coq" || exit 2
mods=$(for i in 01 02 03 04 05 06 07 08 09 10 11 12 13 14 15 16 17 18 19; do echo Sameold.Properties.C$i; done)
timeout 3600 coqchk -o -silent -Q . Sameold $mods > /tmp/coqchk.$$.log 2>&1; rc=$?
sed -n '/CONTEXT SUMMARY/,$p' /tmp/coqchk.$$.log
extra=$(sed -n '/\* Axioms:/,/\* Constants/p' /tmp/coqchk.$$.log | grep -E '^\s+[A-Za-z]' | grep -v -E 'functional_extensionality_dep|sig_not_dec|sig_forall_dec|Classical_Prop.classic' )
rm -f /tmp/coqchk.$$.log
[ $rc -eq 0 ] && [ -z "$extra" ] && { echo "coqchk: ok"; exit 0; }
echo "coqchk: FAILED rc=$rc unexpected axioms: $extra"; exit 1
