#!/bin/sh
# usage: lib/validate_seed.sh <worktree> <m-dir> <seed-id> <property> 
# confirms: suite passes with mutant; demo passes without mutant; demo fails with mutant. Stores /verif/seeded/<seed-id>/
wt="$1"; m="$2"; id="$3"; prop="$4"
export CARGO_TARGET_DIR="$wt/target" CARGO_NET_OFFLINE=true
cd "$wt" || exit 2
git checkout -q -- . ; git clean -fdq -e out -e target
log=/tmp/validate_$id.log; : > $log
# 1. suite with mutant only
git apply "out/$m/patch.diff" || { echo "$id: patch does not apply"; exit 1; }
cargo test --workspace --offline >> $log 2>&1; suite_rc=$?
# 2. demo with mutant
git apply "out/$m/demo.diff" || { echo "$id: demo does not apply"; exit 1; }
cargo test --workspace --offline >> $log 2>&1; demo_mut_rc=$?
# 3. demo without mutant
git apply -R "out/$m/patch.diff"
cargo test --workspace --offline >> $log 2>&1; demo_clean_rc=$?
git checkout -q -- . ; git clean -fdq -e out -e target
echo "$id: suite_with_mutant_rc=$suite_rc demo_with_mutant_rc=$demo_mut_rc demo_clean_rc=$demo_clean_rc"
if [ $suite_rc -eq 0 ] && [ $demo_mut_rc -ne 0 ] && [ $demo_clean_rc -eq 0 ]; then
  d=/verif/seeded/$id; mkdir -p $d
  cp "out/$m/patch.diff" $d/patch.diff; cp "out/$m/demo.diff" $d/demo.diff; cp "out/$m/README.txt" $d/README.txt
  cat > $d/meta.json <<J
{"id": "$id", "property": "$prop", "confirmed": {"existing_suite_with_change": "pass", "demonstration_with_change": "fail", "demonstration_without_change": "pass"},
 "ran": ["cargo test --workspace --offline (change only)", "cargo test --workspace --offline (change + demo)", "cargo test --workspace --offline (demo only)"],
 "needs": "see README.txt", "source": "independent sub-agent given only the property text"}
J
  echo "$id: KEPT"
else
  echo "$id: REJECTED (see $log)"
fi
