"""C06 — header grammar and accessors.  Theorems: coq/Properties/C06.v."""
import re
import vlib, samegen
from vlib import hx, canon

LEVEL = "proof"
ASSUMPTIONS = [
    "the regex engine is replaced in the model by an explicit leftmost-first matcher; that replacement is "
    "validated here (differentially, and against Python's re as an independent third implementation), not proved",
    "String arguments are valid UTF-8 by typing; arbitrary bytes reach only Message::try_from((&[u8],&[u8],&[u8]))",
]

RX = re.compile(rb"^ZCZC-[A-Za-z]{3}-[A-Za-z]{3}(-[0-9]{6})+(\+[0-9]{4}-[0-9]{7}-.{3,8}-)")


# the event codes reserved for national use (NWSI 10-1712 / crate docs: EAN, NIC, NAT, NPT, NST)
NATIONAL_CODES = (b"EAN", b"NIC", b"NAT", b"NPT", b"NST")


# the four originator codes of 47 CFR 11.31 and the Environment Canada convention (ORG WXR, callsign beginning "EC/")
ORIGINATORS = {b"PEP": "PrimaryEntryPoint", b"CIV": "CivilAuthority", b"WXR": "NationalWeatherService", b"EAS": "BroadcastStation"}


def fields(text, ot, parity=0, voting=0):
    org, evt = text[5:8], text[9:12]
    locs = text[13:ot].split(b"-")
    tttt = text[ot + 1:ot + 5]
    jjj = text[ot + 6:ot + 13]
    call = text[ot + 14:len(text) - 1]
    nat = 1 if (locs == [b"000000"] and evt in NATIONAL_CODES) else 0
    orig = ORIGINATORS.get(org, "Unknown")
    if orig == "NationalWeatherService" and call.startswith(b"EC/"):
        orig = "EnvironmentCanada"
    return "%s %d %d org=%s evt=%s locs=%s dur=%d:%d iss=%d:%d:%d call=%s nat=%d orig=%s" % (
        hx(text), parity, voting, hx(org), hx(evt), ",".join(hx(l) for l in locs),
        int(tttt[:2]), int(tttt[2:]), int(jjj[:3]), int(jjj[3:5]), int(jjj[5:7]), hx(call), nat, hx(orig.encode()))


def oracle_hdr(s, errs=None, counts=None):
    """Expected canonical answer for header construction from bytes s (valid UTF-8)."""
    if any(b >= 128 for b in s):
        return "err A"
    m = RX.match(s)
    if not m:
        return "err M"
    text = s[:m.end(2)]
    parity = sum(e for e, _ in zip(errs or b"", text))
    voting = sum(1 for c, _ in zip(counts or b"", text) if c >= 3)
    return "ok " + fields(text, m.start(2), parity, voting)


def oracle_msg(s, errs=None, counts=None, is_bytes=False):
    if is_bytes:
        try:
            s.decode("utf-8")
        except UnicodeDecodeError:
            return "err A"
    if s.startswith(b"ZCZC-"):
        r = oracle_hdr(s, errs, counts)
        return "som " + r[3:] if r.startswith("ok ") else r
    if s.startswith(b"NN"):
        return "eom"
    return "err U"


MULTI = [b"\xc3\xa9", b"\xe2\x82\xac", b"\xf0\x9f\x98\x80"]


def one_edit_neighbourhood(seed):
    out = []
    n = len(seed)
    alph = [bytes([c]) for c in range(128)] + MULTI
    for i in range(n):
        out.append(seed[:i] + seed[i + 1:])
        for a in alph:
            out.append(seed[:i] + a + seed[i + 1:])
    for i in range(n + 1):
        for a in alph:
            out.append(seed[:i] + a + seed[i:])
    return out


def random_utf8(rng, n):
    out = b""
    for _ in range(n):
        k = rng.below(10)
        if k < 7:
            out += bytes([rng.below(128)])
        elif k == 7:
            out += chr(rng.range(0x80, 0x7FF)).encode()
        elif k == 8:
            cp = rng.range(0x800, 0xFFFF)
            if 0xD800 <= cp <= 0xDFFF:
                cp = 0x20AC
            out += chr(cp).encode()
        else:
            out += chr(rng.range(0x10000, 0x10FFFF)).encode()
    return out


def run(ctx):
    quick = ctx.quick
    rng = ctx.rng.fork("C06")
    cases = []   # (line, expected, kind)
    dist = {}

    def add(kind, line, exp):
        cases.append((line, exp, kind))
        dist[kind] = dist.get(kind, 0) + 1

    any_ascii = bytes(c for c in range(128))
    # 1. grammar-generated headers with assorted trailing bytes / callsign alphabets
    for _ in range(3000 if quick else 60000):
        trailing = rng.choice([b"", b"-", b"x-", b"garbage", b"\n", b"-------", b"A-B-C-D-"]) if rng.chance(1, 2) else \
            bytes(rng.choice(any_ascii) for _ in range(rng.below(12)))
        chars = rng.choice([samegen.CALL_CHARS, any_ascii, b"-/AB", b"\nAB-"])
        nloc = rng.choice([None, None, 31, 32, 40, 1])
        h = samegen.gen_header(rng, nloc=nloc, call_chars=chars, trailing=trailing)
        if rng.chance(1, 8):
            # national-activation shapes: location 000000, national / non-national events
            evt = rng.choice([b"EAN", b"NIC", b"NAT", b"NPT", b"NST", b"RWT", b"TOR", b"EAn"])
            h = h[:9] + evt + b"-000000" + (h[h.index(b"+"):] if rng.chance(3, 4) else b"-000000" + h[h.index(b"+"):])
        add("grammar", "hdr " + hx(h), oracle_hdr(h))
        add("grammar-msg", "msgstr " + hx(h), oracle_msg(h))
    # 2. complete one-edit neighbourhoods of seed headers
    nseeds = 3 if quick else 40
    for k in range(nseeds):
        seed = samegen.gen_header(rng, nloc=rng.choice([1, 2, 3]), calllen=rng.range(3, 8),
                                  trailing=rng.choice([b"", b"-", b"xy-"]))
        for s in one_edit_neighbourhood(seed):
            add("one-edit", "hdr " + hx(s), oracle_hdr(s))
    # 3. sampled 2-3 edit neighbourhoods
    for _ in range(4000 if quick else 200000):
        seed = samegen.gen_header(rng, nloc=rng.choice([1, 2, 5]))
        s = samegen.mutate(rng, seed, rng.range(2, 3), alphabet=list(range(128)))
        add("multi-edit", "msgstr " + hx(s), oracle_msg(s))
    # 4. unstructured valid UTF-8, incl. prefixes of interest
    for _ in range(3000 if quick else 100000):
        pre = rng.choice([b"", b"ZCZC-", b"NN", b"NNNN", b"ZCZC", b"N", b"ZCZC-WXR-RWT-012345+0015-0011122-"])
        s = pre + random_utf8(rng, rng.below(30))
        add("utf8-str", "msgstr " + hx(s), oracle_msg(s))
        add("utf8-hdr", "hdr " + hx(s), oracle_hdr(s))
    # 5. arbitrary bytes through the three-slice constructor, with counters
    for _ in range(4000 if quick else 100000):
        k = rng.below(4)
        if k == 0:
            s = rng.bytes(rng.below(40))
        elif k == 1:
            s = samegen.gen_header(rng, trailing=rng.bytes(rng.below(5)))
        elif k == 2:
            s = rng.choice([b"NN", b"ZCZC-", b"NNNN"]) + rng.bytes(rng.below(10))
        else:
            s = samegen.mutate(rng, samegen.gen_header(rng), 1)
        ln = rng.choice([len(s), len(s), rng.below(len(s) + 5)])
        errs = bytes(rng.below(10) for _ in range(ln))
        counts = bytes(rng.range(1, 3) for _ in range(rng.choice([len(s), ln])))
        add("bytes", "msgbytes %s %s %s" % (hx(s), hx(errs), hx(counts)), oracle_msg(s, errs, counts, True))
        add("utf8-validity", "utf8 " + hx(s), "1" if _valid(s) else "0")

    # corpus first
    lines = [c[0] for c in cases]
    model = vlib.run_lines_parallel(vlib.MODELRUN, lines)
    impl = vlib.run_lines_parallel(vlib.IMPLRUN, lines)
    mism = 0
    accepted = set()
    samples = []
    for (line, exp, kind), mo, im in zip(cases, model, impl):
        mo, im = canon(mo), canon(im)
        if mo != im:
            mism += 1
            ctx.violation("correspondence", "model and implementation differ on: " + line[:160],
                          {"input": line, "model": mo, "impl": im})
        if im != exp:
            what = "PANIC in constructor/accessor" if "PANIC" in im else "result differs from the SAME grammar"
            ctx.violation("property", "%s: %s -> %s (grammar says %s)" % (what, line[:120], im[:120], exp[:120]),
                          {"input": line, "impl": im, "model": mo, "expected_by_grammar": exp})
        if im.startswith("ok ") or im.startswith("som "):
            accepted.add(line)
        if len(samples) < 5 and kind in ("grammar", "one-edit", "bytes") and len(line) % 7 == 0:
            samples.append({"input": line[:300], "impl": im[:300]})
    ctx.coverage.update({
        "evaluations": len(lines),
        "distinct_nontrivial": len(accepted),
        "rule": "strings: grammar-generated headers (1..40 locations, callsign 3..8 over several alphabets, trailing "
                "bytes), the complete 1-edit neighbourhood (delete / substitute / insert x 128 ASCII + 3 multi-byte "
                "UTF-8) of %d seed headers, sampled 2-3-edit neighbourhoods, unstructured UTF-8, arbitrary bytes with "
                "counters. Non-trivial = distinct request that the implementation accepts as a header." % nseeds,
        "samples": samples,
        "input_kinds": dist,
        "model_impl_mismatches": mism,
        "one_edit_seeds": nseeds,
    })


def _valid(s):
    try:
        s.decode("utf-8")
        return True
    except UnicodeDecodeError:
        return False


def replay(payload):
    line = payload["input"]
    mo = vlib.run_lines(vlib.MODELRUN, [line])[0]
    im = vlib.run_lines(vlib.IMPLRUN, [line])[0]
    print("input:", line)
    print("model:", mo)
    print("impl :", im)
    print("expected by grammar:", payload.get("expected_by_grammar"))
    return 0 if canon(mo) == canon(im) == payload.get("expected_by_grammar", canon(im)) else 1
