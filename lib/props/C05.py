"""C05 — each transmission reported once, in order; repeats suppressed only in-window.  Theorems: coq/Properties/C05.v."""
import vlib, asmlib, rxlib, samegen, txscen, txoracle
from props import C02 as base


def audio_repeats(ctx, rng, n):
    """the same header transmitted three times through the REAL receiver (so that the assembler's clock is the squelch's symbol
    counter, not the harness's): the second transmission inside the duplicate window of the first report (suppressed), the third
    beginning more than 12 s after that report (reported again).  Tick-trace replay through the model + the property's count."""
    cases = []
    for j in range(n):
        rate = rng.choice([8000, 11025] if j % 3 else [22050])
        H = samegen.gen_header(rng, nloc=rng.choice([1, 2]))
        tx = rxlib.Tx(rng, H=H, rate=rate, impaired=False)
        hdr3 = ",".join("B%s,S%.2f" % (rxlib.burst_hex(H), g) for g in (1.0, 1.0))
        hdr3 = "B%s,S1.00,B%s,S1.00,B%s" % ((rxlib.burst_hex(H),) * 3)
        gap1 = 1.5 + rng.below(20) / 10.0          # second transmission well inside the window
        gap2 = 14.0 - gap1 + rng.below(30) / 10.0  # third transmission begins > 12 s after the first report
        script = "S0.30,%s,S%.2f,%s,S%.2f,%s,S3.00" % (hdr3, gap1, hdr3, gap2, hdr3)
        cases.append((tx, H, tx.line(script=script)))
    res = rxlib.run_rx([c[2] for c in cases])
    ok = 0
    for (tx, H, line), r in zip(cases, res):
        if r.get("error"):
            ctx.violation("harness-failure", r["error"][:200], {"input": line}); continue
        if r["model"] != r["impl"]:
            ctx.violation("correspondence", "receiver model replay differs from the implementation's events (repeated transmissions)",
                          {"input": line, "model": (r["model"] or "")[:2500], "impl": r["impl"][:2500]})
        ev = rxlib.parse_events(r["impl"])
        soms = [e for e in ev if e["kind"] == "som"]
        if len(soms) != 2 or any(e["text"] != H for e in soms):
            ctx.violation("property", "the same header transmitted three times (second inside the 10.86 s window of the first report, third "
                          "beginning more than 12 s after it) gave %d StartOfMessage report(s), expected 2 (first and third)" % len(soms),
                          {"input": line, "events": r["impl"][:3000]})
        else:
            ok += 1
    return ok

LEVEL = "proof"
ASSUMPTIONS = [
    "transport-level histories with idle polling at every symbol tick (as the receiver does while the link is idle)",
    "known findings (known_findings.json): F1 (a following header displaces a pending one), F8 (second EOM from stale history)",
]


def run(ctx):
    quick = ctx.quick
    rng = ctx.rng.fork("C05")
    wit = asmlib.run_witnesses(ctx, ['normal', 'F1', 'F8'])
    ctx.coverage["coq_witness_histories_on_impl"] = wit
    scs = (txscen.single_transmissions(rng, 200 if quick else 3000) + txscen.follow_on(rng, 200 if quick else 3000)
           + txscen.repeats(rng, 80 if quick else 1000) + txscen.repeats_with_lone_burst(rng, 20 if quick else 300) + txscen.stale_history(rng, 40 if quick else 400)
           + txscen.many_repeats(rng, 20 if quick else 100))
    mism, fam, nontriv, samples = base.run_family(ctx, "C05", txoracle.check_c05, scs, rng)
    ctx.coverage["reuse_after_reset_same_messages"] = rxlib.reset_reuse(ctx, rng.fork("reset"), 3 if quick else 20, lambda t: t.startswith("TM"), True, "messages")
    ctx.coverage["audio_repeat_scenarios_ok"] = audio_repeats(ctx, rng.fork("audio"), 3 if quick else 24)
    ctx.coverage.update({
        "evaluations": len(scs), "distinct_nontrivial": nontriv,
        "rule": "burst-arrival histories over 1..2 transmissions (header A, header B, trailer): every mask, pauses 0.95/1.0/1.05 s, "
                "inter-transmission gaps 1 s .. > 11 s, lengths 37..252, idle polled at every symbol; repeats inside/outside the "
                "duplicate window; stale-history; many repeats. Non-trivial = at least one message reported.",
        "samples": samples, "families": fam, "model_impl_mismatches": mism,
        "traces_validated_against_impl": len(scs) - mism,
    })


replay = base.replay
