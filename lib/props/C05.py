"""C05 — each transmission reported once, in order; repeats suppressed only in-window.  Theorems: coq/Properties/C05.v."""
import vlib, asmlib, txscen, txoracle
from props import C02 as base

LEVEL = "proof"
ASSUMPTIONS = [
    "transport-level histories with idle polling at every symbol tick (as the receiver does while the link is idle)",
    "known findings (known_findings.json): F1 (a following header displaces a pending one), F8 (second EOM from stale history)",
]


def run(ctx):
    quick = ctx.quick
    rng = ctx.rng.fork("C05")
    wit = asmlib.run_witnesses(ctx, ['normal', 'F1', 'F8'])
    ctx.coverage["coq_witness_histories_on_impl"] = wit
    scs = (txscen.single_transmissions(rng, 200 if quick else 3000) + txscen.follow_on(rng, 200 if quick else 3000)
           + txscen.repeats(rng, 80 if quick else 1000) + txscen.stale_history(rng, 40 if quick else 400)
           + txscen.many_repeats(rng, 20 if quick else 100))
    mism, fam, nontriv, samples = base.run_family(ctx, "C05", txoracle.check_c05, scs, rng)
    ctx.coverage.update({
        "evaluations": len(scs), "distinct_nontrivial": nontriv,
        "rule": "burst-arrival histories over 1..2 transmissions (header A, header B, trailer): every mask, pauses 0.95/1.0/1.05 s, "
                "inter-transmission gaps 1 s .. > 11 s, lengths 37..252, idle polled at every symbol; repeats inside/outside the "
                "duplicate window; stale-history; many repeats. Non-trivial = at least one message reported.",
        "samples": samples, "families": fam, "model_impl_mismatches": mism,
        "traces_validated_against_impl": len(scs) - mism,
    })


replay = base.replay
