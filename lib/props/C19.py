"""C19 — a misbehaving child never costs a message.  Theorems: coq/Properties/C19.v.
Tie: every assignment of a child behaviour {exit 0 at once, exit 1 at once, close stdin then linger, read partially then exit,
slow reader, killed by signal, non-zero exit after reading} to the messages of recordings with 1..3 messages, and the
whole-run variants {missing executable, non-executable file}: samedec's stdout must equal the run without a child (== the
extracted App model's o_stdout == the library's decode), the exit status must be 0 and the run must finish (wall-clock bound)."""
import itertools, os, tempfile
import vlib, sdlib

LEVEL = "proof"
WANT_SAMEDEC = True
ASSUMPTIONS = [
    "the theorem: on the model the spawn oracle (and, a fortiori, what the child does with its input and how it exits, which are "
    "not inputs of the model because the code discards them) cannot change the printed messages; that the real process "
    "machinery honours this (EPIPE ignored, wait() errors logged only) is exercised on the built binary, not proved",
    "a child that neither reads nor exits blocks samedec on a full pipe; the property only speaks of children that have exited",
]
BEHAVIOURS = ["exit0", "exit1", "closestdin", "partial", "slow", "killed", "exit3late"]


def run(ctx):
    rng = ctx.rng.fork("C19")
    q = ctx.quick
    nrec = 3 if q else 24
    runs, ok, dist, samples, nontriv = 0, 0, {}, [], 0
    with tempfile.TemporaryDirectory(prefix="c19_") as td:
        faulty = os.path.join(td, "faulty.sh")
        sdlib.write_script(faulty, sdlib.FAULTY)
        noexec = os.path.join(td, "noexec.sh")
        with open(noexec, "w") as f:
            f.write("#!/bin/sh\ncat >/dev/null\n")
        os.chmod(noexec, 0o644)
        for i in range(nrec):
            ntx = [2, 1, 3][i % 3]
            # every fourth recording: two headers and no trailer at all, cut at the last burst (the second header is still held by
            # the assembler when the input ends, while the first child is being fed)
            eof_pending = (i % 4 == 1)
            if eof_pending:
                ntx = 2
            rec, desc = sdlib.make_recording(rng, td, "r%d" % i, ntx=ntx, back_to_back=(i % 2 == 1) or eof_pending,
                                             close_cut=(i % 3 == 0) or eof_pending,
                                             lossy=False, rate=rng.choice([8000, 11025, 22050]), header_only_last=eof_pending)
            base = sdlib.run_samedec(rec)
            lib = rec.library_lines()
            if base["rc"] != 0 or base["stdout"] != lib:
                ctx.violation("property", "samedec without a child printed %s, the library decodes %s" % (base["stdout"], lib), {"input": rec.line})
                continue
            nsom = sum(1 for l in lib if l.startswith("ZCZC"))
            if nsom:
                nontriv += 1
            assigns = list(itertools.product(BEHAVIOURS, repeat=min(nsom, 2))) if nsom else [()]
            if q:
                assigns = [assigns[(7 * i + 5 * k) % len(assigns)] for k in range(6)] + [tuple(["slow"] * min(nsom, 2))]
            elif nsom >= 2 and len(assigns) > 25:
                assigns = [assigns[k] for k in sorted(set((11 * k + i) % len(assigns) for k in range(25)))]
            variants = [("faults:" + ",".join(a), [faulty], {"FAULTS": ",".join(a)}, "-") for a in assigns]
            variants += [("missing-executable", [os.path.join(td, "no-such-program")], {}, "0" * 8),
                         ("non-executable-file", [noexec], {}, "0" * 8)]
            for name, child, env, bits in variants:
                rdir = os.path.join(td, "rec%d_%d" % (i, runs))
                os.mkdir(rdir)
                e = dict(env); e["REC_DIR"] = rdir
                mlines, _, raw = rec.model(0, 1, bits)
                if mlines != lib:
                    ctx.violation("correspondence", "App model with spawn oracle %s prints %s, library %s" % (bits, mlines, lib), {"input": rec.line})
                r = sdlib.run_samedec(rec, child=child, env=e, timeout=90)
                runs += 1
                for b in (name.split(":")[1].split(",") if ":" in name else [name]):
                    dist[b] = dist.get(b, 0) + 1
                if r["hang"] or r["rc"] != 0 or r["stdout"] != lib:
                    ctx.violation("property", "with child behaviour [%s] samedec printed %s (exit %s%s); without a child it prints %s [%s]"
                                  % (name, [l[:20] for l in r["stdout"]], r["rc"], ", did not finish in 90 s" if r["hang"] else "",
                                     [l[:20] for l in lib], desc),
                                  {"input": rec.line, "cmd": r["cmd"], "faults": name, "stderr": r["stderr"][-400:]})
                else:
                    ok += 1
            if len(samples) < 2:
                samples.append({"recording": desc, "variants": [v[0] for v in variants][:6]})
    ctx.coverage.update({
        "evaluations": runs, "distinct_nontrivial": ok if nontriv else 0,
        "rule": "recordings with 1..3 messages (header directly after header, close-cut) x assignments of the seven per-invocation child "
                "behaviours to the first two StartOfMessages (all 49 thorough, a sample quick) + missing executable + non-executable file; "
                "non-trivial = the recording contains a StartOfMessage, so a child is spawned and misbehaves.",
        "samples": samples, "runs_identical_to_no_child": ok, "behaviours": dist, "recordings": nrec,
        "traces_validated_against_impl": ok,
    })


def replay(payload):
    print("re-synthesize with:", payload.get("input")); print("then:", payload.get("cmd"), "FAULTS from", payload.get("faults")); return 0
