"""C03 — bit voting.  Theorems: coq/Properties/C03.v.  Correspondence: combiner hooks."""
import vlib, samegen
from vlib import hx, canon

LEVEL = "proof"
ASSUMPTIONS = [
    "model of combiner.rs / message.rs is hand-written; tied to the code by the runs counted here",
    "bytes are modelled as N < 256; lengths as nat; ArrayVec capacity 268 = Generated.MAX_MESSAGE_LENGTH",
]


# ---------------- independent oracle, written from the property text ----------------
def popcount(x):
    return bin(x).count("1")


def oracle_vote3(a, b, c):
    v = (a & b) | (b & c) | (a & c)
    e = popcount(((a ^ b) | (b ^ c)) & 0xFF)
    return v, e


def oracle_vote2(a, b):
    return (a if a == b else 0), popcount(a ^ b)


def fnv_block3(a):
    h = 0xcbf29ce484222325
    M = 0xFFFFFFFFFFFFFFFF
    for b in range(256):
        for c in range(256):
            v, e = oracle_vote3(a, b, c)
            h = ((h ^ v) * 0x100000001b3) & M
            h = ((h ^ e) * 0x100000001b3) & M
    return "%016x" % h


def fnv_all2():
    h = 0xcbf29ce484222325
    M = 0xFFFFFFFFFFFFFFFF
    for a in range(256):
        for b in range(256):
            v, e = oracle_vote2(a, b)
            h = ((h ^ v) * 0x100000001b3) & M
            h = ((h ^ e) * 0x100000001b3) & M
    return "%016x" % h


def parse_result(r):
    """'som <hex> <parity> <voting> ...' -> dict"""
    t = r.split(" ")
    if t[0] == "som":
        return {"kind": "som", "text": bytes.fromhex(t[1]) if t[1] != "-" else b"", "parity": int(t[2]),
                "voting": int(t[3])}
    return {"kind": t[0], "raw": r}


def oracle_backed(bursts, res):
    """General oracle: any header is backed by >= 2 bursts on every byte; counters as stated."""
    if res["kind"] != "som":
        return None
    bs = bursts[:3]
    text = res["text"]
    if not text:
        return "empty header text"
    parity = voting = 0
    for i, c in enumerate(text):
        col = [b[i] for b in bs if i < len(b)]
        m = [x & 0x7F for x in col]
        if len(col) < 2:
            return "byte %d backed by %d burst(s)" % (i, len(col))
        if len(col) == 2:
            if not (m[0] == c and m[1] == c):
                return "byte %d: two bursts disagree (%r) but %d reported" % (i, m, c)
            parity += popcount(m[0] ^ m[1])
        else:
            v, e = oracle_vote3(*m)
            if v != c:
                return "byte %d: majority %d, reported %d" % (i, v, c)
            parity += e
            voting += 1
        parity += 1 if any(x & 0x80 for x in col) else 0
    if parity != res["parity"]:
        return "parity %d reported, %d expected" % (res["parity"], parity)
    if voting != res["voting"]:
        return "voting %d reported, %d expected" % (res["voting"], voting)
    return None


def oracle_two_good(H, X, res):
    if res["kind"] != "som":
        return "two intact copies but result is %s" % res.get("raw", res["kind"])
    if res["text"] != H:
        return "decoded text differs from the header carried by two bursts"
    n = min(len(H), len(X))
    par = sum(popcount(H[i] ^ (X[i] & 0x7F)) + (1 if X[i] & 0x80 else 0) for i in range(n))
    if res["parity"] != par:
        return "parity %d, expected %d" % (res["parity"], par)
    if res["voting"] != n:
        return "voting %d, expected %d" % (res["voting"], n)
    return None


# ---------------- case generation ----------------
def third_burst(rng, H):
    k = rng.below(12)
    if k == 0:
        return "random", rng.bytes(rng.range(0, 400))
    if k == 1:
        return "one-edit", samegen.mutate(rng, H, 1)
    if k == 2:
        return "other-header", samegen.gen_header(rng)
    if k == 3:
        return "nnnn", b"NNNN" + rng.bytes(rng.below(4))
    if k == 4:
        return "empty", b""
    if k == 5:
        return "bitflips", samegen.flip_bits(rng, H, rng.range(1, 40))
    if k == 6:
        return "msb-set", bytes((c | 0x80) if rng.chance(1, 3) else c for c in H)
    if k == 7:
        return "truncated", H[:rng.below(len(H) + 1)]
    if k == 8:
        return "extended", H + bytes(rng.choice(samegen.ALLOWED) for _ in range(rng.range(1, 150)))
    if k == 9:
        return "identical", H
    if k == 10:
        return "shifted", rng.bytes(rng.range(1, 3)) + H
    return "multi-edit", samegen.mutate(rng, H, rng.range(2, 6))


def gen_cases(ctx, n_two_good, n_pairs, n_free):
    rng = ctx.rng.fork("C03-bursts")
    cases = []      # (line, tag, meta)
    dist = {}
    for _ in range(n_two_good):
        H = samegen.gen_header(rng)
        kind, X = third_burst(rng, H)
        dist[kind] = dist.get(kind, 0) + 1
        for pos in range(3):
            bs = [H, H]
            bs.insert(pos, X)
            cases.append(("combine " + " ".join(hx(b) for b in bs), "two-good", (H, X, bs)))
    for _ in range(n_pairs):
        H = samegen.gen_header(rng)
        kind, X = third_burst(rng, H)
        bs = [H, X] if rng.chance(1, 2) else [X, H]
        cases.append(("combine " + " ".join(hx(b) for b in bs), "pair", (None, None, bs)))
        cases.append(("combine " + hx(X), "single", (None, None, [X])))
        cases.append(("combine " + hx(H), "single", (None, None, [H])))
    for _ in range(n_free):
        nb = rng.range(0, 4)
        base = samegen.gen_header(rng) if rng.chance(2, 3) else b"NNNN"
        bs = []
        for _ in range(nb):
            r = rng.below(5)
            # r == 4: the parity (eighth) bit set on a scattering of bytes -- in SEVERAL bursts of the same set, so that some byte
            # positions have it set in two or three bursts at once
            bs.append(base if r == 0 else samegen.flip_bits(rng, base, rng.range(0, 6)) if r == 1
                      else samegen.mutate(rng, base, rng.range(1, 3)) if r == 2 else rng.bytes(rng.range(0, 300)) if r == 3
                      else bytes((c | 0x80) if rng.chance(1, 3) else c for c in base))
        cases.append(("combine " + " ".join(hx(b) for b in bs) if bs else "combine", "free", (None, None, bs)))
        cases.append(("estimate " + " ".join(hx(b) for b in bs) if bs else "estimate", "estimate", (None, None, bs)))
    return cases, dist


def run(ctx):
    quick = ctx.quick
    lines, tags = [], []
    # --- per-byte voters: exhaustive by block hashes ---
    blocks = list(range(256)) if not quick else sorted(set(
        [0, 0x7F, 0x80, 0xAB, 0xFF] + [ctx.rng.below(256) for _ in range(11)]))
    lines.append("vote2all"); tags.append(("vote2all", None))
    for a in blocks:
        lines.append("vote3block %d" % a); tags.append(("vote3block", a))
    # a sample of individual triples (also the written-out samples of the evidence)
    r2 = ctx.rng.fork("C03-triples")
    for _ in range(2000 if quick else 20000):
        a, b, c = r2.below(256), r2.below(256), r2.below(256)
        lines.append("vote3 %d %d %d" % (a, b, c)); tags.append(("vote3", (a, b, c)))
        lines.append("vote2 %d %d" % (a, b)); tags.append(("vote2", (a, b)))
    for a in range(256):
        lines.append("allowed %d" % a); tags.append(("allowed", a))
    cases, dist = gen_cases(ctx, 1000 if quick else 30000, 400 if quick else 10000, 600 if quick else 15000)
    for (l, t, m) in cases:
        lines.append(l); tags.append((t, m))

    model = vlib.run_lines_parallel(vlib.MODELRUN, lines)
    impl = vlib.run_lines_parallel(vlib.IMPLRUN, lines)

    mism = 0
    distinct = set()
    samples = []
    # expected block hashes from the independent oracle (parallel)
    from concurrent.futures import ProcessPoolExecutor
    with ProcessPoolExecutor(vlib.NCPU) as ex:
        exp_blocks = dict(zip(blocks, ex.map(fnv_block3, blocks)))
    exp_all2 = fnv_all2()
    for i, (line, (tag, meta)) in enumerate(zip(lines, tags)):
        mo, im = canon(model[i]), canon(impl[i])
        if mo != im:
            mism += 1
            ctx.violation("correspondence", "model and implementation differ on: " + line[:200],
                          {"input": line, "model": mo, "impl": im})
        bad = None
        if tag == "vote2all":
            if im != exp_all2:
                bad = "2-of-2 vote differs from equality/popcount spec somewhere in the 2^16 pairs"
        elif tag == "vote3block":
            if im != exp_blocks[meta]:
                bad = "2-of-3 vote differs from bitwise majority for some triple with first byte %d" % meta
                # pin down a concrete triple
                for b in range(256):
                    for c in range(256):
                        got = vlib.run_lines(vlib.IMPLRUN, ["vote3 %d %d %d" % (meta, b, c)])[0]
                        if got != "%d %d" % oracle_vote3(meta, b, c):
                            bad += "; e.g. vote3 %d %d %d -> %s" % (meta, b, c, got)
                            line = "vote3 %d %d %d" % (meta, b, c)
                            break
                    else:
                        continue
                    break
        elif tag == "vote3":
            if im != "%d %d" % oracle_vote3(*meta):
                bad = "vote3%r = %s, majority/disagreement spec says %r" % (meta, im, oracle_vote3(*meta))
        elif tag == "vote2":
            if im != "%d %d" % oracle_vote2(*meta):
                bad = "vote2%r = %s, spec says %r" % (meta, im, oracle_vote2(*meta))
        elif tag == "allowed":
            if im != ("1" if samegen.is_allowed(meta) else "0"):
                bad = "allowed-character set differs at byte %d" % meta
        elif tag in ("two-good", "pair", "single", "free"):
            H, X, bs = meta
            res = parse_result(im)
            if tag == "two-good":
                bad = oracle_two_good(H, X, res)
            if bad is None:
                bad = oracle_backed(bs, res)
            if bad is None and tag == "single" and res["kind"] not in ("none", "eom"):
                bad = "a single burst produced %s" % res["kind"]
            if res["kind"] != "none":
                distinct.add(line)
            if len(samples) < 6 and tag == "two-good" and i % 97 == 0:
                samples.append({"input": line[:400], "impl": im[:200]})
        if bad:
            ctx.violation("property", bad, {"input": line, "impl": im, "model": mo,
                                            "replay_cmd": "./check C03 --replay <this file>"})
    samples.append({"input": "vote3block 171", "impl": impl[lines.index("vote3block 171")] if "vote3block 171" in lines else None})
    ctx.coverage.update({
        "evaluations": len(lines) + 65536 + 65536 * len(blocks),
        "distinct_nontrivial": len(distinct) + 65536 * len(blocks),
        "rule": "per-byte voters: every pair (2^16) and every triple with first byte in the listed blocks "
                "(65536 each), compared model/impl/oracle through FNV hashes; burst level: two copies of a "
                "grammar-generated header + a third burst of the listed kinds in all 3 positions, pairs, singles, "
                "free burst sets. Non-trivial = distinct request whose result is not 'none' (burst level) or a "
                "distinct byte triple (voter level).",
        "samples": samples,
        "exhaustive": not quick,
        "vote3_first_bytes_swept": len(blocks),
        "third_burst_kinds": dist,
        "burst_level_requests": len(cases),
        "model_impl_mismatches": mism,
    })


def replay(payload):
    line = payload["input"]
    mo = vlib.run_lines(vlib.MODELRUN, [line])[0]
    im = vlib.run_lines(vlib.IMPLRUN, [line])[0]
    print("input:", line)
    print("model:", mo)
    print("impl :", im)
    print("recorded impl:", payload.get("impl"))
    return 0 if canon(mo) == canon(im) else 1
