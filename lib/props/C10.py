"""C10 — arbitrary audio never crashes or wedges the receiver.  Theorems: coq/Properties/C10.v.
Discrete half proved (reachable link-layer invariant, recovery after 32 silent symbols, bounded bursts, no reachable
panic site in the discrete part, the assembler forgets).  Float half sampled on the real receiver: hostile prefixes
composed from a generator library, then a gap >= 1 s, then a clean transmission: (i) no panic (catch_unwind),
(ii) Debug state stays finite, (iii) the transmission after the gap is decoded exactly, (iv) tick-trace replay through
the extracted model equals the implementation's events."""
import vlib, rxlib, samegen
from vlib import hx

LEVEL = "proof"
ASSUMPTIONS = [
    "partial: panics and stuck states inside float code (NaN propagation, AGC gain, timing clock) are outside the model; "
    "sampled with hostile audio in or around the PCM range (|x| <= 2^20); non-finite samples are outside the domain",
    "the hostile prefix never contains two identical valid header bursts (those would legitimately establish a message of "
    "their own); messages reported before the gap are only required to be justified (C04 oracle)",
]


def f12_known(ctx, picked, late, H):
    """known finding F12: the hostile prefix contains two (or more) complete, different header bursts -- valid SAME traffic -- and the
    first burst of the clean transmission is voted with them bit by bit; the only thing wrong is ONE extra StartOfMessage, with a text
    none of the bursts carried, before the right one.  Class decided on the prefix; shape: [chimera, H] then one EndOfMessage."""
    if picked.count("one-header-burst") < 2:
        return False
    soms = [e for e in late if e["kind"] == "som"]
    eoms = [e for e in late if e["kind"] == "eom"]
    if not (len(soms) == 2 and soms[0]["text"] != H and soms[1]["text"] == H and len(eoms) == 1):
        return False
    kd = [k for k in vlib.load_known_findings("C10") if k.get("class") == "F12" and k.get("kind") == "known"]
    if not kd:
        return False
    if kd[0]["line"] not in ctx.known:
        ctx.known.append(kd[0]["line"])
    return True


def f12_witness(ctx):
    """the three bursts of the finding through combine() on model and implementation: three different headers vote to a fourth text"""
    kd = [k for k in vlib.load_known_findings("C10") if k.get("class") == "F12" and k.get("kind") == "known"]
    if not kd:
        return None
    line = kd[0]["witness_input"]
    mo = vlib.run_lines(vlib.MODELRUN, [line])[0]; im = vlib.run_lines(vlib.IMPLRUN, [line])[0]
    if mo != im:
        ctx.violation("correspondence", "combine: model and implementation differ on the F12 witness", {"input": line, "model": mo[:300], "impl": im[:300]})
    hit = im.startswith("som " + vlib.hx(kd[0]["witness_text"].encode("latin1")))
    if hit and kd[0]["line"] not in ctx.known:
        ctx.known.append(kd[0]["line"])
    return hit


def dc_window(rate):
    """the DC blocker's window in samples, as the receiver computes it in binary32: max(1, (0.38f32 * (rate as f32 / 520.83f32)) as usize)"""
    import struct
    f32 = lambda x: struct.unpack("f", struct.pack("f", x))[0]
    return max(1, int(f32(f32(0.38) * f32(f32(rate) / f32(520.83)))))


def staircase(rng, rate, secs=None):
    """a slowly rising near-DC level: the sample value steps up by a fraction of the running sum's ulp once per DC-blocker window, so
    every update of the running sum rounds the same way (finding F13: before the repair the rounding residue was never aged off)"""
    start, step = rng.choice([(700000, 0.5625), (700000, 0.5625), (-700000, -0.5625), (32000, 0.03125)])
    if secs is None:
        secs = rng.choice([3.0, 6.0, 10.0])
    return "R%.1f:%g:%g:%d" % (secs, start, step, dc_window(rate))


def hostile_segments(rng, quick, rate=22050):
    dur = lambda lo, hi: lo + rng.below(int((hi - lo) * 100) + 1) / 100.0
    newH = lambda: samegen.gen_header(rng, nloc=rng.choice([1, 2, 5]))   # a fresh header each time: never two identical valid bursts
    big = rng.choice([32767, 100000, 1 << 20])
    kinds = {
        "silence": lambda: "Z%.2f" % dur(0.05, 2.0),
        "square-clipping": lambda: "Q%.2f:%d:%d" % (dur(0.1, 1.5), big, rng.choice([50, 520, 1041, 1822, 2083, 5000])),
        "dc-step": lambda: "D%d,S%.2f,D%d,S%.2f,D0" % (rng.choice([-30000, 30000, 1 << 19]), dur(0.05, 0.5), rng.choice([-20000, 0, 25000]), dur(0.05, 0.5)),
        "noise-loud": lambda: "N%.2f:%d" % (dur(0.2, 2.0), rng.choice([3000, 20000, 200000])),
        "noise-quiet": lambda: "N%.2f:%d" % (dur(0.2, 2.0), rng.choice([1, 10, 100])),
        "tone-mark": lambda: "T%.2f:2083.3:%d" % (dur(0.2, 2.0), rng.choice([300, 20000])),
        "tone-space": lambda: "T%.2f:1562.5:%d" % (dur(0.2, 2.0), rng.choice([300, 20000])),
        "endless-preamble": lambda: "B" + hx(b"\xab" * rng.choice([60, 200, 400 if not quick else 120])),
        "carrier-valid-chars": lambda: "F%.2f:%d" % (dur(0.5, 3.0 if not quick else 1.5), rng.choice([1000, 20000])),
        "truncated-header": lambda: "B" + hx(b"\xab" * 16 + (lambda h: h[: rng.range(3, len(h) - 1)])(newH())),
        "one-header-burst": lambda: "B" + hx(b"\xab" * 16 + newH()),
        "garbage-burst": lambda: "B" + hx(b"\xab" * rng.range(2, 16) + rng.bytes(rng.range(5, 120))),
        "no-prefix-frame": lambda: "B" + hx(b"\xab" * 16 + bytes(rng.choice(samegen.ALLOWED) for _ in range(rng.range(10, 60)))),
        "preamble-then-cut": lambda: "B" + hx(b"\xab" * rng.range(1, 15)),
        "lone-trailer": lambda: "B" + hx(b"\xab" * 16 + b"NNNN"),
        "level-jump": lambda: "A%d,B%s,A%d" % (rng.choice([30, 32000]), hx(b"\xab" * 16 + rng.bytes(20)), 0),
        "shifted-preamble-tail": lambda: "B" + hx(b"\xab" * 16 + b"ZCZC-" + b"WWW\xd7"),
        # a burst the framer accepts (prefix within its bit-error budget) whose data breaks off after one, two or three bytes: the
        # combiner is handed an estimate of that length.  Header prefix only: a damaged NNNN burst next to the library's lone trailer
        # is legitimate evidence for an EndOfMessage, which the first burst of the clean transmission then completes (a false alarm
        # of the first version of this generator)
        "prefix-then-invalid": lambda: "B" + hx(b"\xab" * 16 + (lambda pre, k: pre[:k] + bytes([pre[k] ^ 0x40]) + pre[k + 1:])(b"ZCZC", rng.range(1, 3))
                                               + newH()[4:rng.range(4, 30)]),
        "dc-staircase": lambda: staircase(rng, rate),
        "short-bursts-pair": lambda: (lambda b: "B%s,S1.00,B%s" % (b, b))(hx(b"\xab" * 16 + b"ZCZC" + bytes([rng.choice([0x03, 0x80, 0x1f])]))),
    }
    names = sorted(kinds)
    n = rng.choice([1, 2, 3, 5])
    picked = [rng.choice(names) for _ in range(n)]
    segs = []
    for k in picked:
        segs.append(kinds[k]())
        if rng.chance(1, 2):
            segs.append("S%.2f" % dur(0.0, 0.6))
    return picked, segs


def run(ctx):
    rng = ctx.rng.fork("C10")
    q = ctx.quick
    n = 48 if q else 1500
    cases = []
    for j in range(n):
        rate = rng.choice(rxlib.STD_RATES + [96000]) if rng.chance(3, 4) else rng.range(8000, 96000)
        tx = rxlib.Tx(rng, rate=rate, H=samegen.gen_header(rng, nloc=rng.choice([1, 2, 8])), gap_ht=rng.choice([1.0, 2.5]), lead=0.0)
        picked, segs = hostile_segments(rng, q, rate)
        gap = 1.0 + rng.below(101) / 100.0
        amp_restore = "A%g" % tx.amp
        script = ",".join(["S0.1"] + segs + ["D%g" % tx.dc, amp_restore, "S%.2f" % gap] + tx.segments()[1:])
        cases.append((picked, tx, gap, script))
    # the DC blocker must forget (F13): a long near-DC staircase, a gap, then a WEAK clean transmission, at every standard rate
    drng = rng.fork("dc-staircase")
    for j, rate in enumerate((rxlib.STD_RATES + [96000]) * (1 if q else 4)):
        tx = rxlib.Tx(drng, rate=rate, H=samegen.gen_header(drng, nloc=1), gap_ht=1.0, lead=0.0)
        tx.amp = drng.choice([100, 100, 300, 1000]); tx.dc = 0
        seg = staircase(drng, rate, secs=(10.0 if q else drng.choice([10.0, 20.0, 30.0])))
        gap = drng.choice([1.0, 1.5, 5.0])
        script = ",".join(["S0.1", seg, "D0", "A%g" % tx.amp, "S%.2f" % gap] + tx.segments()[1:])
        cases.append((["dc-staircase"], tx, gap, script))
    # estimates of one, two and three bytes: two bursts 1 s apart whose prefix is accepted by the framer (one bit error) but whose
    # k-th character is not a SAME character, so that the voted estimate breaks off after k bytes (k = 1: a single "Z")
    srng = rng.fork("short-estimates")
    for j in range(6 if q else 36):
        k = 1 + j % 3
        pre = b"ZCZC"        # header prefix only: a damaged NNNN burst is legitimate evidence for an EndOfMessage (see prefix-then-invalid)
        data = pre[:k] + bytes([pre[k] ^ 0x40]) + pre[k + 1:] + bytes(srng.choice(samegen.ALLOWED) for _ in range(srng.range(0, 12)))
        b = hx(b"\xab" * 16 + data)
        tx = rxlib.Tx(srng, rate=srng.choice(rxlib.STD_RATES), H=samegen.gen_header(srng, nloc=1), gap_ht=1.0, lead=0.0, impaired=(j % 2 == 1))
        gap = 1.0 + srng.below(101) / 100.0
        script = ",".join(["S0.1", "B" + b, "S1.00", "B" + b, "S%.2f" % gap] + tx.segments()[1:])
        cases.append((["short-estimate-%d" % k], tx, gap, script))
    lines = [tx.line(script=script) for (_, tx, _, script) in cases]
    res = rxlib.run_rx(lines)
    ctx.coverage["known_finding_F9_witness_reproduces"] = rxlib.run_f9_witness(ctx, "C10")
    ok, panics, mism, dist, nontriv, samples = 0, 0, 0, {}, 0, []
    for (picked, tx, gap, script), line, r in zip(cases, lines, res):
        for k in picked:
            dist[k] = dist.get(k, 0) + 1
        if r.get("error"):
            if "PANIC" in r["error"]:
                panics += 1
                ctx.violation("property", "processing panics on hostile audio %s followed by a transmission" % picked, {"input": line})
            else:
                ctx.violation("harness-failure", r["error"][:200], {"input": line})
            continue
        if r["model"] != r["impl"]:
            mism += 1
            ctx.violation("correspondence", "receiver model replay differs from the implementation's events after hostile audio %s" % picked,
                          {"input": line, "model": (r["model"] or "")[:2000], "impl": r["impl"][:2000]})
        if r["extras"].get("finite") != "1":
            ctx.violation("property", "receiver state contains NaN/inf after hostile audio %s" % picked, {"input": line})
        ev = rxlib.parse_events(r["impl"])
        # events of the clean transmission: those after the hostile part + gap (the first header burst alone lasts > 0.3 s)
        total = int(r["extras"].get("samples", "0"))
        txlen = sum((float(s[1:]) if s[0] == "S" else ((len(s) - 1) // 2 * 8 / (520.83 * (1 + tx.baud)))) for s in tx.segments()[1:]) * tx.rate
        start = total - txlen - 0.5 * tx.rate
        late = [e for e in ev if e["t"] is not None and e["t"] >= start]
        early = [e for e in ev if e["t"] is not None and e["t"] < start]
        c = rxlib.oracle_exact(late, tx.H)
        j = rxlib.oracle_justified(ev, tx.rate)
        if any(e["kind"] in ("burst", "som", "eom") for e in early):
            nontriv += 1
        if rxlib.is_f9(c):
            kd = [k for k in vlib.load_known_findings("C10") if k.get("class") == "F9"]
            if kd and kd[0]["line"] not in ctx.known:
                ctx.known.append(kd[0]["line"])
            ok += 1
        elif c and rxlib.f11_known(ctx, "C10", tx, ev, [tx.H, b"NNNN"]):
            ok += 1
        elif c and f12_known(ctx, picked, late, tx.H):
            ok += 1
        elif c:
            ctx.violation("property", "after hostile audio %s and a %.2f s gap the clean transmission is not decoded exactly: %s [%s]"
                          % (picked, gap, c, tx.describe()), {"input": line, "events": r["impl"][-3000:], "hostile": picked})
        elif j:
            ctx.violation("property", j, {"input": line, "events": r["impl"][:3000]})
        else:
            ok += 1
        if len(samples) < 3:
            samples.append({"hostile": picked, "gap": gap, "rate": tx.rate, "script_head": script[:160]})
    ctx.coverage["known_finding_F11_witness_reproduces"] = rxlib.run_f11_witness(ctx, "C10")
    # the two float components whose state outlives a burst, bit for bit against the Flocq model the C10 theorems are about
    import fdlib
    ctx.coverage.update(fdlib.correspondence(ctx, rng.fork("float-components"), 64 if q else 1600, 64 if q else 1600, "c10"))
    ctx.coverage.update(fdlib.tl_correspondence(ctx, rng.fork("timing-loop"), 48 if q else 1200, "c10"))
    ctx.coverage.update(fdlib.frontend_correspondence(ctx, rng.fork("front-end"), 48 if q else 800, "c10"))
    ctx.coverage["known_finding_F12_witness_reproduces"] = f12_witness(ctx)
    ctx.coverage.update({
        "evaluations": len(cases), "distinct_nontrivial": nontriv,
        "rule": "1..5 hostile segments drawn from the library (listed under 'hostile_kinds'), optional short silences between them, "
                "then a gap of 1..2 s, then a clean six-burst transmission with impairments, at standard and random rates; non-trivial = "
                "the hostile part itself made the receiver report at least one burst or message.",
        "samples": samples, "hostile_kinds": dist, "decoded_exactly_after_gap": ok, "panics": panics,
        "model_impl_mismatches": mism, "traces_validated_against_impl": len(cases) - mism,
    })


def replay(payload):
    if payload.get("input", "").startswith(("dcbrun", "agcrun", "tlrun")):
        import fdlib
        return fdlib.replay(payload["input"])
    r = rxlib.run_rx([payload["input"]])[0]
    print("impl :", (r.get("impl") or r.get("error"))[-3000:])
    return 0 if r.get("model") == r.get("impl") else 1
