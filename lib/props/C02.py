"""C02 — two of three bursts suffice; a single header burst never does.  Theorems: coq/Properties/C02.v."""
import vlib, rxlib, asmlib, txscen, txoracle, samegen

LEVEL = "proof"
ASSUMPTIONS = [
    "transport-level histories: idle() polled at every symbol while the link is idle, polling stops 32..72 symbols into each "
    "preamble (sync latency), bursts end with 0..3 junk characters; these timing premises are validated on real audio runs "
    "(receiver level part), not proved against the DSP",
    "known findings (known_findings.json): F2 (EOM lost while a re-accepted SOM is pending), F8 (second EOM from stale history)",
]


def classify(sc):
    if sc.known == "F8?":
        sc.known = "F8" if asmlib.classify_f8(sc) else None


def run_family(ctx, pid, check, scs, rng):
    for sc in scs:
        sc.script, sc.ends = asmlib.build_script(rng, sc.bursts, tail=asmlib.HOLD + 60)
        classify(sc)
    model, impl = asmlib.run_scripts([s.script for s in scs])
    known_defs = {k["class"]: k for k in vlib.load_known_findings(pid) if k.get("kind") == "known"}
    seen_known = set()
    mism, fam, nontriv, samples = 0, {}, 0, []
    for sc, mo, im in zip(scs, model, impl):
        fam[sc.family] = fam.get(sc.family, 0) + 1
        if mo != im:
            mism += 1
            ctx.violation("correspondence", "assembler model and implementation differ on a %s history %s" % (sc.family, sc.meta),
                          {"input": "asm " + sc.script, "model": mo[-1500:], "impl": im[-1500:], "meta": sc.meta})
        rep = asmlib.reports(sc.script, im)
        if rep:
            nontriv += 1
        c = check(sc, rep)
        if c:
            if sc.known and sc.known in known_defs:
                seen_known.add(sc.known)
            else:
                ctx.violation("property", "%s [%s %s]" % (c, sc.family, sc.meta),
                              {"input": "asm " + sc.script, "meta": sc.meta, "reports": [(t, r[:60]) for t, r in rep],
                               "bursts": [(e, b.kind, len(b.data)) for e, b in sc.ends]})
        if len(samples) < 4 and rep and len(samples) < 4 and sc.family != (samples[-1]["family"] if samples else None):
            samples.append({"family": sc.family, "meta": sc.meta, "bursts": [(e, b.kind) for e, b in sc.ends], "reports": [(t, r[:40]) for t, r in rep]})
    for k in sorted(seen_known):
        ctx.known.append(known_defs[k]["line"])
    return mism, fam, nontriv, samples


def receiver_level(ctx, rng, n, pid):
    """the same masks through real audio; returns (cases, mismatches, latency stats)"""
    cases = []
    for j in range(n):
        mask = [0b111111, 0b111011, 0b111101, 0b111110, 0b110111, 0b101111, 0b011111, 0b001111, 0b010111, 0b100111,
                0b111001, 0b111010, 0b111100, rng.below(64)][j % 14]
        G = rng.choice([1.0, 2.5, 2.5, 6.0, 12.0])
        tx = rxlib.Tx(rng, mask=mask, rate=rng.choice(rxlib.STD_RATES + [rng.range(8000, 48000)]), gap_ht=G)
        cases.append(tx)
    res = rxlib.run_rx([t.line() for t in cases])
    known_defs = {k["class"]: k for k in vlib.load_known_findings(pid) if k.get("kind") == "known"}
    mism = 0
    lat_som, lat_eom = [], []
    sent_total, lost_total = [0], [0]
    for tx, r in zip(cases, res):
        line = tx.line()
        if r.get("error"):
            ctx.violation("harness-failure", r["error"][:200], {"input": line}); continue
        if r["model"] != r["impl"]:
            mism += 1
            ctx.violation("correspondence", "receiver model replay differs from the implementation's events",
                          {"input": line, "model": r["model"][:2000], "impl": r["impl"][:2000]})
        ev = rxlib.parse_events(r["impl"])
        hb, tb = bin(tx.mask & 7).count("1"), bin(tx.mask >> 3).count("1")
        # DSP premise: the property is about the bursts that are heard.  Once in about a thousand bursts the demodulator misses a
        # burst that is in the audio (no sync, or no frame found); the expectations below are then those for the bursts the receiver
        # did report.  The miss rate is measured and bounded (a receiver that loses bursts wholesale is not excused).
        rh = sum(1 for e in ev if e["kind"] == "burst" and e["data"][:len(tx.H)] == tx.H)
        rt = sum(1 for e in ev if e["kind"] == "burst" and e["data"][:4] == b"NNNN")
        sent_total[0] += hb + tb
        dsp_lost = (rh < hb) or (rt < tb)
        if dsp_lost:
            lost_total[0] += (hb - min(rh, hb)) + (tb - min(rt, tb))
            hb, tb = min(rh, hb), min(rt, tb)
        fast_ok = (hb == 0) or tx.gap_ht > 11.5
        want_eom = tb >= 2 or (tb == 1 and fast_ok)
        f2 = tx.gap_ht < 1.31 and hb == 2 and (tx.mask >> 2) & 1 and ((tx.mask >> 3) & 3) == 0b11 and not dsp_lost
        c = rxlib.oracle_exact(ev, tx.H, want_som=hb >= 2, want_eom=want_eom) if (tb != 1 or fast_ok) else \
            rxlib.oracle_exact([e for e in ev if e["kind"] != "eom"], tx.H, want_som=hb >= 2, want_eom=False)
        if rxlib.is_f9(c):
            if "F9" in known_defs:
                ctx.known.append(known_defs["F9"]["line"]) if known_defs["F9"]["line"] not in ctx.known else None
            elif pid != "C08":       # C08 is about delay, not about the text
                ctx.violation("property", c[len(rxlib.F9_MARK):].strip(), {"input": line, "tx": tx.describe()})
        elif c and rxlib.f11_known(ctx, pid, tx, ev, [tx.H, b"NNNN"]):
            pass
        elif c:
            if f2 and "F2" in known_defs:
                ctx.known.append(known_defs["F2"]["line"]) if known_defs["F2"]["line"] not in ctx.known else None
            else:
                ctx.violation("property", "%s [audio, %s]" % (c, tx.describe()), {"input": line, "events": r["impl"][:3000], "tx": tx.describe()})
        # latencies (C08): in samples from the end of the burst to the message event
        if dsp_lost:
            continue        # no latency measurement when the set of heard bursts is not the set that was sent
        ends = tx.burst_end_samples()
        soms = [e for e in ev if e["kind"] == "som"]
        eoms = [e for e in ev if e["kind"] == "eom"]
        hdr_present = [i for i in range(3) if (tx.mask >> i) & 1]
        if soms and hdr_present and (tx.gap_ht >= 2.0 or tb == 0):
            lat_som.append(((soms[0]["t"] - ends[max(hdr_present)]) / tx.rate, tx))
        tr_present = [i for i in range(3, 6) if (tx.mask >> i) & 1]
        if eoms and tr_present and not f2:
            est = tr_present[0] if (fast_ok or len(tr_present) == 1) else tr_present[1]
            lat_eom.append(((eoms[0]["t"] - ends[est]) / tx.rate, tx))
    ctx.coverage["bursts_in_audio"] = sent_total[0]
    ctx.coverage["bursts_missed_by_the_demodulator"] = lost_total[0]
    if sent_total[0] >= 100 and lost_total[0] > 0.02 * sent_total[0]:
        ctx.violation("property", "the demodulator missed %d of %d bursts that were in the audio (clean line conditions): far more than the "
                      "characterised rate of about 1 in 1000" % (lost_total[0], sent_total[0]), {"lost": lost_total[0], "sent": sent_total[0]})
    return cases, mism, lat_som, lat_eom


def run(ctx):
    quick = ctx.quick
    rng = ctx.rng.fork("C02")
    wit = asmlib.run_witnesses(ctx, ['normal', 'F2', 'F8'])
    ctx.coverage["coq_witness_histories_on_impl"] = wit
    masks = list(range(64))
    scs = txscen.single_transmissions(rng, 64 * (6 if quick else 60), masks=masks) + txscen.stale_history(rng, 30 if quick else 300)
    # two intact header bursts and one ARBITRARILY CORRUPTED one, in every position, with every trailer mask (long headers included:
    # a burst that takes longer than the 1.31 s hold lets a pending decode error expire while the next burst is still on the air)
    scs += txscen.single_transmissions(rng, 24 * (5 if quick else 50), masks=[h | (t << 3) for h in (3, 5, 6) for t in range(8)],
                                       corrupt_always=True, family="one-corrupted-header-burst")
    mism, fam, nontriv, samples = run_family(ctx, "C02", txoracle.check_c02, scs, rng)
    cases, mism2, lat_som, lat_eom = receiver_level(ctx, rng, 28 if quick else 420, "C02")
    # Fast EOM at the very end of a recording: one trailer burst on a quiet channel (a new receiver, or long after a header), the
    # audio cut at its last sample, then the documented flush()
    fl, fm = [], []
    for j in range(3 if quick else 24):
        rate = rng.choice(rxlib.STD_RATES)
        tx = rxlib.Tx(rng, rate=rate, impaired=(j % 2 == 1))
        pre = "" if j % 3 else ",".join("B%s,S1.00" % rxlib.burst_hex(tx.H) for _ in range(3)) + ",S12.00,"
        fl.append(tx.line(script="S0.30," + pre + "B" + rxlib.burst_hex(b"NNNN"), extra="flush=3")); fm.append(bool(pre))
    lone_ok = 0
    for line, had_hdr, r in zip(fl, fm, rxlib.run_rx(fl, check_model=False)):
        if r.get("error"):
            ctx.violation("harness-failure", r["error"][:200], {"input": line}); continue
        n_eom = sum(1 for e in rxlib.parse_events(r["impl"]) if e["kind"] == "eom") + r["extras"].get("flushed", "-").split("/").count("eom")
        if n_eom != 1:
            ctx.violation("property", "a single trailer burst on a quiet channel at the very end of the recording (then flush()): %d EndOfMessage "
                          "reported, expected exactly 1" % n_eom, {"input": line, "events": r["impl"][:1500], "flushed": r["extras"].get("flushed")})
        else:
            lone_ok += 1
    ctx.coverage["lone_trailer_at_end_of_input_ok"] = lone_ok
    ctx.coverage["reuse_after_reset_same_messages"] = rxlib.reset_reuse(ctx, rng.fork("reset"), 3 if quick else 20, lambda t: t.startswith("TM"), True, "messages")
    ctx.coverage["known_finding_F9_witness_reproduces"] = rxlib.run_f9_witness(ctx, "C02")
    ctx.coverage["known_finding_F11_witness_reproduces"] = rxlib.run_f11_witness(ctx, "C02")
    insts = [i for i in asmlib.theorem_instances(rng.fork("instances"), 180 if quick else 6000) if i[0].startswith("C02")]
    inst_ok, inst_names = asmlib.check_instances(ctx, insts)
    ctx.coverage["theorem_instances_confirmed_on_impl"] = inst_ok
    ctx.coverage["theorem_instances"] = inst_names
    ctx.coverage.update({
        "evaluations": len(scs) + len(cases) + len(insts), "distinct_nontrivial": nontriv + len(cases),
        "rule": "transport level: every presence mask (64) x header->trailer gap classes x pauses x header lengths x optional "
                "arbitrary corruption of the one missing header burst, idle polled at every symbol; stale-history family; "
                "receiver level: masks through real audio at standard/random rates with impairments. Non-trivial = at least "
                "one message was reported.",
        "samples": samples, "families": fam, "receiver_level_runs": len(cases),
        "model_impl_mismatches": mism + mism2,
        "traces_validated_against_impl": len(scs) + len(cases) - mism - mism2,
    })


def replay(payload):
    line = payload["input"]
    if line.startswith("rxaudio"):
        r = rxlib.run_rx([line])[0]
        print("impl :", r["impl"][:3000]); print("model:", (r["model"] or "")[:3000])
        return 0 if r["model"] == r["impl"] else 1
    mo = vlib.run_lines(vlib.MODELRUN, [line])[0]; im = vlib.run_lines(vlib.IMPLRUN, [line])[0]
    print("reports impl :", asmlib.reports(line[4:], im)); print("reports model:", asmlib.reports(line[4:], mo))
    print("meta:", payload.get("meta"))
    return 0 if mo == im else 1
