"""C08 — bounded reporting delay.  Theorems: coq/Properties/C08.v."""
import vlib, asmlib, txscen, txoracle
from props import C02 as base

LEVEL = "proof"
ASSUMPTIONS = [
    "symbol-time bounds are proved on the assembler model; the sample-time bound (about 1.5 s at every rate) = symbol bound x "
    "tick period + burst-termination latency is DSP behaviour, measured here on every audio case (max and distribution in "
    "the evidence), not proved",
    "known findings (known_findings.json): F3 (repeats keep extending the hold), F2 (EOM never reported)",
]


def check(sc, rep):
    c = txoracle.check_c08(sc, rep)
    if c:
        return c
    # an EndOfMessage established by two trailer bursts must be reported when the second of them ends
    if sc.family == "single":
        tr = [e for (e, b) in sc.ends if b.kind.startswith("N")]
        eoms = [t for (t, r) in rep if r == "eom"]
        if len(tr) >= 2 and not sc.meta.get("corrupt"):
            if not eoms:
                return "an EndOfMessage established by two trailer bursts was never reported"
            if eoms[0] > tr[1]:
                return "EndOfMessage reported %d symbols after the end of the burst that established it" % (eoms[0] - tr[1])
    return None


def during_alert(ctx, rng, n):
    """a second, different header heard while the first alert is still open (no trailer was received, the 135 s timer is armed):
    its StartOfMessage must be released within about 1.5 s of its last burst like any other, and an EndOfMessage that follows at once"""
    import samegen, rxlib
    cases = []
    for j in range(n):
        rate = rng.choice([8000, 11025, 22050])
        A = samegen.gen_header(rng, nloc=rng.choice([1, 2])); B = samegen.gen_header(rng, nloc=rng.choice([1, 3]))
        tx = rxlib.Tx(rng, H=A, rate=rate, impaired=False)
        durA, durB = (16 + len(A)) * 8 / 520.83, (16 + len(B)) * 8 / 520.83
        gap = 3.0 + rng.below(40) / 10.0
        script = "S0.30,B%s,S1.00,B%s,S1.00,B%s,S%.2f,B%s,S1.00,B%s,S1.00,B%s,S4.00" % (
            (rxlib.burst_hex(A),) * 3 + (gap,) + (rxlib.burst_hex(B),) * 3)
        t_end_b3 = 0.30 + 3 * durA + 2.0 + gap + 3 * durB + 2.0
        cases.append((tx, A, B, t_end_b3, tx.line(script=script)))
    ok = 0
    for (tx, A, B, t_end, line), r in zip(cases, rxlib.run_rx([c[4] for c in cases])):
        if r.get("error"):
            ctx.violation("harness-failure", r["error"][:200], {"input": line}); continue
        if r["model"] != r["impl"]:
            ctx.violation("correspondence", "receiver model replay differs from the implementation's events (second header during an alert)",
                          {"input": line, "model": (r["model"] or "")[:2500], "impl": r["impl"][:2500]})
        soms = [e for e in rxlib.parse_events(r["impl"]) if e["kind"] == "som"]
        b = [e for e in soms if e["text"] == B]
        if [e["text"] for e in soms] != [A, B]:
            ctx.violation("property", "header B heard during the open alert of header A: %d StartOfMessage report(s) %s, expected A then B"
                          % (len(soms), [e["text"][:16] for e in soms]), {"input": line, "events": r["impl"][:3000]})
        elif b[0]["t"] / tx.rate > t_end + 1.6:
            ctx.violation("property", "StartOfMessage of a header heard during an open alert reported %.2f s after the end of its last burst "
                          "(bound about 1.5 s)" % (b[0]["t"] / tx.rate - t_end), {"input": line, "events": r["impl"][:3000]})
        else:
            ok += 1
    return ok


def run(ctx):
    quick = ctx.quick
    rng = ctx.rng.fork("C08")
    wit = asmlib.run_witnesses(ctx, ['normal', 'F3', 'F2'])
    ctx.coverage["coq_witness_histories_on_impl"] = wit
    scs = (txscen.single_transmissions(rng, 300 if quick else 4000) + txscen.many_repeats(rng, 30 if quick else 200)
           + txscen.follow_on(rng, 60 if quick else 600))
    mism, fam, nontriv, samples = base.run_family(ctx, "C08", check, scs, rng)
    cases, mism2, lat_som, lat_eom = base.receiver_level(ctx, rng, 42 if quick else 600, "C08")
    import rxlib as _rx
    ctx.coverage["reuse_after_reset_same_message_times"] = _rx.reset_reuse(ctx, rng.fork("reset"), 3 if quick else 20, lambda t: t.startswith("TM"), False, "message events (with timestamps)")
    ctx.coverage["known_finding_F11_witness_reproduces"] = _rx.run_f11_witness(ctx, "C08")
    ctx.coverage["second_header_during_alert_ok"] = during_alert(ctx, rng.fork("alert"), 4 if quick else 40)
    for (lat, tx) in lat_som:
        if lat > 1.5:
            ctx.violation("property", "StartOfMessage reported %.3f s after the end of its last burst on a quiet channel (bound about 1.5 s) [%s]"
                          % (lat, tx.describe()), {"input": tx.line(), "tx": tx.describe()})
    for (lat, tx) in lat_eom:
        if lat > 0.25:
            ctx.violation("property", "EndOfMessage reported %.3f s after the end of the burst that established it [%s]"
                          % (lat, tx.describe()), {"input": tx.line(), "tx": tx.describe()})
    insts = [i for i in asmlib.theorem_instances(rng.fork("instances"), 180 if quick else 6000) if i[0].startswith("C08")]
    inst_ok, inst_names = asmlib.check_instances(ctx, insts)
    ctx.coverage["theorem_instances_confirmed_on_impl"] = inst_ok
    ctx.coverage["theorem_instances"] = inst_names
    def stats(v):
        v = sorted(x for x, _ in v)
        return {"n": len(v), "min": round(v[0], 4), "median": round(v[len(v) // 2], 4), "max": round(v[-1], 4)} if v else {"n": 0}
    ctx.coverage.update({
        "evaluations": len(scs) + len(cases), "distinct_nontrivial": nontriv + len(lat_som) + len(lat_eom),
        "rule": "transport level: single transmissions (all masks/gaps), many repeats, follow-on transmissions with idle polled at "
                "every symbol: report times against burst ends; receiver level: latency in input samples from the last sample of "
                "the establishing burst to the message event. Non-trivial = a message was reported / a latency was measured.",
        "samples": samples, "families": fam,
        "som_latency_seconds": stats(lat_som), "eom_latency_seconds": stats(lat_eom),
        "receiver_level_runs": len(cases), "model_impl_mismatches": mism + mism2,
        "traces_validated_against_impl": len(scs) + len(cases) - mism - mism2,
    })


replay = base.replay
