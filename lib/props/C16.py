"""C16 — event / significance / originator decoding.  Theorems: coq/Properties/C16.v."""
import itertools
import vlib
from vlib import hx, canon

LEVEL = "proof"
ASSUMPTIONS = [
    "phf lookup is modelled as an association list over the dumped entries; strum derives are modelled by the dumped "
    "strings; str::get's char-boundary rule is re-stated (boundary2)",
    "the specification table (coq/Spec/CodeTable.v, 61 codes) and the one below are transcribed by hand from the crate "
    "documentation / NWSI 10-1712",
]

# independent, hand-transcribed table used as the oracle: code -> (significance number, display text)
SIG = {"T": 0, "S": 1, "E": 2, "A": 3, "W": 4}
SIGNAME = {0: "Test", 1: "Statement", 2: "Emergency", 3: "Watch", 4: "Warning", 5: "Warning"}
PUBLISHED = {
 "ADR": (1, "Administrative Message"), "AVA": (3, "Avalanche Watch"), "AVW": (4, "Avalanche Warning"),
 "BLU": (4, "Blue Alert"), "BZW": (4, "Blizzard Warning"), "CAE": (2, "Child Abduction Emergency"),
 "CDW": (4, "Civil Danger Warning"), "CEM": (4, "Civil Emergency Message"), "CFA": (3, "Coastal Flood Watch"),
 "CFW": (4, "Coastal Flood Warning"), "DMO": (4, "Practice/Demo Warning"), "DSW": (4, "Dust Storm Warning"),
 "EAN": (4, "National Emergency Message"), "EQW": (4, "Earthquake Warning"), "EVI": (4, "Evacuation Immediate"),
 "EWW": (4, "Extreme Wind Warning"), "FFA": (3, "Flash Flood Watch"), "FFS": (1, "Flash Flood Statement"),
 "FFW": (4, "Flash Flood Warning"), "FLA": (3, "Flood Watch"), "FLS": (1, "Flood Statement"), "FLW": (4, "Flood Warning"),
 "FRW": (4, "Fire Warning"), "FSW": (4, "Flash Freeze Warning"), "FZW": (4, "Freeze Warning"),
 "HLS": (1, "Hurricane Local Statement"), "HMW": (4, "Hazardous Materials Warning"), "HUA": (3, "Hurricane Watch"),
 "HUW": (4, "Hurricane Warning"), "HWA": (3, "High Wind Watch"), "HWW": (4, "High Wind Warning"),
 "LAE": (2, "Local Area Emergency"), "LEW": (4, "Law Enforcement Warning"), "NAT": (0, "National Audible Test"),
 "NIC": (1, "National Information Center"), "NMN": (1, "Network Message Notification"),
 "NPT": (0, "National Periodic Test"), "NST": (0, "National Silent Test"), "NUW": (4, "Nuclear Power Plant Warning"),
 "RHW": (4, "Radiological Hazard Warning"), "RMT": (0, "Required Monthly Test"), "RWT": (0, "Required Weekly Test"),
 "SMW": (4, "Special Marine Warning"), "SPS": (1, "Special Weather Statement"), "SPW": (4, "Shelter In Place Warning"),
 "SQW": (4, "Snow Squall Warning"), "SSA": (3, "Storm Surge Watch"), "SSW": (4, "Storm Surge Warning"),
 "SVA": (3, "Severe Thunderstorm Watch"), "SVR": (4, "Severe Thunderstorm Warning"), "SVS": (1, "Severe Weather Statement"),
 "TOA": (3, "Tornado Watch"), "TOE": (2, "911 Telephone Outage Emergency"), "TOR": (4, "Tornado Warning"),
 "TRA": (3, "Tropical Storm Watch"), "TRW": (4, "Tropical Storm Warning"), "TSA": (3, "Tsunami Watch"),
 "TSW": (4, "Tsunami Warning"), "VOW": (4, "Volcano Warning"), "WSA": (3, "Winter Storm Watch"),
 "WSW": (4, "Winter Storm Warning"),
}
NATIONAL = {"EAN", "NIC", "NAT", "NPT", "NST"}
TESTS = {"NAT", "NPT", "NST", "RMT", "RWT", "DMO"}
ORIG = {"PEP": "PrimaryEntryPoint", "CIV": "CivilAuthority", "WXR": "NationalWeatherService", "EAS": "BroadcastStation"}


def oracle_event(code_bytes, im):
    """Checks the property's claims on one implementation answer; returns a complaint or None."""
    t = im.split(" ")
    if len(t) != 7:
        return "malformed answer (panic?): " + im
    phen = bytes.fromhex(t[0]).decode()
    sig = int(t[1])
    disp = bytes.fromhex(t[2]).decode() if t[2] != "-" else ""
    is_test, is_nat, is_wx, unrec = (x == "1" for x in t[3:7])
    if "%" in disp or not disp:
        return "display string %r has an unexpanded placeholder or is empty" % disp
    try:
        code = code_bytes.decode("ascii")
    except UnicodeDecodeError:
        code = None
    if code in PUBLISHED:
        s, d = PUBLISHED[code]
        if sig != s:
            return "%s: significance %d, table says %d" % (code, sig, s)
        if disp != d:
            return "%s displays %r, table says %r" % (code, disp, d)
        if is_nat != (code in NATIONAL):
            return "%s: national flag %r" % (code, is_nat)
        if unrec:
            return "%s reported unrecognized" % code
    elif len(code_bytes) != 3:
        if phen != "Unrecognized" or sig != 5:
            return "code of length %d decodes to %s/%d" % (len(code_bytes), phen, sig)
    elif code is not None:
        want = SIG.get(code[2], 5)
        if sig != want and phen in ("Unrecognized",):
            return "unknown code %r: significance %d, last letter implies %d" % (code, sig, want)
        if phen == "Unrecognized" and sig != want:
            return "fallback significance wrong"
        if sig != want and code not in PUBLISHED:
            # a two-letter phenomenon match must also take the last-letter significance
            return "code %r: significance %d, last letter implies %d" % (code, sig, want)
        if not disp.endswith(SIGNAME[sig]) and phen == "Unrecognized":
            return "fallback display %r does not end with the significance" % disp
    if is_nat and is_wx:
        return "national and weather at once"
    if is_test != (sig == 0 or phen in ("NationalAudibleTest", "NationalPeriodicTest", "NationalSilentTest",
                                        "RequiredMonthlyTest", "RequiredWeeklyTest")):
        return "is_test inconsistent with significance/phenomenon"
    return None


def run(ctx):
    quick = ctx.quick
    rng = ctx.rng.fork("C16")
    lines, kinds = [], []
    firsts = list(range(128)) if not quick else sorted(set([65, 84, 83, 70, 72, 87, 0, 127] + [rng.below(128) for _ in range(8)]))
    for a in firsts:
        lines.append("eventblock %d" % a); kinds.append("block")
    # every published code and every string within one edit of a table key
    keys = sorted(PUBLISHED) + ["AV", "BZ", "CF", "DS", "EW", "FF", "FL", "FZ", "HU", "HW", "SM", "SQ", "SS", "SV", "TO", "TR", "TS", "WS"]
    alph = [bytes([c]) for c in list(range(32, 127))] + [b"\xc3\xa9", b"\xe2\x82\xac", b"\xf0\x9f\x98\x80", b"\x00", b"\n"]
    seen = set()
    def add(kind, s):
        if (kind, s) in seen:
            return
        seen.add((kind, s))
        lines.append("event " + hx(s)); kinds.append(kind)
    for k in keys:
        kb = k.encode()
        add("published" if k in PUBLISHED else "two-letter", kb)
        for i in range(len(kb) + 1):
            for a in alph:
                add("one-edit", kb[:i] + a + kb[i:])
                if i < len(kb):
                    add("one-edit", kb[:i] + a + kb[i + 1:])
            if i < len(kb):
                add("one-edit", kb[:i] + kb[i + 1:])
    # strings of length 0..4 over a 40-symbol alphabet with multi-byte UTF-8 (sampled in quick, complete in thorough)
    A40 = [bytes([c]) for c in b"ABEFLNORSTVWZ aetw019!-%"] + [b"\xc3\xa9", b"\xe2\x82\xac", b"\xf0\x9f\x98\x80", b"\xc2\xa0",
           b"\xe2\x80\x8b", b"\xf0\x9f\x8c\xaa", b"\xc3\x9f", b"\xe1\x88\xb4", b"\x7f", b"\x00", b"\t", b"\n", b"/", b"?", b"_", b"~"]
    A40 = A40[:40]
    if quick:
        for _ in range(30000):
            n = rng.range(0, 4)
            add("alphabet40", b"".join(rng.choice(A40) for _ in range(n)))
    else:
        for n in range(0, 5):
            for tup in itertools.product(A40, repeat=n):
                add("alphabet40", b"".join(tup))
    for _ in range(20000 if quick else 200000):
        add("random3", bytes(rng.range(32, 126) for _ in range(3)))
    # originators
    for o in list(ORIG) + ["", "WX", "WXRR", "wxr", "EnvironmentCanada", "Unknown", "XXX", "PEp"]:
        for c in ["EC/GC/CA", "KLOX/NWS", "EC/", "EC", "", "ec/x", "XEC/"]:
            lines.append("orig %s %s" % (hx(o.encode()), hx(c.encode()))); kinds.append("orig")
    for _ in range(3000 if quick else 50000):
        o = bytes(rng.range(65, 90) for _ in range(3))
        lines.append("orig %s %s" % (hx(o), hx(rng.choice([b"EC/XX", b"KXYZ", b"EC/"])))); kinds.append("orig")

    model = vlib.run_lines_parallel(vlib.MODELRUN, lines)
    impl = vlib.run_lines_parallel(vlib.IMPLRUN, lines)
    mism = 0; samples = []; nontriv = set(); dist = {}
    for line, k, mo, im in zip(lines, kinds, model, impl):
        dist[k] = dist.get(k, 0) + 1
        if mo != im:
            mism += 1
            ctx.violation("correspondence", "model and implementation differ on: " + line, {"input": line, "model": mo, "impl": im})
        bad = None
        if k == "orig":
            t = line.split(" ")
            o = bytes.fromhex(t[1]).decode() if t[1] != "-" else ""
            c = bytes.fromhex(t[2]).decode() if t[2] != "-" else ""
            got = bytes.fromhex(im).decode() if "PANIC" not in im else im
            if len(o) == 3:
                want = ORIG.get(o, "Unknown")
                if want == "NationalWeatherService" and c.startswith("EC/"):
                    want = "EnvironmentCanada"
                if got != want:
                    bad = "originator %r/%r decodes to %s, expected %s" % (o, c, got, want)
        elif k != "block":
            bad = oracle_event(bytes.fromhex(line.split(" ")[1]) if line.split(" ")[1] != "-" else b"", im)
            if not im.startswith(hx(b"Unrecognized")):
                nontriv.add(line)
        if bad:
            ctx.violation("property", bad, {"input": line, "impl": im, "model": mo})
        if len(samples) < 8 and k in ("published", "one-edit", "alphabet40", "orig") and len(line) % 3 == 0:
            samples.append({"input": line, "impl": im})
    ctx.coverage.update({
        "evaluations": len(lines) - len(firsts) + 16384 * len(firsts),
        "distinct_nontrivial": len(nontriv) + 16384 * len(firsts),
        "rule": "eventblock a = all 16384 ASCII strings a?? (distinct by construction; compared model/impl by hash of "
                "phenomenon+significance); individual strings: published codes, complete one-edit neighbourhood of every "
                "table key, length 0..4 over a 40-symbol alphabet incl. multi-byte UTF-8, random 3-char; originator pairs. "
                "Individual string is non-trivial when it does not decode to Unrecognized.",
        "samples": samples,
        "first_bytes_swept": len(firsts),
        "kinds": dist,
        "exhaustive": not quick,
        "model_impl_mismatches": mism,
    })


def replay(payload):
    line = payload["input"]
    mo = vlib.run_lines(vlib.MODELRUN, [line])[0]
    im = vlib.run_lines(vlib.IMPLRUN, [line])[0]
    print("input:", line); print("model:", mo); print("impl :", im)
    return 0 if mo == im else 1
