"""C07 — framing.  Theorems: coq/Properties/C07.v (byte level)."""
import vlib, rxlib, stategen, samegen
from vlib import hx

LEVEL = "proof"
ASSUMPTIONS = [
    "byte level proved for all byte streams and budgets; the 32-bit search word is modelled as its four bytes "
    "(validated against message_prefix_errors on random words)",
    "bit level (squelch alignment) is tied by differential execution of the squelch model and by receiver-level runs at "
    "all 16 half-symbol phases; the sync-word ambiguity sweep is not yet a theorem in this check",
    "zero padding of the search word is unreachable in the receiver (training forces four 0xAB after a re-sync: theorem "
    "C07_no_zero_padding_after_training); framer-only oracle scripts therefore start each session with >= 4 preamble bytes",
]


def dist(a, b):
    return sum(bin(x ^ y).count("1") for x, y in zip(a, b))


def ref_framer(pfx, inv, script):
    """Reference automaton written from the property text (no zero padding: windows of received bytes only)."""
    out = []
    state, win, count, msg, invalid = "idle", [], 0, [], 0
    def end():
        nonlocal state, msg
        if state == "read":
            r = "B" + hx(bytes(msg))
        else:
            r = "n"
        state = "idle"
        return r
    for tok in script.split(","):
        k, rest = tok[0], tok[1:]
        if k == "e":
            out.append(end()); continue
        b = int(rest, 16)
        res = None
        if k == "r":
            res = end()
            state, win, count = "search", [], 0
        if state == "idle":
            out.append("n"); continue
        if state == "search":
            win = (win + [b])[-4:]
            count += 1
            if len(win) == 4 and min(dist(win, b"ZCZC"), dist(win, b"NNNN")) <= pfx:
                state, msg, invalid = "read", list(win), 0
                cur = "r"
            elif count > 21:
                state = "idle"; cur = "n"
            else:
                cur = "s"
        else:
            if not samegen.is_allowed(b):
                invalid += 1
            if invalid > inv:
                cur = end()
            else:
                msg.append(b)
                cur = end() if len(msg) >= 252 else "r"
        if k == "r":
            out.append(res if res.startswith("B") else "s")
        else:
            out.append(cur)
    return ",".join(out) if out else "-"


def with_preamble(script):
    """make every session start with four preamble bytes (as the receiver does)"""
    toks = script.split(",")
    out = []
    for t in toks:
        if t[0] == "r":
            out += ["rab", "bab", "bab", "bab", "b" + t[1:]]
        else:
            out.append(t)
    return ",".join(out)


def run(ctx):
    quick = ctx.quick
    rng = ctx.rng.fork("C07")
    lines, kinds, exps = [], [], []
    # 1. exhaustive sequences over the reduced alphabet, end() appended; several budgets
    depth = 5 if quick else 6
    budgets = [(2, 5), (0, 0), (7, 8), (3, 1)] if quick else [(p, i) for p in (0, 2, 3, 7) for i in (0, 1, 5)]
    seqs = list(stategen.framer_exhaustive(depth))
    if quick:
        seqs = seqs[:: max(1, len(seqs) // 12000)]
    for (p, i) in budgets:
        for s in seqs:
            s2 = with_preamble(s)
            lines.append("framer %d %d %s" % (p, i, s2)); kinds.append("exhaustive"); exps.append(ref_framer(p, i, s2))
    # 2. long random streams, all budgets, restarts and end() anywhere
    for _ in range(3000 if quick else 60000):
        p, i = rng.below(8), rng.below(9)
        s = with_preamble(stategen.framer_random_script(rng))
        lines.append("framer %d %d %s" % (p, i, s)); kinds.append("random"); exps.append(ref_framer(p, i, s))
    # 3. raw streams without the preamble guarantee (model/impl only: zero-padding corner)
    for _ in range(1500 if quick else 20000):
        lines.append("framer %d %d %s" % (rng.below(8), rng.below(9), stategen.framer_random_script(rng, 60)))
        kinds.append("raw"); exps.append(None)
    # 4. u32 prefix distance vs the byte-wise formulation
    for _ in range(2000 if quick else 50000):
        w = rng.choice([0x5A435A43, 0x4E4E4E4E, rng.below(1 << 32)]) ^ (1 << rng.below(32) if rng.chance(1, 2) else 0)
        lines.append("prefixerr %d" % w); kinds.append("prefixerr")
        exps.append(str(min(bin(w ^ 0x5A435A43).count("1"), bin(w ^ 0x4E4E4E4E).count("1"))))
    # 5. squelch bit streams
    for _ in range(1500 if quick else 30000):
        lines.append("squelch %d %s" % (rng.below(8), stategen.squelch_random_script(rng))); kinds.append("squelch"); exps.append(None)
    model = vlib.run_lines_parallel(vlib.MODELRUN, lines)
    impl = vlib.run_lines_parallel(vlib.IMPLRUN, lines)
    mism, dist_k, nontriv, samples = 0, {}, set(), []
    for line, k, e, mo, im in zip(lines, kinds, exps, model, impl):
        dist_k[k] = dist_k.get(k, 0) + 1
        if mo != im:
            mism += 1
            ctx.violation("correspondence", "model and implementation differ (%s): %s" % (k, line[:150]),
                          {"input": line, "model": mo[:2000], "impl": im[:2000]})
        if e is not None and im != e:
            ctx.violation("property", "framer output differs from the framing rules of the property (%s): %s" % (k, line[:120]),
                          {"input": line, "impl": im[:2000], "expected_by_rules": e[:2000], "model": mo[:2000]})
        if "B" in im or "Y" in im:
            nontriv.add(line)
        if len(samples) < 4 and k in ("random", "squelch") and "B" in im + "Y":
            samples.append({"input": line[:200], "impl": im[:200]})
    # 6. receiver level: all 16 half-symbol phases x random lead-in bits; bursts must carry the transmitted bytes
    rx_lines, rx_meta = [], []
    nrx = 32 if quick else 480
    for j in range(nrx):
        H = samegen.gen_header(rng, nloc=rng.choice([1, 3, 8]))
        if j % 4 == 1:
            # data that contains the sync word at a non-byte phase (only possible while the sync is locked)
            H = H[:H.rindex(b"-", 0, len(H) - 1) + 1] + rng.choice([b"WWWW/FM", b"WWWWW", b"]]]]]/A", b"uuuuu  ", b"WWWWaWWW"]) + b"-"
        rate = rng.choice(rxlib.STD_RATES)
        tx = rxlib.Tx(rng, H=H, rate=rate, noise=False)
        tx.frac = (j % 16) / 16.0 * 2.0 % 1.0
        nlead = rng.range(0, 40)
        lead = rng.bytes(nlead)
        # the lead-in stands for arbitrary earlier audio, not for a second preamble: redraw it while any 32-bit window that
        # ends inside it (or within the first byte after it) is within 4 bit errors of the sync word -- such a lead-in makes the
        # squelch synchronise early and abandon the search just before the data, which is what a preamble is for, not a fault
        def _near_sync(bs):
            bits = [(b >> k) & 1 for b in bs + b"\xab" for k in range(8)]
            pat = [(0xAB >> (k % 8)) & 1 for k in range(32)]
            return any(sum(1 for k in range(32) if bits[e - 32 + k] != pat[k]) <= 4 for e in range(32, len(bits) + 1))
        while nlead >= 4 and _near_sync(lead):
            lead = rng.bytes(nlead)
        data = H if rng.chance(3, 4) else b"NNNN"
        phase_bits = j % 8
        # lead-in random bits (as FSK, no gap) then preamble + data; a sub-byte shift via a partial first byte
        script = "S0.2,B%s,S1.5" % hx(lead + b"\xab" * 16 + data)
        # one run in four with a demanding power squelch (open 0.60, close 0.35..0.55: carrier loss is declared early; thresholds
        # above about 0.8 make even a clean signal unreliable, which is not a framing matter): the last
        # received bytes, still in the squelch's 32-symbol delay line when the carrier stops, must not be lost
        extra = " sqopen=0.60 sqclose=%.2f" % (0.35 + rng.below(21) / 100.0) if j % 4 == 2 else ""
        rx_lines.append(tx.line(script=script, extra=extra.strip())); rx_meta.append((tx, data, lead))
    res = rxlib.run_rx(rx_lines)
    ctx.coverage["reuse_after_reset_same_bursts"] = rxlib.reset_reuse(ctx, rng.fork("reset"), 2 if quick else 20, lambda t: t.startswith("LB"), True, "bursts")
    rx_ok = 0
    for (tx, data, lead), r, line in zip(rx_meta, res, rx_lines):
        if r.get("error"):
            ctx.violation("harness-failure", r["error"][:200], {"input": line}); continue
        if r["model"] != r["impl"]:
            mism += 1
            ctx.violation("correspondence", "receiver model replay differs from the implementation's events",
                          {"input": line, "model": r["model"][:2000], "impl": r["impl"][:2000]})
        ev = rxlib.parse_events(r["impl"])
        bursts = [e["data"] for e in ev if e["kind"] == "burst"]
        good = [b for b in bursts if b.startswith(data)]
        # the random lead-in may itself contain sync-like bits: at most one extra burst is tolerated, but
        # the transmitted data must come out once, aligned, unmodified, followed only by invalid junk
        if len(good) != 1:
            ctx.violation("property", "burst bytes differ from the transmitted bytes (phase %.3f, lead-in %d bytes): got %r"
                          % (tx.frac, len(lead), [b[:20] for b in bursts]), {"input": line, "events": r["impl"][:2000]})
        else:
            rx_ok += 1
            junk = good[0][len(data):]
            if len(junk) > 8:
                ctx.violation("property", "burst continues %d bytes beyond the end of data" % len(junk), {"input": line})
    ctx.coverage.update({
        "evaluations": len(lines) + len(rx_lines), "distinct_nontrivial": len(nontriv) + rx_ok,
        "rule": "framer: every sequence over the alphabet {preamble,Z,C,N,valid,invalid,1-bit-off Z,0xD7} up to depth %d "
                "(each session opened with 4 preamble bytes, end() appended) x budgets %s, random long streams, raw streams; "
                "squelch: random bit/power streams; receiver: 16 half-symbol phases x random lead-in bytes. Non-trivial = a "
                "burst or a (re)sync occurred." % (depth, budgets),
        "samples": samples, "kinds": dist_k, "receiver_level_runs": len(rx_lines), "model_impl_mismatches": mism,
        "exhaustive_depth": depth,
    })


def replay(payload):
    line = payload["input"]
    if line.startswith("rxaudio"):
        r = rxlib.run_rx([line])[0]
        print("impl :", r["impl"][:2000]); print("model:", (r["model"] or "")[:2000])
        return 0 if r["model"] == r["impl"] else 1
    mo = vlib.run_lines(vlib.MODELRUN, [line])[0]; im = vlib.run_lines(vlib.IMPLRUN, [line])[0]
    print("input:", line[:500]); print("model:", mo[:1000]); print("impl :", im[:1000]); print("rules:", payload.get("expected_by_rules", "")[:1000])
    return 0 if mo == im else 1
