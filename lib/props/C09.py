"""C09 — every StartOfMessage is closed; bursts are bounded.  Theorems: coq/Properties/C09.v."""
import vlib, rxlib, samegen
from vlib import hx

LEVEL = "proof"
ASSUMPTIONS = [
    "proved on the discrete model for all item streams: burst length bound, timer arming/firing/persistence per step, no two "
    "consecutive burst symbols; that symbols keep arriving at a bounded sample period is DSP behaviour (timing loop clamp), "
    "validated by the >= 140 s runs here, not proved",
]
MAX_BURST = 252


def chain_audio():
    """bursts chained through an immediate re-sync (tail W W W 0xD7, one 1 bit, preamble)"""
    elem = b"\xab" * 16 + b"ZCZC-AAAAAAAA" + bytes([0x80] * 5) + b"WWW\xd7"
    def bits_of(bs):
        return [(b >> i) & 1 for b in bs for i in range(8)]
    bits = bits_of(elem)
    for _ in range(30):
        bits += [1] + bits_of(elem)
    bits += [0] * ((-len(bits)) % 8)
    return bytes(sum(bits[i + j] << j for j in range(8)) for i in range(0, len(bits), 8))


def run(ctx):
    quick = ctx.quick
    rng = ctx.rng.fork("C09")
    cases = []
    rates = [8000] if quick else [8000, 11025, 22050]
    H = samegen.gen_header(rng, nloc=2)
    hdr3 = ",".join("B%s,S1" % rxlib.burst_hex(H) for _ in range(3))
    def add(kind, follow, rate=None, extra=""):
        rate = rate or rng.choice(rates)
        tx = rxlib.Tx(rng, H=H, rate=rate, impaired=False)
        cases.append((kind, tx, tx.line(script="S0.3," + hdr3 + "," + follow, extra=extra)))
    add("silence", "S141")
    add("noise", "N141:%d" % rng.choice([50, 3000]))
    add("tone", "T141:%d:8000" % rng.choice([1000, 2083]))
    add("speech-band-noise+tones", "N30:2000,T40:700:5000,N30:400,T41:1900:9000")
    add("repeated-preambles", ",".join("B%s,S0.8" % hx(b"\xab" * 40) for _ in range(95)))
    add("continuous-valid-fsk", "B%s,F139:10000,S2" % hx(b"\xab" * 16 + b"ZCZC-"))
    H2 = samegen.gen_header(rng, nloc=1)
    add("further-header-then-quiet", "S20," + ",".join("B%s,S1" % rxlib.burst_hex(H2) for _ in range(3)) + ",S139")
    add("garbled-headers-after-history-expiry", "S13,B%s,S1,B%s,S141" % (rxlib.burst_hex(H[:15]), rxlib.burst_hex(H[:15])))
    add("chain-spanning-deadline", "S130,B%s,S3" % hx(chain_audio()))
    add("trailer-arrives", "S5," + ",".join("B%s,S1" % rxlib.burst_hex(b"NNNN") for _ in range(3)) + ",S3")
    # the same with the events pulled one per iterator binding, and in chunks: however the client drives the iterators the
    # StartOfMessage must be closed (by the trailer here, by the timer in the silent run)
    add("trailer-arrives/one-event-per-binding", "S5," + ",".join("B%s,S1" % rxlib.burst_hex(b"NNNN") for _ in range(3)) + ",S141", extra="sched=one")
    add("trailer-arrives/chunks", "S5," + ",".join("B%s,S1" % rxlib.burst_hex(b"NNNN") for _ in range(3)) + ",S3", extra="sched=chunks:%d:7" % rng.below(1000))
    add("silence/one-event-per-binding", "S141", extra="sched=one")
    # framer level: carriers of valid characters of many lengths around the limit
    flines = []
    for n in ([240, 247, 248, 249, 252, 253, 300, 700] if quick else list(range(230, 270)) + [300, 500, 700, 1500]):
        script = ",".join(["rab", "bab", "bab", "bab"] + ["b%02x" % c for c in b"ZCZC" + bytes(rng.choice(samegen.ALLOWED) for _ in range(n))] + ["e"])
        flines.append(("framer 2 5 " + script, n))
    if not quick:
        for _ in range(20):
            k = rng.below(6)
            add(["silence", "noise", "tone", "continuous-valid-fsk", "repeated-preambles", "chain-spanning-deadline"][k],
                ["S141", "N141:800", "T141:1562:3000", "B%s,F139:5000,S2" % hx(b"\xab" * 16 + b"NNNN"),
                 ",".join("B%s,S0.5" % hx(b"\xab" * 30) for _ in range(130)), "S131,B%s,S2" % hx(chain_audio())][k])
    res = rxlib.run_rx([c[2] for c in cases])
    mism, nontriv, samples, kinds = 0, 0, [], {}
    for (kind, tx, line), r in zip(cases, res):
        kinds[kind] = kinds.get(kind, 0) + 1
        if r.get("error"):
            ctx.violation("harness-failure", r["error"][:200], {"input": line[:500]}); continue
        if r["model"] != r["impl"]:
            mism += 1
            ctx.violation("correspondence", "receiver model replay differs from the implementation's events (%s)" % kind,
                          {"input": line[:3000], "model": r["model"][-1500:], "impl": r["impl"][-1500:]})
        ev = rxlib.parse_events(r["impl"])
        nsamp = int(r["extras"]["samples"])
        soms = [e for e in ev if e["kind"] == "som"]
        if soms:
            nontriv += 1
        for i, e in enumerate(ev):
            if e["kind"] == "burst" and len(e["data"]) > MAX_BURST:
                ctx.violation("property", "a burst of %d bytes was reported (maximum frame less preamble: %d)" % (len(e["data"]), MAX_BURST),
                              {"input": line[:3000]})
            if e["kind"] == "som":
                deadline = e["t"] + 135 * tx.rate
                slack = int(0.25 * tx.rate)
                later = [x for x in ev[i + 1:] if x["kind"] in ("eom", "som")]
                nxt = later[0] if later else None
                if nxt is not None and nxt["kind"] == "som":
                    continue    # re-armed by a newer StartOfMessage: that one is checked in turn
                if nxt is None:
                    if nsamp > deadline + slack:
                        ctx.violation("property", "StartOfMessage at sample %d (%s) was never closed although %0.1f s of audio followed"
                                      % (e["t"], kind, (nsamp - e["t"]) / tx.rate), {"input": line[:3000], "events": r["impl"][-1500:]})
                elif nxt["t"] > deadline + slack:
                    ctx.violation("property", "EndOfMessage %0.2f s after its StartOfMessage (%s): later than 135 s + slack"
                                  % ((nxt["t"] - e["t"]) / tx.rate, kind), {"input": line[:3000], "events": r["impl"][-1500:]})
        if len(samples) < 4:
            samples.append({"kind": kind, "rate": tx.rate, "messages": [(e["kind"], e["t"]) for e in ev if e["kind"] in ("som", "eom")]})
    fm = vlib.run_lines_parallel(vlib.MODELRUN, [f[0] for f in flines])
    fi = vlib.run_lines_parallel(vlib.IMPLRUN, [f[0] for f in flines])
    for (line, n), mo, im in zip(flines, fm, fi):
        if mo != im:
            mism += 1
            ctx.violation("correspondence", "framer model/implementation differ on a %d-character carrier" % n, {"input": line[:3000], "model": mo[-500:], "impl": im[-500:]})
        bl = [len(t) // 2 for t in im.split(",") if t.startswith("B")]
        want = min(n + 4, MAX_BURST)
        if bl != [want]:
            ctx.violation("property", "carrier of %d valid characters after ZCZC: bursts of lengths %r, expected one of %d" % (n, bl, want), {"input": line[:3000]})
    ctx.coverage.update({
        "evaluations": len(cases) + len(flines), "distinct_nontrivial": nontriv + len(flines),
        "rule": "a header (3 bursts) followed by >= 140 s of audio of the listed kinds through the real receiver, replayed "
                "through the model; plus framer runs over carriers of valid characters around the length limit. Non-trivial = "
                "a StartOfMessage was reported / a burst reached a stated length.",
        "samples": samples, "kinds": kinds, "model_impl_mismatches": mism,
        "traces_validated_against_impl": len(cases) - mism,
    })


def replay(payload):
    line = payload["input"]
    if line.startswith("rxaudio"):
        r = rxlib.run_rx([line])[0]
        print("impl :", r["impl"][-2000:]); print("model:", (r["model"] or "")[-2000:])
        return 0 if r["model"] == r["impl"] else 1
    mo = vlib.run_lines(vlib.MODELRUN, [line])[0]; im = vlib.run_lines(vlib.IMPLRUN, [line])[0]
    print("model:", mo[-600:]); print("impl :", im[-600:])
    return 0 if mo == im else 1
