"""C11 — samedec prints exactly the decoded messages, one per line.  Theorems: coq/Properties/C11.v.
Tie between the App model and the binary: synthesized recordings (0..4 transmissions, lossy or not, close-cut or padded,
odd trailing byte, header directly after header) are written as raw s16 files; the same quantized samples are decoded by the
library configured as samedec configures it (one pass of iter_messages, then flush until None); the EXTRACTED App model is
run over that message schedule; and the built samedec binary is run on the file or on stdin, with --rate, -v levels, --quiet,
with and without a child.  stdout(samedec) == o_stdout(model) == library messages; exit status 0."""
import tempfile
import vlib, sdlib

LEVEL = "proof"
WANT_SAMEDEC = True
ASSUMPTIONS = [
    "the theorem is about the control flow over an abstract receiver with the iterator contract; process creation, pipes and "
    "the reader are runtime behaviour, covered by running the built binary (correspondence), not by the theorem",
]


def reader_correspondence(ctx, rng, n):
    """the reader model (coq/Model/Input.v, extracted) against the expression main.rs builds its sample iterator from, run in
    the harness over a source whose read() calls return exactly the given chunks; plus an independent oracle (struct.unpack of
    the byte stream as a whole)"""
    import struct
    lines, wants = [], []
    for j in range(n):
        data = rng.bytes(rng.choice([0, 1, 2, 3, 5, 8, rng.range(0, 120), rng.range(0, 400)]))
        chunks, pos = [], 0
        style = rng.below(4)
        while pos < len(data):
            k = {0: 1, 1: rng.range(1, 4), 2: rng.range(1, 40), 3: rng.choice([1, 2, 3, 7, 8191])}[style]
            chunks.append(data[pos:pos + k]); pos += k
        lines.append("readi16 " + (",".join(c.hex() for c in chunks) if chunks else "-"))
        m = len(data) // 2
        wants.append(",".join(str(v) for v in struct.unpack("<%dh" % m, data[:2 * m])) if m else "-")
    mo = vlib.run_lines(vlib.MODELRUN, lines); im = vlib.run_lines(vlib.IMPLRUN, lines)
    ok = 0
    for l, a, b_, w in zip(lines, mo, im, wants):
        if a != b_:
            ctx.violation("correspondence", "sample reader: model and implementation differ", {"input": l, "model": a[:300], "impl": b_[:300]})
        elif b_ != w:
            ctx.violation("property", "sample reader: the samples depend on the read boundaries (or are not the little-endian pairs of the stream)",
                          {"input": l, "impl": b_[:300], "expected": w[:300]})
        else:
            ok += 1
    return ok


def run(ctx):
    rng = ctx.rng.fork("C11")
    q = ctx.quick
    ctx.coverage["sample_reader_chunkings_equal"] = reader_correspondence(ctx, rng.fork("reader"), 300 if q else 6000)
    nrec = 10 if q else 120
    ok, runs, nontriv, model_ok, samples, dist = 0, 0, 0, 0, [], {}
    with tempfile.TemporaryDirectory(prefix="c11_") as td:
        for i in range(nrec):
            special = {0: dict(ntx=0), 1: dict(ntx=2, back_to_back=True, close_cut=True), 2: dict(ntx=1, close_cut=True, odd=True),
                       3: dict(ntx=1, rate=48000, close_cut=True, header_only_last=True), 4: dict(ntx=2, rate=44100, close_cut=True, header_only_last=True, lossy=True)}.get(i, {})
            rec, desc = sdlib.make_recording(rng, td, "r%d" % i, **special)
            lib = rec.library_lines()
            if lib:
                nontriv += 1
            # use_stdin: False = --file; True = the file opened as standard input; "pipe" = a pipe written the way a live source
            # writes: a first odd-sized chunk, a pause (so that the reader's read() returns in the middle of a sample), then the rest
            # in odd-sized chunks
            variants = [([], None, False), (["-v"], None, False), ([], ["sh", "-c", "cat >/dev/null"], False), ([], None, True),
                        (["-vv"], ["sh", "-c", "cat >/dev/null"], False), (["--quiet"], None, False),
                        (["-vvv"], ["sh", "-c", "cat >/dev/null"], True), (["--quiet"], ["sh", "-c", "cat >/dev/null"], False),
                        ([], None, "pipe"), ([], ["sh", "-c", "cat >/dev/null"], "pipe"),
                        # children that do not read: one that exits at once, one that closes its standard input and lingers (both
                        # allowed by the --help text); samedec must go on printing
                        ([], ["sh", "-c", "exit 0"], False), ([], ["sh", "-c", "exec 0<&-; sleep 0.2"], False)]
            if q:
                variants = [variants[k] for k in sorted(set([0, 2, 5, 8, 10 + (i % 2), (i % 12), ((i * 3 + 1) % 12)]))]
            for extra, child, use_stdin in variants:
                quiet = "--quiet" in extra
                mlines, mspawns, raw = rec.model(1 if quiet else 0, 1 if child else 0)
                if mlines is None:
                    ctx.violation("correspondence", "model driver: " + raw[:100], {"input": rec.line}); continue
                want = [] if quiet else lib
                if mlines != want:
                    ctx.violation("correspondence", "App model prints %s but the library decodes %s" % (mlines, want), {"input": rec.line})
                else:
                    model_ok += 1
                if use_stdin == "pipe":
                    first = 2 * rng.range(100, 3000) + 1
                    r = sdlib.run_samedec_chunked(rec, [(first, 0.25), (4097, 0), (8191, 0.02), (16385, 0)], extra=extra, child=child)
                else:
                    r = sdlib.run_samedec(rec, extra=extra, child=child, use_stdin=use_stdin)
                runs += 1
                key = " ".join(extra) + (" child" if child else "") + (" stdin-pipe-odd-chunks" if use_stdin == "pipe" else " stdin" if use_stdin else "")
                dist[key] = dist.get(key, 0) + 1
                if r["hang"] or r["rc"] != 0 or r["stdout"] != want:
                    ctx.violation("property", "samedec %s printed %s (exit %s%s); the library decodes %s from the same samples [%s]"
                                  % (key or "(no options)", [l[:24] for l in r["stdout"]], r["rc"], ", hang" if r["hang"] else "",
                                     [l[:24] for l in want], desc),
                                  {"input": rec.line, "cmd": r["cmd"], "stdout": r["stdout"], "expected": want, "stderr": r["stderr"][-400:]})
                else:
                    ok += 1
            if len(samples) < 3 and lib:
                samples.append({"recording": desc, "library_messages": [l[:40] for l in lib]})
    ctx.coverage.update({
        "evaluations": runs, "distinct_nontrivial": nontriv,
        "rule": "recordings of 0..4 transmissions (loss masks, header directly after header, close-cut or padded end, odd trailing byte) "
                "at 8000..48000 Hz; each run of the binary under one of 10 option/child/input variants (--file, file as stdin, pipe written in odd-sized chunks with a pause); non-trivial recording = the "
                "library decodes at least one message. stdout of the binary == extracted App model == library decode of the same samples.",
        "samples": samples, "samedec_runs_ok": ok, "variants": dist, "recordings": nrec, "model_equals_library": model_ok,
        "traces_validated_against_impl": ok,
    })


def replay(payload):
    print("re-synthesize with:", payload.get("input")); print("then:", payload.get("cmd")); return 0
