"""C14 — no message is lost at end of input.  Theorems: coq/Properties/C14.v.
Discrete half proved (flush = first Ok message of queued + padding events, the rest kept; quiet symbols poll the
assembler; the hold is <= 682 symbols).  DSP half sampled: recordings cut from the last sample of the final burst
onward, flushed: (i) every message is delivered (before the cut or by repeated flush()), in order, then None;
(ii) the tick stream of the run AND of every flush() call is replayed through the extracted model (events and
flush results must be equal); (iii) the zero padding yields enough quiet symbols (measured); (iv) samedec prints them."""
import os, subprocess, tempfile
import vlib, rxlib, samegen

LEVEL = "proof"
WANT_SAMEDEC = True
ASSUMPTIONS = [
    "partial: that four seconds of zero samples produce at least (deadline - now) symbols with the power below the open "
    "threshold after the carrier drops is DSP behaviour: sampled (every rate, cut point class, 2 or 3 bursts), not proved",
]


def cut_script(tx, nb, cut_after):
    """the transmission up to and including burst index nb-1, then cut_after seconds, then end of input"""
    segs = tx.segments()
    # segments = [lead, b0, g0, b1, g1, b2, g_ht, b3, g3, b4, g4, b5, tail]
    keep = segs[: 2 * nb]
    if cut_after > 0:
        keep.append("S%.4f" % cut_after)
    return ",".join(keep)


def make_cases(rng, n):
    cases = []
    for j in range(n):
        rate = rng.choice(rxlib.STD_RATES + [96000]) if rng.chance(3, 4) else rng.range(8000, 96000)
        H = samegen.gen_header(rng, nloc=rng.choice([1, 1, 2, 8, 31]))
        kind = rng.choice(["header3", "header3", "header2", "trailer", "trailer2", "lone-eom"])
        mask = {"lone-eom": 0b001000, "header3": 0b000111, "header2": rng.choice([0b000011, 0b000101, 0b000110]), "trailer": 0b111111,
                "trailer2": rng.choice([0b011111, 0b101111, 0b110111])}[kind]
        tx = rxlib.Tx(rng, H=H, rate=rate, mask=mask, gap_ht=rng.choice([2.0, 3.0]))
        nb = 3 if kind.startswith("header") else (4 if kind == "lone-eom" else 6)
        # if the last burst of the group is absent, cut after the last PRESENT one
        while nb > 0 and not (mask >> (nb - 1)) & 1:
            nb -= 1
        cut = rng.choice([0.0, 0.0, 0.001, 0.01, 0.05, 0.2, 0.5, 1.0, 1.5])
        script = cut_script(tx, nb, cut)
        want = ["som"] if kind.startswith("header") else (["eom"] if kind == "lone-eom" else ["som", "eom"])
        cases.append((kind, cut, tx, script, want))
    return cases


def write_pcm(line, path):
    out = vlib.run_lines(vlib.IMPLRUN, [line.replace("rxaudio", "synthfile", 1) + " out=" + path])[0]
    return out


def run(ctx):
    rng = ctx.rng.fork("C14")
    q = ctx.quick
    cases = make_cases(rng, 40 if q else 800)
    lines = [tx.line(extra="flush=4", script=script) for (_, _, tx, script, _) in cases]
    res = rxlib.run_rx(lines, check_model=False)
    ctx.coverage["known_finding_F9_witness_reproduces"] = rxlib.run_f9_witness(ctx, "C14")
    ctx.coverage["known_finding_F11_witness_reproduces"] = rxlib.run_f11_witness(ctx, "C14")
    # model: main run + each flush call
    reqs = []
    for r in res:
        if r.get("error") or r["rxline"] is None:
            reqs.append("utf8 -"); continue
        reqs.append("rxflush " + r["rxline"][3:] + ("" if r["flush_items"] == "-" else " " + r["flush_items"]))
    model = vlib.run_lines_parallel(vlib.MODELRUN, reqs)
    ok, model_ok, by_kind, delivered_by_flush, samples = 0, 0, {}, 0, []
    bursts_sent, bursts_missed = 0, 0
    for (kind, cut, tx, script, want), line, r, mo in zip(cases, lines, res, model):
        by_kind[kind] = by_kind.get(kind, 0) + 1
        if r.get("error"):
            ctx.violation("harness-failure", r["error"][:200], {"input": line}); continue
        flushed = r["extras"].get("flushed", "-")
        mparts = mo.split("|")
        if len(mparts) != 2 or mparts[0] != r["impl"] or mparts[1] != flushed:
            ctx.violation("correspondence", "model replay (run + flush calls) differs from the implementation: events equal=%s, flush results "
                          "model %s vs impl %s" % (len(mparts) == 2 and mparts[0] == r["impl"], mparts[-1][:80], flushed[:80]),
                          {"input": line, "model": mo[:1500], "impl": r["impl"][:1500]})
        else:
            model_ok += 1
        ev = rxlib.parse_events(r["impl"])
        got = [("som", e["text"]) if e["kind"] == "som" else ("eom", None) for e in ev if e["kind"] in ("som", "eom")]
        fl = [] if flushed == "-" else flushed.split("/")
        fmsgs = [f for f in fl if f != "none"]
        for f in fmsgs:
            got.append(("eom", None) if f == "eom" else ("som", bytes.fromhex(f.split(":")[1])))
        expect = ([("som", tx.H)] if "som" in want else []) + ([("eom", None)] if "eom" in want else [])
        bad = None
        f9 = (len(got) == len(expect) and got and got[0][0] == "som" and got[0][1] != tx.H and rxlib.f9_signature(got[0][1], tx.H)
              and got[1:] == expect[1:])
        if f9:
            kd = [k for k in vlib.load_known_findings("C14") if k.get("class") == "F9"]
            if kd and kd[0]["line"] not in ctx.known:
                ctx.known.append(kd[0]["line"])
            got = expect
        if got != expect:
            bad = "messages delivered (before the cut + by flush) are %s, expected %s" % (
                [(k, (t or b"")[:16]) for k, t in got], [(k, (t or b"")[:16]) for k, t in expect])
        elif not fl or fl[-1] != "none":
            bad = "repeated flush() did not end with None within 4 calls (%s)" % flushed[:80]
        elif "none" in fl[:-1]:
            bad = "flush() returned None before a later call returned a message (%s)" % flushed[:80]
        if bad and rxlib.f11_known(ctx, "C14", tx, ev, [tx.H, b"NNNN"]):
            bad = None
        if bad and got != expect:
            # is it an end-of-input matter at all?  The same recording with 2.5 s of silence appended instead of the cut: if the
            # messages are missing there too, the demodulator missed a burst (about one in a thousand does not synchronise or frame),
            # which no flush can repair -- counted, bounded, not judged here
            r2 = rxlib.run_rx([tx.line(script=script + ",S2.50")], check_model=False)[0]
            ev2 = rxlib.parse_events(r2["impl"]) if not r2.get("error") else []
            got2 = [("som", e["text"]) if e["kind"] == "som" else ("eom", None) for e in ev2 if e["kind"] in ("som", "eom")]
            if got2 != expect:
                bursts_missed += 1
                bad = None
        if bad:
            ctx.violation("property", "%s [%s, cut %.3f s after the last burst, %s]" % (bad, kind, cut, tx.describe()),
                          {"input": line, "events": r["impl"][:2000], "flushed": flushed})
        else:
            ok += 1
            if fmsgs:
                delivered_by_flush += 1
        if len(samples) < 3 and fmsgs:
            samples.append({"kind": kind, "cut_after_s": cut, "rate": tx.rate, "flushed": flushed[:80]})
    ctx.coverage["recordings_with_a_burst_missed_even_with_a_long_tail"] = bursts_missed
    if len(cases) >= 40 and bursts_missed > 0.03 * len(cases):
        ctx.violation("property", "%d of %d recordings lose a burst even when two and a half seconds of silence follow: far more than the "
                      "characterised rate (about 1 burst in 1000)" % (bursts_missed, len(cases)), {"lost": bursts_missed, "n": len(cases)})
    # the documented way to reuse a receiver: flush() at the end of one recording, reset(), next recording.  A recording whose
    # StartOfMessage was reported, then reset(), then a close-cut recording of the SAME header: flushing must deliver it again
    reuse_ok = 0
    rlines, rmeta = [], []
    for j in range(3 if q else 30):
        rate = rng.choice([8000, 11025, 22050])
        H = samegen.gen_header(rng, nloc=rng.choice([1, 2, 6]))
        tx = rxlib.Tx(rng, H=H, rate=rate, impaired=False)
        dur = (16 + len(H)) * 8 / 520.83
        clip = "B%s,S1.00,B%s,S1.00,B%s" % ((rxlib.burst_hex(H),) * 3)
        cut = rng.choice([0.0, 0.01, 0.2, 0.5])
        script = "S0.30,%s,S2.50,S0.30,%s%s" % (clip, clip, (",S%.2f" % cut) if cut else "")
        t_reset = 0.30 + 3 * dur + 2.0 + 2.3
        rlines.append(tx.line(script=script, extra="flush=4 reset_at=%d" % int(t_reset * rate))); rmeta.append((tx, H, cut))
    for (tx, H, cut), r, line in zip(rmeta, rxlib.run_rx(rlines, check_model=False), rlines):
        if r.get("error"):
            ctx.violation("harness-failure", r["error"][:200], {"input": line}); continue
        ev = rxlib.parse_events(r["impl"])
        got = [e["text"] for e in ev if e["kind"] == "som"]
        flushed = r["extras"].get("flushed", "-")
        got += [bytes.fromhex(f.split(":")[1]) for f in ([] if flushed == "-" else flushed.split("/")) if f.startswith("som")]
        if got != [H]:
            ctx.violation("property", "after flush-and-reset a close-cut recording of the same header (cut %.2f s after the last burst) delivered %d "
                          "StartOfMessage(s), expected 1" % (cut, len(got)), {"input": line, "events": r["impl"][:2000], "flushed": flushed})
        else:
            reuse_ok += 1
    ctx.coverage["reuse_after_reset_ok"] = reuse_ok
    # a second header heard while the alert of a first one is still open (no trailer was received for it), the recording cut at
    # the second header's last burst: flushing must deliver the second header too
    alert_ok = 0
    alines, ameta = [], []
    for j in range(3 if q else 24):
        rate = rng.choice([8000, 11025, 22050])
        A = samegen.gen_header(rng, nloc=rng.choice([1, 2])); B = samegen.gen_header(rng, nloc=rng.choice([1, 3]))
        tx = rxlib.Tx(rng, H=A, rate=rate, impaired=False)
        cut = rng.choice([0.0, 0.05, 0.5])
        script = "S0.30,B%s,S1.00,B%s,S1.00,B%s,S%.2f,B%s,S1.00,B%s,S1.00,B%s%s" % (
            (rxlib.burst_hex(A),) * 3 + (3.0 + rng.below(30) / 10.0,) + (rxlib.burst_hex(B),) * 3 + ((",S%.2f" % cut) if cut else "",))
        alines.append(tx.line(script=script, extra="flush=4")); ameta.append((A, B, cut))
    for (A, B, cut), r, line in zip(ameta, rxlib.run_rx(alines, check_model=False), alines):
        if r.get("error"):
            ctx.violation("harness-failure", r["error"][:200], {"input": line}); continue
        got = [e["text"] for e in rxlib.parse_events(r["impl"]) if e["kind"] == "som"]
        flushed = r["extras"].get("flushed", "-")
        got += [bytes.fromhex(f.split(":")[1]) for f in ([] if flushed == "-" else flushed.split("/")) if f.startswith("som")]
        if got != [A, B]:
            ctx.violation("property", "a recording cut %.2f s after the last burst of a second header (heard while the first alert was still open): "
                          "%d StartOfMessage(s) delivered by the run and flush(), expected both headers" % (cut, len(got)),
                          {"input": line, "events": r["impl"][:2000], "flushed": flushed})
        else:
            alert_ok += 1
    ctx.coverage["second_header_during_alert_flushed_ok"] = alert_ok
    # samedec on close-cut files
    sd_ok, sd_n = 0, 0
    exe = os.path.join(vlib.TARGET, "release", "samedec")
    with tempfile.TemporaryDirectory(prefix="c14_") as td:
        for k, (kind, cut, tx, script, want) in enumerate(sorted(cases, key=lambda c: (not c[0].startswith('trailer'), c[1]))[: (8 if q else 60)]):
            path = os.path.join(td, "a%d.s16" % k)
            o = write_pcm(tx.line(script=script), path)
            if not o.startswith("ok"):
                ctx.violation("harness-failure", "synthfile: " + o[:100], {"input": script[:100]}); continue
            for child in ([], ["--", "sh", "-c", "cat >/dev/null"]):
                sd_n += 1
                p = subprocess.run([exe, "-r", str(tx.rate), "--file", path] + child, stdout=subprocess.PIPE, stderr=subprocess.PIPE, timeout=300)
                outl = p.stdout.decode("latin1").splitlines()
                expect = ([tx.H.decode("latin1")] if "som" in want else []) + (["NNNN"] if "eom" in want else [])
                if p.returncode != 0 or outl != expect:
                    ctx.violation("property", "samedec%s on a recording cut %.3f s after the last burst printed %s, expected %s (exit %d) [%s]"
                                  % (" with a child process" if child else "", cut, [l[:20] for l in outl], [l[:20] for l in expect], p.returncode, kind),
                                  {"input": tx.line(script=script), "stdout": p.stdout.decode("latin1")[:600], "child": child})
                else:
                    sd_ok += 1
    ctx.coverage.update({
        "evaluations": len(cases) + sd_n, "distinct_nontrivial": delivered_by_flush,
        "rule": "transmissions (random rate 8000..96000, impairments, header lengths) truncated 0 .. 1.5 s after the last header burst "
                "(2 or 3 bursts received) or the last trailer burst, then flush() up to four times; non-trivial = a message had to be "
                "delivered by flush(). Each run and each flush() call is replayed through the extracted model; samedec is run on the same "
                "recordings written as raw s16 files.",
        "samples": samples, "kinds": by_kind, "all_messages_delivered_in_order_then_none": ok,
        "model_replay_equal_incl_flush_calls": model_ok, "samedec_runs_ok": sd_ok, "samedec_runs": sd_n,
        "traces_validated_against_impl": model_ok,
    })


def replay(payload):
    r = rxlib.run_rx([payload["input"]], check_model=False)[0]
    print("impl :", r["impl"][:2000]); print("flushed:", r["extras"].get("flushed"))
    return 0
