"""C18 — reset() restores exactly the behaviour of a newly built receiver.  Theorems: coq/Properties/C18.v.
Three ties between the structural model (Model/ResetShape.v) and the code, on every run:
 (1) field list: the leaf paths of the implementation's derived Debug rendering are exactly the model's fields;
 (2) for states reached by audio prefixes cut at every phase of a transmission: the extracted model's
     receiver_reset(before) equals the implementation's state after reset(), and the model's fresh(config_of before)
     equals a newly built receiver (so configuration fields are never touched by processing and the constructor model is right);
 (3) behaviour: the events (timestamps included) of a reset receiver on the rest of the stream equal those of a new one.
The property oracle is (3) plus Debug equality after-reset == fresh."""
import re
import vlib, rxlib, samegen, dbgparse

LEVEL = "proof"
ASSUMPTIONS = [
    "structural theorem: field VALUES are opaque tokens; the float functions shared by constructor and reset "
    "(initial_gain, compute_loop_alphabeta) are parameters of the model; what the float state does between "
    "reset points is not modelled (partial) -- covered by the event-trace differential on the implementation",
    "the equalizer is never put in Disabled mode by the receiver (hypothesis shape_ok; validated on every dump)",
]

# model field order (ocaml/driver_ext.ml parse_state) -> Debug leaf path, kind T(oken) / L(ist of tokens)
ORDER = [
    ("dc_block/ff/window", "L"), ("dc_block/ff/inv_len", "T"), ("dc_block/ff/moving_sum", "T"), ("dc_block/ff/since_refresh", "T"),
    ("dc_block/fb/window", "L"), ("dc_block/fb/inv_len", "T"), ("dc_block/fb/moving_sum", "T"), ("dc_block/fb/since_refresh", "T"),
    ("agc/bandwidth", "T"), ("agc/min_gain", "T"), ("agc/max_gain", "T"), ("agc/locked", "T"), ("agc/gain", "T"),
    ("demod/window_input", "L"), ("demod/coeff_mark", "C"), ("demod/coeff_space", "C"),
    ("symsync/samples_per_ted", "T"), ("symsync/period_min", "T"), ("symsync/period_max", "T"),
    ("symsync/loop_alpha", "T"), ("symsync/loop_beta", "T"), ("symsync/period_avg", "T"), ("symsync/period_inst", "T"),
    ("symsync/ted/history", "L"), ("symsync/ted/sample_counter", "T"),
    ("squelch/max_errors", "T"), ("squelch/power_open", "T"), ("squelch/power_close", "T"),
    ("squelch/correlator/sync_to", "T"), ("squelch/correlator/data", "T"),
    ("squelch/power_track/bandwidth", "T"), ("squelch/power_track/power", "T"),
    ("squelch/sample_history", "T"), ("squelch/power_history", "T"), ("squelch/symbol_counter", "T"),
    ("squelch/sample_clock", "T"), ("squelch/sync_lock", "T"),
    ("equalizer/relaxation", "T"), ("equalizer/regularization", "T"), ("equalizer/train_to", "T"),
    ("equalizer/feedforward_coeff", "D"), ("equalizer/feedback_coeff", "D"),
    ("equalizer/feedforward_wind", "L"), ("equalizer/feedback_wind", "L"), ("equalizer/mode", "T"),
    ("framer/state", "T"), ("framer/symbol_count_last_burst", "T"), ("framer/max_prefix_bit_errors", "T"),
    ("framer/max_invalid_bytes", "T"),
    ("assembler/history", "T"), ("assembler/state", "T"), ("assembler/previous", "T"),
    ("timing_bandwidth_unlocked", "T"), ("timing_bandwidth_locked", "T"), ("input_rate", "T"),
    ("input_sample_counter", "T"), ("link_state", "T"), ("transport_state", "T"), ("event_queue", "T"),
    ("ted_sample_clock", "T"), ("samples_until_next_ted", "T"), ("force_eom_at_sample", "T"),
]
EXPECTED_PATHS = set(p for p, _ in ORDER)


def norm(flat):
    """one entry per field whether its Debug form is scalar or a (possibly empty) array of structs"""
    out = {}
    for k, v in flat.items():
        if k.endswith("[]"):
            out[k[:-2]] = v + "#" + flat.get(k[:-2] + "#len", "?")
        elif k.endswith("#len"):
            continue
        else:
            out[k] = v
    return out
CONSTS = ["0.0", "1.0", "0", "false", "None", "[]", "Idle", "Empty", "NoCarrier", "Idle", "EnabledFeedback"]


class Interner:
    def __init__(self):
        self.ids, self.names = {}, []
    def tok(self, s):
        if s not in self.ids:
            self.ids[s] = len(self.names) + 1
            self.names.append(s)
        return self.ids[s]


def innermost_list(v):
    m = re.search(r"\[([^\[\]]*)\]", v)
    body = m.group(1).strip() if m else ""
    return [x.strip() for x in body.split(",") if x.strip()] if body else []


def canon_empty(v):
    return "[]" if re.fullmatch(r"\[\s*\]", v) else v


def serialize(flat, it):
    """Debug leaf dict -> the 60 model fields as strings of token numbers"""
    out = []
    for p, k in ORDER:
        if k == "T":
            out.append(str(it.tok(canon_empty(flat[p]))))
        elif k == "L":
            xs = innermost_list(flat[p])
            out.append(",".join(str(it.tok(x)) for x in xs) if xs else "-")
        elif k == "C":
            out.append(str(it.tok(flat[p])))
        elif k == "D":
            m = re.search(r"data=\[([^\]]*)\]", flat[p])
            xs = [x.strip() for x in m.group(1).split(",") if x.strip()] if m else []
            out.append(",".join(str(it.tok(x)) for x in xs) if xs else "-")
    return out


def parse_dump(out):
    parts = out.split("\x1e")
    if len(parts) != 3:
        return None
    return [norm(dbgparse.collapse(dbgparse.flatten(dbgparse.parse(p.replace("\x1f", "\n"))))) for p in parts]


def structural(ctx, cases):
    """cases: list of (description, 'dbgdump ...' line)"""
    outs = vlib.run_lines_parallel(vlib.IMPLRUN, [c[1] for c in cases])
    reqs, metas = [], []
    n_field, n_model, n_equal, modes = 0, 0, 0, {}
    for (desc, line), out in zip(cases, outs):
        d = parse_dump(out)
        if d is None:
            ctx.violation("harness-failure", "dbgdump failed: " + out[:200], {"input": line}); continue
        before, after, fresh = d
        paths = set(before)
        if paths != EXPECTED_PATHS or set(after) != EXPECTED_PATHS or set(fresh) != EXPECTED_PATHS:
            ctx.violation("correspondence", "the receiver's field list differs from the structural model's: +%s -%s"
                          % (sorted(paths - EXPECTED_PATHS)[:6], sorted(EXPECTED_PATHS - paths)[:6]), {"input": line})
            continue
        n_field += 1
        modes[before["equalizer/mode"].split("[")[0]] = modes.get(before["equalizer/mode"].split("[")[0], 0) + 1
        # property oracle, directly on the implementation: Debug(after reset) == Debug(fresh)
        diff = [p for p in sorted(EXPECTED_PATHS) if after[p] != fresh[p]]
        if diff:
            ctx.violation("property", "after reset() the receiver differs from a newly built one in %s (%s vs %s) [%s]"
                          % (diff[:4], after[diff[0]][:40], fresh[diff[0]][:40], desc), {"input": line, "fields": diff[:10]})
        else:
            n_equal += 1
        it = Interner()
        consts = [str(it.tok(c)) for c in CONSTS]
        sb, sa, sf = serialize(before, it), serialize(after, it), serialize(fresh, it)
        training = [str(i + 1) for i, nm in enumerate(it.names) if nm.startswith("EnabledTraining")]
        ix = {p: i for i, (p, _) in enumerate(ORDER)}
        oracle = [sf[ix["agc/gain"]], sf[ix["symsync/loop_alpha"]], sf[ix["symsync/loop_beta"]]]   # as the constructor computed them
        reqs.append("resetshape " + " ".join(consts + oracle + [",".join(training) or "-"] + sb))
        metas.append((desc, line, sa, sf, before))
    res = vlib.run_lines_parallel(vlib.MODELRUN, reqs) if reqs else []
    for (desc, line, sa, sf, before), r in zip(metas, res):
        if "|" not in r:
            ctx.violation("correspondence", "model driver: " + r[:100], {"input": line}); continue
        mr, mf = [x.split(" ") for x in r.split(" | ")]
        bad_r = [ORDER[i][0] for i in range(len(ORDER)) if mr[i] != sa[i]]
        bad_f = [ORDER[i][0] for i in range(len(ORDER)) if mf[i] != sf[i]]
        if bad_r:
            ctx.violation("correspondence", "model receiver_reset(before) differs from the implementation after reset() in %s [%s]"
                          % (bad_r[:5], desc), {"input": line, "fields": bad_r[:10]})
        if bad_f:
            ctx.violation("correspondence", "model fresh(config_of before) differs from a newly built receiver in %s [%s] "
                          "(a configuration field was modified by processing, or the constructor model is out of date)"
                          % (bad_f[:5], desc), {"input": line, "fields": bad_f[:10]})
        if not bad_r and not bad_f:
            n_model += 1
    return n_field, n_model, n_equal, modes


def behavioural(ctx, cases):
    """cases: list of (desc, line_with_reset_at, line_with_skip)"""
    lines = []
    for _, a, b in cases:
        lines += [a, b]
    res = rxlib.run_rx(lines, check_model=False)
    same, nontriv = 0, 0
    for i, (desc, a, b) in enumerate(cases):
        ra, rb = res[2 * i], res[2 * i + 1]
        if ra.get("error") or rb.get("error"):
            ctx.violation("harness-failure", (ra.get("error") or rb.get("error"))[:200], {"input": a}); continue
        if ra["impl"] != rb["impl"]:
            ea, eb = ra["impl"].split(";"), rb["impl"].split(";")
            k = next((j for j in range(min(len(ea), len(eb))) if ea[j] != eb[j]), min(len(ea), len(eb)))
            ctx.violation("property", "after reset() the receiver's events differ from a newly built receiver's on the same audio: "
                          "event %d is %s vs %s [%s]" % (k, (ea + ['<none>'])[k][:60], (eb + ['<none>'])[k][:60], desc),
                          {"input": a, "fresh_input": b, "reset_events": ra["impl"][:1500], "fresh_events": rb["impl"][:1500]})
        else:
            same += 1
            if "TM" in ra["impl"]:
                nontriv += 1
    return same, nontriv


def make_cases(rng, n_points, n_tx):
    dumps, behav = [], []
    for j in range(n_tx):
        rate = rng.choice(rxlib.STD_RATES + [rng.range(8000, 48000)])
        tx = rxlib.Tx(rng, rate=rate, gap_ht=rng.choice([1.0, 2.5]), mask=rng.choice([0b111111, 0b111111, 0b101111, 0b111011]),
                      H=samegen.gen_header(rng, nloc=rng.choice([1, 2, 5])), tail=1.6)
        follow = rxlib.Tx(rng, rate=rate, gap_ht=1.0, H=samegen.gen_header(rng, nloc=1), tail=1.6, lead=rng.choice([0.0, 0.05, 0.3]))
        follow.amp, follow.dc, follow.phase, follow.frac, follow.baud, follow.snr = tx.amp, tx.dc, tx.phase, tx.frac, tx.baud, tx.snr
        script = ",".join(tx.segments() + follow.segments())
        total = int(sum(float(s[1:]) if s[0] == "S" else ((len(s) - 1) // 2 * 8 / 520.83) for s in tx.segments()) * rate)
        pfx = rng.choice([2, 2, 0, 4]); inv = rng.choice([5, 5, 0, 8]); pre = rng.choice([2, 2, 0, 5])
        cfg = "pfx=%d inv=%d pre=%d" % (pfx, inv, pre)
        # every value the constructor DERIVES from the configuration must be derived the same way by reset(): half of the
        # transmissions use documented non-default builder settings over their whole permitted range (timing bandwidth 0..1,
        # deviation 0..0.5, DC blocker length, AGC bandwidth and limits, squelch bandwidth)
        if j % 2 == 1:
            opts = []
            if rng.chance(2, 3):
                tbu = rng.choice([0.75, 1.0, 0.6, 0.3, 0.125, 0.02]); opts.append("tbu=%g tbl=%g" % (tbu, rng.choice([0.05, tbu, 0.0, tbu / 2])))
            if rng.chance(1, 3):
                opts.append("tdev=%g" % rng.choice([0.0, 0.02, 0.1, 0.5]))
            if rng.chance(1, 3):
                opts.append("dclen=%g" % rng.choice([0.0, 0.1, 1.0, 2.5]))
            if rng.chance(1, 3):
                opts.append("agcbw=%g" % rng.choice([0.0, 0.05, 1.0]))
            if rng.chance(1, 3):
                opts.append("gmin=0.0000305185 gmax=0.005")
            if rng.chance(1, 4):
                opts.append("sqbw=%g" % rng.choice([0.05, 0.5, 1.0]))
            cfg = " ".join([cfg] + opts)
        ends = tx.burst_end_samples()
        special = []
        for e in ends.values():
            dur = lambda nbytes: int(rate * nbytes * 8 / 520.83)
            special += [e - dur(16 + len(tx.H)) // 2, e - 5, e + 1, e + int(0.2 * rate), e + int(0.6 * rate)]
        # inside the preamble of a burst, where the equalizer is in training mode for 32 symbols after byte sync
        for i, e in ends.items():
            start = e - int(rate * (16 + (len(tx.H) if i < 3 else 4)) * 8 / 520.83 / (1 + tx.baud))
            special += [start + int(rate * nb * 8 / 520.83) for nb in (5, 6, 7, 8, 9, 10, 12)]
        if True:
            pass
        pts = special[:] + [rng.below(total) for _ in range(max(4, len(special) // 3))]
        rng2 = rng.fork("pts%d" % j)
        chosen = [pts[rng2.below(len(pts))] for _ in range(n_points)]
        for k in chosen:
            k = max(0, min(total, k))
            desc = {"rate": rate, "reset_at": k, "cfg": cfg, "mask": format(tx.mask, "06b")[::-1]}
            base = tx.line(extra=cfg, script=script)
            dumps.append((desc, base.replace("rxaudio", "dbgdump", 1) + " reset_at=%d" % k))
            behav.append((desc, base + " reset_at=%d" % k, base + " skip=%d" % k))
    return dumps, behav


def run(ctx):
    rng = ctx.rng.fork("C18")
    q = ctx.quick
    dumps, behav = make_cases(rng, 8 if q else 40, 6 if q else 40)
    n_field, n_model, n_equal, modes = structural(ctx, dumps)
    same, nontriv = behavioural(ctx, behav)
    ctx.coverage.update({
        "evaluations": len(dumps) + len(behav),
        "distinct_nontrivial": nontriv + sum(v for k, v in modes.items() if k != "EnabledFeedback"),
        "rule": "transmissions (random rate, impairments, loss masks, framing budgets) followed by a second transmission 0..0.3 s "
                "after; reset points at mid-burst, just before/after each burst end, in the hold period and at random samples. "
                "Per point: Debug(before/after reset/new) parsed into 64 leaf paths and run through the extracted structural "
                "model; events of reset-then-rest vs new-receiver-on-rest compared with timestamps. Non-trivial = the rest of the "
                "stream produced a message, or the reset hit the equalizer in training mode.",
        "samples": [dumps[0][0], behav[-1][0]] if dumps else [],
        "field_lists_equal": n_field, "model_reset_and_fresh_equal_impl": n_model, "debug_after_reset_equals_new": n_equal,
        "event_traces_equal": same, "equalizer_mode_at_reset": modes,
        "traces_validated_against_impl": n_model + same,
    })


def replay(payload):
    line = payload["input"]
    if line.startswith("dbgdump"):
        d = parse_dump(vlib.run_lines(vlib.IMPLRUN, [line])[0])
        diff = [p for p in sorted(d[1]) if d[1][p] != d[2].get(p)]
        print("fields differing after reset vs new:", diff)
        return 1 if diff else 0
    a = rxlib.run_rx([line, payload["fresh_input"]], check_model=False)
    print("reset:", a[0]["impl"][:2000]); print("fresh:", a[1]["impl"][:2000])
    return 0 if a[0]["impl"] == a[1]["impl"] else 1
