"""C12 — child processes get the right environment and the exact message audio.  Theorems: coq/Properties/C12.v.
Tie: recordings with 1..3 messages are run through the built samedec with a recorder child that dumps its SAMEDEC_*
environment and its standard input; compared with (a) the extracted App model run on the library's own message schedule
for the same samples (which child for which header, start and length of its audio), (b) the extracted build_env for each
header and the current date, (c) the bytes of the input file, (d) oracles written from the property text."""
import os, tempfile, datetime, subprocess
import vlib, sdlib, samegen

LEVEL = "proof"
WANT_SAMEDEC = True
ASSUMPTIONS = [
    "control flow and the environment function are proved on the model; process creation, the pipe and wait() are runtime "
    "behaviour exercised on the built binary (correspondence), not proved",
    "the environment depends on the wall clock (year inference): the model is given the UTC date of the run; a run that "
    "straddles midnight UTC is repeated",
]
VARS = ["SAMEDEC_RATE", "SAMEDEC_MSG", "SAMEDEC_ORG", "SAMEDEC_ORIGINATOR", "SAMEDEC_EVT", "SAMEDEC_EVENT", "SAMEDEC_SIGNIFICANCE",
        "SAMEDEC_SIG_NUM", "SAMEDEC_LOCATIONS", "SAMEDEC_ISSUETIME", "SAMEDEC_PURGETIME", "SAMEDEC_IS_NATIONAL"]


def special_header(rng, kind):
    today = datetime.datetime.utcnow().timetuple().tm_yday
    base = samegen.gen_header(rng, nloc=rng.choice([1, 3, 7]))
    def put(h, **kw):
        # rebuild from grammar parts
        parts = h.split(b"+")
        head, tail = parts[0], parts[1]
        f = head.split(b"-")
        org, evt, locs = f[1], f[2], f[3:]
        t = tail.split(b"-")
        tttt, jjj, call = t[0], t[1], t[2]
        org = kw.get("org", org); evt = kw.get("evt", evt); locs = kw.get("locs", locs)
        tttt = kw.get("tttt", tttt); jjj = kw.get("jjj", jjj); call = kw.get("call", call)
        return b"ZCZC-" + org + b"-" + evt + b"-" + b"-".join(locs) + b"+" + tttt + b"-" + jjj + b"-" + call + b"-"
    if kind == "national":
        return put(base, org=b"PEP", evt=rng.choice([b"EAN", b"NPT", b"NIC"]), locs=[b"000000"])
    if kind == "unknown-org":
        return put(base, org=bytes(rng.choice(b"XYZQ") for _ in range(3)))
    if kind == "canada":
        return put(base, org=b"WXR", call=b"EC/GC/" + bytes(rng.choice(b"ABC") for _ in range(2)))
    if kind == "bad-issue":
        return put(base, jjj=rng.choice([b"0001200", b"3671200", b"1002400", b"1001260"]))
    if kind == "long-valid":
        return put(base, tttt=rng.choice([b"9959", b"9999", b"0000"]))
    if kind == "today":
        return put(base, jjj=b"%03d%02d%02d" % (today, rng.below(24), rng.below(60)))
    if kind == "unknown-evt":
        return put(base, evt=bytes(rng.choice(b"QXZ") for _ in range(2)) + rng.choice([b"W", b"A", b"E", b"S", b"T", b"Q"]))
    return base


def parse_env(path):
    d = {}
    for line in open(path, "rb").read().decode("latin1").splitlines():
        k, _, v = line.partition("=")
        d[k] = v
    return d


def property_env_oracle(env, H, rate):
    """directly from the property text"""
    text = H.decode("latin1")
    head, tail = text.split("+")
    f = head.split("-")
    if env.get("SAMEDEC_MSG") != text:
        return "SAMEDEC_MSG is not the full header text"
    if env.get("SAMEDEC_ORG") != f[1] or env.get("SAMEDEC_EVT") != f[2]:
        return "SAMEDEC_ORG/SAMEDEC_EVT (%r/%r) do not restate the header's codes" % (env.get("SAMEDEC_ORG"), env.get("SAMEDEC_EVT"))
    if env.get("SAMEDEC_LOCATIONS", "").split(" ") != f[3:]:
        return "SAMEDEC_LOCATIONS %r is not the header's locations separated by spaces" % env.get("SAMEDEC_LOCATIONS")
    if env.get("SAMEDEC_RATE") != str(rate):
        return "SAMEDEC_RATE %r is not the input rate" % env.get("SAMEDEC_RATE")
    it, pt = env.get("SAMEDEC_ISSUETIME", ""), env.get("SAMEDEC_PURGETIME", "")
    tttt = tail.split("-")[0]
    if (it == "") != (pt == ""):
        return "only one of SAMEDEC_ISSUETIME / SAMEDEC_PURGETIME is set"
    if it and int(pt) - int(it) != (int(tttt[:2]) * 60 + int(tttt[2:])) * 60:
        return "SAMEDEC_PURGETIME - SAMEDEC_ISSUETIME = %d s, the validity duration is %s" % (int(pt) - int(it), tttt)
    sig = env.get("SAMEDEC_SIGNIFICANCE", "")
    num = env.get("SAMEDEC_SIG_NUM", "")
    want_num = {"T": "0", "S": "1", "E": "2", "A": "3", "W": "4", "": "5"}.get(sig)
    if want_num is None or num != want_num:
        return "SAMEDEC_SIGNIFICANCE %r and SAMEDEC_SIG_NUM %r are inconsistent" % (sig, num)
    if env.get("SAMEDEC_IS_NATIONAL") not in ("", "Y"):
        return "SAMEDEC_IS_NATIONAL is neither empty nor Y"
    if env.get("SAMEDEC_IS_NATIONAL") == "Y" and f[3:] != ["000000"]:
        return "SAMEDEC_IS_NATIONAL=Y for a message that is not addressed to the whole country"
    return None


def run(ctx):
    rng = ctx.rng.fork("C12")
    q = ctx.quick
    nrec = 8 if q else 240
    kinds = ["national", "unknown-org", "canada", "bad-issue", "long-valid", "today", "unknown-evt", "plain"]
    ok_env, ok_audio, children, runs, samples, kdist = 0, 0, 0, 0, [], {}
    with tempfile.TemporaryDirectory(prefix="c12_") as td:
        rec_script = os.path.join(td, "recorder.sh")
        sdlib.write_script(rec_script, sdlib.RECORDER)
        for i in range(nrec):
            ntx = [1, 2, 3, 2][i % 4]
            special = dict(ntx=ntx, back_to_back=(i % 4 == 3), close_cut=(i % 3 == 0), header_only_last=(i % 5 == 4), lossy=False,
                           rate=rng.choice([8000, 11025, 22050, 44100] if i % 6 else [48000]))
            if i % 8 == 1:
                # two headers and no trailer at all, the recording cut at the last burst: the second header arrives while the first
                # child is being fed and is still held by the assembler when the input ends
                special.update(ntx=2, back_to_back=True, close_cut=True, header_only_last=True)
                ntx = 2
            # headers of chosen kinds: make_recording draws its own headers, so patch samegen for this recording
            want_kinds = [kinds[(i + j) % len(kinds)] for j in range(ntx)]
            hs = [special_header(rng, k) for k in want_kinds]
            it = iter(hs)
            orig = samegen.gen_header
            samegen.gen_header = lambda *a, **k: next(it)
            try:
                rec, desc = sdlib.make_recording(rng, td, "r%d" % i, **special)
            finally:
                samegen.gen_header = orig
            for k in want_kinds:
                kdist[k] = kdist.get(k, 0) + 1
            rdir = os.path.join(td, "rec%d" % i)
            os.mkdir(rdir)
            d0 = datetime.datetime.utcnow()
            if i % 4 == 2:
                # the recording arrives on a pipe, written in odd-sized chunks with a pause (a live source): the children must get
                # exactly the same bytes as from a file
                r = sdlib.run_samedec_chunked(rec, [(2 * rng.range(200, 3000) + 1, 0.25), (4097, 0), (8191, 0.02), (16385, 0)],
                                              child=[rec_script], env={"REC_DIR": rdir})
            else:
                r = sdlib.run_samedec(rec, child=[rec_script], env={"REC_DIR": rdir})
            d1 = datetime.datetime.utcnow()
            runs += 1
            mlines, mspawns, raw = rec.model(0, 1)
            if mlines is None:
                ctx.violation("correspondence", "model driver: " + raw[:100], {"input": rec.line}); continue
            if r["hang"] or r["rc"] != 0 or r["stdout"] != mlines:
                ctx.violation("property", "samedec with a recorder child printed %s (exit %s), model/library: %s" % (
                    [l[:20] for l in r["stdout"]], r["rc"], [l[:20] for l in mlines]), {"input": rec.line, "cmd": r["cmd"]})
                continue
            envs = sorted(f for f in os.listdir(rdir) if f.endswith(".env"))
            if len(envs) != len(mspawns):
                ctx.violation("property", "%d child processes were spawned for %d StartOfMessage(s) [%s]" % (len(envs), len(mspawns), desc),
                              {"input": rec.line, "cmd": r["cmd"]})
                continue
            if os.path.exists(os.path.join(rdir, "overlap")):
                ctx.violation("property", "two child processes were alive at the same time: samedec did not wait for the first before "
                              "spawning the next [%s]" % desc, {"input": rec.line, "cmd": r["cmd"]})
            if any(not os.path.exists(os.path.join(rdir, "%d.done" % j)) for j in range(len(envs))):
                ctx.violation("property", "samedec exited before a child finished (no wait) [%s]" % desc, {"input": rec.line, "cmd": r["cmd"]})
            data = open(rec.path, "rb").read()
            for j, (hdr, child) in enumerate(mspawns):
                children += 1
                env = parse_env(os.path.join(rdir, "%d.env" % j))
                H = hdr.encode("latin1")
                bad = property_env_oracle(env, H, rec.rate)
                if bad:
                    ctx.violation("property", "%s [header %s]" % (bad, hdr), {"input": rec.line, "env": env})
                # model environment for the date of the run
                if d0.date() == d1.date():
                    y, doy = d0.year, d0.timetuple().tm_yday
                    mo = vlib.run_lines(vlib.MODELRUN, ["childenv %s %s %d %d" % (H.hex(), str(rec.rate).encode().hex(), y, doy)])[0]
                    mv = [bytes.fromhex(t).decode("latin1") if t != "-" else "" for t in mo.split(" ")] if " " in mo else None
                    iv = [env.get(v, "") for v in VARS]
                    if mv != iv:
                        diff = [(VARS[k], iv[k], (mv or [""] * 12)[k]) for k in range(12) if mv is None or iv[k] != mv[k]]
                        ctx.violation("correspondence", "child environment differs from the model's build_env: %s [header %s]" % (diff[:3], hdr),
                                      {"input": rec.line, "model": mo[:400], "env": env})
                    elif not bad:
                        ok_env += 1
                start, ln = child
                got = open(os.path.join(rdir, "%d.pcm" % j), "rb").read()
                want = data[2 * start: 2 * (start + ln)]
                # independently of the model: from the sample after the header was decoded up to the next message or end of input
                cs = [c for (m, c) in rec.msgs]
                idx = [k for k, (m, c) in enumerate(rec.msgs) if m == hdr]
                if got != want:
                    first = next((k for k in range(min(len(got), len(want))) if got[k] != want[k]), min(len(got), len(want)))
                    ctx.violation("property", "the child for %s received %d bytes, expected the %d bytes of samples %d..%d of the input "
                                  "(first difference at byte %d)" % (hdr[:24], len(got), len(want), start, start + ln, first),
                                  {"input": rec.line, "cmd": r["cmd"]})
                else:
                    ok_audio += 1
            if len(samples) < 2 and mspawns:
                samples.append({"recording": desc, "children": [(h[:30], c) for h, c in mspawns]})
    ctx.coverage.update({
        "evaluations": runs, "distinct_nontrivial": children,
        "rule": "recordings with 1..3 messages (with/without trailer, header directly after header, close-cut, header-only end) of headers "
                "of 8 kinds (national, unknown originator, Environment Canada, impossible issue date, long validity, issued today, unknown "
                "event, plain) at 8000..48000 Hz run through samedec with a recorder child; non-trivial = a child process was spawned.",
        "samples": samples, "children_spawned": children, "environments_equal_model_and_oracle": ok_env, "audio_byte_exact": ok_audio,
        "header_kinds": kdist, "traces_validated_against_impl": ok_audio,
    })


def replay(payload):
    print("re-synthesize with:", payload.get("input")); print("then:", payload.get("cmd")); return 0
