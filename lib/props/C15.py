"""C15 — issue time reconstruction.  Theorems: coq/Properties/C15.v."""
import datetime, struct
import vlib
from vlib import canon

LEVEL = "proof"
ASSUMPTIONS = [
    "chrono's calendar (from_yo_opt / and_hms_opt validity, year range -262143..262142, proleptic Gregorian leap rule) is "
    "re-stated in Model/IssueTime.v and validated here against chrono itself and against Python's datetime",
    "DateTime + TimeDelta overflow at the very end of chrono's year range is outside the theorem's range",
]
EPOCH = datetime.date(1970, 1, 1)
M = 0xFFFFFFFFFFFFFFFF


def fnv_i64(h, v):
    for b in struct.pack("<q", v):
        h = ((h ^ b) * 0x100000001b3) & M
    return h


def oracle_block(args):
    yi, hh, mm = args
    h = 0xcbf29ce484222325
    d = datetime.date(yi, 1, 1)
    while d.year == yi:
        true_issue = (d - EPOCH).days * 86400 + hh * 3600 + mm * 60
        for off in range(-90, 91):
            h = fnv_i64(h, true_issue)      # the property: exact for every receive day within +/-90 days
        d += datetime.timedelta(days=1)
    return "%016x" % h


def yo(d):
    return d.year, d.timetuple().tm_yday


def header_time_fields(ctx, rng, n):
    """the numbers the issue-time computation starts from are the header's own JJJHHMM and TTTT fields, wherever the '+' sits:
    generated headers (1..31 locations, callsigns of 3..8 characters) through the header accessors of model and implementation,
    against the fields cut out of the text"""
    from props import C06
    import samegen
    lines, want = [], []
    for _ in range(n):
        H = samegen.gen_header(rng, nloc=rng.choice([1, 1, 2, 7, 31]), calllen=rng.range(3, 8))
        lines.append("hdr " + vlib.hx(H)); want.append(C06.oracle_hdr(H))
    mo = vlib.run_lines(vlib.MODELRUN, lines); im = vlib.run_lines(vlib.IMPLRUN, lines)
    ok = 0
    for l, a, b_, w in zip(lines, mo, im, want):
        if a != b_ and "PANIC" not in a + b_:
            ctx.violation("correspondence", "header accessors: model and implementation differ", {"input": l, "model": a[:300], "impl": b_[:300]})
        elif b_ != w:
            ctx.violation("property", "issue day/time or validity fields of an accepted header are not the JJJHHMM / TTTT fields of its text: "
                          "got %s" % b_[-90:], {"input": l, "impl": b_[:400], "expected": w[:400]})
        else:
            ok += 1
    return ok


def run(ctx):
    quick = ctx.quick
    rng = ctx.rng.fork("C15")
    ctx.coverage["header_time_fields_ok"] = header_time_fields(ctx, rng.fork("hdr"), 200 if quick else 5000)
    if quick:
        centres = [2000, 2100, 2024, 1972, rng.range(1973, 2197)]
        years = sorted(set(y for c in centres for y in (c - 1, c, c + 1)))
    else:
        years = list(range(1970, 2201))
    tod = [(0, 0), (23, 59), (12, 34)] if not quick else [(rng.below(24), rng.below(60))]
    lines, exp, kinds = [], [], []
    blocks = [(y, h, m) for y in years for (h, m) in tod]
    for (y, h, m) in blocks:
        lines.append("issueblock %d %d %d" % (y, h, m)); kinds.append("block"); exp.append(None)
    # individual cases
    n_ind = 20000 if quick else 300000
    dist = {"in-range": 0, "out-of-range-offset": 0, "invalid-date": 0, "far-year": 0, "expired": 0, "fields": 0}
    for _ in range(n_ind):
        k = rng.below(10)
        yi = rng.range(1970, 2200)
        d = datetime.date(yi, 1, 1) + datetime.timedelta(days=rng.below(366))
        hh, mm = rng.below(24), rng.below(60)
        if k < 4:
            off = rng.range(-90, 90)
            r = d + datetime.timedelta(days=off)
            ry, ro = yo(r); _, oi = yo(d)
            lines.append("issue %d %d %d %d %d" % (oi, hh, mm, ry, ro))
            exp.append(str((d - EPOCH).days * 86400 + hh * 3600 + mm * 60)); kinds.append("in-range")
        elif k < 6:
            off = rng.choice([-1, 1]) * rng.range(91, 200)
            r = d + datetime.timedelta(days=off)
            ry, ro = yo(r); _, oi = yo(d)
            lines.append("issue %d %d %d %d %d" % (oi, hh, mm, ry, ro)); exp.append(None); kinds.append("out-of-range-offset")
        elif k < 8:
            # impossible dates: day 0, day 366 into a non-leap year, day > 366, hour >= 24, minute >= 60
            ry, ro = yo(d)
            c = rng.below(5)
            j, h2, m2 = ro, hh, mm
            if c == 0: j = 0
            elif c == 1: j = rng.range(367, 999)
            elif c == 2: h2 = rng.range(24, 99)
            elif c == 3: m2 = rng.range(60, 99)
            else:
                j = 366
                if (ry % 4 == 0 and (ry % 100 != 0 or ry % 400 == 0)):
                    ry += 1
                ro = min(ro, 365)
                ro = 200 if not (366 - 180 < ro < 366 + 180) else ro   # keep the inferred year = ry
            lines.append("issue %d %d %d %d %d" % (j, h2, m2, ry, ro)); exp.append("err"); kinds.append("invalid-date")
        elif k == 8:
            ry = rng.choice([-262143, -262142, 262141, 262142, 0, -1, 1, -400, 9999, 10000, rng.range(-262143, 262142)])
            ro = rng.range(1, 365)
            lines.append("issue %d %d %d %d %d" % (rng.range(0, 400), hh, mm, ry, ro)); exp.append(None); kinds.append("far-year")
        else:
            off = rng.range(-90, 90)
            r = d + datetime.timedelta(days=off)
            ry, ro = yo(r); _, oi = yo(d)
            dh, dm = rng.below(100), rng.below(100)
            issue = (d - EPOCH).days * 86400 + hh * 3600 + mm * 60
            # choose "now" around the expiry instant
            exp_s = issue + (dh * 60 + dm) * 60
            now_day_s = (r - EPOCH).days * 86400
            sod = exp_s - now_day_s + rng.choice([-1, 0, 0, 1])
            if not (0 <= sod < 86400):
                sod = rng.below(86400)
            ns = rng.choice([0, 0, 1, 999999999, rng.below(1000000000)])
            now_s = now_day_s + sod
            e = exp_s < now_s or (exp_s == now_s and ns > 0)
            lines.append("expired %d %d %d %d %d %d %d %d %d" % (oi, hh, mm, dh, dm, ry, ro, sod, ns))
            exp.append("1" if e else "0"); kinds.append("expired")
        dist[kinds[-1]] += 1
    # all 10^4 values of each four-digit field through the header accessors (HHMM of issue time, TTTT)
    if not quick:
        for v in range(10000):
            lines.append("issue 100 %d %d 2024 100" % (v // 100, v % 100))
            ok = (v // 100) < 24 and (v % 100) < 60
            exp.append(str((datetime.date(2024, 1, 1) - EPOCH).days * 86400 + 99 * 86400 + (v // 100) * 3600 + (v % 100) * 60) if ok else "err")
            kinds.append("fields"); dist["fields"] += 1
    model = vlib.run_lines_parallel(vlib.MODELRUN, lines, shards=vlib.NCPU)
    impl = vlib.run_lines_parallel(vlib.IMPLRUN, lines, shards=vlib.NCPU)
    from concurrent.futures import ProcessPoolExecutor
    with ProcessPoolExecutor(vlib.NCPU) as ex:
        exp_blocks = list(ex.map(oracle_block, blocks))
    for i, b in enumerate(blocks):
        exp[i] = exp_blocks[i]
    mism = 0
    samples = []
    nontriv = set()
    for line, e, k, mo, im in zip(lines, exp, kinds, model, impl):
        if mo != im:
            mism += 1
            ctx.violation("correspondence", "model and implementation differ on: " + line, {"input": line, "model": mo, "impl": im})
        if e is not None and im != e:
            what = "%s -> %s, but the true issue instant / expiry says %s" % (line, im, e)
            if k == "block":
                what = "some (issue day, receive day) pair of issue year %s is not reconstructed exactly (%s)" % (line.split()[1], line)
            ctx.violation("property", what, {"input": line, "impl": im, "model": mo, "expected": e})
        if k != "block" and im != "err":
            nontriv.add(line)
        if len(samples) < 8 and k in ("in-range", "invalid-date", "expired", "block") and len(line) % 5 == 0:
            samples.append({"input": line, "impl": im, "expected": e})
    pairs = sum((366 if (y % 4 == 0 and (y % 100 != 0 or y % 400 == 0)) else 365) * 181 for (y, _, _) in blocks)
    ctx.coverage.update({
        "evaluations": len(lines) - len(blocks) + pairs,
        "distinct_nontrivial": len(nontriv) + pairs,
        "rule": "issueblock y h m = every ordinal day of issue year y x every receive offset -90..+90 days (each pair is a "
                "distinct non-trivial case; results compared model/impl/oracle through FNV hashes); plus individual "
                "cases of the listed kinds (non-trivial when an issue time is produced).",
        "samples": samples,
        "issue_years_swept": years if quick else "1970..2200",
        "date_pairs_swept": pairs,
        "individual_kinds": dist,
        "exhaustive": not quick,
        "model_impl_mismatches": mism,
    })


def replay(payload):
    line = payload["input"]
    mo = vlib.run_lines(vlib.MODELRUN, [line])[0]
    im = vlib.run_lines(vlib.IMPLRUN, [line])[0]
    print("input:", line); print("model:", mo); print("impl :", im); print("expected:", payload.get("expected"))
    return 0 if mo == im else 1
