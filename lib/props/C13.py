"""C13 — streaming.  Theorems: coq/Properties/C13.v."""
import vlib, rxlib, samegen

LEVEL = "proof"
ASSUMPTIONS = [
    "DSP state lives in the receiver and not in the iterator (SameReceiverIter has two fields: source and &mut receiver): "
    "by inspection, exercised by the chunked runs here",
    "the link-lifecycle claim is checked on every trace by the oracle; its proof on the model is not part of this check yet "
    "(the immediate re-sync edge burst->searching is a known finding, see known_findings.json)",
]


def strip_t(evs):
    return [e.rsplit("@", 1)[0] for e in evs]


def run(ctx):
    quick = ctx.quick
    rng = ctx.rng.fork("C13")
    n = 16 if quick else 800
    known = vlib.load_known_findings("C13")
    lines, meta = [], []
    for i in range(n):
        if rng.chance(3, 4):
            tx = rxlib.Tx(rng, mask=rng.choice([0b111111, 0b111011, 0b101101]), rate=rng.choice([8000, 11025, 22050, 44100]),
                          gap_ht=rng.choice([1.0, 3.0]))
            base = tx.line()
            kind = "transmission"
        else:
            kind, tx, base = rxlib.near_miss_line(rng)
        scheds = ["whole", "chunks:%d:%d" % (rng.below(1 << 30), rng.choice([1, 7, 100, 5000, 100000])),
                  "chunks:%d:%d" % (rng.below(1 << 30), rng.choice([3, 1000])), "one", "mixed:%d" % rng.below(1 << 30)]
        for s in scheds:
            lines.append(base.replace("rxaudio ", "rxaudio sched=%s " % s, 1))
            meta.append((i, kind, s))
    res = rxlib.run_rx(lines)
    groups = {}
    for (i, kind, s), r, line in zip(meta, res, lines):
        groups.setdefault(i, []).append((kind, s, r, line))
    mism = nontriv = 0
    samples = []
    known_edges = 0
    for i, g in groups.items():
        whole = g[0][2]
        if whole.get("error"):
            ctx.violation("harness-failure", whole["error"][:200], {"input": g[0][3]}); continue
        wev = whole["impl"].split(";") if whole["impl"] != "-" else []
        if len(wev) > 1:
            nontriv += 1
        nsamp = int(whole["extras"]["samples"])
        c, kn = rxlib.oracle_stream(rxlib.parse_events(whole["impl"]), nsamp)
        known_edges += len(kn)
        if c:
            ctx.violation("property", c, {"input": g[0][3], "events": whole["impl"][:3000]})
        for kind, s, r, line in g:
            if r.get("error"):
                ctx.violation("harness-failure", r["error"][:200], {"input": line}); continue
            if not s.startswith("mixed") and r["model"] != r["impl"]:
                mism += 1
                ctx.violation("correspondence", "receiver model replay differs from the implementation under schedule " + s,
                              {"input": line, "model": r["model"][:2000], "impl": r["impl"][:2000]})
            ev = r["impl"].split(";") if r["impl"] != "-" else []
            if int(r["extras"]["counter"]) != int(r["extras"]["samples"]):
                ctx.violation("property", "input_sample_counter %s != samples supplied %s under schedule %s" % (r["extras"]["counter"], r["extras"]["samples"], s), {"input": line})
            if s.startswith("mixed"):
                # delivered items must be the single pass in order: events exactly, messages none lost
                want_msgs = [e for e in strip_t(wev) if e.startswith("TM")]
                got = strip_t(ev)
                got_msgs = [e for e in got if e.startswith("TM")]
                if got_msgs != want_msgs:
                    ctx.violation("property", "messages delivered under a mixed iter_events/iter_messages schedule differ from the single pass",
                                  {"input": line, "mixed": got_msgs, "whole": want_msgs})
                it = iter(strip_t(wev))
                if not all(any(x == y for y in it) for x in got):
                    ctx.violation("property", "events under a mixed schedule are not an in-order subsequence of the single pass", {"input": line})
                timed = [e for e in ev if not e.endswith("@?")]
                wset = set(wev)
                if any(e not in wset for e in timed):
                    ctx.violation("property", "an event under a mixed schedule carries a different timestamp than in the single pass", {"input": line})
            elif ev != wev:
                ctx.violation("property", "events under schedule %s differ from the single pass" % s,
                              {"input": line, "schedule": s, "got": r["impl"][:2000], "whole": whole["impl"][:2000]})
            if s == "one":
                # after each next(): the receiver's counter equals the timestamp of the event just returned
                cs = r["extras"].get("checks", "-")
                checks = [tuple(int(x) for x in c.split(":")) for c in cs.split(",")] if cs != "-" else []
                pe = rxlib.parse_events(r["impl"])
                for k, e in enumerate(pe):
                    if k < len(checks) - 1 and checks[k][0] != e["t"]:
                        ctx.violation("property", "read-ahead: after next() returned the event stamped %d the receiver had counted %d samples" % (e["t"], checks[k][0]),
                                      {"input": line})
                        break
        if len(samples) < 4:
            samples.append({"input": g[0][3][:240], "schedules": [x[1] for x in g], "events": whole["impl"][:240]})
    if known_edges:
        for k in known:
            if k.get("kind") == "known":
                ctx.known.append(k["line"])
    ctx.coverage.update({
        "evaluations": len(lines), "distinct_nontrivial": nontriv * 4,
        "rule": "each audio case is run under 5 schedules (one pass; two random chunkings from 1 sample up; one event per "
                "iterator binding on a shared source; random mix of iter_events/iter_messages with take(k)); non-trivial = "
                "case with more than one event; distinct = case x non-trivial schedule",
        "samples": samples, "audio_cases": n, "model_impl_mismatches": mism,
        "traces_validated_against_impl": len(lines) - mism,
        "known_finding_edges_seen": known_edges,
    })


def replay(payload):
    r = rxlib.run_rx([payload["input"]])[0]
    print("impl :", r["impl"][:2000]); print("model:", (r["model"] or "")[:2000])
    return 0 if r["model"] == r["impl"] else 1
