"""C17 — every documented configuration builds and runs.  Theorems: coq/Properties/C17.v.
Tie: (1) builder call sequences (any order, boundary/special/random arguments) run on the real builder and on the
extracted Config model over an order-isomorphic integer image of f32: getters, constructed window lengths and
panic/no-panic must agree; the two float->usize sizes are evaluated in Coq (Flocq binary32, Eval vm_compute) for
the same (rate, dc) pairs and fed to the model; (2) property oracle: no call sequence in the documented domain
panics at build time, and a sample of the built receivers processes 0.5 s of mixed audio without panicking;
(3) the corresponding samedec options."""
import os, re, struct, subprocess
import vlib

LEVEL = "proof"
ASSUMPTIONS = [
    "floats are modelled as a total order without NaN (the documented domain: finite values); IEEE facts used: "
    "clamp/min/max only select among their arguments; the two float->integer sizes are evaluated bit-exactly in Flocq binary32",
    "partial: absence of panics inside float library calls (libm, nalgebra) and in the per-sample DSP is sampled "
    "(0.5 s of mixed audio per configuration under catch_unwind), not proved; DC lengths above 1000 symbols are outside the "
    "sampled domain (allocation size)",
]


def bits(x):
    return struct.unpack("<I", struct.pack("<f", x))[0]


def fl(b):
    return struct.unpack("<f", struct.pack("<I", b))[0]


def hx(x):
    return "0x%08x" % (x if isinstance(x, int) else bits(x))


SPECIAL = [0.0, -0.0, 1e-45, 1e-38, 1e-6, 0.001, 0.05, 0.1, 0.25, 0.38, 0.5, 0.9999999, 1.0, 1.0000001, 2.0, 10.0, 1e6, 1e30,
           3.4028235e38, -1e-45, -0.001, -1.0, -1e30]


def rfloat(rng, lo=None, hi=None):
    k = rng.below(4)
    if k == 0:
        return rng.choice(SPECIAL)
    if k == 1:   # random finite bit pattern
        while True:
            b = rng.below(1 << 32)
            if (b >> 23) & 0xff != 0xff:
                return fl(b)
    if k == 2:
        return rng.below(2001) / 1000.0 - 0.5
    b = bits(rng.choice([0.0, 0.5, 1.0, 0.38, 0.05]))
    return fl(max(0, min(0x7f7fffff, b + rng.range(-2, 2))))     # next to an edge


def gen_calls(rng):
    calls = []
    n = rng.choice([0, 1, 2, 3, 5, 8, 12])
    for _ in range(n):
        k = rng.below(12)
        if k == 0:
            v = rfloat(rng)
            if abs(v) > 1000:          # resource limit on the DC window
                v = rng.choice([0.0, 0.001, 0.05, 5.0, 1000.0])
            calls.append("dc:" + hx(v))
        elif k == 1:
            calls.append("agc:" + hx(rfloat(rng)))
        elif k == 2:
            a, b = sorted([rfloat(rng), rfloat(rng)])
            calls.append("gain:%s:%s" % (hx(a), hx(b)))
        elif k == 3:
            calls.append("tbw:%s:%s" % (hx(rfloat(rng)), hx(rfloat(rng))))
        elif k == 4:
            calls.append("dev:" + hx(rfloat(rng)))
        elif k == 5:
            calls.append("sqp:%s:%s" % (hx(rfloat(rng)), hx(rfloat(rng))))
        elif k == 6:
            calls.append("sqbw:" + hx(rfloat(rng)))
        elif k == 7:
            calls.append("pre:%d" % rng.choice([0, 1, 2, 5, 7, 16, 31, 32, 33, 4000000000]))
        elif k == 8:
            calls.append("pfx:%d" % rng.choice([0, 1, 2, 6, 7, 8, 31, 32, 4000000000]))
        elif k == 9:
            calls.append("inv:%d" % rng.choice([0, 1, 5, 8, 255, 4000000000]))
        elif k == 10:
            calls.append("noeq")
        else:
            order = "-:-" if rng.chance(1, 4) else "%d:%d" % (rng.choice([1, 1, 2, 3, 6, 8, 17, 64]), rng.choice([1, 1, 2, 4, 6, 9, 64, 100]))
            relax = "-" if rng.chance(1, 3) else hx(rfloat(rng))
            regul = "-" if rng.chance(1, 3) else hx(rfloat(rng))
            calls.append("eq:%s:%s:%s" % (order, relax, regul))
    return ";".join(calls) or "-"


def key_to_bits(k):
    return k if k >= 0 else (0x80000000 | (-k))


def coq_sizes(pairs):
    """[(rate, dc_bits)] -> [(ntaps, dcraw)] evaluated by Coq in Flocq binary32"""
    res = []
    for i in range(0, len(pairs), 400):
        chunk = pairs[i:i + 400]
        body = ("From Coq Require Import ZArith List.\nFrom Sameold Require Import Model.ConfigSizes.\nImport ListNotations.\nOpen Scope Z_scope.\n"
                "Eval vm_compute in map (fun p => (ntaps (fst p), dcraw (snd p) (fst p))) [%s].\n"
                % "; ".join("(%d, %d)" % p for p in chunk))
        out = vlib.coq_eval("c17_%d" % i, body)
        got = [(int(a), int(b)) for a, b in re.findall(r"\(\s*(\d+)\s*,\s*(\d+)\s*\)", out.split("=", 1)[1])]
        if len(got) != len(chunk):
            raise vlib.BuildError("coq-eval c17", out[-500:])
        res += got
    return res


def samedec_options(ctx, rng, n):
    exe = os.path.join(vlib.TARGET, "release", "samedec")
    ok = 0
    cases = [["--dc-blocker-len", "0"], ["--dc-blocker-len", "0.05", "-r", "8000"], ["--agc-bw", "0"], ["--timing-bw-unlocked", "0", "--timing-bw-locked", "0"],
             ["--squelch-power-open", "0", "--squelch-power-close", "0"], ["--preamble-max-errors", "0"], ["--preamble-max-errors", "5"],
             ["-r", "192000"], ["-r", "8000"], ["--timing-max-deviation", "0"]]
    help_ = subprocess.run([exe, "--help"], stdout=subprocess.PIPE, stderr=subprocess.STDOUT, text=True).stdout
    data = bytes(rng.below(256) for _ in range(20000))
    tried = 0
    for c in cases[:n]:
        if not all(o in help_ for o in c if o.startswith("--")):
            continue
        tried += 1
        p = subprocess.run([exe] + c + ["--file", "-"], input=data, stdout=subprocess.PIPE, stderr=subprocess.PIPE, timeout=60)
        if p.returncode != 0 or b"panicked" in p.stderr:
            ctx.violation("property", "samedec %s exits with status %d%s" % (" ".join(c), p.returncode, " (panic)" if b"panicked" in p.stderr else ""),
                          {"input": "samedec " + " ".join(c), "stderr": p.stderr.decode("latin1")[-600:]})
        else:
            ok += 1
    return tried, ok


WANT_SAMEDEC = True


def run(ctx):
    rng = ctx.rng.fork("C17")
    q = ctx.quick
    n = 400 if q else 20000
    rates = [8000, 8001, 11025, 16000, 22050, 44100, 48000, 96000, 192000]
    cases = []
    for i in range(n):
        rate = rng.choice(rates) if rng.chance(2, 3) else rng.range(8000, 192000)
        cases.append((rate, gen_calls(rng)))
    # the inputs of the repaired defect, always
    cases += [(22050, "dc:" + hx(0.0)), (8000, "dc:" + hx(0.05)), (8000, "dc:" + hx(0.0) + ";noeq"), (192000, "dc:" + hx(0.002))]
    impl = vlib.run_lines_parallel(vlib.IMPLRUN, ["cfgcalls %d %s" % c for c in cases])
    pairs, idx = [], []
    panics = 0
    for i, ((rate, calls), out) in enumerate(zip(cases, impl)):
        if not out.startswith("ok "):
            panics += 1
            ctx.violation("property", "a configuration inside the documented ranges panics at build time: rate %d, calls %s -> %s"
                          % (rate, calls, out[:60]), {"input": "cfgcalls %d %s" % (rate, calls)})
            continue
        dc_key = int(out.split(" ")[1])
        pairs.append((rate, key_to_bits(dc_key))); idx.append(i)
    sizes = coq_sizes(pairs)
    model = vlib.run_lines_parallel(vlib.MODELRUN, ["cfgcalls %d %s %d %d" % (cases[i][0], cases[i][1], s[0], min(s[1], 10 ** 7)) for i, s in zip(idx, sizes)])
    mism, zero_dc, eq_kinds = 0, 0, {"none": 0, "default": 0, "custom": 0}
    for i, s, mo in zip(idx, sizes, model):
        im = impl[i]
        if s[1] == 0:
            zero_dc += 1
        e = im.split(" ")[12]
        eq_kinds["none" if e == "none" else "custom" if "eq:" in cases[i][1] else "default"] += 1
        if mo != im:
            mism += 1
            ctx.violation("correspondence", "builder/construction model and implementation differ for rate %d calls %s: model %s, impl %s"
                          % (cases[i][0], cases[i][1][:80], mo[:100], im[:100]), {"input": "cfgcalls %d %s" % cases[i], "coq_sizes": s})
    # run a sample of the configurations on audio
    runlines = []
    for (rate, calls) in cases[:: max(1, len(cases) // (40 if q else 1200))]:
        kv = []
        for c in calls.split(";"):
            a = c.split(":")
            m = {"dc": "dc=%s", "agc": "agcbw=%s", "dev": "tdev=%s", "sqbw": "sqbw=%s", "pre": "pre=%s", "pfx": "pfx=%s", "inv": "inv=%s"}
            if a[0] in m:
                kv.append(m[a[0]] % a[1])
            elif a[0] == "gain":
                kv.append("gmin=%s gmax=%s" % (a[1], a[2]))
            elif a[0] == "tbw":
                kv.append("tbu=%s tbl=%s" % (a[1], a[2]))
            elif a[0] == "sqp":
                kv.append("sqo=%s sqc=%s" % (a[1], a[2]))
            elif a[0] == "noeq":
                kv.append("eq=none")
            elif a[0] == "eq" and a[1] != "-":
                kv.append("eq=%s:%s" % (a[1], a[2]))
        # later calls override earlier ones in the key=value form; keep the last of each key
        last = {}
        for item in " ".join(kv).split():
            last[item.split("=")[0]] = item
        runlines.append("cfgbuild rate=%d run=0.5 %s" % (rate, " ".join(last.values())))
        if len(runlines) % 5 == 0 or "sqc" in last or "inv" in last:
            runlines.append("cfgbuild rate=%d run=8 long=1 %s" % (rate, " ".join(last.values())))
    # the combination that lets a burst grow as long as it can: no power squelch, a large invalid-byte budget
    for rate in ([22050] if q else [8000, 22050, 48000]):
        runlines.append("cfgbuild rate=%d run=8 long=1 sqo=0 sqc=0 inv=%d" % (rate, rng.choice([50, 200, 1000])))
        runlines.append("cfgbuild rate=%d run=8 long=1 sqo=0 sqc=0" % rate)
    runs = vlib.run_lines_parallel(vlib.IMPLRUN, runlines)
    run_ok = 0
    for l, o in zip(runlines, runs):
        if not o.startswith("ok"):
            ctx.violation("property", "a configuration inside the documented ranges panics while processing audio: %s -> %s" % (l, o[:60]),
                          {"input": l})
        else:
            run_ok += 1
    tried, sok = samedec_options(ctx, rng, 10 if q else 60)
    ctx.coverage.update({
        "evaluations": len(cases) + len(runlines) + tried,
        "distinct_nontrivial": len(set(c for c in cases if c[1] != "-")),
        "rule": "sequences of 0..12 builder calls in random order with special (0.0, -0.0, subnormal, clamp edges +/- 2 ulp, 1e30, f32::MAX, "
                "negative) and random finite arguments, gain limits sorted, tap counts >= 1, DC length <= 1000 symbols, rates standard and "
                "random in 8000..192000; non-trivial = at least one call. Each is run on the real builder (getters, window lengths) and on the "
                "extracted model with the Coq/Flocq-evaluated sizes; a sample is run on 0.5 s of audio; samedec with boundary options.",
        "samples": ["cfgcalls %d %s" % cases[0], "cfgcalls %d %s" % cases[-3]],
        "build_panics": panics, "model_impl_mismatches": mism, "cases_with_zero_dc_samples_before_guard": zero_dc,
        "equalizer_kinds": eq_kinds, "audio_runs_ok": run_ok, "audio_runs": len(runlines),
        "samedec_option_sets_ok": sok, "samedec_option_sets": tried,
        "traces_validated_against_impl": len(idx) - mism,
    })


def replay(payload):
    line = payload["input"]
    if line.startswith("samedec"):
        print("re-run: " + line); return 0
    out = vlib.run_lines(vlib.IMPLRUN, [line])[0]
    print(line, "->", out)
    return 0 if out.startswith("ok") else 1
