"""C04 — no message without evidence.  Theorems: coq/Properties/C04.v."""
import vlib, rxlib, samegen
from vlib import hx

LEVEL = "proof"
ASSUMPTIONS = [
    "the theorem is about the discrete model driven by the per-symbol tick stream; the tick stream the float DSP delivers "
    "for each audio case is recorded through the hook and replayed through the extracted model, whose event list must "
    "equal the events the public iterator returned (timestamps included)",
    "frame_prefix_max_errors <= 7 (the builder clamps it)",
]


def run(ctx):
    quick = ctx.quick
    rng = ctx.rng.fork("C04")
    cases = []     # (kind, tx, line, forbid_som)
    n_tx = 60 if quick else 3000
    n_miss = 90 if quick else 6000
    for _ in range(n_tx):
        mask = rng.choice([0b111111, 0b111111, rng.below(64)])
        tx = rxlib.Tx(rng, mask=mask, rate=rng.choice(rxlib.STD_RATES + [rng.range(8000, 48000)]))
        if rng.chance(1, 3):
            i = rng.below(3)
            tx.corrupt[i] = samegen.flip_bits(rng, tx.H, rng.range(1, 60)) if rng.chance(1, 2) else rng.bytes(rng.range(4, 100))
        cases.append(("transmission", tx, tx.line(), False))
    for _ in range(n_miss):
        kind, tx, line = rxlib.near_miss_line(rng)
        cases.append((kind, tx, line, True))
    # long runs at a low rate: the forced end-of-message path (135 s timer) and what follows it
    for j in range(6 if quick else 72):
        H = samegen.gen_header(rng, nloc=1)
        H2 = samegen.gen_header(rng, nloc=2)
        tx = rxlib.Tx(rng, H=H, rate=rng.choice([8000] if quick else [8000, 11025]), impaired=False)
        hdr3 = ",".join("B%s,S1" % rxlib.burst_hex(H) for _ in range(3))
        k = j % 6
        if k == 0:
            script, kind, forbid = "S0.3," + hdr3 + ",S%d,B%s,S4,B%s,S3" % (rng.range(136, 141), rxlib.burst_hex(H2), rxlib.burst_hex(rng.bytes(30))), "timeout-then-lone-bursts", False
        elif k == 1:
            g = H[:rng.range(12, 33)]
            script, kind, forbid = "S0.3,B%s,S1,B%s,S%d" % (rxlib.burst_hex(g), rxlib.burst_hex(g), rng.range(137, 142)), "garbled-pair-then-long-silence", True
        elif k == 2:
            script, kind, forbid = "S0.3," + hdr3 + ",S138," + ",".join("B%s,S1" % rxlib.burst_hex(b"NNNN") for _ in range(3)) + ",S2", "timeout-then-trailer", False
        elif k == 3:
            script, kind, forbid = "S0.3,B%s,S%d,N3:2000,S1" % (rxlib.burst_hex(H), rng.range(136, 140)), "lone-burst-then-long-silence", True
        elif k == 5:
            # two agreeing bursts, then reset() while the StartOfMessage is still held, then silence: what follows a reset contains
            # no burst at all, so nothing may be reported from it (the events listed are those after the reset)
            dur = (16 + len(H)) * 8 / 520.83
            t_reset = 0.3 + 2 * dur + 1.0 + 0.1 + rng.below(10) / 10.0
            script, kind, forbid = "S0.3,B%s,S1,B%s,S16" % (rxlib.burst_hex(H), rxlib.burst_hex(H)), "pair-reset-while-held-then-silence", True
            cases.append((kind, tx, tx.line(script=script, extra="reset_at=%d" % int(t_reset * tx.rate)), forbid))
            continue
        else:
            # the same lone burst twice, far more than the history window apart, with un-framed carrier activity (preamble-only
            # blips) in between at intervals shorter than the window: the first burst must have been forgotten
            blips = ",".join("S%.1f,B%s" % (rng.range(60, 90) / 10.0, "ab" * rng.range(18, 24)) for _ in range(rng.range(3, 5)))
            script, kind, forbid = "S0.3,B%s,%s,S%.1f,B%s,S3" % (rxlib.burst_hex(H), blips, rng.range(20, 90) / 10.0, rxlib.burst_hex(H)), "lone-burst-blips-same-lone-burst", True
        cases.append((kind, tx, tx.line(script=script), forbid))
    res = rxlib.run_rx([c[2] for c in cases])
    dist, mism, nontriv, samples = {}, 0, 0, []
    for (kind, tx, line, forbid), r in zip(cases, res):
        dist[kind] = dist.get(kind, 0) + 1
        if r.get("error"):
            ctx.violation("harness-failure", "implementation run failed: " + r["error"][:200], {"input": line})
            continue
        if r["model"] != r["impl"]:
            mism += 1
            ctx.violation("correspondence", "receiver model replay differs from the implementation's events (%s)" % kind,
                          {"input": line, "model": r["model"][:3000], "impl": r["impl"][:3000]})
        ev = rxlib.parse_events(r["impl"])
        bad = rxlib.oracle_justified(ev, tx.rate)
        if bad is None and forbid and any(e["kind"] == "som" for e in ev):
            bad = "audio of kind '%s' (no two agreeing SAME header bursts) produced a StartOfMessage" % kind
        if bad is None and forbid and any(e["kind"] == "eom" for e in ev) and kind in ("garbled-pair-then-long-silence", "lone-burst-then-long-silence", "pair-reset-while-held-then-silence"):
            bad = "audio of kind '%s' (no StartOfMessage, no NN burst) produced an EndOfMessage" % kind
        if bad:
            ctx.violation("property", bad, {"input": line, "kind": kind, "events": r["impl"][:3000]})
        if any(e["kind"] in ("burst", "som", "eom") for e in ev):
            nontriv += 1
        if len(samples) < 5 and (len(samples) < 2 or kind != "transmission"):
            samples.append({"kind": kind, "input": line[:260], "events": r["impl"][:260]})
    ctx.coverage.update({
        "evaluations": len(cases), "distinct_nontrivial": nontriv,
        "rule": "synthesized audio through the real receiver: full / lossy / corrupted transmissions and near-miss audio of "
                "the listed kinds at standard and random rates with impairments; non-trivial = the run reported at least "
                "one burst or message. Each run: (i) tick stream replayed through the model == implementation events, "
                "(ii) justification oracle on the implementation's events.",
        "samples": samples, "kinds": dist, "model_impl_mismatches": mism,
        "traces_validated_against_impl": len(cases) - mism,
    })


def replay(payload):
    r = rxlib.run_rx([payload["input"]])[0]
    print("impl :", r["impl"][:2000]); print("model:", (r["model"] or "")[:2000])
    ev = rxlib.parse_events(r["impl"])
    print("oracle:", rxlib.oracle_justified(ev, 22050))
    return 0 if r["model"] == r["impl"] else 1
