"""C04 — no message without evidence.  Theorems: coq/Properties/C04.v."""
import vlib, rxlib, samegen
from vlib import hx

LEVEL = "proof"
ASSUMPTIONS = [
    "the theorem is about the discrete model driven by the per-symbol tick stream; the tick stream the float DSP delivers "
    "for each audio case is recorded through the hook and replayed through the extracted model, whose event list must "
    "equal the events the public iterator returned (timestamps included)",
    "frame_prefix_max_errors <= 7 (the builder clamps it)",
]


def run(ctx):
    quick = ctx.quick
    rng = ctx.rng.fork("C04")
    cases = []     # (kind, tx, line, forbid_som)
    n_tx = 60 if quick else 800
    n_miss = 90 if quick else 1500
    for _ in range(n_tx):
        mask = rng.choice([0b111111, 0b111111, rng.below(64)])
        tx = rxlib.Tx(rng, mask=mask, rate=rng.choice(rxlib.STD_RATES + [rng.range(8000, 48000)]))
        if rng.chance(1, 3):
            i = rng.below(3)
            tx.corrupt[i] = samegen.flip_bits(rng, tx.H, rng.range(1, 60)) if rng.chance(1, 2) else rng.bytes(rng.range(4, 100))
        cases.append(("transmission", tx, tx.line(), False))
    for _ in range(n_miss):
        kind, tx, line = rxlib.near_miss_line(rng)
        cases.append((kind, tx, line, True))
    res = rxlib.run_rx([c[2] for c in cases])
    dist, mism, nontriv, samples = {}, 0, 0, []
    for (kind, tx, line, forbid), r in zip(cases, res):
        dist[kind] = dist.get(kind, 0) + 1
        if r.get("error"):
            ctx.violation("harness-failure", "implementation run failed: " + r["error"][:200], {"input": line})
            continue
        if r["model"] != r["impl"]:
            mism += 1
            ctx.violation("correspondence", "receiver model replay differs from the implementation's events (%s)" % kind,
                          {"input": line, "model": r["model"][:3000], "impl": r["impl"][:3000]})
        ev = rxlib.parse_events(r["impl"])
        bad = rxlib.oracle_justified(ev, tx.rate)
        if bad is None and forbid and any(e["kind"] == "som" for e in ev):
            bad = "audio of kind '%s' (no two agreeing SAME header bursts) produced a StartOfMessage" % kind
        if bad:
            ctx.violation("property", bad, {"input": line, "kind": kind, "events": r["impl"][:3000]})
        if any(e["kind"] in ("burst", "som", "eom") for e in ev):
            nontriv += 1
        if len(samples) < 5 and (len(samples) < 2 or kind != "transmission"):
            samples.append({"kind": kind, "input": line[:260], "events": r["impl"][:260]})
    ctx.coverage.update({
        "evaluations": len(cases), "distinct_nontrivial": nontriv,
        "rule": "synthesized audio through the real receiver: full / lossy / corrupted transmissions and near-miss audio of "
                "the listed kinds at standard and random rates with impairments; non-trivial = the run reported at least "
                "one burst or message. Each run: (i) tick stream replayed through the model == implementation events, "
                "(ii) justification oracle on the implementation's events.",
        "samples": samples, "kinds": dist, "model_impl_mismatches": mism,
        "traces_validated_against_impl": len(cases) - mism,
    })


def replay(payload):
    r = rxlib.run_rx([payload["input"]])[0]
    print("impl :", r["impl"][:2000]); print("model:", (r["model"] or "")[:2000])
    ev = rxlib.parse_events(r["impl"])
    print("oracle:", rxlib.oracle_justified(ev, 22050))
    return 0 if r["model"] == r["impl"] else 1
