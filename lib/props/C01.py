"""C01 — complete SAME transmissions decode exactly, at any supported rate.  Theorems: coq/Properties/C01.v.
Discrete half proved (assembler scenario theorem over symbolic bursts and times + C03/C04/C07 theorems); the DSP half --
that the float chain turns audio with the stated impairments into bursts satisfying the theorem's premises -- is
SAMPLED here on the real receiver (never presented as the proof): every run checks
  (i)  the premises of the theorem on the bursts the receiver actually reported (contents: each header burst starts
       with the transmitted text, each trailer burst with NNNN; count: 3 + 3; timing inside the protocol tolerances),
  (ii) the discrete model replays the recorded tick stream to exactly the implementation's events,
  (iii) the property oracle: exactly one StartOfMessage with the transmitted text, then exactly one EndOfMessage."""
import vlib, rxlib, samegen

LEVEL = "proof"
ASSUMPTIONS = [
    "partial: the theorem is about the discrete model (assembler/combiner/framer) and holds for all burst contents and all "
    "times inside the stated intervals; that the DSP delivers such bursts for audio with amplitude/DC/phase/offset/baud "
    "error/noise in the stated ranges at every rate is validated by sampling the real receiver, not proved",
    "known finding F9 (known_findings.json): junk after the header voting to '<chars>-' extends a callsign shorter than 8 characters",
    "known finding F10 (known_findings.json): with noise and sample rate x |baud error| >= 650 Hz the timing loop (gains not "
    "normalised by samples per symbol) loses about 1 burst in 12, hence about 1 transmission in 20",
    "sampled envelope: rates 8000..96000 (standard and random), amplitude 100..31600, DC up to +/-5x the amplitude (|dc|+amp <= 32000), "
    "baud error up to +/-1 %, pause 1 s +/-5 %, SNR >= 20 dB or noiseless, lead-in 0.2..0.8 s, 1..31 locations",
]
RATES = rxlib.STD_RATES + [96000]


def f10_class(tx):
    """input class of known finding F10, decided on the transmission's parameters only: additive noise present and
    sample rate x |baud error| >= 650 Hz (e.g. >= 0.68 % at 96 kHz, >= 0.74 % at 88.2 kHz, >= 0.82 % at 80 kHz; never below 65 kHz)"""
    return tx.snr is not None and tx.rate * abs(tx.baud) >= 650.0


def f10_shape(tx, ev, pm):
    """failure shape of F10: bursts are LOST (the burst-level premise fails) and nothing wrong is reported: every
    StartOfMessage that is reported carries exactly the transmitted text, at most one of each message"""
    soms = [e for e in ev if e["kind"] == "som"]
    eoms = [e for e in ev if e["kind"] == "eom"]
    return pm is not None and len(soms) <= 1 and len(eoms) <= 1 and all(e["text"] == tx.H for e in soms)


def make_tx(rng, rate=None, nloc=None):
    rate = rate or (rng.choice(RATES) if rng.chance(2, 3) else rng.range(8000, 96000))
    nl = nloc if nloc is not None else rng.choice([1, 1, 2, 5, 13, 31])
    if rng.chance(1, 4):
        # characters whose bit patterns resemble the 0xAB preamble at some bit shift (W, u, ] exactly; S U G V w s within two
        # bit errors): a header made of them tempts the preamble correlator to re-synchronise in mid-burst
        H = samegen.gen_header(rng, nloc=nl, calllen=rng.range(4, 8), call_chars=b"WWWWSUGVuw]")
        if rng.chance(1, 2):
            H = H[:5] + bytes(rng.choice(b"WSUGV") for _ in range(3)) + b"-" + bytes(rng.choice(b"WSUGV") for _ in range(3)) + H[12:]
    else:
        H = samegen.gen_header(rng, nloc=nl, calllen=rng.range(3, 8))
    tx = rxlib.Tx(rng, H=H, rate=rate, gap_ht=rng.choice([1.0, 1.0, 2.0, 5.0]), tail=2.2)
    tx.amp = rng.choice([100, 300, 1000, 3000, 10000, 31600])
    # DC offset: up to +/-50 % of the amplitude, or (a quiet signal on a biased input) several times the amplitude
    k = rng.choice([0, 0.5, 1.0, 1.0, 4.0, 10.0])
    tx.dc = tx.amp * (rng.below(1001) - 500) / 1000.0 * k
    if abs(tx.dc) + tx.amp > 32000:
        tx.dc = (32000 - tx.amp) * (1 if tx.dc > 0 else -1)
    tx.baud = (rng.below(2001) - 1000) / 100000.0          # +/- 1 %
    tx.snr = rng.choice([None, 30, 25, 22, 20])
    # one transmission in five with stricter (documented) error budgets than the defaults: preamble 0..2 bit errors, frame prefix
    # 0..2 bit errors, 3..5 invalid bytes -- a clean transmission must not depend on the slack
    tx.cfg_extra = "pre=%d pfx=%d inv=%d" % (rng.below(3), rng.below(3), rng.range(3, 5)) if rng.chance(1, 5) else ""
    # one in four with the AGC gain limits the documentation recommends for 16-bit input (and samedec uses): 1/32767 .. 1/200
    # (amplitudes of at least 300: a maximum gain of 1/200 puts weaker signals outside the configured AGC range)
    if rng.chance(1, 4) and tx.amp >= 300:
        tx.cfg_extra = (tx.cfg_extra + " gmin=0.0000305185 gmax=0.005").strip()
    return tx


def premise(tx, ev):
    """the burst-level premise of the discrete theorems, on what the receiver reported: at least two bursts that begin
    with the transmitted header and at least two that begin with NNNN (C02's two-of-three); returns (complaint, all_six)"""
    bursts = [e["data"] for e in ev if e["kind"] == "burst"]
    nh = sum(1 for b in bursts if b[:len(tx.H)] == tx.H)
    nn = sum(1 for b in bursts if b[:4] == b"NNNN")
    if nh < 2:
        return "only %d reported burst(s) begin with the transmitted header (%d bursts reported)" % (nh, len(bursts)), False
    if nn < 2:
        return "only %d reported burst(s) begin with NNNN (%d bursts reported)" % (nn, len(bursts)), False
    return None, (nh == 3 and nn == 3 and len(bursts) == 6)


def run_cases(ctx, cases):
    res = rxlib.run_rx([t.line(extra=getattr(t, "cfg_extra", "")) for t in cases])
    stats = {"decoded_exactly": 0, "premise_ok": 0, "model_equal": 0, "junk_lengths": {}, "by_rate": {}}
    for tx, r in zip(cases, res):
        line = tx.line(extra=getattr(tx, "cfg_extra", ""))
        if r.get("error"):
            ctx.violation("harness-failure", r["error"][:200], {"input": line}); continue
        if r["model"] == r["impl"]:
            stats["model_equal"] += 1
        else:
            ctx.violation("correspondence", "receiver model replay differs from the implementation's events",
                          {"input": line, "model": (r["model"] or "")[:2000], "impl": r["impl"][:2000]})
        ev = rxlib.parse_events(r["impl"])
        c = rxlib.oracle_exact(ev, tx.H)
        pm, all6 = premise(tx, ev)
        if all6:
            stats["all_six_intact"] = stats.get("all_six_intact", 0) + 1
        if pm is None:
            stats["premise_ok"] += 1
            for e in [e for e in ev if e["kind"] == "burst"]:
                k = len(e["data"]) - (len(tx.H) if e["data"][:4] == b"ZCZC" else 4)
                stats["junk_lengths"][k] = stats["junk_lengths"].get(k, 0) + 1
        if rxlib.is_f9(c):
            stats["f9"] = stats.get("f9", 0) + 1
            kd = [k for k in vlib.load_known_findings("C01") if k.get("class") == "F9"]
            if kd and kd[0]["line"] not in ctx.known:
                ctx.known.append(kd[0]["line"])
            if not kd:
                ctx.violation("property", c[len(rxlib.F9_MARK):].strip(), {"input": line, "tx": tx.describe()})
        elif c and rxlib.f11_known(ctx, "C01", tx, ev, [tx.H, b"NNNN"]):
            stats["f11"] = stats.get("f11", 0) + 1
        elif c and f10_class(tx) and f10_shape(tx, ev, pm) and [k for k in vlib.load_known_findings("C01") if k.get("class") == "F10" and k.get("kind") == "known"]:
            stats["f10"] = stats.get("f10", 0) + 1
        elif c:
            ctx.violation("property", "%s%s [%s]" % (c, "; DSP premise broken: " + pm if pm else "", tx.describe()),
                          {"input": line, "events": r["impl"][:3000], "tx": tx.describe(), "premise": pm})
        else:
            stats["decoded_exactly"] += 1
            if pm:
                ctx.notes.append("decoded exactly although a burst-level premise failed: %s" % pm)
        if f10_class(tx):
            stats["f10_class"] = stats.get("f10_class", 0) + 1
        key = str(tx.rate) if tx.rate in RATES else "other"
        stats["by_rate"][key] = stats["by_rate"].get(key, 0) + 1
    return stats


def run(ctx):
    rng = ctx.rng.fork("C01")
    q = ctx.quick
    cases = [make_tx(rng, rate=r, nloc=n) for r in RATES for n in ([1, 31] if q else [1, 2, 5, 13, 31])]
    cases += [make_tx(rng) for _ in range(32 if q else 1200)]
    # the corners of the stated baud-rate tolerance at every standard rate (the timing loop works hardest there): +/-(0.95..1.00) %
    crng = rng.fork("corners")
    for r in RATES:
        for sign in (1, -1):
            for _ in range(1 if q else 6):
                t = make_tx(crng, rate=r)
                t.baud = sign * (950 + crng.below(51)) / 100000.0
                cases.append(t)
    stats = run_cases(ctx, cases)
    ctx.coverage["known_finding_F9_witness_reproduces"] = rxlib.run_f9_witness(ctx, "C01")
    ctx.coverage["known_finding_F10_witness_reproduces"] = run_f10_witness(ctx)
    ctx.coverage["known_finding_F11_witness_reproduces"] = rxlib.run_f11_witness(ctx, "C01")
    # F10 is a loss RATE (about 1 transmission in 20 inside the class): far more than that is a different defect
    if stats.get("f10_class", 0) >= 20 and stats.get("f10", 0) > 0.25 * stats["f10_class"]:
        ctx.violation("property", "%d of %d transmissions inside the F10 input class lost bursts: far more than the characterised rate "
                      "(about 1 in 20)" % (stats["f10"], stats["f10_class"]), {"f10_hits": stats["f10"], "f10_class": stats["f10_class"]})
    import asmlib
    insts = [i for i in asmlib.theorem_instances(rng.fork("instances"), 240 if q else 6000) if i[0].startswith("C01")]
    inst_ok, inst_names = asmlib.check_instances(ctx, insts)
    ctx.coverage["theorem_instances_confirmed_on_impl"] = inst_ok
    ctx.coverage["theorem_instances"] = inst_names
    ctx.coverage.update({
        "evaluations": len(cases), "distinct_nontrivial": stats["decoded_exactly"],
        "rule": "six-burst transmissions of grammar-generated headers (1..31 locations, every callsign length) at standard rates "
                "8000..96000 and random rates, with amplitude / DC / phase / sub-sample offset / baud error +/-1 % / pause jitter / "
                "noise >= 20 dB / lead-in drawn from the seed; non-trivial = decoded exactly (one StartOfMessage with the transmitted "
                "text, then one EndOfMessage, nothing else).",
        "samples": [cases[0].describe(), cases[-1].describe()],
        "dsp_premise_holds": stats["premise_ok"], "all_six_bursts_intact": stats.get("all_six_intact", 0),
        "model_replay_equal": stats["model_equal"],
        "junk_bytes_after_data_histogram": {str(k): v for k, v in sorted(stats["junk_lengths"].items())},
        "cases_by_rate": stats["by_rate"], "known_finding_F9_hits": stats.get("f9", 0),
        "known_finding_F10_hits": stats.get("f10", 0), "cases_inside_F10_input_class": stats.get("f10_class", 0),
        "traces_validated_against_impl": stats["model_equal"],
    })


def run_f10_witness(ctx):
    """replay the stored witness of known finding F10 on the implementation (and the tick trace through the model); the
    KNOWN-FINDING line is printed only if the witness still loses its bursts"""
    kd = [k for k in vlib.load_known_findings("C01") if k.get("class") == "F10" and k.get("kind") == "known"]
    if not kd:
        return None
    r = rxlib.run_rx([kd[0]["witness_input"]], check_model=True)[0]
    if r.get("error"):
        return False
    if r["model"] != r["impl"]:
        ctx.violation("correspondence", "receiver model replay differs from the implementation on the F10 witness",
                      {"input": kd[0]["witness_input"], "model": (r["model"] or "")[:1500], "impl": r["impl"][:1500]})
    H = kd[0]["witness_header"].encode("latin1")
    ev = rxlib.parse_events(r["impl"])
    nh = sum(1 for e in ev if e["kind"] == "burst" and e["data"][:len(H)] == H)
    hit = bool(rxlib.oracle_exact(ev, H)) and nh < 2
    if hit and kd[0]["line"] not in ctx.known:
        ctx.known.append(kd[0]["line"])
    return hit


def replay(payload):
    r = rxlib.run_rx([payload["input"]])[0]
    print("impl :", r["impl"][:3000]); print("model:", (r["model"] or "")[:3000])
    return 0 if r["model"] == r["impl"] else 1
