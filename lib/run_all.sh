#!/bin/sh
# run every claimed check (quick tier) on the current tree; print one line per check
cd "$(dirname "$0")/.."
tier=${1:-quick}
for pid in $(python3 -c "import json; print(' '.join(c['property_id'] for c in json.load(open('MANIFEST.json'))['checks']))"); do
  out=$(./check $pid --tier $tier 2>/tmp/run_all_err.txt); rc=$?
  echo "$pid rc=$rc $(tail -1 /tmp/run_all_err.txt) $(echo "$out" | grep -E 'VIOLATION|KNOWN' | head -3)"
done
