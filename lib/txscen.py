"""Assembler-level scenario families for C02 / C05 / C08 with expectations written from the property texts
and narrow known-finding classes (predicates over the INPUT history, never over the outcome)."""
import asmlib, samegen
from asmlib import sym, HOLD, WINDOW


class Scen:
    def __init__(self, family, bursts, expect, known=None, meta=None):
        self.family, self.bursts, self.expect, self.known, self.meta = family, bursts, expect, known, meta or {}
        self.script = None
        self.ends = None


def hdr_len_choice(rng):
    return rng.choice([1, 1, 2, 5, 13, 25, 31])


def corrupt_kind(rng, H):
    k = rng.below(5)
    if k == 0:
        return samegen.flip_bits(rng, H, rng.range(1, 30))
    if k == 1:
        return rng.bytes(rng.range(4, 120))
    if k == 2:
        return H[:rng.range(4, len(H) - 1)]
    if k == 3:
        return samegen.mutate(rng, H, rng.range(1, 4), alphabet=list(samegen.ALLOWED))
    return samegen.gen_header(rng, nloc=rng.choice([1, 2]))


def single_transmissions(rng, n, masks=None, corrupt_always=False, family="single"):
    """T1: one transmission, every presence mask, header->trailer gap classes, pauses, lengths, corruption"""
    out = []
    for j in range(n):
        H = samegen.gen_header(rng, nloc=hdr_len_choice(rng))
        mask = masks[j % len(masks)] if masks else rng.below(64)
        G = rng.choice([1.0, 1.0, 1.05, 1.2, 1.4, 2.5, 6.0, 9.5, 10.5, 11.5, 13.0])
        pause = rng.choice([0.95, 1.0, 1.05, None])
        corrupt = None
        hmask = mask & 7
        # optionally replace one ABSENT header burst by a corrupted one (arbitrary corruption of one burst)
        if (corrupt_always or rng.chance(1, 3)) and bin(hmask).count("1") == 2:
            i = [b for b in range(3) if not (hmask >> b) & 1][0]
            corrupt = {i: corrupt_kind(rng, H)}
            mask |= 1 << i
        bursts = asmlib.transmission(rng, H, mask, G, pause=pause, corrupt=corrupt)
        hb = bin(hmask).count("1")
        tb = bin(mask >> 3).count("1")
        exp = {"som": (1, H) if hb >= 2 else (0, None),
               "eom": 1 if tb >= 2 else ((1 if hb == 0 and not corrupt else None) if tb == 1 else 0)}
        if corrupt and tb >= 1:
            # a corrupted burst that is itself NN-prefixed or header-like may legitimately interact: only insist on the header
            exp["eom"] = 1 if tb >= 2 else None
        # F2: SOM re-accepted from [H, H3, N1] is still pending when [H3, N1, N2] establishes the EOM, and no N3 follows
        known = None
        # (the header burst that is not intact may be absent or present-but-corrupted: a corrupted burst in the history changes
        # nothing about when the StartOfMessage is re-accepted)
        if G < 1.31 and hb == 2 and (hmask >> 2) & 1 and ((mask >> 3) & 3) == 0b11:
            known = "F2"
        out.append(Scen(family, bursts, exp, known, {"mask": format(mask, "06b")[::-1], "gap_ht": G, "pause": pause, "hlen": len(H), "corrupt": bool(corrupt)}))
    return out


def follow_on(rng, n):
    """T3: two different transmissions A then B (headers only, or A with trailer), D seconds apart"""
    out = []
    for _ in range(n):
        A = samegen.gen_header(rng, nloc=hdr_len_choice(rng))
        B = samegen.gen_header(rng, nloc=hdr_len_choice(rng))
        D = rng.choice([1.0, 1.0, 1.2, 1.4, 1.6, 2.0, 5.0, 11.5])
        with_trailer = rng.chance(1, 2)
        ma = rng.choice([0b111, 0b111, 0b110, 0b011, 0b101]) | ((0b111 << 3) if with_trailer else 0)
        mb = rng.choice([0b111, 0b110, 0b011])
        b1 = asmlib.transmission(rng, A, ma, 1.0 if with_trailer else 1.0)
        b2 = asmlib.transmission(rng, B, mb, 1.0, first_gap=sym(D))
        exp = {"order": [("som", A)] + ([("eom", None)] if with_trailer else []) + [("som", B)]}
        known = None
        # F1: the second header arrives before the first one's hold expired and is at least as long: the pending
        # StartOfMessage is displaced before it was ever polled
        if not with_trailer and D < 1.31:
            known = "F1"
        out.append(Scen("follow-on", b1 + b2, exp, known, {"D": D, "lenA": len(A), "lenB": len(B), "trailer": with_trailer,
                                                             "maskA": format(ma, "06b")[::-1], "maskB": format(mb, "03b")[::-1]}))
    return out


def repeats(rng, n):
    """T2: the same message again after D seconds (no other message in between)"""
    out = []
    for _ in range(n):
        what = rng.choice(["som", "eom"])
        H = samegen.gen_header(rng, nloc=rng.choice([1, 2, 5]))
        data = H if what == "som" else b"NNNN"
        D = rng.choice([2.0, 4.0, 7.0, 9.0, 13.5, 15.0, 20.0])
        first = [asmlib.Burst(sym(1.0) if i == 0 else sym(1.0), data, junk=asmlib.junk(rng), kind="R1") for i in range(3)]
        second = [asmlib.Burst(sym(D) if i == 0 else sym(1.0), data, junk=asmlib.junk(rng), kind="R2") for i in range(3)]
        exp = {"repeat": (what, data if what == "som" else None, D)}
        known = "F8?" if what == "eom" else None
        out.append(Scen("repeat", first + second, exp, known, {"what": what, "D": D, "len": len(data)}))
    return out


def repeats_with_lone_burst(rng, n):
    """T2b: a header transmission, ONE unrelated burst some seconds later (so that the burst history is not empty when the
    duplicate record runs out), then the same transmission again, beginning well after the duplicate window"""
    out = []
    for _ in range(n):
        H = samegen.gen_header(rng, nloc=rng.choice([1, 2, 5]))
        X = samegen.gen_header(rng, nloc=1)
        dx = rng.choice([6.0, 7.5, 9.0, 10.0])
        D = rng.choice([13.5, 15.0, 17.0])
        first = [asmlib.Burst(sym(1.0), H, junk=asmlib.junk(rng), kind="R1") for i in range(3)]
        lone = [asmlib.Burst(sym(dx), X, junk=b"", kind="X")]
        second = [asmlib.Burst(sym(D - dx) if i == 0 else sym(1.0), H, junk=asmlib.junk(rng), kind="R2") for i in range(3)]
        out.append(Scen("repeat-lone-burst-between", first + lone + second, {"repeat": ("som", H, D)}, None, {"D": D, "dx": dx, "len": len(H)}))
    return out


def stale_history(rng, n):
    """T4 (F8): a full trailer, then one unrelated burst between 10.86 s and ~12.2 s after the first EOM report"""
    out = []
    for _ in range(n):
        X = samegen.gen_header(rng, nloc=1)
        delta = rng.choice([8.0, 9.0, 9.7, 10.2, 10.8, 11.5, 13.0, 15.0])
        first = [asmlib.Burst(sym(1.0), b"NNNN", junk=asmlib.junk(rng), kind="N") for _ in range(3)]
        later = [asmlib.Burst(sym(delta), X, junk=b"", kind="X")]
        exp = {"max_eom": 1, "som": (0, None)}
        out.append(Scen("stale-history", first + later, exp, "F8?", {"delta": delta}))
    return out


def many_repeats(rng, n):
    """T5 (F3): the same header burst repeated k times one second apart"""
    out = []
    for _ in range(n):
        H = samegen.gen_header(rng, nloc=1)
        k = rng.choice([2, 3, 4, 6, 9])
        bs = [asmlib.Burst(sym(1.0), H, junk=asmlib.junk(rng), kind="H") for _ in range(k)]
        exp = {"som": (1, H), "eom": 0, "som_by": "third"}
        known = "F3" if k > 3 else None
        out.append(Scen("many-repeats", bs, exp, known, {"k": k}))
    return out
