"""Bit-exact correspondence between the Flocq (binary32) model of the AGC and the DC blocker (coq/Model/FloatDsp.v, evaluated by
vm_compute inside Coq) and the implementation (hooks Agc, DCBlocker; implrun commands agcrun / dcbrun)."""
import re, struct
import vlib


def bits(x):
    return struct.unpack("<I", struct.pack("<f", x))[0]


F1, ZERO = bits(1.0), 0
SPECIAL = [0, 0x80000000, 1, 0x007fffff, 0x00800000, 0x7f7fffff, 0xff7fffff, 0x3f800000, 0xbf800000, 0x49800000, 0xc9800000,
           0x4980000c, 0x46fffe00, 0xc7000000, 0x34000000, 0x33800000]


def gen_sample(rng, kind):
    if kind == "pcm16":
        return bits(float(rng.range(-32768, 32767)))
    if kind == "pcm-frac":
        return bits(rng.range(-32768 * 64, 32767 * 64) / 64.0)
    if kind == "big":
        return bits((rng.below(1 << 21) - (1 << 20)) + rng.below(16) / 16.0)
    if kind == "special":
        return rng.choice(SPECIAL)
    if kind == "tiny":
        return rng.below(0x00ffffff) | (0x80000000 if rng.chance(1, 2) else 0)
    if kind == "any-finite":
        while True:
            w = rng.below(1 << 32)
            if (w >> 23) & 255 != 255:
                return w
    return rng.below(1 << 32)        # "any-bits": NaN and infinities included


KINDS = ["pcm16", "pcm16", "pcm-frac", "big", "big", "special", "tiny", "any-finite", "any-bits"]


def gen_dcb_case(rng, quick):
    ln = rng.choice([1, 2, 3, 5, 8, 16, 16, 35, 70, 140])
    n = rng.range(2, 6 * ln + 40) if not quick else rng.range(2, 3 * ln + 20)
    shape = rng.below(4)
    if shape == 0:                               # one kind throughout
        k = rng.choice(KINDS); xs = [gen_sample(rng, k) for _ in range(n)]; what = k
    elif shape == 1:                             # a staircase near a large level (the F13 input shape), then zeros
        start = rng.choice([700000.0, 1048576.0, 32000.0, -700000.0]); step = rng.choice([0.5625, 1.5, 0.03125, 1.0625, -0.5625])
        xs = [bits(start + step * (i // ln)) for i in range(n)] + [0] * (4 * ln + 2); what = "staircase+zeros"
    elif shape == 2:                             # anything, then zeros (the forgetting theorem's shape)
        xs = [gen_sample(rng, rng.choice(KINDS)) for _ in range(n)] + [0] * (4 * ln + 2); what = "mixed+zeros"
    else:
        xs = [gen_sample(rng, rng.choice(KINDS)) for _ in range(n)]; what = "mixed"
    return ln, xs, what


def gen_agc_case(rng, quick):
    bw = rng.choice([bits(0.01), bits(0.0), bits(1.0), bits(0.05), bits(rng.below(1000) / 1000.0), bits(1.5), bits(-0.25), gen_sample(rng, "any-finite")])
    lim = rng.below(5)
    if lim == 0:
        lo, hi = bits(0.0), bits(1.0e6)
    elif lim == 1:
        lo, hi = bits(1.0 / 32767.0), bits(1.0 / 200.0)
    elif lim == 2:
        a, b = sorted([rng.below(100000) / 1000.0, rng.below(100000) / 1000.0]); lo, hi = bits(a), bits(b)
    elif lim == 3:
        lo, hi = bits(2.0), bits(2.0 ** 100)
    else:
        lo, hi = bits(0.0), bits(2.0 ** 127)            # outside the theorem's premises (overflow possible): bit-exactness only
    n = rng.range(1, 60 if quick else 200)
    k = rng.choice(KINDS)
    ops = []
    for _ in range(n):
        r = rng.below(20)
        if r == 0:
            ops.append("L%d" % rng.below(2))
        elif r == 1:
            ops.append("R")
        else:
            ops.append("i%d" % gen_sample(rng, k if rng.chance(3, 4) else rng.choice(KINDS)))
    return bw, lo, hi, ops, k


def gen_tl_case(rng, quick):
    rate = rng.choice([8000, 11025, 16000, 22050, 32000, 44100, 48000, 96000, rng.range(8000, 192000)])
    sps = bits(rate / 520.83)
    bw = bits(rng.choice([0.125, 0.05, 0.0, 0.3, rng.below(500) / 1000.0]))
    dev = bits(rng.choice([0.01, 0.0, 0.05, 0.5, rng.below(100) / 1000.0]))
    n = rng.range(2, 80 if quick else 300)
    kind = rng.choice(["unit", "unit", "agc-out", "big", "special", "any-finite"])
    ins = []
    for _ in range(n):
        if kind == "unit":
            s = bits((rng.below(4001) - 2000) / 1000.0)
        elif kind == "agc-out":
            s = bits((rng.below(2000001) - 1000000) / 1000.0)
        elif kind == "big":
            s = gen_sample(rng, "big")
        elif kind == "special":
            s = rng.choice(SPECIAL)
        else:
            s = gen_sample(rng, "any-finite")
        o = bits((rng.below(1001) - 500) / 1000.0) if rng.chance(5, 6) else rng.choice([bits(-0.5), bits(0.5), bits(3.0), bits(-7.25), 0, 0x80000000])
        ins.append((s, o))
    return sps, bw, dev, ins, kind


def tl_correspondence(ctx, rng, n, tag):
    """TimingLoop: the implementation runs first (its constructor computes alpha, beta with libm, which the model takes as data)"""
    from concurrent.futures import ThreadPoolExecutor
    cases = [gen_tl_case(rng, ctx.quick) for _ in range(n)]
    lines = ["tlrun %d %d %d %s" % (sps, bw, dev, ",".join("%d:%d" % so for so in ins)) for sps, bw, dev, ins, _ in cases]
    impl = vlib.run_lines_parallel(vlib.IMPLRUN, lines)
    exprs, keep = [], []
    for (sps, bw, dev, ins, kind), line, im in zip(cases, lines, impl):
        try:
            vals = [int(t) for t in im.split(",")]
        except ValueError:
            ctx.violation("harness-failure", "tlrun failed: " + im[:100], {"input": line}); continue
        cfg = vals[:5]
        exprs.append("tloop_trace %d %d %d %d %d [%s]" % (cfg[0], cfg[1], cfg[2], cfg[3], cfg[4], "; ".join("(%d, %d)" % so for so in ins)))
        keep.append((line, vals[5:], kind))
    shard = max(1, (len(exprs) + vlib.NCPU - 1) // vlib.NCPU)
    parts = [exprs[i:i + shard] for i in range(0, len(exprs), shard)]
    with ThreadPoolExecutor(vlib.NCPU) as ex:
        outs = list(ex.map(lambda p: coq_lists("tl_%s_%d" % (tag, p[0]), HEADER, p[1]), list(enumerate(parts))))
    model = [r for part in outs for r in part]
    mism, dist = 0, {}
    for (line, iv, kind), mo in zip(keep, model):
        dist[kind] = dist.get(kind, 0) + 1
        if iv != mo:
            mism += 1
            k = next((j for j, (a, b) in enumerate(zip(iv, mo)) if a != b), None)
            ctx.violation("correspondence", "the binary32 model (Flocq) of the timing loop and the implementation differ on %s (first difference at value %s)"
                          % (line[:120], k), {"input": line, "model": mo[:400], "impl": iv[:400]})
    return {"timing_loop_cases": len(exprs), "timing_loop_mismatches": mism, "timing_loop_case_kinds": dist}


def f32bits_of_text(t):
    t = t.strip()
    if t == "NaN":
        return 0x7fc00000
    return bits(float(t))


def frontend_correspondence(ctx, rng, n, tag):
    """The receiver's own front end -- SameReceiver::process: agc.input(dc_block.filter(sample)) -- against the composed model: a real
    receiver is fed k samples of staircases and zeros (no burst, so the AGC is never locked), its Debug rendering gives the DC blocker's
    windows, sums and refresh counters and the AGC gain, and the same samples go through dcb_run and agc_run in Coq.  Ties the glue:
    order of the two calls, the window length computed from the configuration, the AGC parameters derived from the builder."""
    import importlib, re as _re
    from concurrent.futures import ThreadPoolExecutor
    C18 = importlib.import_module("props.C18")
    C10 = importlib.import_module("props.C10")
    cases, lines = [], []
    for _ in range(n):
        rate = rng.choice([8000, 11025, 16000, 22050, 32000, 44100, 48000, 96000])
        L = C10.dc_window(rate)
        segs, xs = [], []
        for _s in range(rng.range(1, 3)):
            if rng.chance(3, 4):
                t = rng.range(2, 30) / 1000.0
                start = rng.choice([700000, 32000, -20000.5, 1000.25, 3.0]); step = rng.choice([0.5625, 0.03125, 1.0, -2.5, 0.0])
                ln = rng.choice([L, L, 3, 50])
                segs.append("R%g:%g:%g:%d" % (t, start, step, ln))
                xs += [bits(start + step * (i // ln)) for i in range(int(t * rate + 0.5))]
            else:
                t = rng.range(1, 10) / 1000.0
                segs.append("Z%g" % t); xs += [0] * int(t * rate + 0.5)
        k = rng.range(1, len(xs))
        extra = rng.choice(["", "", "gmin=0.0000305185 gmax=0.005", "agcbw=0.05", "dclen=1.0", "dclen=0.0"])
        lines.append(("dbgdump rate=%d amp=1000 dc=0 phase=0 frac=0 baud=0 seed=1 %s script=%s reset_at=%d" % (rate, extra, ",".join(segs), k)).replace("  ", " "))
        cases.append((rate, L, xs[:k], extra))
    outs = vlib.run_lines_parallel(vlib.IMPLRUN, lines)
    exprs, keep = [], []
    for (rate, L, xs, extra), line, out in zip(cases, lines, outs):
        d = C18.parse_dump(out)
        if d is None:
            ctx.violation("harness-failure", "dbgdump failed: " + out[:200], {"input": line}); continue
        b = d[0]
        win = lambda p: [f32bits_of_text(t) for t in _re.search(r"\[\[?([^\[\]]*)\]", b[p]).group(1).split(",") if t.strip()]
        try:
            impl = (win("dc_block/ff/window") + [f32bits_of_text(b["dc_block/ff/moving_sum"]), int(b["dc_block/ff/since_refresh"])]
                    + win("dc_block/fb/window") + [f32bits_of_text(b["dc_block/fb/moving_sum"]), int(b["dc_block/fb/since_refresh"])]
                    + [f32bits_of_text(b["agc/gain"])])
        except Exception as e:
            ctx.violation("harness-failure", "cannot read the front end from the Debug rendering: %r" % e, {"input": line}); continue
        Lr = len(win("dc_block/ff/window"))
        bw, lo, hi = (f32bits_of_text(b["agc/bandwidth"]), f32bits_of_text(b["agc/min_gain"]), f32bits_of_text(b["agc/max_gain"]))
        exprs.append("let '(d, ys) := dcb_run (dcb_new %d) (map of_bits [%s]) in "
                     "let a := fst (agc_run (mkAgc (of_bits %d) (of_bits %d) (of_bits %d) false (agc_initial_gain (of_bits %d) (of_bits %d))) (map AIn ys)) in "
                     "map to_bits (m_win (d_ff d)) ++ [to_bits (m_sum (d_ff d)); Z.of_nat (m_since (d_ff d))] ++ "
                     "map to_bits (m_win (d_fb d)) ++ [to_bits (m_sum (d_fb d)); Z.of_nat (m_since (d_fb d)); to_bits (a_gain a)]"
                     % (Lr, "; ".join(str(x) for x in xs), bw, lo, hi, lo, hi))
        keep.append((line, impl, Lr, L, extra))
    shard = max(1, (len(exprs) + vlib.NCPU - 1) // vlib.NCPU)
    parts = [exprs[i:i + shard] for i in range(0, len(exprs), shard)]
    with ThreadPoolExecutor(vlib.NCPU) as ex:
        res = list(ex.map(lambda p: coq_lists("fe_%s_%d" % (tag, p[0]), HEADER, p[1]), list(enumerate(parts))))
    model = [r for part in res for r in part]
    mism, lens_ok = 0, 0
    for (line, impl, Lr, L, extra), mo in zip(keep, model):
        if "dclen" not in extra:
            if Lr == L:
                lens_ok += 1
            else:
                ctx.violation("correspondence", "the DC blocker's window is %d samples, the binary32 size computation says %d: %s" % (Lr, L, line[:120]), {"input": line})
        if impl != mo:
            mism += 1
            k = next((j for j, (a, b_) in enumerate(zip(impl, mo)) if a != b_), None)
            ctx.violation("correspondence", "the receiver's front end (DC blocker state, AGC gain) differs from the composed binary32 model at field %s: %s"
                          % (k, line[:140]), {"input": line, "model": mo[:200], "impl": impl[:200]})
    return {"front_end_cases": len(exprs), "front_end_mismatches": mism, "front_end_window_lengths_confirmed": lens_ok}


def coq_lists(name, header, exprs):
    """evaluate Gallina expressions of type list Z inside Coq; returns a list of lists of ints"""
    body = header + "".join("Eval vm_compute in (%s).\n" % e for e in exprs)
    out = vlib.coq_eval(name, body, timeout=900)
    res = []
    for chunk in out.split("= ")[1:]:
        chunk = chunk.split(": list Z")[0]
        res.append([int(t) for t in re.findall(r"-?\d+", chunk)])
    if len(res) != len(exprs):
        raise vlib.BuildError("coq-eval " + name, out[-800:])
    return res


HEADER = ("From Coq Require Import ZArith List.\nFrom Sameold Require Import Model.ConfigSizes Model.FloatDsp.\n"
          "Import ListNotations.\nOpen Scope Z_scope.\n")


def coq_op(t):
    if t[0] == "i":
        return "AIn (of_bits %s)" % t[1:]
    if t[0] == "L":
        return "ALock %s" % ("true" if t[1] == "1" else "false")
    return "AReset"


def correspondence(ctx, rng, n_dcb, n_agc, tag):
    """returns coverage dict; reports a correspondence violation (with the input as replay) for every difference"""
    from concurrent.futures import ThreadPoolExecutor
    dcb = [gen_dcb_case(rng, ctx.quick) for _ in range(n_dcb)]
    agc = [gen_agc_case(rng, ctx.quick) for _ in range(n_agc)]
    dlines = ["dcbrun %d %s" % (ln, ",".join(str(x) for x in xs)) for ln, xs, _ in dcb]
    alines = ["agcrun %d %d %d %s" % (bw, lo, hi, ",".join(ops)) for bw, lo, hi, ops, _ in agc]
    impl = vlib.run_lines_parallel(vlib.IMPLRUN, dlines + alines)
    dexpr = ["dcb_trace %d [%s]" % (ln, "; ".join(str(x) for x in xs)) for ln, xs, _ in dcb]
    aexpr = ["agc_trace %d %d %d [%s]" % (bw, lo, hi, "; ".join(coq_op(t) for t in ops)) for bw, lo, hi, ops, _ in agc]
    exprs = dexpr + aexpr
    shard = max(1, (len(exprs) + vlib.NCPU - 1) // vlib.NCPU)
    parts = [exprs[i:i + shard] for i in range(0, len(exprs), shard)]
    with ThreadPoolExecutor(vlib.NCPU) as ex:
        outs = list(ex.map(lambda p: coq_lists("fd_%s_%d" % (tag, p[0]), HEADER, p[1]), list(enumerate(parts))))
    model = [r for part in outs for r in part]
    mism, dist, samples, forgot = 0, {}, [], 0
    for i, (line, im, mo) in enumerate(zip(dlines + alines, impl, model)):
        what = dcb[i][2] if i < len(dcb) else "agc/" + agc[i - len(dcb)][4]
        dist[what] = dist.get(what, 0) + 1
        try:
            iv = [int(t) for t in im.split(",")] if im not in ("", "PANIC") else im
        except ValueError:
            iv = im
        if iv != mo:
            mism += 1
            k = next((j for j, (a, b) in enumerate(zip(iv, mo)) if a != b), None) if isinstance(iv, list) else None
            ctx.violation("correspondence", "the binary32 model (Flocq) and the implementation differ on %s (first difference at output %s)"
                          % (line[:120], k), {"input": line, "model": mo[:400], "impl": im[:3000]})
        if i < len(dcb) and what.endswith("+zeros") and isinstance(iv, list):
            # the forgetting theorem's instance on the implementation: after 4 window lengths of zeros the output is +0
            if iv[-2:] == [0, 0]:
                forgot += 1
            else:
                ctx.violation("property", "the DC blocker does not return to a new filter's output after 4 window lengths of zero input "
                              "(last outputs %s): %s" % (iv[-2:], line[:160]), {"input": line})
        if len(samples) < 3 and i % 7 == 0:
            samples.append({"input": line[:200], "output_bits": im[:120]})
    return {"float_model_cases": len(exprs), "float_model_mismatches": mism, "float_case_kinds": dist,
            "float_samples": samples, "dc_blocker_forgot_on_impl": forgot}


def replay(line):
    im = vlib.run_lines(vlib.IMPLRUN, [line])[0]
    t = line.split(" ")
    if t[0] == "tlrun":
        vals = [int(x) for x in im.split(",")]
        e = "tloop_trace %d %d %d %d %d [%s]" % (vals[0], vals[1], vals[2], vals[3], vals[4],
                                                 "; ".join("(%s, %s)" % tuple(x.split(":")) for x in t[4].split(",")))
        mo = coq_lists("fd_replay", HEADER, [e])[0]
        print("impl :", im[:2000]); print("model:", ",".join(str(x) for x in mo)[:2000])
        return 0 if vals[5:] == mo else 1
    if t[0] == "dcbrun":
        e = "dcb_trace %s [%s]" % (t[1], "; ".join(t[2].split(",")))
    else:
        e = "agc_trace %s %s %s [%s]" % (t[1], t[2], t[3], "; ".join(coq_op(x) for x in t[4].split(",")))
    mo = coq_lists("fd_replay", HEADER, [e])[0]
    print("impl :", im[:2000]); print("model:", ",".join(str(x) for x in mo)[:2000])
    return 0 if im == ",".join(str(x) for x in mo) else 1
