"""Writes MANIFEST.json from the per-property table below (keeps it valid at all times)."""
import json, os
HERE = os.path.dirname(os.path.dirname(os.path.abspath(__file__)))

CHECKS = {
 "C03": dict(
   text="Machine-checked proof (Coq) over the Gallina model of combiner.rs/message.rs for all bytes, all bursts of any "
        "length and all three arrival positions; the model is tied to the code on every run by differential execution "
        "of the extracted model against the real functions (all 2^16 pairs, 2^16 triples per swept first byte, "
        "thousands of burst sets) plus an oracle written from the property text.",
   note="Trusted: Coq kernel; hand-written model (validated, not derived); extraction (ExtrOcamlBasic only); Rust "
        "harness/hooks; Python oracle. No axioms (closed under the global context).",
   technique="Coq proof (induction over burst positions + N.testbit extensionality) + model/impl differential correspondence",
   ref="§5 C03"),
}

CHECKS["C06"] = dict(
   text="Machine-checked proof that the model's header matcher accepts exactly the declarative SAME grammar (soundness "
        "and completeness, longest-callsign rule stated), that the stored text is the matched prefix and re-parses to "
        "an equal header, and that every accessor returns Done of exactly the grammar component (no Panic outcome) for "
        "all byte strings. The matcher stands in for the regex engine; that step is validated on every run against the "
        "real crate and, independently, Python's re on complete 1-edit neighbourhoods and generated/unstructured strings.",
   note="Trusted: Coq kernel; the matcher-for-regex replacement (correspondence-tested only); extraction; harness; "
        "Python re oracle. No axioms.",
   technique="Coq proof (grammar soundness/completeness, accessor totality) + differential correspondence vs regex crate",
   ref="§5 C06")
CHECKS["C15"] = dict(
   text="Machine-checked proof over Z (all years in chrono's range, all ordinals, all field values) that the +/-180-day "
        "rule reconstructs the true issue instant whenever the receive day is within 90 days, that impossible dates give "
        "an error, and that expiry is exactly issue + duration < now. chrono's calendar is re-stated in the model and "
        "validated each run against chrono and Python datetime (1M date pairs quick, all 15.3M thorough).",
   note="Trusted: Coq kernel; re-stated chrono calendar (correspondence-tested); extraction; harness; Python datetime "
        "oracle. No axioms.",
   technique="Coq proof (lia over floor-division calendar arithmetic) + differential correspondence vs chrono",
   ref="§5 C15")

CHECKS["C16"] = dict(
   text="Machine-checked proof over the code books, phenomenon/significance/originator tables regenerated from the built "
        "crate on every run: the 61 hand-transcribed published codes decode and display as documented, every other "
        "3-byte code takes the last-letter significance (structural, all values), wrong lengths and multi-byte tails are "
        "Unrecognized/Unknown, no display string keeps a placeholder, significance order/numbers/letters, class "
        "consistency, originator decoding. A changed table entry in the code breaks a theorem at re-check time. "
        "Correspondence: every ASCII triple per swept first byte, edit neighbourhoods, multi-byte strings.",
   note="Trusted: Coq kernel (vm_compute for the finite table facts); dump->Generated.v generator; phf/strum modelled as "
        "tables; hand-transcribed spec tables; harness. No axioms.",
   technique="Coq proof over regenerated tables (vm_compute for finite parts, structural for the fallback) + differential correspondence",
   ref="§5 C16")

RX_NOTE = ("Trusted: Coq kernel; hand-written discrete model (squelch, framer, assembler, receiver glue) tied to the code by replaying the "
           "hook-recorded per-symbol tick stream of real runs through the extracted model (event lists must be equal, timestamps included) "
           "and by differential execution of each component on scripts; the float DSP above the tick is an oracle; harness, synthesiser, "
           "Python oracles. No axioms.")
CHECKS["C04"] = dict(
   text="Machine-checked invariant proof over ALL item streams (= all audio, whatever the DSP makes of it): every StartOfMessage "
        "event of a fresh receiver is combine() of at most three consecutive bursts reported before it (hence, by C03's theorem, "
        "backed byte by byte by two agreeing bursts or the majority of three); no bursts or a lone burst can never give a "
        "StartOfMessage. Both kinds: every message event (StartOfMessage or EndOfMessage) is either combine() of at most three consecutive "
        "bursts reported before it or, for EndOfMessage only, the armed and elapsed 135 s timer. Correspondence: "
        "valid/lossy/corrupted transmissions and near-miss audio through the real receiver, replayed through the model.",
   note=RX_NOTE + " Hypothesis: frame_prefix_max_errors <= 7 (builder clamp).",
   technique="Coq invariant proof (induction over item streams) + tick-trace replay correspondence + justification oracle",
   ref="§5 C04")
CHECKS["C07"] = dict(
   text="Machine-checked proof about the framer automaton for all byte streams and all budgets: every burst is a contiguous, "
        "unmodified run of the (zero-padded) input starting at the FIRST window within the prefix budget, ending at the maximum "
        "length or just before the byte that exceeds the invalid budget; one burst per session; abandon after the search length; "
        "no zero padding once four preamble bytes open the session. Bit level: on a clean header or trailer burst every position that "
        "is not a byte boundary is >= 7 bit errors from the sync word (finite sweep lifted to a theorem), so with a preamble budget <= 6 "
        "the squelch cannot (re)synchronise off a byte boundary whatever its other state; the bound is tight (7 is reached); the squelch is a "
        "32-symbol delay line whose halves are aligned in every reachable state: the byte handed to the framer is the oldest eight symbols, in "
        "order, and carrier loss is decided on the power flag of the first symbol of the byte due next. The 16 "
        "half-symbol phases of real audio are exercised by receiver-level runs (correspondence, not theorem).",
   note=RX_NOTE,
   technique="Coq invariant proof over byte streams + exhaustive reduced-alphabet differential correspondence + reference automaton",
   ref="§5 C07")
CHECKS["C09"] = dict(
   text="Machine-checked proof on the discrete model for all item streams: every reported burst has 4..252 bytes; a StartOfMessage "
        "event arms the 135 s timer; an armed, elapsed timer fires on any symbol that does not deliver a burst; two consecutive "
        "symbols never both deliver a burst; the timer is only cleared by an EndOfMessage or re-armed by a newer StartOfMessage; and at "
        "trace level, for every item stream, an armed timer whose deadline has passed does not survive two further symbols: an "
        "EndOfMessage event has been emitted or a newer StartOfMessage re-armed it with a later deadline. "
        "Partial: that symbols keep arriving (timing loop) is DSP, validated by >= 140 s runs of ten kinds of following audio. "
        "Two genuine defects were repaired (fix: commits aeba0f2, a2bb3e5).",
   note=RX_NOTE,
   technique="Coq step/invariant proofs + long-run tick-trace replay correspondence + closure oracle",
   ref="§5 C09")
CHECKS["C13"] = dict(
   text="Machine-checked refinement proof: one next() call delivers exactly the next event of the single pass; any partition into "
        "chunks drained by any number of iterator bindings yields the same events, order, timestamps and final state; an event's "
        "timestamp equals the samples consumed; timestamps never decrease; iter_events() and iter_messages() calls mixed in any order on one "
        "receiver hand out, in order, a subsequence of the single pass (a message call drops exactly the non-message events before the next message). Link lifecycle: for every item stream the link events follow "
        "no carrier -> searching -> {reading, no carrier}, reading -> burst, burst -> no carrier, plus the single extra edge burst -> "
        "searching, which does occur (witness stream; known finding F7); the squelch cannot re-synchronise while a burst is read. "
        "Correspondence: five call schedules per audio case on the real receiver; lifecycle oracle on every trace.",
   note=RX_NOTE,
   technique="Coq refinement proof (process/sched vs run_core) + schedule-differential on the implementation + trace replay",
   ref="§5 C13")

ASM_NOTE = ("Trusted: Coq kernel; hand-written assembler/combiner model tied to the code by differential execution of the real Assembler "
            "(hook) and the extracted model on burst-arrival histories with idle polled at every symbol, by replaying the Coq witness "
            "histories on the implementation, and at receiver level by tick-trace replay of real audio runs; Python scenario generators "
            "and oracles written from the property text. No axioms. Timing premises of the scenario theorems (polling stops before the "
            "hold of the previous burst runs out; bursts inside the 10.86 s history window) are protocol facts validated on audio runs, not proved.")
CHECKS["C02"] = dict(
   text="Machine-checked scenario proofs over the assembler model with ALL contents and ALL times symbolic: two intact copies of any "
        "canonical header plus one arbitrary burst (any bytes, any length) in any of the three positions, or one burst lost, give exactly "
        "one StartOfMessage with text H and the C03 counters, released by the first idle poll 682 symbols after the last burst; any single "
        "burst with any polling never gives a StartOfMessage; 1..3 bursts starting NN combine to EndOfMessage and a three-burst trailer on a "
        "quiet channel yields exactly one message, at the first burst (fast EOM); a trailer that follows the header with no voice gap, all six "
        "bursts heard, still gives exactly StartOfMessage then EndOfMessage; ANY two header bursts followed (after the hold) by two or three "
        "trailer bursts, and three header bursts followed by two, give exactly StartOfMessage then EndOfMessage (with C01's theorem the whole "
        "{2,3} x {2,3} loss matrix with a voice gap). The statements are also instantiated at random parameters and "
        "compared with the real Assembler on every run (a test of the statements). The full statement is refuted on the faithful model for two "
        "history classes (F2, F8, F9: witness lemmas, replayed on the implementation) which are known findings. Partial: lossy "
        "interleavings without a voice gap (other than F2's class) and junk after the header are covered by the abstract-combine form of the theorems plus "
        "correspondence, not by a closed theorem.",
   note=ASM_NOTE,
   technique="Coq scenario proofs (symbolic times/contents, macro-step lemmas) + refuted-witness lemmas + assembler/receiver differential correspondence",
   ref="§5 C02, §11")
CHECKS["C05"] = dict(
   text="Machine-checked invariant proof for EVERY history of burst arrivals and idle polls with a monotone clock: two consecutive reports "
        "with equal text are at least MAX_HISTORY_DURATION (5652 symbols, 10.86 s) apart (duplicate suppression inside the window), from "
        "the initial state and from any state satisfying the invariant; scenario proofs that the same header is reported again once the "
        "window has passed; lifted to the whole discrete receiver and all audio (the receiver drives its assembler with a history whose clock, "
        "the squelch's symbol counter, never runs backwards, and the assembler state it holds is the assembler run over that history); that a trailer is reported exactly once, and that a second, different transmission following a complete one is "
        "reported once and after it. 'In order, including transmissions one second apart' is refuted on "
        "the faithful model (F1 witness lemma, replayed on the implementation; also F8) and listed as known findings; order for "
        "transmissions further apart is checked by the scenario oracle on histories, not by a closed theorem.",
   note=ASM_NOTE,
   technique="Coq invariant proof (induction over operation histories) + scenario proofs + refuted-witness lemmas + differential correspondence",
   ref="§5 C05, §11")
CHECKS["C08"] = dict(
   text="Machine-checked proof in symbol time: an EndOfMessage established by a burst is returned by the assemble call that delivers it "
        "(unless a StartOfMessage is held: F2); for EVERY history the pending slot never keeps an EndOfMessage between calls and whatever "
        "it holds is due at most 682 symbols after the last burst, and the first idle poll at or after that instant returns it (never held "
        "indefinitely once bursts stop); idle polls report the held result exactly once at the first poll past its deadline; the hold bound "
        "holds in every state the whole discrete receiver can reach, on any item stream. Partial: the "
        "sample-time bound (about 1.5 s at every rate = symbol bound x tick period + burst-termination latency) is DSP behaviour, measured "
        "on every audio case and bounded by the oracle, not proved. F3 (repeats extend the hold) is a refuted-witness lemma / known finding.",
   note=ASM_NOTE,
   technique="Coq invariant + step proofs over operation histories + refuted-witness lemmas + latency measurement on real audio runs",
   ref="§5 C08, §11")

CHECKS["C18"] = dict(
   text="Machine-checked structural proof: a model of all 62 fields of SameReceiver and its components (the leaf paths of the derived "
        "Debug rendering), of the constructors and of every reset() method, statement by statement, with field values as opaque tokens; "
        "theorem: for EVERY state with the receiver's shape (every mutable field arbitrary, reachable or not) reset() leaves exactly what "
        "the constructor builds from the same configuration, hence any deterministic continuation behaves identically. Partial: float "
        "arithmetic between reset points is not modelled. Tie on every run: the implementation's Debug before reset / after reset / newly "
        "built, at reset points swept through every phase of a transmission (incl. equalizer training, locked link, message pending), is "
        "parsed and run through the EXTRACTED model: field list equal, model reset(before) = impl after, model fresh(config_of before) = "
        "impl new; plus the event-trace differential reset-vs-new with timestamps on a following transmission. One genuine defect was "
        "repaired (fix: 74c1f92). For the DC blocker and the AGC, modelled bit-exactly in Flocq binary32: reset after ANY history = new.",
   note="Trusted: Coq kernel; hand-written structural model (tied by the Debug correspondence; a new or renamed field breaks the field-list "
        "check); extraction; Rust harness (dbgdump, rxaudio reset_at/skip), Debug parser, synthesiser. No axioms. Hypothesis shape_ok "
        "(window/coefficient lengths agree, equalizer never Disabled) is established by the constructor (theorem) and validated on every dump.",
   technique="Coq structural proof (reset = constructor on all fields) + Debug-level model/impl correspondence through the extracted model + event-trace differential",
   ref="§5 C18, §11")

CHECKS["C17"] = dict(
   text="Machine-checked proof over a model of every panic site reachable from the builder, the construction "
        "(From<&SameReceiverBuilder>, component constructors) and the per-sample data-dependent clamps, with floats as an arbitrary total "
        "order (domain: no NaN): ANY sequence of builder calls with ANY arguments returns a builder and keeps the invariant; construction "
        "from such a builder never trips an assert given >= 1 matched-filter tap; the tap count floor(rate/520.83) evaluated bit-exactly in "
        "IEEE-754 binary32 (Flocq) is >= 15 for every rate 8000..192000 (finite sweep, bound stated); the DC window is >= 1 for every float; "
        "the AGC clamp needs only the documented min <= max; the squelch's expect() is unreachable. Partial: panics inside float library "
        "code and the per-sample DSP are sampled (0.5 s of audio per configuration), not proved. One genuine defect was repaired (fix: aac361b).",
   note="Trusted: Coq kernel, vm_compute; Flocq (its theorems depend on the standard library's classical-reals axioms: "
        "ClassicalDedekindReals.sig_forall_dec, sig_not_dec, FunctionalExtensionality.functional_extensionality_dep, Classical_Prop.classic - "
        "allow-listed by name, reported by Print Assumptions for the two Flocq-dependent theorems only); hand-written model tied by running "
        "builder call sequences on the real builder and on the extracted model (getters, window lengths, panic/no-panic) with the sizes "
        "evaluated in Coq; harness; samedec binary for the CLI options.",
   technique="Coq proof (invariant over call sequences, Flocq binary32 sweep for the size) + extracted-model/impl correspondence on call sequences + panic sampling",
   ref="§5 C17, §11")

CHECKS["C01"] = dict(
   text="Discrete half proved, DSP half sampled (partial). Machine-checked scenario theorem over the assembler/combiner model with ALL "
        "burst contents and ALL times symbolic: six bursts that combine as a complete transmission does (stated as facts about combine "
        "on the delivered bursts, so junk after the data and bit errors are covered), header hold released by idle polling before the "
        "trailer, everything inside the history window => the whole history reports EXACTLY [StartOfMessage h at the first poll 682 "
        "symbols after the third burst; EndOfMessage in the call delivering the second trailer burst]; instantiated for every canonical "
        "header received intact three times and any bursts beginning NN. With C03/C04/C07 this is the logic from bytes to messages. "
        "That the float chain delivers such bursts for audio at every rate 8000..96000 with the stated impairments is validated by "
        "sampling the real receiver (never presented as proof): per run the burst-level premise, the tick-trace replay through the "
        "extracted model, and the exact-decode oracle. Known finding F9 (junk after the header voting to callsign characters: witness "
        "lemmas on the model, witness recording replayed on the receiver).",
   note=RX_NOTE + " The sampled envelope is printed in the evidence (rates, amplitudes, DC up to 5x the amplitude, baud error +/-1 %, "
        "SNR >= 20 dB, preamble-like header characters).",
   technique="Coq scenario proof (symbolic six-burst history) + tick-trace replay correspondence + sampled validation of the DSP premise",
   ref="§5 C01, §11")
CHECKS["C14"] = dict(
   text="Discrete half proved, DSP half sampled (partial). Machine-checked: flush() (model: iter_messages over the items the zero padding "
        "produces, take one, drop the iterator) returns the FIRST Ok message among queued events followed by the padding's events, and "
        "what remains queued / to come is exactly what followed it, so repeated calls return every pending message in order and then None; "
        "on a quiet channel (no byte clock, framer idle, power below the open threshold) EVERY symbol polls the assembler, so a held "
        "message is delivered once the symbol counter reaches its deadline, which is never more than 682 symbols after the last burst. "
        "Sampled: recordings cut 0..1.5 s after the last header/trailer burst (2 or 3 bursts, all rates), flushed up to four times; the "
        "run AND every flush() call are replayed through the extracted model; samedec (with and without a child) prints the messages.",
   note=RX_NOTE,
   technique="Coq refinement + liveness-by-counting proofs on the receiver model + flush-call trace replay correspondence + samedec black-box runs",
   ref="§5 C14, §11")

CHECKS["C10"] = dict(
   text="Discrete half proved, the first two float stages (DC blocker, AGC) proved bit-exactly in Flocq binary32, the rest of the float chain "
        "sampled (partial). FLOAT: from ANY state of the DC blocker (NaN and infinities included) four window lengths of zero input give "
        "back a new filter's windows and sums, and after ANY input history the filter IS a new filter up to the phase of its refresh counter "
        "(before fix 2ef7c73 it never forgot: finding F13, refuted on the old definition with a 17-sample witness; the audio-level "
        "witness left the receiver permanently deaf); for ANY sequence of finite samples with |x| <= 2^20, lock/unlock/reset, limits "
        "0 <= min <= max <= 2^100 and bandwidth in [0,1] the AGC gain stays finite and inside its limits and every output is finite. The "
        "Flocq model is compared bit for bit with the real Agc and DCBlocker (hook) on every run. DISCRETE: machine-checked for EVERY symbol stream: the link-layer invariant (no byte "
        "clock => not locked; sample history not full => no byte clock; power history within capacity) holds in every reachable state; "
        "from any such state - mid-burst, locked, searching, whatever the framer holds - 32 symbols of silence leave the squelch without "
        "byte clock and unlocked and the framer idle (never left deaf by its own state machine), and the sync gate is then open to the next "
        "preamble; no burst is read forever; the discrete part has no reachable panic site (squelch expect(), C17's construction sites); "
        "once what a hostile history left in the assembler has expired it answers every further history exactly as a new one; two intact "
        "copies of a header outvote any burst left next to them (C03). For the WHOLE discrete receiver (every item stream): it is time-shift "
        "invariant; every reachable state becomes quiesced under silence (32 symbols idle the link, 6335 more release and expire all the "
        "assembler holds; only an armed 135 s timer outlasts silence, and C09 resolves it); and a quiesced receiver is observationally a "
        "NEW one: after the 32 symbols a new receiver needs to fill its correlator, ANY input yields exactly the new receiver's events with "
        "timestamps offset by the samples consumed (end-to-end theorem C10_hostile_audio_has_no_lasting_effect, with a non-vacuity "
        "witness). Sampled on the real receiver: hostile prefixes composed from a "
        "23-generator library (clipping square waves up to 2^20, DC steps, slowly rising near-DC staircases, noise, tones, endless preamble/carrier, truncated and malformed "
        "transmissions, level jumps, preamble-like tails), a 1..2 s gap, a clean transmission: no panic, finite state, decoded exactly, "
        "tick-trace replay equal. Known findings F9, F11 (a burst at low amplitude with noise occasionally runs on to the framer's limit) and F12 "
        "(three different header bursts vote to a parsable fourth text); F13 fixed (2ef7c73).",
   note=RX_NOTE + " The float theorems (Properties/C10_float.v) depend, through Flocq, on the standard library's classical-reals axioms "
        "(sig_forall_dec, sig_not_dec, functional_extensionality_dep, classic); their Print Assumptions output is redirected to files the check reads.",
   technique="Coq invariant + recovery proofs over symbol streams + tick-trace replay correspondence + hostile-audio sampling under catch_unwind",
   ref="§5 C10, §11")

APP_NOTE = ("Trusted: Coq kernel; hand-written App model over an abstract receiver (iterator contract as explicit hypotheses: a call consumes "
            "a prefix; None only at end of input and then idempotent) and a spawn oracle; extraction; the scripted-transducer driver; "
            "Rust harness (synthfile: same quantized samples decoded by the library configured as samedec configures it); the built samedec "
            "binary and POSIX sh children. No axioms. Not modelled: process creation, pipes, SIGPIPE, blocking, exit statuses - exercised on "
            "the binary by the correspondence runs.")
CHECKS["C11"] = dict(
   text="Control flow proved, OS half by correspondence (partial). Machine-checked over ANY receiver with the iterator contract, any input, "
        "any child configuration, any spawn oracle: when samedec's loop finishes, its standard output is what the specification loop "
        "(next message, or at end of input flush; print; repeat - it never looks at the child) produces; with --quiet nothing is printed; "
        "the specification is deterministic in its fuel. Tie on every run: recordings of 0..4 transmissions (lossy, header after header, "
        "close-cut, odd trailing byte, 8000..48000 Hz) are decoded by the library, run through the EXTRACTED App model, and through the built "
        "binary under 10 option/child/input variants (--file, the file as standard input, a pipe written in odd-sized chunks with a pause): stdout(binary) == o_stdout(model) == library messages, exit 0. "
        "The sample source is modelled and proved too: for every state of the buffered reader and every chunking of the bytes still to come, "
        "the iterator main.rs builds yields the samples of the byte stream as a whole (a lone last byte dropped) and stays finished after its "
        "first None; tied by running that iterator expression in the harness over a chunk-scripted Read against the extracted model.",
   note=APP_NOTE,
   technique="Coq refinement proof (app loop vs print-every-message spec) + extracted-model / binary / library three-way correspondence",
   ref="§5 C11, §11")
CHECKS["C12"] = dict(
   text="Control flow and environment function proved, OS half by correspondence (partial). Machine-checked: exactly one spawn attempt per "
        "printed StartOfMessage, in order; every child's input is a CONTIGUOUS run of the original input starting at the number of samples "
        "consumed when its StartOfMessage was returned and ending with the sample that completed the next message (or end of input), for "
        "any receiver whose next() consumes a prefix (shown for the receiver model); the environment is total on every accepted header "
        "(no accessor panics) and each variable is the corresponding grammar component, PURGETIME - ISSUETIME = validity whenever the issue "
        "time is computable, both empty otherwise; the space-separated locations can be read back. Tie: samedec with a recorder child on "
        "recordings of 8 header kinds: environments equal the extracted build_env and a property-text oracle, child input bytes equal the "
        "file slice the extracted App model predicts, no two children alive at once, every child finished before exit.",
   note=APP_NOTE + " The environment depends on the wall clock (year inference): the model is given the UTC date of the run.",
   technique="Coq proofs (invariant over the app loop, accessor totality from C06) + recorder-child correspondence against the extracted model",
   ref="§5 C12, §11")
CHECKS["C19"] = dict(
   text="Control flow proved, OS half by correspondence (partial). Machine-checked: two finished runs on the same input - with a child and "
        "ANY spawn oracle, and with no child - print the same messages (what the child does with its input and how it exits are not even "
        "inputs of the model: the code discards write results and exit status). Tie: assignments of seven per-invocation child behaviours "
        "(exit 0/1 at once, close stdin and linger, partial read, slow reader, killed, non-zero exit after reading) to the messages of "
        "recordings with 1..3 messages, plus missing executable and non-executable file: stdout identical to the run without a child and to "
        "the extracted model, exit status 0, finished within the wall-clock bound.",
   note=APP_NOTE,
   technique="Coq proof (independence of the spawn oracle via the common spec) + fault-injecting-child runs of the binary vs extracted model",
   ref="§5 C19, §11")

NOT_APPLICABLE = {}

def main():
    props = [json.loads(l)["id"] for l in open(os.path.join(HERE, "properties.jsonl"))]
    checks = []
    for pid in props:
        if pid not in CHECKS:
            continue
        c = CHECKS[pid]
        checks.append({
            "property_id": pid,
            "quick_cmd": "./check %s --tier quick" % pid,
            "thorough_cmd": "./check %s --tier thorough" % pid,
            "evidence_file": "evidence/%s.json" % pid,
            "replay_cmd_template": "./check %s --replay {path}" % pid,
            "engine": "coq-model-correspondence",
            "level_claimed": {"category": c.get("category", "proof"), "text": c["text"], "design_ref": c["ref"]},
            "level_note": c["note"],
            "technique": c["technique"],
        })
    na = []
    for pid in props:
        if pid not in CHECKS:
            na.append({"property_id": pid,
                       "reason": NOT_APPLICABLE.get(pid, "not claimed yet: the model/theorems/correspondence for this property are not built at this commit (see DESIGN.md build order)")})
    m = {
        "version": 1,
        "setup_cmd": "./setup.sh",
        "hooks": {
            "guard": "cargo feature verif-hooks (crate sameold)",
            "enable": "harness/Cargo.toml depends on sameold = { path = \"/repo/crates/sameold\", features = [\"verif-hooks\"] }; built with cargo build --offline --release into /verif/_build/target",
            "baseline_off_cmd": "cd /repo && cargo test --workspace --no-fail-fast --offline",
            "source_commits": json.load(open(os.path.join(HERE, "hooks.json")))["source_commits"],
            "add_only": True,
        },
        "engines": [{
            "name": "coq-model-correspondence",
            "path": "check",
            "serves_properties": [c["property_id"] for c in checks],
            "kind_free_text": "Coq 8.16.1 development (coq/) with per-property theorem files; extracted OCaml model driver (ocaml/) vs Rust harness (harness/) differential correspondence; Python oracles and generators (lib/)",
        }],
        "checks": checks,
        "not_applicable": na,
        "notes": "See DESIGN.md. Every check rebuilds the harness from /repo's working tree, regenerates coq/Gen/Generated.v from the built crate, re-checks the property's theorem file, and runs the correspondence + property oracle.",
    }
    with open(os.path.join(HERE, "MANIFEST.json"), "w") as f:
        json.dump(m, f, indent=1)
        f.write("\n")

if __name__ == "__main__":
    main()
