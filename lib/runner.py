"""Generic flow of one property check (see DESIGN.md §2.3)."""
import json, os, sys, time, traceback
import vlib
from vlib import log, BuildError


class Ctx:
    def __init__(self, pid, tier, seed):
        self.pid, self.tier, self.seed = pid, tier, seed
        self.rng = vlib.SplitMix64(seed)
        self.quick = tier == "quick"
        self.violations = []      # (kind, description, replay payload)
        self.known = []           # descriptions of reproduced known findings
        self.coverage = {}
        self.notes = []

    def violation(self, kind, what, payload):
        payload = dict(payload)
        payload.update({"property": self.pid, "kind": kind, "what": what, "seed": self.seed,
                        "tier": self.tier})
        self.violations.append((kind, what, payload))


def prepare(pid, want_samedec=False):
    """Rebuild everything the check needs from /repo's working tree. Returns dict."""
    info = {}
    with vlib.Lock():
        t0 = time.time()
        vlib.build_harness()
        info["gen_changed"], info["dump"] = vlib.regenerate()
        vlib.build_modelrun()
        if want_samedec:
            info["samedec"] = vlib.build_samedec()
        ok, out = vlib.build_property(pid)
        info["coq_ok"], info["coq_log"] = ok, out
        info["build_s"] = round(time.time() - t0, 1)
    return info


def run_check(mod, pid, tier, seed, no_build=False):
    t0 = time.time()
    ctx = Ctx(pid, tier, seed)
    try:
        info = prepare(pid, want_samedec=getattr(mod, "WANT_SAMEDEC", False))
    except BuildError as e:
        log("BUILD FAILURE in stage %s:\n%s" % (e.stage, e.output[-4000:]))
        # a tree that no longer builds is reported as a broken tie, never silently passed
        path = vlib.write_replay(pid, {"property": pid, "kind": "build-failure", "stage": e.stage,
                                       "output_tail": e.output[-4000:]})
        print("VIOLATION property=%s replay=%s no-failing-input-found" % (pid, path))
        return 1
    ctx.info = info

    # ---- proof obligations -------------------------------------------------
    thms = vlib.theorem_names(pid)
    closed, axioms = vlib.parse_assumptions(info["coq_log"])
    bad_axioms = [a for a in axioms if a not in vlib.ALLOWED_AXIOMS]
    forbidden = vlib.forbidden_scan()
    proof_ok = info["coq_ok"] and not bad_axioms and not forbidden
    broken_theorem = None
    if not info["coq_ok"]:
        import re
        m = re.search(r'File "\./([^"]+)", line (\d+)', info["coq_log"])
        broken_theorem = "coq build failed at %s line %s" % (m.group(1), m.group(2)) if m else "coq build failed"
        log("PROOF BROKEN: " + broken_theorem)
        log(info["coq_log"][-3000:])
    if bad_axioms:
        broken_theorem = "unexpected axioms: " + ", ".join(bad_axioms)
    if forbidden:
        broken_theorem = "forbidden constructs: " + "; ".join(forbidden[:5])

    # ---- correspondence + property oracle ----------------------------------
    try:
        mod.run(ctx)
    except BuildError as e:
        log("RUN FAILURE in %s:\n%s" % (e.stage, e.output[-4000:]))
        ctx.violation("harness-failure", "harness stage %s failed" % e.stage,
                      {"output_tail": e.output[-2000:]})

    # ---- verdict -------------------------------------------------------------
    rc = 0
    for k in ctx.known:
        print("KNOWN-FINDING: property=%s %s" % (pid, k))
    concrete = [v for v in ctx.violations if v[0] == "property"]
    others = [v for v in ctx.violations if v[0] != "property"]
    if concrete:
        kind, what, payload = concrete[0]
        payload["all_violations"] = [w for (_, w, _) in ctx.violations][:50]
        if broken_theorem:
            payload["broken_proof"] = broken_theorem
        path = vlib.write_replay(pid, payload)
        print("VIOLATION property=%s replay=%s" % (pid, path))
        log("violation: " + what)
        rc = 1
    elif others or not proof_ok:
        payload = {"property": pid, "kind": "tie-broken", "seed": seed, "tier": tier,
                   "broken_proof": broken_theorem,
                   "correspondence_failures": [p for (_, _, p) in others][:20],
                   "what": (broken_theorem or others[0][1])}
        path = vlib.write_replay(pid, payload)
        print("VIOLATION property=%s replay=%s no-failing-input-found" % (pid, path))
        log("tie broken: " + payload["what"])
        rc = 1

    cov = dict(ctx.coverage)
    cov.setdefault("obligations", len(thms))
    cov.setdefault("discharged", len(thms) if proof_ok else 0)
    cov.setdefault("checker_cmd", "make -C coq Properties/%s.vo (coqc 8.16.1, full .vo) + Print Assumptions allow-list + forbidden-construct scan" % pid)
    cov.setdefault("trusted_base", [
        "Coq 8.16.1 kernel, vm_compute (no native_compute)",
        "axioms reported by Print Assumptions: " + (", ".join(axioms) if axioms else "none (closed under the global context x%d)" % closed),
        "hand-written Gallina model tied to /repo by differential execution (extracted OCaml, ExtrOcamlBasic only) and by Gen/Generated.v regenerated from the built crate",
        "Rust harness + hooks (feature verif-hooks), Python generators and oracles",
    ])
    cov["theorems"] = thms
    cov["build_seconds"] = info.get("build_s")
    ev = {
        "property_id": pid, "tier": tier, "seed": seed, "level": getattr(mod, "LEVEL", "proof"),
        "coverage": cov,
        "assumptions": getattr(mod, "ASSUMPTIONS", []) + ctx.notes,
        "wall_s": round(time.time() - t0, 2),
        "violations": len(ctx.violations),
    }
    vlib.write_evidence(pid, ev)
    log("%s %s: rc=%d wall=%.1fs evaluations=%s" % (pid, tier, rc, ev["wall_s"], cov.get("evaluations")))
    return rc


def replay(mod, pid, path):
    payload = json.load(open(path))
    with vlib.Lock():
        vlib.build_harness()
        vlib.regenerate()
        vlib.build_modelrun()
    return mod.replay(payload)
