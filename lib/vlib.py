"""Common machinery for the per-property checks (stdlib only)."""
import fcntl, hashlib, json, os, re, subprocess, sys, time, shutil

VERIF = os.path.dirname(os.path.dirname(os.path.abspath(__file__)))
REPO = os.environ.get("VERIF_REPO", "/repo")
BUILD = os.path.join(VERIF, "_build")
COQ = os.path.join(VERIF, "coq")
TARGET = os.path.join(BUILD, "target")
MODELRUN = os.path.join(BUILD, "ocaml", "modelrun")
IMPLRUN = os.path.join(TARGET, "release", "implrun")
NCPU = os.cpu_count() or 4

ENV = dict(os.environ)
ENV.update({"CARGO_NET_OFFLINE": "true", "CARGO_TARGET_DIR": TARGET})

ALLOWED_AXIOMS = {
    # standard-library axioms (only reached through Flocq / Reals in Config proofs)
    "ClassicalDedekindReals.sig_forall_dec",
    "ClassicalDedekindReals.sig_not_dec",
    "FunctionalExtensionality.functional_extensionality_dep",
    "Classical_Prop.classic",
}

FORBIDDEN = re.compile(
    r"\b(Admitted|admit|Axiom|Axioms|Parameter|Parameters|Conjecture|Conjectures|"
    r"Unset\s+Guard|Unset\s+Positivity|Unset\s+Universe|bypass_check|"
    r"type-in-type|impredicative-set|Admit\s+Obligations)\b")


class SplitMix64:
    def __init__(self, seed):
        self.s = seed & 0xFFFFFFFFFFFFFFFF
    def next(self):
        self.s = (self.s + 0x9E3779B97F4A7C15) & 0xFFFFFFFFFFFFFFFF
        z = self.s
        z = ((z ^ (z >> 30)) * 0xBF58476D1CE4E5B9) & 0xFFFFFFFFFFFFFFFF
        z = ((z ^ (z >> 27)) * 0x94D049BB133111EB) & 0xFFFFFFFFFFFFFFFF
        return z ^ (z >> 31)
    def below(self, n):
        return self.next() % n if n > 0 else 0
    def range(self, lo, hi):            # inclusive
        return lo + self.below(hi - lo + 1)
    def choice(self, seq):
        return seq[self.below(len(seq))]
    def chance(self, num, den):
        return self.below(den) < num
    def bytes(self, n):
        return bytes(self.below(256) for _ in range(n))
    def fork(self, tag):
        h = hashlib.sha256(("%d/%s" % (self.s, tag)).encode()).digest()
        return SplitMix64(int.from_bytes(h[:8], "little"))


def hx(b):
    return b.hex() if len(b) else "-"


def log(*a):
    print(*a, file=sys.stderr, flush=True)


class BuildError(Exception):
    def __init__(self, stage, output):
        super().__init__(stage)
        self.stage, self.output = stage, output


def run(cmd, cwd=None, timeout=1800, env=None, inp=None):
    p = subprocess.run(cmd, cwd=cwd, env=env or ENV, input=inp, stdout=subprocess.PIPE,
                       stderr=subprocess.STDOUT, timeout=timeout, text=True)
    return p.returncode, p.stdout


class Lock:
    def __init__(self, name="build"):
        os.makedirs(BUILD, exist_ok=True)
        self.path = os.path.join(BUILD, name + ".lock")
    def __enter__(self):
        self.f = open(self.path, "w")
        fcntl.flock(self.f, fcntl.LOCK_EX)
        return self
    def __exit__(self, *a):
        fcntl.flock(self.f, fcntl.LOCK_UN)
        self.f.close()


def write_if_changed(path, content):
    try:
        if open(path).read() == content:
            return False
    except FileNotFoundError:
        pass
    os.makedirs(os.path.dirname(path), exist_ok=True)
    with open(path, "w") as f:
        f.write(content)
    return True


# --------------------------------------------------------------------------
# builds
# --------------------------------------------------------------------------
def build_harness(profile="release"):
    """(Re)build the Rust harness against /repo's working tree, hooks on."""
    hdir = os.path.join(VERIF, "harness")
    lock = os.path.join(hdir, "Cargo.lock")
    if not os.path.exists(lock):
        shutil.copy(os.path.join(REPO, "Cargo.lock"), lock)
    cmd = ["cargo", "build", "--offline", "--bins"]
    if profile == "release":
        cmd.append("--release")
    rc, out = run(cmd, cwd=hdir, timeout=1800)
    if rc != 0:
        raise BuildError("cargo-harness", out)
    return out


def build_samedec():
    rc, out = run(["cargo", "build", "--offline", "--release", "-p", "samedec"], cwd=REPO, timeout=1800)
    if rc != 0:
        raise BuildError("cargo-samedec", out)
    return os.path.join(TARGET, "release", "samedec")


def regenerate():
    """Rewrite coq/Gen/Generated.v from the built crate (only when it changes)."""
    rc, out = run([os.path.join(TARGET, "release", "dump")], timeout=120)
    if rc != 0:
        raise BuildError("dump", out)
    sys.path.insert(0, os.path.join(VERIF, "lib"))
    import gen
    text = gen.generate(out)
    changed = write_if_changed(os.path.join(COQ, "Gen", "Generated.v"), text)
    return changed, out


def coq_makefile():
    mk = os.path.join(COQ, "Makefile")
    cp = os.path.join(COQ, "_CoqProject")
    if (not os.path.exists(mk)) or os.path.getmtime(mk) < os.path.getmtime(cp):
        rc, out = run(["coq_makefile", "-f", "_CoqProject", "-o", "Makefile"], cwd=COQ)
        if rc != 0:
            raise BuildError("coq_makefile", out)


def coq_make(targets, timeout=3000):
    coq_makefile()
    rc, out = run(["timeout", str(timeout), "make", "-j%d" % NCPU] + targets, cwd=COQ, timeout=timeout + 60)
    return rc, out


def build_modelrun():
    """Extraction output -> native driver. Rebuilt only when sources change."""
    rc, out = coq_make(["Extract/Extract.vo"])
    if rc != 0:
        raise BuildError("coq-extract", out)
    odir = os.path.join(BUILD, "ocaml")
    os.makedirs(odir, exist_ok=True)
    srcs = [os.path.join(COQ, "Extract", "model.mli"), os.path.join(COQ, "Extract", "model.ml"),
            os.path.join(VERIF, "ocaml", "driver_ext.ml"), os.path.join(VERIF, "ocaml", "driver.ml")]
    h = hashlib.sha256()
    for s in srcs:
        h.update(open(s, "rb").read())
    stamp = os.path.join(odir, "stamp")
    if os.path.exists(MODELRUN) and os.path.exists(stamp) and open(stamp).read() == h.hexdigest():
        return
    for s in srcs:
        shutil.copy(s, odir)
    rc, out = run(["ocamlfind", "ocamlopt", "-package", "str", "-w", "-a", "model.mli", "model.ml",
                   "driver_ext.ml", "driver.ml", "-o", "modelrun"], cwd=odir, timeout=600)
    if rc != 0:
        raise BuildError("ocaml", out)
    open(stamp, "w").write(h.hexdigest())


def property_file(pid):
    return os.path.join(COQ, "Properties", pid + ".v")


def extra_property_files(pid):
    """Properties/<pid>_*.v: further theorems of the property, compiled as dependencies of Properties/<pid>.v (so only when they
    or what they depend on change); each theorem's Print Assumptions is redirected to Properties/<pid>_<x>.<theorem>.out"""
    import glob
    return sorted(glob.glob(os.path.join(COQ, "Properties", pid + "_*.v")))


def _theorems_in(path):
    src = open(path).read()
    src = re.sub(r"\(\*.*?\*\)", "", src, flags=re.S)
    return re.findall(r"^\s*(?:Theorem|Corollary)\s+([A-Za-z0-9_']+)", src, flags=re.M)


def theorem_names(pid):
    names = _theorems_in(property_file(pid))
    for f in extra_property_files(pid):
        names += _theorems_in(f)
    return names


def coq_sources():
    out = []
    for root, _, files in os.walk(COQ):
        for f in files:
            if f.endswith(".v"):
                out.append(os.path.join(root, f))
    return sorted(out)


def forbidden_scan():
    """No Admitted/admit/Axiom/Parameter/... anywhere in the development."""
    hits = []
    for p in coq_sources():
        src = open(p).read()
        # strip comments (non-nested is enough for our sources; nested handled by loop)
        prev = None
        while prev != src:
            prev = src
            src = re.sub(r"\(\*[^()]*?\*\)", "", src, flags=re.S)
        for i, line in enumerate(src.splitlines(), 1):
            if FORBIDDEN.search(line):
                hits.append("%s:%d: %s" % (os.path.relpath(p, VERIF), i, line.strip()))
    return hits


def build_property(pid, timeout=3000):
    """Compile Properties/<pid>.v (full .vo) and return (ok, log, assumptions)."""
    vo = property_file(pid) + "o"
    try:
        os.remove(vo)          # force a re-check of the property file itself: its output
    except FileNotFoundError:  # carries the Print Assumptions lines
        pass
    rc, out = coq_make(["Properties/%s.vo" % pid], timeout=timeout)
    ok = rc == 0
    # theorems in dependency files: their (redirected) Print Assumptions output, one file per theorem; a missing file is a failure
    for f in extra_property_files(pid):
        for t in _theorems_in(f):
            o = f[:-2] + "." + t + ".out"
            if ok and not (os.path.exists(o) and os.path.getmtime(o) >= os.path.getmtime(f)):
                ok = False
                out += "\nFile \"./Properties/%s\", line 1: no up-to-date Print Assumptions output for %s\n" % (os.path.basename(f), t)
            elif os.path.exists(o):
                out += "\n" + open(o).read() + "\n"
    return ok, out


def parse_assumptions(log_text):
    """Return list of (axiom names) found in Print Assumptions output blocks."""
    axioms = set()
    closed = log_text.count("Closed under the global context")
    for m in re.finditer(r"^Axioms:\n((?:.+\n)+?)(?=^\S|\Z)", log_text, flags=re.M):
        pass
    # Axiom lines look like "name : type" at column 0 after an "Axioms:" line
    in_ax = False
    for line in log_text.splitlines():
        if line.startswith("Axioms:"):
            in_ax = True
            continue
        if in_ax:
            m = re.match(r"^([A-Za-z_][A-Za-z0-9_.']*)\s*(:|$)", line)
            if m:
                axioms.add(m.group(1))
            elif line.startswith(" ") or line.startswith("\t") or not line.strip():
                continue
            else:
                in_ax = False
    return closed, sorted(axioms)


# --------------------------------------------------------------------------
# model / implementation runners
# --------------------------------------------------------------------------
def _big_stack():
    """the extracted model recurses over unary naturals and long lists: lift the stack limit for the child process"""
    import resource
    try:
        resource.setrlimit(resource.RLIMIT_STACK, (resource.RLIM_INFINITY, resource.RLIM_INFINITY))
    except (ValueError, OSError):
        pass


def run_lines(exe, lines, timeout=3600, env=None):
    data = "\n".join(lines) + "\n"
    p = subprocess.run([exe], input=data, stdout=subprocess.PIPE, stderr=subprocess.PIPE,
                       text=True, timeout=timeout, env=env or ENV, preexec_fn=_big_stack)
    if p.returncode != 0:
        raise BuildError("run " + exe, p.stderr[-2000:])
    out = p.stdout.split("\n")
    if out and out[-1] == "":
        out.pop()
    if len(out) != len(lines):
        raise BuildError("run " + exe, "expected %d lines, got %d" % (len(lines), len(out)))
    return out


def run_lines_parallel(exe, lines, shards=None, timeout=3600):
    """Shard the request list over several processes; order preserved."""
    from concurrent.futures import ThreadPoolExecutor
    shards = shards or NCPU
    if len(lines) < 2000 or shards <= 1:
        return run_lines(exe, lines, timeout)
    n = len(lines)
    step = (n + shards - 1) // shards
    parts = [lines[i:i + step] for i in range(0, n, step)]
    with ThreadPoolExecutor(len(parts)) as ex:
        outs = list(ex.map(lambda p: run_lines(exe, p, timeout), parts))
    res = []
    for o in outs:
        res.extend(o)
    return res


_panic_re = re.compile(r"PANIC\d*")
def canon(s):
    return _panic_re.sub("PANIC", s)


# --------------------------------------------------------------------------
# evidence / verdict
# --------------------------------------------------------------------------
def load_known_findings(pid):
    p = os.path.join(VERIF, "known_findings.json")
    try:
        data = json.load(open(p))
    except FileNotFoundError:
        return []
    return [e for e in data.get("findings", []) if e.get("property") == pid]


def write_replay(pid, payload):
    d = os.path.join(VERIF, "replays")
    os.makedirs(d, exist_ok=True)
    blob = json.dumps(payload, sort_keys=True, indent=1)
    name = "%s-%s.json" % (pid, hashlib.sha256(blob.encode()).hexdigest()[:12])
    path = os.path.join(d, name)
    with open(path, "w") as f:
        f.write(blob + "\n")
    return os.path.relpath(path, VERIF)


def write_evidence(pid, ev):
    d = os.path.join(VERIF, "evidence")
    os.makedirs(d, exist_ok=True)
    with open(os.path.join(d, pid + ".json"), "w") as f:
        json.dump(ev, f, indent=1, sort_keys=True)
        f.write("\n")


def coq_eval(name, body, timeout=600):
    """Evaluate a generated .v file (Eval vm_compute ...) against the compiled development; returns coqc's stdout."""
    d = os.path.join(BUILD, "cases")
    os.makedirs(d, exist_ok=True)
    path = os.path.join(d, name + ".v")
    with open(path, "w") as f:
        f.write(body)
    rc, out = run(["timeout", str(timeout), "coqc", "-noglob", "-Q", COQ, "Sameold", path], cwd=d, timeout=timeout + 30)
    if rc != 0:
        raise BuildError("coq-eval " + name, out)
    return out
