"""dump output -> coq/Gen/Generated.v"""

HEADER = """(* GENERATED from the built crate (/repo working tree) by lib/gen.py via
   harness/src/bin/dump.rs on every check.  Do not edit. *)
From Coq Require Import NArith List.
Import ListNotations.
Open Scope N_scope.
"""

def nlist(b):
    return "[" + "; ".join(str(x) for x in b) + "]"

def generate(dump_text):
    out = [HEADER]
    tables = {}
    for line in dump_text.splitlines():
        t = line.split(" ")
        if t[0] == "const":
            out.append("Definition %s : N := %s." % (t[1], t[2]))
        elif t[0] == "row":
            tables.setdefault(t[1], []).append(t[2:])
    for name in sorted(tables):
        rows = tables[name]
        out.append("")
        out.append("Definition %s : list (list (list N)) :=" % name)
        body = []
        for r in rows:
            cells = []
            for c in r:
                cells.append(nlist([] if c == "-" else list(bytes.fromhex(c))))
            body.append("  [" + "; ".join(cells) + "]")
        out.append("[\n" + ";\n".join(body) + "\n].")
    return "\n".join(out) + "\n"
