#!/bin/sh
# usage: lib/seedmatrix.sh [ids...]   runs every seeded change (or the given ones) against the check of its property
# and writes seeded/RESULTS.txt.  Modifies /repo's working tree while it runs (restored after each change).
cd "$(dirname "$0")/.."
out=seeded/RESULTS.txt
: > $out.tmp
ids="$@"
[ -z "$ids" ] && ids=$(ls seeded | grep -- '-m' | sort)
for id in $ids; do
  pid=${id%%-*}
  res=$(sh lib/seedtest.sh seeded/$id/patch.diff $pid 2>&1 | grep -E "^\[$pid\]|^violation:|^tie broken:" | tr '\n' ' ' | cut -c1-420)
  case "$res" in
    *"rc=1 "*no-failing-input-found*) verdict="DETECTED (proof/correspondence broken, no failing input found)";;
    *"rc=1 "*) verdict="DETECTED (violation with replay)";;
    *) verdict="MISSED";;
  esac
  echo "$id | $verdict | $res" >> $out.tmp
  echo "$id $verdict"
done
mv $out.tmp $out
