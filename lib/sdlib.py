"""samedec black-box harness: synthesized recordings written as raw s16 files (harness `synthfile`, which also decodes the
same quantized samples with the library configured as samedec configures it), the built samedec binary run on them
with recorder / faulty children, and the extracted App model run on the library's own message schedule."""
import os, stat, subprocess, tempfile, time, shutil
import vlib, rxlib, samegen

SAMEDEC = os.path.join(vlib.TARGET, "release", "samedec")

RECORDER = r'''#!/bin/sh
# records environment and stdin of each invocation under $REC_DIR/<n>.{env,pcm}; detects two children alive at once
n=$(ls "$REC_DIR" | grep -c '\.env$')
env | grep '^SAMEDEC_' | sort > "$REC_DIR/$n.env"
mkdir "$REC_DIR/lock" 2>/dev/null || : > "$REC_DIR/overlap"
cat > "$REC_DIR/$n.pcm"
sleep 0.15
rmdir "$REC_DIR/lock" 2>/dev/null
: > "$REC_DIR/$n.done"
'''

FAULTY = r'''#!/bin/sh
# per-invocation behaviour from $FAULTS (comma separated), default: well-behaved
n=$(ls "$REC_DIR" | grep -c '\.started$')
: > "$REC_DIR/$n.started"
k=$(echo "$FAULTS" | cut -d, -f$((n+1)))
case "$k" in
  exit0) exit 0 ;;
  exit1) exit 1 ;;
  closestdin) exec 0<&-; sleep 0.3; exit 0 ;;
  partial) head -c 2000 > /dev/null; exit 0 ;;
  slow) while dd bs=8192 count=1 2>/dev/null | grep -q . ; do sleep 0.002; done; exit 0 ;;
  killed) kill -KILL $$ ;;
  exit3late) cat > /dev/null; exit 3 ;;
  *) cat > /dev/null; exit 0 ;;
esac
'''


def write_script(path, text):
    with open(path, "w") as f:
        f.write(text)
    os.chmod(path, os.stat(path).st_mode | stat.S_IXUSR | stat.S_IXGRP | stat.S_IXOTH)


class Recording:
    """a synthesized multi-transmission recording + the library's own decode of it"""
    def __init__(self, td, name, rate, script, params="", odd=False):
        self.path = os.path.join(td, name + ".s16")
        self.rate = rate
        line = "synthfile rate=%d %s script=%s out=%s%s" % (rate, params, script, self.path, " odd=1" if odd else "")
        self.line = line
        out = vlib.run_lines(vlib.IMPLRUN, [line])[0]
        if not out.startswith("ok "):
            raise vlib.BuildError("synthfile", out)
        kv = dict(t.split("=", 1) for t in out.split(" ")[1:])
        self.n = int(kv["n"])
        self.msgs_tok = kv["msgs"]
        self.flushed_tok = kv["flushed"]
        self.msgs = [] if kv["msgs"] == "-" else [(bytes.fromhex(t.split("@")[0]).decode("latin1"), int(t.split("@")[1])) for t in kv["msgs"].split(";")]
        self.flushed = [] if kv["flushed"] == "-" else [bytes.fromhex(t).decode("latin1") for t in kv["flushed"].split(";")]
        self.odd = odd

    def library_lines(self):
        return [m for m, _ in self.msgs] + self.flushed

    def model(self, quiet, has_child, spawn_bits="-"):
        out = vlib.run_lines(vlib.MODELRUN, ["apprun %d %d %s %d %s %s" % (quiet, has_child, spawn_bits, self.n, self.msgs_tok, self.flushed_tok)])[0]
        if not out.startswith("stdout="):
            return None, None, out
        so, sp = out.split(" ")
        lines = [] if so == "stdout=-" else [bytes.fromhex(t).decode("latin1") for t in so[7:].split(";")]
        spawns = []
        if sp != "spawns=-":
            for t in sp[7:].split(";"):
                a = t.split(":")
                spawns.append((bytes.fromhex(a[0]).decode("latin1"), None if a[1] == "fail" else (int(a[1]), int(a[2]))))
        return lines, spawns, out


def run_samedec_chunked(rec, chunks, extra=None, child=None, env=None, timeout=120):
    """samedec reading standard input from a PIPE written in the given chunk sizes: `chunks` = [(nbytes, pause_s), ...],
    the last size repeated until the file is exhausted.  Odd sizes with a pause after them make the reader's read() return
    in mid-sample, which is how a live audio source behaves."""
    cmd = [SAMEDEC, "-r", str(rec.rate)] + (extra or [])
    if child:
        cmd += ["--"] + child
    e = dict(os.environ)
    e.pop("RUST_LOG", None)
    if env:
        e.update(env)
    data = open(rec.path, "rb").read()
    t0 = time.time()
    with tempfile.TemporaryFile() as so, tempfile.TemporaryFile() as se:
        p = subprocess.Popen(cmd, stdin=subprocess.PIPE, stdout=so, stderr=se, env=e)
        pos, i, broken = 0, 0, False
        try:
            while pos < len(data):
                n, pause = chunks[min(i, len(chunks) - 1)]
                p.stdin.write(data[pos:pos + n]); p.stdin.flush()
                pos += n; i += 1
                if pause:
                    time.sleep(pause)
            p.stdin.close()
        except (BrokenPipeError, OSError):
            broken = True
        try:
            rc = p.wait(timeout=timeout); hang = False
        except subprocess.TimeoutExpired:
            p.kill(); rc = None; hang = True
        so.seek(0); se.seek(0)
        return {"rc": rc, "stdout": so.read().decode("latin1").splitlines(), "stderr": se.read().decode("latin1")[-1500:],
                "wall": time.time() - t0, "hang": hang, "broken_pipe": broken,
                "cmd": " ".join(cmd) + " < (pipe, chunks %s) %s" % (chunks, rec.path)}


def run_samedec(rec, extra=None, child=None, env=None, use_stdin=False, timeout=120):
    cmd = [SAMEDEC, "-r", str(rec.rate)] + (extra or [])
    stdin = None
    if use_stdin:
        stdin = open(rec.path, "rb")
    else:
        cmd += ["--file", rec.path]
    if child:
        cmd += ["--"] + child
    e = dict(os.environ)
    e.pop("RUST_LOG", None)
    if env:
        e.update(env)
    t0 = time.time()
    try:
        p = subprocess.run(cmd, stdin=stdin, stdout=subprocess.PIPE, stderr=subprocess.PIPE, timeout=timeout, env=e)
        res = {"rc": p.returncode, "stdout": p.stdout.decode("latin1").splitlines(), "stderr": p.stderr.decode("latin1")[-1500:],
               "wall": time.time() - t0, "hang": False}
    except subprocess.TimeoutExpired as ex:
        res = {"rc": None, "stdout": (ex.stdout or b"").decode("latin1").splitlines(), "stderr": "", "wall": timeout, "hang": True}
    finally:
        if stdin:
            stdin.close()
    res["cmd"] = " ".join(cmd)
    return res


def make_recording(rng, td, name, ntx=None, rate=None, close_cut=None, lossy=None, odd=None, back_to_back=None, header_only_last=None):
    """0..4 transmissions with silences between; returns Recording and a description"""
    rate = rate or rng.choice([8000, 11025, 16000, 22050, 22050, 44100, 48000])
    ntx = rng.choice([0, 1, 1, 2, 3, 4]) if ntx is None else ntx
    close_cut = rng.chance(1, 3) if close_cut is None else close_cut
    odd = rng.chance(1, 4) if odd is None else odd
    segs = ["S%.2f" % (0.2 + rng.below(50) / 100.0)]
    desc = {"rate": rate, "ntx": ntx, "close_cut": close_cut, "odd": odd, "tx": []}
    amp = rng.choice([1000, 5000, 20000])
    for i in range(ntx):
        H = samegen.gen_header(rng, nloc=rng.choice([1, 1, 2, 5, 12]))
        mask = 0b111111
        if (lossy if lossy is not None else rng.chance(1, 3)):
            mask = rng.choice([0b111011, 0b111101, 0b111110, 0b101111, 0b011111, 0b110111])
        no_trailer = (back_to_back if back_to_back is not None else rng.chance(1, 5)) and i < ntx - 1
        if i == ntx - 1 and (header_only_last if header_only_last is not None else rng.chance(1, 6)):
            no_trailer = True
        if no_trailer:
            mask &= 0b000111
        tx = rxlib.Tx(rng, H=H, rate=rate, mask=mask, gap_ht=rng.choice([1.0, 2.0, 3.0]), impaired=False)
        s = tx.segments()[1:-1]
        if no_trailer:
            s = s[:5]                       # three header bursts and the two pauses between them
        segs += s
        last = (i == ntx - 1)
        if not (last and close_cut):
            segs.append("S%.2f" % (2.0 + rng.below(150) / 100.0))
        desc["tx"].append({"header": H.decode("latin1"), "mask": format(mask, "06b")[::-1], "no_trailer": no_trailer})
    params = "amp=%d dc=%d seed=%d snr=30" % (amp, rng.choice([0, 100, -300]), rng.below(1 << 30))
    return Recording(td, name, rate, ",".join(segs), params=params, odd=odd), desc
