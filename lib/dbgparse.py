"""Parse Rust pretty Debug ({:#?}) output into a flat {path: value} dict.
Arrays / tuples of scalars become one value (the joined text); nested structs extend the path."""
import re


def parse(text):
    lines = text.split("\n")
    pos = [0]

    def parse_value(first):
        """first: the text after 'name: ' (or a whole anonymous line), stripped of trailing comma.
        Returns a nested python object: dict (struct), list (array/tuple), or str (scalar)."""
        first = first.strip()
        if first.endswith("{"):
            d = {"__type__": first[:-1].strip()}
            while True:
                ln = lines[pos[0]].strip(); pos[0] += 1
                if ln.rstrip(",") == "}":
                    return d
                m = re.match(r"^([A-Za-z_][A-Za-z0-9_]*): (.*)$", ln)
                if m:
                    d[m.group(1)] = parse_value(m.group(2).rstrip(",") if not m.group(2).rstrip(",").endswith(("{", "(", "[")) else m.group(2))
                else:
                    raise ValueError("struct line: " + ln)
        if first.endswith("(") or first.endswith("["):
            close = ")" if first.endswith("(") else "]"
            items = []
            while True:
                ln = lines[pos[0]].strip(); pos[0] += 1
                if ln.rstrip(",") == close:
                    break
                body = ln.rstrip(",") if not ln.rstrip(",").endswith(("{", "(", "[")) else ln
                items.append(parse_value(body))
            return {"__type__": first[:-1].strip(), "__items__": items} if first[:-1].strip() else items
        return first

    pos[0] = 1
    root = parse_value(lines[0])
    return root


def flatten(obj, prefix="", out=None):
    out = {} if out is None else out
    if isinstance(obj, dict):
        if "__items__" in obj:
            if all(isinstance(x, str) for x in obj["__items__"]):
                out[prefix] = obj["__type__"] + "[" + ",".join(obj["__items__"]) + "]"
            else:
                flatten(obj["__items__"], prefix, out)
        else:
            for k, v in obj.items():
                if k == "__type__":
                    continue
                flatten(v, prefix + "/" + k if prefix else k, out)
    elif isinstance(obj, list):
        if all(isinstance(x, str) for x in obj):
            out[prefix] = "[" + ",".join(obj) + "]"
        else:
            for i, v in enumerate(obj):
                flatten(v, "%s[%d]" % (prefix, i), out)
            out[prefix + "#len"] = str(len(obj))
    else:
        out[prefix] = obj
    return out


def collapse(flat):
    """merge indexed element paths (a/b[3]/re) into one value per array path so that the
    field list does not depend on array lengths"""
    groups = {}
    for k, v in flat.items():
        base = re.sub(r"\[\d+\].*$", "[]", k)
        if base != k:
            groups.setdefault(base, []).append((k, v))
        else:
            groups[k] = v
    out = {}
    for k, v in groups.items():
        out[k] = v if isinstance(v, str) else "{" + ";".join("%s=%s" % (a[len(k) - 2:], b) for a, b in sorted(v)) + "}"
    return out
