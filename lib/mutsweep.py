#!/usr/bin/env python3
"""Mutation sweep (development tool, not a registered check): small syntactic changes to the non-test source of
cbs228/sameold, each applied to a SCRATCH COPY of /repo and judged by (1) it compiles, (2) the pinned unit tests still
pass, (3) which of the quick checks of a scratch copy of /verif raise an alarm.  /repo and /verif themselves are never
touched.  Survivors (compiling, passing the suite, no alarm) are listed for manual triage: equivalent change or a hole.

usage: mutsweep.py <workdir> <n> <seed> [file-substring ...]
writes <workdir>/results.jsonl (one line per mutant) and prints a summary."""
import json, os, random, re, shutil, subprocess, sys, time

FILES = [
    "crates/sameold/src/receiver/assembler.rs", "crates/sameold/src/receiver/combiner.rs",
    "crates/sameold/src/receiver/framing.rs", "crates/sameold/src/receiver/codesquelch.rs",
    "crates/sameold/src/receiver/timeddata.rs", "crates/sameold/src/receiver.rs",
    "crates/sameold/src/receiver/builder.rs", "crates/sameold/src/receiver/agc.rs",
    "crates/sameold/src/receiver/dcblock.rs", "crates/sameold/src/receiver/symsync.rs",
    "crates/sameold/src/receiver/equalize.rs", "crates/sameold/src/receiver/demod.rs",
    "crates/sameold/src/receiver/filter.rs", "crates/sameold/src/receiver/waveform.rs",
    "crates/sameold/src/message.rs", "crates/sameold/src/message/eventcode.rs", "crates/sameold/src/message/significance.rs",
    "crates/sameold/src/message/originator.rs", "crates/sameold/src/message/phenomenon.rs",
    "crates/sameold/src/eventcodes.rs",
    "crates/samedec/src/app.rs", "crates/samedec/src/spawner.rs", "crates/samedec/src/main.rs",
]

OPS = [
    (r"(?<![<>=!\-])<=(?!=)", "<"), (r"(?<![<>=!\-])>=(?!=)", ">"), (r"(?<![<>=!\-&\w\)]) < (?![<=])", " <= "),
    (r"(?<![<>=!\-]) > (?![>=])", " >= "), (r"==", "!="), (r"!=", "=="), (r"&&", "||"), (r"\|\|", "&&"),
    (r"\+ 1\b", "+ 2"), (r"\- 1\b", "- 2"), (r"\+ 1\b", ""), (r"\- 1\b", ""), (r"\btrue\b", "false"), (r"\bfalse\b", "true"),
    (r"\.min\(", ".max("), (r"\.max\(", ".min("), (r"::min\(", "::max("), (r"::max\(", "::min("),
    (r"\+=", "-="), (r"-=", "+="), (r"\b(\d+)\b", None),          # None: numeric literal +1
    (r"^\s*self\.[a-z_\.]+ = [^;]*;\s*$", "DELETE"),
]


def candidates(repo, only):
    out = []
    for f in FILES:
        if only and not any(o in f for o in only):
            continue
        p = os.path.join(repo, f)
        if not os.path.exists(p):
            continue
        lines = open(p).read().split("\n")
        in_verif = 0
        for i, ln in enumerate(lines):
            s = ln.strip()
            if re.match(r"#\[cfg\(test\)\]", s) and i + 1 < len(lines) and "mod tests" in lines[i + 1]:
                break                                  # the unit tests are at the end of each file
            if "verif-hooks" in ln or "verif::" in ln:
                in_verif = 6                           # skip the guarded hook and the lines right after it
            if in_verif:
                in_verif -= 1; continue
            if not s or s.startswith("//") or s.startswith("#[") or s.startswith("use ") or "debug!" in s or "info!" in s or "warn!" in s \
               or "trace!" in s or "error!" in s or s.startswith("assert") or "const " in s and "&str" in s:
                continue
            code = ln.split("//")[0]
            for k, (pat, rep) in enumerate(OPS):
                for m in re.finditer(pat, code):
                    if rep is None:
                        v = int(m.group(1))
                        if v > 100000 or re.search(r"[\w\.]$", code[:m.start()]) or code[m.end():m.end() + 1] in (".", "f", "u", "i", "_"):
                            continue
                        new = code[:m.start()] + str(v + 1) + code[m.end():]
                    elif rep == "DELETE":
                        new = re.match(r"^\s*", code).group(0) + "// (statement removed)"
                    else:
                        new = code[:m.start()] + rep + code[m.end():]
                    if new != code:
                        out.append((f, i, ln, new + ("" if "//" not in ln else " //" + ln.split("//", 1)[1]), k))
    return out


def sh(cmd, cwd, env=None, timeout=1800):
    e = dict(os.environ); e.update(env or {})
    try:
        p = subprocess.run(cmd, cwd=cwd, env=e, stdout=subprocess.PIPE, stderr=subprocess.STDOUT, timeout=timeout)
        return p.returncode, p.stdout.decode("latin1")
    except subprocess.TimeoutExpired:
        return 124, "timeout"


def main():
    work, n, seed = sys.argv[1], int(sys.argv[2]), int(sys.argv[3])
    only = sys.argv[4:]
    repo, verif = os.path.join(work, "repo"), os.path.join(work, "verif")
    if not os.path.isdir(repo):
        os.makedirs(work, exist_ok=True)
        sh(["git", "clone", "-q", "/repo", repo], "/")
        sh(["rsync", "-a", "--exclude", ".git", "--exclude", "replays", "/verif/", verif + "/"], "/")
        ct = os.path.join(verif, "harness", "Cargo.toml")
        txt = open(ct).read().replace("/repo/crates/sameold", repo + "/crates/sameold")
        open(ct, "w").write(txt)
    env = {"VERIF_REPO": repo, "CARGO_NET_OFFLINE": "true", "CARGO_TARGET_DIR": os.path.join(work, "target")}
    cands = candidates(repo, only)
    random.Random(seed).shuffle(cands)
    pids = [c["property_id"] for c in json.load(open(os.path.join(verif, "MANIFEST.json")))["checks"]]
    if os.environ.get("MUT_PIDS"):                      # restrict the checks that judge (e.g. MUT_PIDS="C01 C10 C17 C18")
        pids = [p for p in pids if p in os.environ["MUT_PIDS"].split()]
    res_path = os.path.join(work, "results.jsonl")
    done = 0
    for (f, i, old, new, k) in cands:
        if done >= n:
            break
        p = os.path.join(repo, f)
        lines = open(p).read().split("\n")
        lines[i] = new
        open(p, "w").write("\n".join(lines))
        rec = {"file": f, "line": i + 1, "old": old.strip(), "new": new.strip()}
        t0 = time.time()
        rc, out = sh(["cargo", "test", "--workspace", "--offline", "--lib", "--bins"], repo, env)
        if rc != 0:
            rec["verdict"] = "does-not-compile" if "error[" in out or "error:" in out and "test result" not in out else "killed-by-suite"
        else:
            alarms = []
            procs = []
            for pid in pids:
                procs.append((pid, subprocess.Popen([os.path.join(verif, "check"), pid, "--tier", "quick"], cwd=verif, env=dict(os.environ, **env),
                                                    stdout=subprocess.PIPE, stderr=subprocess.DEVNULL)))
                if len(procs) >= 4:
                    pid0, p0 = procs.pop(0)
                    o = p0.communicate()[0].decode("latin1")
                    if p0.returncode != 0 or "VIOLATION" in o:
                        alarms.append(pid0 + ("*" if "no-failing-input-found" in o else ""))
            for pid0, p0 in procs:
                o = p0.communicate()[0].decode("latin1")
                if p0.returncode != 0 or "VIOLATION" in o:
                    alarms.append(pid0 + ("*" if "no-failing-input-found" in o else ""))
            rec["alarms"] = alarms
            rec["verdict"] = "detected" if alarms else "SURVIVED"
            done += 1
        rec["secs"] = round(time.time() - t0)
        sh(["git", "checkout", "--", "."], repo)
        with open(res_path, "a") as fo:
            fo.write(json.dumps(rec) + "\n")
        print(rec["verdict"], f.split("/")[-1], i + 1, rec.get("alarms", ""), "|", old.strip()[:70], "=>", new.strip()[:70], flush=True)


if __name__ == "__main__":
    main()
