#!/bin/sh
# runs every thorough check once, records wall time and verdict in /tmp/thorough.log, then restores quick evidence
cd "$(dirname "$0")/.."
: > /tmp/thorough.log
for p in C03 C06 C15 C16 C07 C04 C09 C13 C02 C05 C08 C01 C14 C10 C17 C18 C11 C12 C19; do
  s=$(date +%s)
  out=$(timeout 7200 ./check $p --tier thorough 2>/tmp/thorough_$p.err); rc=$?
  e=$(date +%s)
  echo "$p rc=$rc wall=$((e-s))s $(echo "$out" | grep -c VIOLATION) violations; $(tail -1 /tmp/thorough_$p.err)" >> /tmp/thorough.log
done
echo done >> /tmp/thorough.log
