#!/bin/sh
# runs thorough checks (all, or those named) one at a time, records wall time and verdict in $LOG (default /tmp/thorough.log)
cd "$(dirname "$0")/.."
LOG=${LOG:-/tmp/thorough.log}
: > $LOG
list=${*:-C03 C06 C15 C16 C07 C04 C09 C13 C02 C05 C08 C01 C14 C10 C17 C18 C11 C12 C19}
for p in $list; do
  s=$(date +%s)
  out=$(timeout 7200 ./check $p --tier thorough 2>/tmp/thorough_$p.err); rc=$?
  e=$(date +%s)
  echo "$p rc=$rc wall=$((e-s))s $(echo "$out" | grep -c VIOLATION) violations; $(tail -1 /tmp/thorough_$p.err)" >> $LOG
done
echo done >> $LOG
