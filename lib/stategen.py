"""Generators for component-level operation scripts (framer, squelch, assembler)
and receiver-level audio scenarios; shared by the stateful properties."""
import samegen
from vlib import hx

PRE = b"\xab"


def flip1(rng, c):
    return c ^ (1 << rng.below(8))


# ---------------------------------------------------------------- framer
FR_ALPHABET = {
    "P": 0xAB, "Z": 0x5A, "C": 0x43, "N": 0x4E, "D": 0x2D, "v": 0x41, "w": 0x57, "x": 0x00, "y": 0xD7,
    "z": 0x5B, "c": 0x42, "n": 0x4F, "s": 0x20,
}


def framer_random_script(rng, maxlen=400):
    """A mostly-valid byte stream: restart, some preamble, prefix (maybe damaged), payload, invalids."""
    toks = []
    nb = rng.range(1, 4)
    for _ in range(nb):
        k = rng.below(10)
        first = True
        def emit(b):
            nonlocal first
            toks.append(("r" if first else "b") + "%02x" % b)
            first = False
        for _ in range(rng.choice([0, 1, 4, 4, 8, 16, 20, 22, 30])):
            emit(0xAB if rng.chance(9, 10) else rng.below(256))
        prefix = bytearray(rng.choice([b"ZCZC", b"NNNN", b"ZCZC", b"ZCZK", b"NNN", b"CZCZ"]))
        for _ in range(rng.choice([0, 0, 0, 1, 2, 3, 4])):
            i = rng.below(len(prefix)); prefix[i] = flip1(rng, prefix[i])
        for b in prefix:
            emit(b)
        if k < 7:
            body = samegen.gen_header(rng)[4:] if rng.chance(1, 2) else bytes(rng.choice(samegen.ALLOWED) for _ in range(rng.range(0, maxlen)))
        else:
            body = rng.bytes(rng.range(0, 40))
        body = bytearray(body)
        for _ in range(rng.choice([0, 0, 1, 3, 8])):
            if body:
                body[rng.below(len(body))] = rng.choice([0x00, 0x80, 0xAB, 0xD7, 0x21, 0xFF])
        for b in body:
            emit(b)
        for _ in range(rng.choice([0, 3, 6, 8, 12])):
            emit(rng.choice([0x00, 0xFF, 0x80, 0x21, 0x41]))
        if rng.chance(1, 3):
            toks.append("e")
    return ",".join(toks)


def framer_exhaustive(depth, symbols="PZCNvxzy"):
    """All sequences over a reduced alphabet up to the depth, each started by a restart,
    with an end() appended; yields script strings."""
    import itertools
    vals = [FR_ALPHABET[s] for s in symbols]
    for d in range(1, depth + 1):
        for tup in itertools.product(vals, repeat=d):
            yield ",".join(["r%02x" % tup[0]] + ["b%02x" % b for b in tup[1:]] + ["e"])


# ---------------------------------------------------------------- squelch
def bits_of(bs):
    return [(b >> i) & 1 for b in bs for i in range(8)]


def squelch_random_script(rng):
    """bit stream: random lead-in bits, preamble (maybe damaged), data, with power flags."""
    out = []
    def sym(bit, po=True, pc=True):
        out.append(str(bit | (2 if po else 0) | (4 if (pc or po) else 0)))
    for _ in range(rng.range(0, 70)):
        sym(rng.below(2), rng.chance(2, 3), rng.chance(3, 4))
    for rep in range(rng.range(1, 3)):
        pre = bytearray(PRE * rng.choice([2, 4, 5, 8, 16]))
        for _ in range(rng.choice([0, 0, 1, 2, 3, 5])):
            i = rng.below(len(pre)); pre[i] = flip1(rng, pre[i])
        data = rng.choice([b"ZCZC-ABC", b"NNNN", b"WWW\xd7", bytes(rng.below(256) for _ in range(rng.range(0, 12)))])
        bits = bits_of(bytes(pre) + data)
        if rng.chance(1, 4):
            bits = bits[rng.below(8):]
        lock_at = rng.below(len(bits) + 1) if rng.chance(1, 2) else None
        for i, b in enumerate(bits):
            if lock_at == i:
                out.append("L")
            sym(b, not rng.chance(1, 40), not rng.chance(1, 60))
        k = rng.below(4)
        if k == 0:
            out.append("E")
        elif k == 1:
            for _ in range(rng.range(20, 50)):
                sym(rng.below(2), False, False)
        elif k == 2:
            sym(1)
    return "".join(out)


# ---------------------------------------------------------------- assembler
SYM_PER_SEC = 521


def asm_script_from_bursts(bursts, poll_every=None, tail=1500, start=1000, poll_all_from=None):
    """bursts: list of (gap_symbols_before, bytes). Builds a script with idle polling.
    Polling happens every `poll_every` symbols during gaps (1 = every tick)."""
    toks = []
    now = start
    for gap, data in bursts:
        end_gap = now + gap
        # link is NoCarrier during the gap until sync (16 preamble bytes before the data)
        busy = (16 + len(data)) * 8
        idle_until = end_gap
        step = poll_every or 1
        t = now + step
        while t <= idle_until:
            toks.append("i%d" % t)
            t += step
        now = end_gap + busy
        toks.append("a%d:%s" % (now, hx(data)))
    t = now + 1
    step = poll_every or 1
    while t <= now + tail:
        toks.append("i%d" % t)
        t += step
    return ",".join(toks)
