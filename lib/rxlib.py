"""Receiver-level scenarios: synthesized transmissions through the real receiver (harness `rxaudio`),
tick-trace replay through the extracted model (`rx`), event parsing and property oracles."""
import vlib, samegen
from vlib import hx

PRE16 = b"\xab" * 16
STD_RATES = [8000, 11025, 16000, 22050, 32000, 44100, 48000]


def burst_hex(data, preamble=PRE16):
    return hx(preamble + data)


class Tx:
    """One transmission: header H sent as up to three bursts + up to three NNNN bursts."""
    def __init__(self, rng, H=None, mask=0b111111, rate=22050, impaired=True, gap_ht=None, corrupt=None,
                 lead=None, tail=2.2, noise=True):
        self.H = H if H is not None else samegen.gen_header(rng)
        self.mask = mask
        self.rate = rate
        self.gaps = [0.95 + 0.1 * rng.below(1001) / 1000.0 for _ in range(6)]
        self.gap_ht = gap_ht if gap_ht is not None else rng.choice([1.0, 1.0, 2.5, 6.0, 12.0])
        self.corrupt = corrupt or {}          # burst index -> bytes to send instead
        self.lead = lead if lead is not None else 0.2 + rng.below(600) / 1000.0
        self.tail = tail
        if impaired:
            self.amp = rng.choice([300, 1000, 3000, 10000, 30000])
            self.dc = self.amp * (rng.below(1001) - 500) / 1000.0 * rng.choice([0, 0.2, 1.0]) * 0.5
            self.phase = rng.below(6283) / 1000.0
            self.frac = rng.below(1000) / 1000.0
            self.baud = (rng.below(1601) - 800) / 100000.0      # +/- 0.8 %
            self.snr = rng.choice([None, 30, 25, 22, 20]) if noise else None
        else:
            self.amp, self.dc, self.phase, self.frac, self.baud, self.snr = 10000, 0, 0, 0, 0, None
        self.seed = rng.below(1 << 31)

    def segments(self):
        segs = ["S%.3f" % self.lead]
        for i in range(6):
            data = self.corrupt.get(i, self.H if i < 3 else b"NNNN")
            present = (self.mask >> i) & 1
            dur = (16 + len(data)) * 8 / 520.83
            if present:
                segs.append("B" + burst_hex(data))
            else:
                segs.append("S%.3f" % dur)
            if i == 2:
                segs.append("S%.3f" % self.gap_ht)
            elif i < 5:
                segs.append("S%.3f" % self.gaps[i])
        segs.append("S%.3f" % self.tail)
        return segs

    def burst_end_samples(self):
        """end sample (count of samples up to and including the burst) of each present burst i in 0..5,
        replicating the synthesiser's rounding: segments = [lead, b0, g0, b1, g1, b2, g_ht, b3, g3, b4, g4, b5, tail]"""
        import math
        tsym = 1.0 / (520.83 * (1.0 + self.baud))
        pos, ends, i = 0, {}, 0
        for k, seg in enumerate(self.segments()):
            if seg[0] == "S":
                pos += int(round(float(seg[1:]) * self.rate))
            else:
                nbits = (len(seg) - 1) // 2 * 8
                pos += int(math.ceil(nbits * tsym * self.rate - self.frac - 1e-9))
            if k >= 1 and k % 2 == 1 and k <= 11:
                if seg[0] == "B":
                    ends[(k - 1) // 2] = pos
        return ends

    def line(self, extra="", script=None):
        p = "rxaudio rate=%d amp=%g dc=%g phase=%g frac=%g baud=%g seed=%d" % (
            self.rate, self.amp, self.dc, self.phase, self.frac, self.baud, self.seed)
        if self.snr is not None:
            p += " snr=%g" % self.snr
        return p + (" " + extra if extra else "") + " script=" + (script or ",".join(self.segments()))

    def describe(self):
        return {"header": self.H.decode("latin1"), "mask": format(self.mask, "06b")[::-1], "rate": self.rate, "amp": self.amp,
                "dc": round(self.dc, 1), "baud_err": self.baud, "snr": self.snr, "gap_ht": self.gap_ht,
                "gaps": [round(g, 3) for g in self.gaps], "seed": self.seed}


def parse_events(evs):
    """'Ls@123;LB5a..@456;TMsom:hex:par:vot@789' -> list of dicts"""
    out = []
    if evs in ("-", ""):
        return out
    for tok in evs.split(";"):
        body, _, tm = tok.rpartition("@")
        t = None if tm == "?" else int(tm)
        k = body[:2]
        e = {"raw": body, "t": t}
        if k == "LB":
            e.update(kind="burst", data=bytes.fromhex(body[2:]) if body[2:] != "-" else b"")
        elif k in ("Ln", "Ls", "Lr"):
            e.update(kind="link", state=k[1])
        elif k == "TM":
            if body[2:] == "eom":
                e.update(kind="eom")
            else:
                _, text, par, vot = body[2:].split(":")
                e.update(kind="som", text=bytes.fromhex(text), parity=int(par), voting=int(vot))
        elif k == "TE":
            e.update(kind="err", err=body[2:])
        else:
            e.update(kind="transport", state=body[1:])
        out.append(e)
    return out


def run_rx(lines, check_model=True):
    """Run rxaudio lines on the implementation; replay the recorded tick streams through the model.
    Returns list of dict(line, rxline, events_impl(str), events_model(str or None), extras(dict))."""
    impl = vlib.run_lines_parallel(vlib.IMPLRUN, lines)
    res = []
    rxlines = []
    for line, out in zip(lines, impl):
        parts = out.split("|")
        if len(parts) == 4:
            flush_items = parts[3]
            parts = parts[:3]
        else:
            flush_items = "-"
        if len(parts) != 3:
            res.append({"line": line, "error": out, "rxline": None, "impl": "", "model": None, "extras": {}})
            rxlines.append("utf8 -")
            continue
        extras = dict(kv.split("=", 1) for kv in parts[2].split(" ") if "=" in kv)
        res.append({"line": line, "rxline": parts[0], "impl": parts[1], "model": None, "extras": extras, "flush_items": flush_items})
        rxlines.append(parts[0])
    if check_model:
        model = vlib.run_lines_parallel(vlib.MODELRUN, rxlines)
        for r, m in zip(res, model):
            if r["rxline"] is not None:
                r["model"] = m
    return res


# ------------------------------------------------------------------ oracles (from the property texts)
def popcount(x):
    return bin(x).count("1")


def backed(text, bursts):
    """every byte of text is carried by >= 2 of the bursts (equal if two, bitwise majority if three)"""
    bursts = [b[:268] for b in bursts]
    for i, c in enumerate(text):
        col = [b[i] & 0x7F for b in bursts if i < len(b)]
        if len(col) < 2:
            return False
        if len(col) == 2:
            if not (col[0] == c and col[1] == c):
                return False
        else:
            a, b, d = col[:3]
            if ((a & b) | (b & d) | (a & d)) != c:
                return False
    return True


def nn_backed(bursts):
    """the run votes to an NN-prefixed estimate (fast EOM allowed from one burst)"""
    bursts = [b[:268] for b in bursts]
    est = []
    for i in range(2):
        col = [b[i] & 0x7F for b in bursts if i < len(b)]
        if not col:
            return False
        if len(col) == 1:
            est.append(col[0])
        elif len(col) == 2:
            est.append(col[0] if col[0] == col[1] else 0)
        else:
            a, b, d = col[:3]
            est.append((a & b) | (b & d) | (a & d))
    return est == [0x4E, 0x4E]


def oracle_justified(events, rate):
    """C04: returns a complaint or None"""
    bursts = []
    open_som_t = None
    for e in events:
        if e["kind"] == "burst":
            bursts.append(e["data"])
        elif e["kind"] == "som":
            ok = False
            for n in (2, 3):
                for j in range(0, len(bursts) - n + 1):
                    if backed(e["text"], bursts[j:j + n]):
                        ok = True
            if not ok:
                return "StartOfMessage %r is not backed by any run of <= 3 consecutive bursts reported before it" % e["text"][:60]
            open_som_t = e["t"]
        elif e["kind"] == "eom":
            ok = False
            for n in (1, 2, 3):
                for j in range(max(0, len(bursts) - 12), len(bursts) - n + 1):
                    if nn_backed(bursts[j:j + n]):
                        ok = True
            if not ok:
                if open_som_t is not None and e["t"] is not None and e["t"] > open_som_t + 135 * rate:
                    ok = True
            if not ok:
                return "EndOfMessage at %s justified neither by NN bursts nor by the 135 s timeout" % e["t"]
            open_som_t = None
    return None


LIFECYCLE = {("n", "s"), ("s", "r"), ("s", "n"), ("r", "B"), ("B", "n")}


def oracle_stream(events, nsamples=None):
    """C13 (single pass part): timestamps never decrease, stay within the input, lifecycle automaton.
    Returns (complaint or None, list of known-finding edges seen)."""
    last = 0
    state = "n"
    known = []
    for e in events:
        if e["t"] is None:
            continue
        if e["t"] < last:
            return "timestamps decrease: %d after %d" % (e["t"], last), known
        last = e["t"]
        if nsamples is not None and e["t"] > nsamples:
            return "timestamp %d beyond the %d samples supplied" % (e["t"], nsamples), known
        if e["kind"] in ("burst", "link"):
            new = "B" if e["kind"] == "burst" else e["state"]
            if (state, new) not in LIFECYCLE:
                if (state, new) == ("B", "s"):
                    known.append(e["t"])
                else:
                    return "link event %s after %s violates the carrier lifecycle (at %d)" % (new, state, e["t"]), known
            state = new
    return None, known


F9_MARK = "KNOWN-F9:"


def f9_signature(text, H):
    """Known finding F9, decided on the transmitted header and the failure signature: the callsign is shorter than eight
    characters and the reported text is the transmitted header followed by at most (8 - callsign length) allowed characters,
    the last of which is '-' (what the bursts carried AFTER the header voted to '<chars>-', and the greedy 3..8 character
    callsign of the header grammar swallowed it)."""
    if not text.startswith(H) or len(text) == len(H):
        return False
    ext = text[len(H):]
    call = H[:-1].split(b"-")[-1]
    return (len(call) < 8 and len(ext) <= 8 - len(call) and ext.endswith(b"-")
            and all(samegen.is_allowed(c) for c in ext) and b"\n" not in ext)


def is_f9(complaint):
    return bool(complaint) and complaint.startswith(F9_MARK)


def oracle_exact(events, H, want_som=True, want_eom=True):
    """C01/C02: exactly one SOM with text H (if wanted), then exactly one EOM (if wanted); nothing else"""
    soms = [e for e in events if e["kind"] == "som"]
    eoms = [e for e in events if e["kind"] == "eom"]
    errs = [e for e in events if e["kind"] == "err"]
    if want_som:
        if len(soms) == 2 and f9_signature(soms[0]["text"], H) and soms[1]["text"] == H and len(eoms) == (1 if want_eom else 0):
            return F9_MARK + " the header was first reported extended by %r and then again with the exact text" % soms[0]["text"][len(H):].decode("latin1")
        if len(soms) != 1:
            return "%d StartOfMessage reported, expected exactly 1" % len(soms)
        if soms[0]["text"] != H:
            if f9_signature(soms[0]["text"], H):
                return F9_MARK + " the reported text is the transmitted header followed by %r" % soms[0]["text"][len(H):].decode("latin1")
            return "StartOfMessage text differs from the transmitted header"
    elif soms:
        return "a StartOfMessage was reported although fewer than two header bursts were sent"
    if want_eom:
        if len(eoms) != 1:
            return "%d EndOfMessage reported, expected exactly 1" % len(eoms)
        if want_som and soms and eoms[0]["t"] < soms[0]["t"]:
            return "EndOfMessage before StartOfMessage"
    elif eoms:
        return "an EndOfMessage was reported although it should not be"
    return None


# ------------------------------------------------------------------ scenario mix
def near_miss_script(rng, rate):
    """Audio that must NOT produce a StartOfMessage: see C04's list."""
    H = samegen.gen_header(rng)
    k = rng.below(9)
    if k == 0:
        return "single-header-burst", "S0.3,B%s,S3" % burst_hex(H)
    if k == 1:
        H2 = samegen.gen_header(rng)
        return "two-different-headers", "S0.3,B%s,S1,B%s,S3" % (burst_hex(H), burst_hex(H2))
    if k == 2:
        bad = bytearray(b"ZCZC")
        flipped = set()
        while len(flipped) < 3 + rng.below(3):          # DISTINCT bits (two flips of one bit would restore the prefix)
            flipped.add((rng.below(4), rng.below(7)))
        for i, b in flipped:
            bad[i] ^= 1 << b
        if rng.chance(1, 2):
            return "prefix-3+-bit-errors", "S0.3," + ",".join("B%s,S1" % burst_hex(bytes(bad) + H[4:]) for _ in range(3)) + ",S2"
        # each burst with its OWN three or four wrong prefix bits: no burst is a SAME burst, although a vote over them would be
        bursts = []
        for _ in range(3):
            b = bytearray(b"ZCZC"); fl = set()
            while len(fl) < 3 + rng.below(2):
                fl.add((rng.below(4), rng.below(7)))
            for i, bit in fl:
                b[i] ^= 1 << bit
            bursts.append(bytes(b) + H[4:])
        return "prefix-3+-bit-errors-each-different", "S0.3," + ",".join("B%s,S1" % burst_hex(x) for x in bursts) + ",S2"
    if k == 3:
        return "preamble-only", "S0.3," + ",".join("B%s,S1" % hx(b"\xab" * rng.range(16, 60)) for _ in range(3)) + ",S2"
    if k == 4:
        return "random-data-fsk", "S0.3,B%s,S1,B%s,S2" % (hx(rng.bytes(rng.range(40, 200))), hx(rng.bytes(rng.range(40, 200))))
    if k == 5:
        return "noise", "N%.2f:%d,S0.5,N1.5:%d" % (1 + rng.below(20) / 10.0, rng.choice([10, 1000, 30000]), rng.choice([100, 20000]))
    if k == 6:
        return "tones", "T1.5:%d:%d,T1.0:%d:8000,Q1.0:%d:%d,S1" % (rng.choice([1562, 2083, 1000, 520]), rng.choice([500, 20000]), rng.choice([1822, 2083]), rng.choice([1000, 30000]), rng.choice([300, 520, 1041]))
    if k == 7:
        # no preamble: data bursts start directly with the header
        return "preamble-less", "S0.3," + ",".join("B%s,S1" % hx(H) for _ in range(3)) + ",S2"
    d = samegen.flip_bits(rng, H, 40)
    return "header-vs-heavily-corrupted", "S0.3,B%s,S1,B%s,S3" % (burst_hex(H), burst_hex(d))


def near_miss_line(rng):
    rate = rng.choice(STD_RATES)
    kind, script = near_miss_script(rng, rate)
    tx = Tx(rng, rate=rate)
    return kind, tx, tx.line(script=script)


def run_f9_witness(ctx, pid):
    """replay the stored witness of known finding F9 on the implementation; the KNOWN-FINDING line is printed only if the
    witness still reproduces (text = transmitted header + a few characters ending in '-')"""
    kd = [k for k in vlib.load_known_findings(pid) if k.get("class") == "F9" and k.get("kind") == "known"]
    if not kd:
        return None
    r = run_rx([kd[0]["witness_input"]], check_model=True)[0]
    if r.get("error"):
        return False
    if r["model"] != r["impl"]:
        ctx.violation("correspondence", "receiver model replay differs from the implementation on the F9 witness",
                      {"input": kd[0]["witness_input"], "model": (r["model"] or "")[:1500], "impl": r["impl"][:1500]})
    # the two combine-level witnesses of coq/Properties/C01.v (C01_F9_refuted, C01_F9_old_burst_refuted) on model and implementation
    h9 = b"ZCZC-PEP-ADR-294557-697563+8629-0401342-MFZ-"
    old = b"ZCZC-PEP-SVR-168713-654046+8638-0972056-S6FYGVNS-"
    w9 = b"ZCZC-Eqd-NIC-558931+2204-2221024-NWU-"
    wl = ["combine %s %s %s" % (hx(h9 + bytes([205, 156])), hx(h9 + bytes([42, 165])), hx(h9 + bytes([192, 235]))),
          "combine %s %s %s" % (hx(old), hx(w9 + b"\xff\xff\xff"), hx(w9 + b"\x00\x00\x00"))]
    mo = vlib.run_lines(vlib.MODELRUN, wl); im = vlib.run_lines(vlib.IMPLRUN, wl)
    for a, b_, l_ in zip(mo, im, wl):
        if a != b_:
            ctx.violation("correspondence", "combine: model and implementation differ on an F9 witness", {"input": l_, "model": a, "impl": b_})
    ctx.coverage["known_finding_F9_combine_witnesses"] = [x[:120] for x in im]
    H = kd[0]["witness_header"].encode("latin1")
    soms = [e for e in parse_events(r["impl"]) if e["kind"] == "som"]
    hit = len(soms) == 1 and f9_signature(soms[0]["text"], H)
    if hit and kd[0]["line"] not in ctx.known:
        ctx.known.append(kd[0]["line"])
    return hit


def reset_reuse(ctx, rng, n, keep, strip_time, what):
    """Using one receiver across a reset(): a transmission cut at a chosen point -- in the middle of the data of a burst, a few
    symbols before a burst ends, in the preamble, in the hold period after the last header burst, between bursts -- then reset(),
    then the rest of the audio, which contains a complete second transmission; compared with a newly built receiver on the same
    rest.  Only the events this property is about are compared (`keep`), with or without their timestamps."""
    import samegen
    behav = []
    for j in range(n):
        rate = rng.choice(STD_RATES)
        tx = Tx(rng, rate=rate, gap_ht=rng.choice([1.0, 2.5]), H=samegen.gen_header(rng, nloc=rng.choice([1, 2, 5])), tail=1.6, impaired=False)
        follow = Tx(rng, rate=rate, gap_ht=1.0, H=samegen.gen_header(rng, nloc=1), tail=1.6, lead=rng.choice([0.05, 0.3]), impaired=False)
        follow.amp, follow.dc, follow.phase, follow.frac, follow.baud, follow.snr = tx.amp, tx.dc, tx.phase, tx.frac, tx.baud, tx.snr
        script = ",".join(tx.segments() + follow.segments())
        ends = tx.burst_end_samples()
        sym = rate / 520.83
        pts = []
        for i, e in ends.items():
            nbytes = len(tx.H) if i < 3 else 4
            pts += [int(e - nbytes * 4 * sym), int(e - 3 * sym), int(e - (nbytes + 8) * 8 * sym), int(e + 0.5 * rate)]
        pts.append(int(ends[max(k for k in ends if k < 3)] + 0.9 * rate))
        rng2 = rng.fork("pts%d" % j)
        for k in [pts[rng2.below(len(pts))] for _ in range(6)] + [int(ends[0] - len(tx.H) * 4 * sym), int(ends[2] - 3 * sym)]:
            k = max(0, k)
            base = tx.line(script=script)
            behav.append(({"rate": rate, "reset_at": k}, base + " reset_at=%d" % k, base + " skip=%d" % k))
    lines = []
    for _, a, b in behav:
        lines += [a, b]
    res = run_rx(lines, check_model=False)
    ok = 0
    proj = lambda s: [(t.split("@")[0] if strip_time else t) for t in s.split(";") if keep(t)]
    for i, (desc, a, b) in enumerate(behav):
        ra, rb = res[2 * i], res[2 * i + 1]
        if ra.get("error") or rb.get("error"):
            ctx.violation("harness-failure", (ra.get("error") or rb.get("error"))[:200], {"input": a}); continue
        pa, pb = proj(ra["impl"]), proj(rb["impl"])
        if pa != pb:
            ctx.violation("property", "a receiver reused after reset() reports different %s than a newly built one on the same audio: %s vs %s [%s]"
                          % (what, [x[:40] for x in pa][:6], [x[:40] for x in pb][:6], desc),
                          {"input": a, "fresh_input": b, "reset_events": ra["impl"][:1500], "fresh_events": rb["impl"][:1500]})
        else:
            ok += 1
    return ok


# ---- known finding F11: junk run after a burst at low amplitude ---------------------------------------------------------
def f11_class(tx):
    """input class of F11, decided on the transmission's parameters only: additive noise, amplitude <= 300 (of 32767), rate <= 16 kHz"""
    return tx.snr is not None and tx.amp <= 300 and tx.rate <= 16000


def f11_shape(ev, datas):
    """failure shape of F11: some reported burst begins with one of the transmitted bursts' data and goes on for >= 40 further bytes"""
    for e in ev:
        if e["kind"] != "burst":
            continue
        for d in datas:
            if e["data"][:len(d)] == d and len(e["data"]) >= len(d) + 40:
                return True
    return False


def f11_known(ctx, pid, tx, ev, datas):
    """True (and the KNOWN-FINDING line queued) when a failing case falls into F11 and F11 is listed for this property"""
    if not (f11_class(tx) and f11_shape(ev, datas)):
        return False
    kd = [k for k in vlib.load_known_findings(pid) if k.get("class") == "F11" and k.get("kind") == "known"]
    if not kd:
        return False
    if kd[0]["line"] not in ctx.known:
        ctx.known.append(kd[0]["line"])
    return True


def run_f11_witness(ctx, pid):
    """replay the stored witness of F11 (a lone trailer burst at amplitude 300, 20 dB, 11025 Hz, then silence): the burst must still
    run on to the framer's limit for the KNOWN-FINDING line to be justified; returns whether it reproduces"""
    kd = [k for k in vlib.load_known_findings(pid) if k.get("class") == "F11" and k.get("kind") == "known"]
    if not kd:
        return None
    r = run_rx([kd[0]["witness_input"]], check_model=True)[0]
    if r.get("error"):
        return False
    if r["model"] != r["impl"]:
        ctx.violation("correspondence", "receiver model replay differs from the implementation on the F11 witness",
                      {"input": kd[0]["witness_input"], "model": (r["model"] or "")[:1500], "impl": r["impl"][:1500]})
    hit = f11_shape(parse_events(r["impl"]), [b"NNNN"])
    if hit and kd[0]["line"] not in ctx.known:
        ctx.known.append(kd[0]["line"])
    return hit
