"""Oracles for assembler-level scenarios (C02, C05, C08), from the property texts."""
import asmlib
from asmlib import HOLD, WINDOW, rep_kind, rep_text


def check_c02(sc, rep):
    e = sc.expect
    soms = [r for r in rep if rep_kind(r[1]) == "som"]
    eoms = [r for r in rep if r[1] == "eom"]
    if "som" in e:
        n, H = e["som"]
        if n == 1:
            if len(soms) != 1:
                return "%d StartOfMessage reported for a transmission with >= 2 intact header bursts (expected exactly 1)" % len(soms)
            if rep_text(soms[0][1]) != H:
                return "StartOfMessage text differs from the transmitted header"
        elif soms:
            return "a StartOfMessage was reported from fewer than two header bursts"
    if e.get("eom") == 1 and len(eoms) != 1:
        return "%d EndOfMessage reported (expected exactly 1)" % len(eoms)
    if e.get("eom") == 0 and eoms:
        return "an EndOfMessage was reported although no trailer burst was sent"
    if "max_eom" in e and len(eoms) > e["max_eom"]:
        return "%d EndOfMessage reported for one trailer" % len(eoms)
    return None


def check_c05(sc, rep):
    e = sc.expect
    msgs = [(t, rep_kind(r), rep_text(r)) for (t, r) in rep if rep_kind(r) != "err"]
    if "order" in e:
        want = e["order"]
        got = [(k, x) for (_, k, x) in msgs]
        # every wanted message once, in order; nothing twice
        it = iter(got)
        for w in want:
            if not any(g == w for g in it):
                return "messages not reported once each in the order transmitted: wanted %s, got %s" % (
                    [(k, (x or b"")[:12]) for k, x in want], [(k, (x or b"")[:12]) for k, x in got])
        if len(got) != len(set(got)) and len(got) > len(want):
            return "a message of one transmission was reported more than once: %s" % [(k, (x or b"")[:12]) for k, x in got]
    if "repeat" in e:
        what, text, D = e["repeat"]
        same = [m for m in msgs if m[1] == what and m[2] == text]
        first_report = same[0][0] if same else None
        if not same:
            return "the message was never reported"
        # the repeat's bursts: R2
        r2 = [end for (end, b) in sc.ends if b.kind == "R2"]
        if r2[-1] < first_report + WINDOW - 30 and len(same) != 1:
            return "identical message heard again %0.2f s after the report was reported again (inside the %0.2f s window)" % (D, WINDOW / 520.83)
        if r2[0] - (16 + 4) * 8 > first_report + WINDOW + 30 and len(same) != 2:
            return "identical message transmitted again after the window (%0.1f s) was reported %d time(s), expected 2" % (D, len(same))
        if len(same) > 2:
            return "reported %d times" % len(same)
    if "max_eom" in e and sum(1 for m in msgs if m[1] == "eom") > e["max_eom"]:
        return "one trailer produced more than one EndOfMessage"
    if "som" in e and e["som"][0] == 1 and sum(1 for m in msgs if m[1] == "som") > 1:
        return "one transmission produced more than one StartOfMessage"
    return None


def check_c08(sc, rep):
    """EOM at once; SOM by last header burst end + hold when the channel is then quiet; nothing held forever"""
    ends = sc.ends
    for (t, r) in rep:
        if r == "eom":
            # the establishing burst ends at t exactly (assembler level)
            if t not in [e for (e, _) in ends]:
                return "EndOfMessage reported at %d, not at the end of a burst: it waited for idle polling" % t
        elif rep_kind(r) == "som":
            hdr_ends = [e for (e, b) in ends if b.data == rep_text(r) or b.kind.startswith("H")]
            prior = [e for e in hdr_ends if e <= t]
            if not prior:
                continue
            last = max(prior)
            nxt = [e - (16 + len(b.data + b.junk)) * 8 for (e, b) in ends if e > last]
            quiet = (not nxt) or min(nxt) > last + HOLD + 80
            if quiet and t > last + HOLD:
                return "StartOfMessage reported %d symbols after its last burst (hold is %d)" % (t - last, HOLD)
    if sc.family == "many-repeats" and sc.expect.get("som", (0,))[0] == 1:
        soms = [t for (t, r) in rep if rep_kind(r) == "som"]
        third = ends[min(2, len(ends) - 1)][0]
        if soms and soms[0] > third + 2 * HOLD:
            return "a pending StartOfMessage was held %d symbols beyond its third burst" % (soms[0] - third)
    return None
