#!/bin/sh
# usage: lib/seedtest.sh <patch.diff> <PID>...   applies a seeded change to /repo, runs the checks, restores /repo
patch="$1"; shift
rm -rf /tmp/evidence_saved && cp -r evidence /tmp/evidence_saved
git -C /repo apply "$(realpath "$patch")" || exit 2
for pid in "$@"; do
  out=$(./check "$pid" --tier quick 2>/tmp/seed_err.txt); rc=$?
  echo "[$pid] rc=$rc $(echo "$out" | grep -E 'VIOLATION' | head -2)"
  grep -E "^violation:|^tie broken:" /tmp/seed_err.txt | head -2
done
git -C /repo checkout -- .
python3 -c "import sys; sys.path.insert(0,'lib'); import vlib; vlib.build_harness(); vlib.build_samedec()" >/dev/null 2>&1
rm -rf evidence && cp -r /tmp/evidence_saved evidence
