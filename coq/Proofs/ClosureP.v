(** C09: every StartOfMessage is closed; no burst is read forever. *)
From Sameold Require Import Base.Bytes Model.Header Model.Combiner Model.Framer Model.Squelch
  Model.Assembler Model.Receiver Proofs.EvidenceP.
From Coq Require Import ZifyBool ZifyN ZifyNat.
Arguments N.add : simpl never.
Arguments N.mul : simpl never.
Arguments N.leb : simpl never.
Arguments N.ltb : simpl never.

(** * Bursts are bounded *)
Definition fr_bounded (f : fstate) : Prop :=
  match f with FDataRead msg _ => (4 <= length msg < MAX_BURST_LENGTH)%nat | _ => True end.
Definition link_bounded (l : link) : Prop :=
  match l with LBurst b => (4 <= length b <= MAX_BURST_LENGTH)%nat | _ => True end.

Lemma max_burst_gt4 : (4 < MAX_BURST_LENGTH)%nat.
Proof. apply Nat.ltb_lt. vm_compute. reflexivity. Qed.
Local Opaque MAX_BURST_LENGTH.

Lemma framer_end_bounded f l f' : fr_bounded f -> framer_end f = (l, f') -> fr_bounded f' /\ link_bounded l.
Proof.
  destruct f as [|w c|msg inv]; cbn [framer_end fr_bounded]; intros H E; inversion E; subst;
    cbn [fr_bounded link_bounded]; split; try exact I; lia.
Qed.

Lemma framer_step_bounded c f d l f' :
  (forall w cnt, f = FPrefixSearch w cnt -> length w = 4%nat) ->
  fr_bounded f -> framer_step c f d = (l, f') ->
  fr_bounded f' /\ link_bounded l /\ (forall w cnt, f' = FPrefixSearch w cnt -> length w = 4%nat).
Proof.
  intros Hw H. destruct f as [|w cnt|msg inv]; cbn [framer_step fr_bounded] in *.
  - intros E; inversion E; subst. repeat split; try exact I. intros; discriminate.
  - specialize (Hw w cnt eq_refl).
    assert (length (tl w ++ [d]) = 4%nat) as L4.
    { destruct w as [|a [|b [|c0 [|e [|]]]]]; try discriminate. reflexivity. }
    destruct (_ <=? _).
    + intros E; inversion E; subst. cbn [fr_bounded link_bounded framer_state]. pose proof max_burst_gt4.
      split; [lia|]. split; [exact I|]. intros; discriminate.
    + destruct (_ <? _); intros E; inversion E; subst; cbn [fr_bounded link_bounded framer_state]; repeat split; try exact I; try (intros; discriminate).
      intros w0 c0 Hx. inversion Hx; subst. exact L4.
  - destruct (_ <? _); cbn [framer_end].
    + intros E; inversion E; subst. cbn. repeat split; try exact I; try lia. intros; discriminate.
    + destruct (Nat.leb_spec MAX_BURST_LENGTH (length (msg ++ [d]))) as [Hm|Hm]; cbn [framer_end];
        intros E; inversion E; subst; cbn [fr_bounded link_bounded]; rewrite app_length in *; cbn [length] in *.
      * repeat split; try exact I; try lia. intros; discriminate.
      * repeat split; try exact I; try lia. intros; discriminate.
Qed.

Definition fr_shape (f : fstate) : Prop :=
  fr_bounded f /\ forall w cnt, f = FPrefixSearch w cnt -> length w = 4%nat.

Lemma framer_input_bounded c f d r l f' :
  fr_shape f -> framer_input c f d r = (l, f') -> fr_shape f' /\ link_bounded l.
Proof.
  intros [Hb Hw]. unfold framer_input. destruct r.
  - destruct (framer_step c (FPrefixSearch ZERO_WORD 0) d) as [l2 f2] eqn:E2.
    destruct (framer_end f) as [lo fo] eqn:Eo. cbn [fst snd]. intros E. injection E as El Ef. subst f'.
    destruct (framer_step_bounded c (FPrefixSearch ZERO_WORD 0) d l2 f2) as (A & _ & C);
      [intros w cnt Hx; inversion Hx; reflexivity|exact I|exact E2|].
    destruct (framer_end_bounded f lo fo Hb Eo) as [_ Hl]. split; [split; assumption|].
    subst l. destruct lo; try exact I. exact Hl.
  - intros E. destruct (framer_step_bounded c f d l f' Hw Hb E) as (A & B & C). split; [split; assumption|exact B].
Qed.

Lemma linklayer_symbol_bounded c s f t l s' f' u :
  fr_shape f -> linklayer_symbol c s f t = (l, s', f', u) -> fr_shape f' /\ link_bounded l.
Proof.
  intros H. unfold linklayer_symbol.
  destruct (sq_input (preamble_max_errors c) s (t_bit t) (t_popen t) (t_pclose t)) as [o s1].
  assert (forall lx fx, framer_end f = (lx, fx) -> fr_shape fx /\ link_bounded lx) as Hend.
  { intros lx fx Ee. destruct (framer_end_bounded f lx fx (proj1 H) Ee) as [A B]. split; [|exact B].
    split; [exact A|]. intros w cnt Hx. destruct f; cbn [framer_end] in Ee; inversion Ee; subst; discriminate. }
  destruct o as [| | |resync hb|].
  - destruct (framer_end f) as [lx fx] eqn:Ee. intros E; inversion E; subst. apply Hend. reflexivity.
  - destruct (framer_end f) as [lx fx] eqn:Ee. intros E; inversion E; subst. apply Hend. reflexivity.
  - intros E; inversion E; subst. split; [exact H|]. destruct f'; exact I.
  - destruct (framer_input (fc c) f (t_eq t) resync) as [lx fx] eqn:Ei. intros E; inversion E; subst.
    eapply framer_input_bounded; eassumption.
  - destruct (framer_end f) as [lx fx] eqn:Ee. intros E; inversion E; subst. apply Hend. reflexivity.
Qed.

Definition event_bounded (e : event) : Prop :=
  match ev_what e with WLink l => link_bounded l | _ => True end.

Theorem step_core_bursts_bounded c k i k' evs :
  fr_shape (r_fr k) -> step_core c k i = (k', evs) ->
  fr_shape (r_fr k') /\ Forall event_bounded evs.
Proof.
  intros H. unfold step_core. destruct i as [|t].
  - intros E; inversion E; subst. split; [exact H|constructor].
  - destruct (linklayer_symbol c (r_sq k) (r_fr k) t) as [[[l sq'] fr'] u] eqn:El.
    destruct (linklayer_symbol_bounded c _ _ t l sq' fr' u H El) as [Hf Hl].
    destruct (transportlayer c (r_asm k) l (sq_symcount sq') (r_samples k + 1) (r_force_eom k)) as [[ot asm'] force'].
    assert (Forall event_bounded (if negb (link_eqb l (r_link k)) then [mkEvent (WLink l) (r_samples k + 1)] else [])) as He1.
    { destruct (negb _); repeat constructor. exact Hl. }
    destruct ot as [t'|]; [destruct (transport_eqb t' (r_transport k))|]; intros E; inversion E; subst; cbn [r_fr];
      (split; [exact Hf|]); try exact He1.
    apply Forall_app. split; [exact He1|]. repeat constructor.
Qed.

Theorem run_core_bursts_bounded c : forall src k,
  fr_shape (r_fr k) -> Forall event_bounded (fst (run_core c k src)).
Proof.
  induction src as [|i src IH]; intros k H; cbn [run_core]; [constructor|].
  destruct (step_core c k i) as [k' evs] eqn:Es.
  destruct (step_core_bursts_bounded c k i k' evs H Es) as [H' He].
  specialize (IH k' H'). destruct (run_core c k' src) as [evs' kf]. cbn [fst] in *.
  apply Forall_app. split; assumption.
Qed.

Theorem every_burst_bounded c src : Forall event_bounded (fst (run_core c core_init src)).
Proof. apply run_core_bursts_bounded. split; [exact I|]. intros w cnt Hx; discriminate. Qed.

(** * The forced end-of-message timer *)
Definition is_som_event (e : event) : Prop :=
  match ev_what e with WTransport (TMessage (Ok (SOM _))) => True | _ => False end.
Definition eom_event (n : N) : event := mkEvent (WTransport (TMessage (Ok EOM))) n.

(** an armed timer means the last reported transport state is not already EndOfMessage *)
Definition timer_ok (k : core) : Prop :=
  forall tm, r_force_eom k = Some tm -> r_transport k <> TMessage (Ok EOM).

Lemma transport_eqb_eq a b : transport_eqb a b = true -> a = b.
Proof.
  destruct a as [| |[[x|]|ex]], b as [| |[[y|]|ey]]; cbn; try discriminate; try reflexivity.
  - unfold header_eqb. intros E. apply andb_prop in E. destruct E as [E E4]. apply andb_prop in E. destruct E as [E E3].
    apply andb_prop in E. destruct E as [E1 E2]. apply list_eqb_eq in E1. destruct x, y; cbn in *.
    apply Nat.eqb_eq in E2. apply N.eqb_eq in E3, E4. subst. reflexivity.
  - destruct ex, ey; cbn; try discriminate; reflexivity.
Qed.

Lemma transport_out c a l sc n force ot a' force' :
  transportlayer c a l sc n force = (ot, a', force') ->
  force' = match ot with
           | Some (TMessage (Ok (SOM _))) => Some (n + MAX_MESSAGE_DURATION_SECS * input_rate c)
           | Some (TMessage (Ok EOM)) => None
           | _ => force end
  /\ ((forall b, l <> LBurst b) -> forall tm, force = Some tm -> tm < n -> ot = Some (TMessage (Ok EOM))).
Proof.
  unfold transportlayer.
  set (r := match l with LBurst b => _ | _ => _ end). destruct r as [ot0 a0] eqn:Er.
  intros E; inversion E; subst. split; [reflexivity|].
  intros Hnb tm Hf Hlt. unfold r in Er. rewrite Hf in Er.
  assert ((tm <? n) = true) as Ht by lia. rewrite Ht in Er.
  destruct l; try (inversion Er; reflexivity). exfalso. eapply Hnb; reflexivity.
Qed.

Theorem step_core_timer c k i k' evs :
  timer_ok k -> step_core c k i = (k', evs) ->
  timer_ok k'
  (* a StartOfMessage event arms the timer 135 s ahead of its own timestamp *)
  /\ (forall e, In e evs -> is_som_event e ->
        (exists e', In e' evs /\ e' = eom_event (ev_time e) /\ False) \/
        r_force_eom k' = Some (ev_time e + MAX_MESSAGE_DURATION_SECS * input_rate c))
  (* an armed, elapsed timer fires on any symbol that does not itself deliver a burst *)
  /\ (forall t tm, i = Tick t -> r_force_eom k = Some tm -> tm < r_samples k + 1 ->
        (forall b, fst (fst (fst (linklayer_symbol c (r_sq k) (r_fr k) t))) <> LBurst b) ->
        In (eom_event (r_samples k + 1)) evs /\ r_force_eom k' = None)
  (* otherwise the timer stays as it is unless a message is output *)
  /\ (forall tm, r_force_eom k = Some tm ->
        r_force_eom k' = Some tm \/ r_force_eom k' = None
        \/ r_force_eom k' = Some (r_samples k + 1 + MAX_MESSAGE_DURATION_SECS * input_rate c)).
Proof.
  intros Hto. unfold step_core. destruct i as [|t].
  - intros E; inversion E; subst. unfold timer_ok; cbn [r_force_eom r_transport]. split; [exact Hto|]. split; [intros e []|].
    split; [intros t tm Hx; discriminate|]. intros tm Hf. left. exact Hf.
  - destruct (linklayer_symbol c (r_sq k) (r_fr k) t) as [[[l sq'] fr'] u] eqn:El. cbn [fst].
    set (n := r_samples k + 1).
    destruct (transportlayer c (r_asm k) l (sq_symcount sq') n (r_force_eom k)) as [[ot asm'] force'] eqn:Et.
    destruct (transport_out _ _ _ _ _ _ _ _ _ Et) as [Hforce Hfire].
    set (e1 := if negb (link_eqb l (r_link k)) then [mkEvent (WLink l) n] else []).
    assert (forall e, In e e1 -> ~ is_som_event e) as He1.
    { intros e He. unfold e1 in He. destruct (negb _); [|destruct He]. destruct He as [<-|[]]. cbn. exact (fun x => x). }
    destruct ot as [t'|].
    + destruct (transport_eqb t' (r_transport k)) eqn:Eq.
      * apply transport_eqb_eq in Eq. subst t'. intros E; inversion E; subst evs k'. unfold timer_ok; cbn [r_force_eom r_transport].
        split.
        { intros tm Hf Hc. rewrite Hforce, Hc in Hf. discriminate. }
        split; [intros e He Hs; exfalso; exact (He1 e He Hs)|]. split.
        { intros t0 tm Ht Hf Hlt Hnb. inversion Ht; subst t0. rewrite El in Hnb. cbn [fst] in Hnb. specialize (Hfire Hnb tm Hf Hlt). inversion Hfire as [Hx].
          exfalso. apply (Hto tm Hf). exact Hx. }
        intros tm Hf. rewrite Hforce. destruct (r_transport k) as [| |[[h|]|er]]; auto.
      * intros E; inversion E; subst evs k'. unfold timer_ok; unfold timer_ok; cbn [r_force_eom r_transport]. split.
        { intros tm Hf. rewrite Hforce in Hf. destruct t' as [| |[[h|]|er]]; try discriminate; intros Hc; discriminate. }
        split.
        { intros e He Hs. apply in_app_or in He. destruct He as [He|[<-|[]]]; [exfalso; exact (He1 e He Hs)|].
          right. cbn in Hs. destruct t' as [| |[[h|]|er]]; try contradiction. rewrite Hforce. reflexivity. }
        split.
        { intros t0 tm Ht Hf Hlt Hnb. inversion Ht; subst t0. rewrite El in Hnb. cbn [fst] in Hnb. specialize (Hfire Hnb tm Hf Hlt). inversion Hfire; subst t'.
          split; [apply in_or_app; right; left; reflexivity|]. rewrite Hforce. reflexivity. }
        intros tm Hf. rewrite Hforce. destruct t' as [| |[[h|]|er]]; auto.
    + intros E; inversion E; subst evs k'. unfold timer_ok; unfold timer_ok; cbn [r_force_eom r_transport]. rewrite Hforce. split; [exact Hto|].
      split; [intros e He Hs; exfalso; exact (He1 e He Hs)|]. split.
      { intros t0 tm Ht Hf Hlt Hnb. inversion Ht; subst t0. rewrite El in Hnb. cbn [fst] in Hnb. specialize (Hfire Hnb tm Hf Hlt). discriminate. }
      intros tm Hf. left. exact Hf.
Qed.

(** two consecutive symbols never both deliver a burst, so an elapsed timer fires within two symbols *)
Theorem no_two_burst_ticks c s f t l s' f' u t2 :
  max_prefix_bit_errors (fc c) <= 7 -> fr_ok f ->
  linklayer_symbol c s f t = (l, s', f', u) -> (exists b, l = LBurst b) ->
  forall b2, fst (fst (fst (linklayer_symbol c s' f' t2))) <> LBurst b2.
Proof.
  intros Hb Hf E (b & ->) b2.
  destruct (linklayer_symbol_ok c s f t _ s' f' u Hb Hf E) as (Hf' & Hbl & _ & _).
  destruct (Hbl b eq_refl) as [_ Hnr].
  destruct (linklayer_symbol c s' f' t2) as [[[l2 s2] f2] u2] eqn:E2. cbn [fst].
  destruct (linklayer_symbol_ok c s' f' t2 l2 s2 f2 u2 Hb Hf' E2) as (_ & _ & Hnb & _).
  apply Hnb, Hnr.
Qed.
