(** C11 (input half): the samples samedec decodes do not depend on how the operating system cuts
    the byte stream into reads — pipe, socket or file, odd-sized chunks or not. *)
From Sameold Require Import Base.Bytes Model.Input.
From Coq Require Import Lia.
Local Open Scope N_scope.

Definition bytes_left (r : reader) : list N := rd_buf r ++ concat (rd_src r).
Definition chunks_ok (r : reader) : Prop := Forall (fun c => c <> []) (rd_src r).

Lemma next_byte_spec r : chunks_ok r ->
  match bytes_left r with
  | [] => next_byte r = None /\ bytes_left (fill r) = []
  | b :: rest => exists r', next_byte r = Some (b, r') /\ bytes_left r' = rest /\ chunks_ok r'
  end.
Proof.
  destruct r as [buf src]. unfold chunks_ok, bytes_left, next_byte, fill. cbn [rd_buf rd_src]. intros Hc.
  destruct buf as [|b buf]; cbn [app].
  - destruct src as [|c src]; cbn [concat rd_buf rd_src app].
    + split; reflexivity.
    + inversion Hc as [|? ? Hne Hc']; subst. destruct c as [|b c]; [contradiction|].
      cbn [app]. eexists. split; [reflexivity|]. split; [reflexivity|exact Hc'].
  - eexists. split; [reflexivity|]. split; [reflexivity|exact Hc].
Qed.

Lemma next_sample_spec r : chunks_ok r ->
  match bytes_left r with
  | b0 :: b1 :: rest => exists r', next_sample r = (Some (i16_of b0 b1), r') /\ bytes_left r' = rest /\ chunks_ok r'
  | _ => exists r', next_sample r = (None, r') /\ bytes_left r' = [] /\ chunks_ok r'
  end.
Proof.
  intros Hc. pose proof (next_byte_spec r Hc) as H0. unfold next_sample.
  assert (forall q, chunks_ok q -> chunks_ok (fill q)) as Hfill.
  { intros [buf src] Hq. unfold fill, chunks_ok in *. cbn [rd_buf rd_src] in *.
    destruct buf; [|exact Hq]. destruct src as [|c src]; [exact Hq|]. inversion Hq; assumption. }
  destruct (bytes_left r) as [|b0 bs] eqn:E.
  - destruct H0 as [-> Hl]. eexists. split; [reflexivity|]. split; [exact Hl|apply Hfill, Hc].
  - destruct H0 as (r1 & -> & Hl1 & Hc1).
    pose proof (next_byte_spec r1 Hc1) as H1. rewrite Hl1 in H1.
    destruct bs as [|b1 rest].
    + destruct H1 as [-> Hl]. eexists. split; [reflexivity|]. split; [exact Hl|apply Hfill, Hc1].
    + destruct H1 as (r2 & -> & Hl2 & Hc2). eexists. split; [reflexivity|]. split; [exact Hl2|exact Hc2].
Qed.

(** the iterator yields exactly the samples of the byte stream as a whole, whatever the chunking *)
Theorem samples_independent_of_chunking : forall fuel r,
  chunks_ok r -> all_samples fuel r = samples_of_bytes fuel (bytes_left r).
Proof.
  induction fuel as [|f IH]; intros r Hc; [reflexivity|]. cbn [all_samples samples_of_bytes].
  pose proof (next_sample_spec r Hc) as H. destruct (bytes_left r) as [|b0 [|b1 rest]].
  - destruct H as (r' & -> & _). reflexivity.
  - destruct H as (r' & -> & _). reflexivity.
  - destruct H as (r' & -> & Hl & Hc'). rewrite (IH r' Hc'), Hl. reflexivity.
Qed.

Corollary two_chunkings_same_samples fuel chunks1 chunks2 :
  Forall (fun c => c <> []) chunks1 -> Forall (fun c => c <> []) chunks2 -> concat chunks1 = concat chunks2 ->
  all_samples fuel (mkReader [] chunks1) = all_samples fuel (mkReader [] chunks2).
Proof.
  intros H1 H2 E. rewrite !samples_independent_of_chunking by assumption.
  unfold bytes_left. cbn [rd_buf rd_src app]. rewrite E. reflexivity.
Qed.

(** once the iterator has returned None it keeps returning None: end of input is final *)
Theorem end_of_input_is_final r r' :
  chunks_ok r -> next_sample r = (None, r') -> exists r'', next_sample r' = (None, r'').
Proof.
  intros Hc E. pose proof (next_sample_spec r Hc) as H.
  assert (bytes_left r' = [] /\ chunks_ok r') as [Hl Hc'].
  { destruct (bytes_left r) as [|b0 [|b1 rest]]; destruct H as (q & Hq & A & B); rewrite Hq in E; inversion E; subst; auto. }
  pose proof (next_sample_spec r' Hc') as H'. rewrite Hl in H'. destruct H' as (q & Hq & _). exists q. exact Hq.
Qed.

(** a lone last byte is dropped, not joined with anything *)
Example odd_trailing_byte_ignored :
  all_samples 10 (mkReader [] [[1; 2; 3]; [4; 5]]) = [i16_of 1 2; i16_of 3 4].
Proof. reflexivity. Qed.
