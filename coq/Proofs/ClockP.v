(** The assembler inside the receiver: for EVERY item stream the receiver drives its assembler with a
    history whose clock (the squelch's symbol counter) never runs backwards, and the assembler state
    the receiver holds is exactly the assembler run over that history.  Hence every theorem of
    AssemblerP stated "for every history with a monotone clock" (C05: no double report inside the
    window; C08: the hold is bounded by the last burst) holds for the whole discrete receiver and
    all audio. *)
From Sameold Require Import Base.Bytes Model.Header Model.Combiner Model.Framer Model.Squelch
  Model.Assembler Model.Receiver Proofs.AssemblerP Proofs.ShiftP.
From Coq Require Import ZifyBool ZifyN ZifyNat.
Arguments N.add : simpl never.
Arguments N.leb : simpl never.
Arguments N.ltb : simpl never.
Local Open Scope N_scope.

(** the assembler call, if any, the receiver makes while processing one item *)
Definition asm_call (c : rcfg) (k : core) (i : item) : option aop :=
  match i with
  | NoTick => None
  | Tick t =>
    let '(l, sq', _, _) := linklayer_symbol c (r_sq k) (r_fr k) t in
    match l with
    | LBurst b => Some (OBurst b (sq_symcount sq'))
    | LNoCarrier =>
      if (match r_force_eom k with Some tm => tm <? r_samples k + 1 | None => false end) then None
      else Some (OIdle (sq_symcount sq'))
    | _ => None
    end
  end.

Definition opt_list {A} (o : option A) : list A := match o with Some x => [x] | None => [] end.

Fixpoint asm_calls (c : rcfg) (k : core) (src : list item) : list aop :=
  match src with
  | [] => []
  | i :: r => opt_list (asm_call c k i) ++ asm_calls c (fst (step_core c k i)) r
  end.

Lemma step_asm c k i :
  r_asm (fst (step_core c k i)) = snd (asm_run (r_asm k) (opt_list (asm_call c k i)))
  /\ sq_symcount (r_sq k) <= sq_symcount (r_sq (fst (step_core c k i)))
  /\ (forall o, asm_call c k i = Some o -> sq_symcount (r_sq k) <= op_time o /\ op_time o = sq_symcount (r_sq (fst (step_core c k i)))).
Proof.
  unfold step_core, asm_call. destruct i as [|t]; [cbn [fst opt_list asm_run snd r_asm r_sq]; split; [reflexivity|split; [lia|intros o0 H0; discriminate]]|].
  destruct (linklayer_symbol c (r_sq k) (r_fr k) t) as [[[l sq'] fr'] u] eqn:El.
  pose proof (linklayer_symcount _ _ _ _ _ _ _ _ El) as Hs.
  unfold transportlayer.
  destruct l as [| | |b].
  - destruct (match r_force_eom k with Some tm => tm <? r_samples k + 1 | None => false end).
    + destruct (transport_eqb (TMessage (Ok EOM)) (r_transport k)); cbn [fst snd opt_list asm_run r_asm r_sq]; (split; [reflexivity|]); (split; [lia|]); intros o0 H0; discriminate.
    + cbn [opt_list asm_run asm_op]. destruct (asm_idle (r_asm k) (sq_symcount sq')) as [t0 a0].
      destruct (transport_eqb t0 (r_transport k)); cbn [fst snd r_asm r_sq]; (split; [reflexivity|]); (split; [lia|]);
        intros o0 H0; inversion H0; subst; cbn [op_time]; lia.
  - destruct (match r_force_eom k with Some tm => tm <? r_samples k + 1 | None => false end);
      [destruct (transport_eqb (TMessage (Ok EOM)) (r_transport k))|]; cbn [fst snd opt_list asm_run r_asm r_sq]; (split; [reflexivity|]); (split; [lia|]); intros o0 H0; discriminate.
  - destruct (match r_force_eom k with Some tm => tm <? r_samples k + 1 | None => false end);
      [destruct (transport_eqb (TMessage (Ok EOM)) (r_transport k))|]; cbn [fst snd opt_list asm_run r_asm r_sq]; (split; [reflexivity|]); (split; [lia|]); intros o0 H0; discriminate.
  - cbn [opt_list asm_run asm_op]. destruct (asm_assemble (r_asm k) b (sq_symcount sq')) as [t0 a0].
    destruct (transport_eqb t0 (r_transport k)); cbn [fst snd r_asm r_sq]; (split; [reflexivity|]); (split; [lia|]);
      intros o0 H0; inversion H0; subst; cbn [op_time]; lia.
Qed.

(** the receiver's assembler state is the assembler run over the calls the receiver made *)
Theorem receiver_assembler_refines c : forall src k,
  r_asm (snd (run_core c k src)) = snd (asm_run (r_asm k) (asm_calls c k src)).
Proof.
  induction src as [|i src IH]; intros k; cbn [run_core asm_calls]; [reflexivity|].
  destruct (step_asm c k i) as (Ha & _ & _).
  rewrite asm_run_app. cbn [snd]. rewrite <- Ha.
  destruct (step_core c k i) as [k1 e1]. cbn [fst] in *. specialize (IH k1).
  destruct (run_core c k1 src) as [e2 kf]. cbn [snd] in *. exact IH.
Qed.

Lemma mono_weaken t0 t1 ops : t0 <= t1 -> mono t1 ops -> mono t0 ops.
Proof. intros H Hm. destruct ops as [|o r]; [exact I|]. destruct Hm as [H1 H2]. split; [lia|exact H2]. Qed.

(** ... and that history's clock never runs backwards *)
Theorem receiver_clock_is_monotone c : forall src k,
  mono (sq_symcount (r_sq k)) (asm_calls c k src).
Proof.
  induction src as [|i src IH]; intros k; cbn [asm_calls]; [exact I|].
  destruct (step_asm c k i) as (_ & Hle & Hcall).
  specialize (IH (fst (step_core c k i))).
  destruct (asm_call c k i) as [o|] eqn:Ec; cbn [opt_list app].
  - destruct (Hcall o eq_refl) as [H1 H2]. split; [exact H1|]. rewrite H2. exact IH.
  - eapply mono_weaken; [exact Hle|exact IH].
Qed.

(** ** C05 for the whole receiver and all audio: whatever the item stream, two consecutive reports of the
    receiver's assembler with equal text are at least MAX_HISTORY_DURATION symbols apart *)
Corollary receiver_no_double_report c src :
  spaced None (ok_reports (fst (asm_run asm_init (asm_calls c core_init src)))).
Proof. apply no_double_report. exact (receiver_clock_is_monotone c src core_init). Qed.

(** ** C08 for the whole receiver: in every reachable state the pending slot holds no EndOfMessage and
    whatever it holds is due at most MAX_INTERBURST_SYMBOLS after the last burst the assembler was given *)
Corollary receiver_hold_bounded c src :
  PInv (r_asm (snd (run_core c core_init src))) (last_burst 0 (asm_calls c core_init src)).
Proof.
  rewrite receiver_assembler_refines.
  apply (run_PInv _ asm_init 0 0); [exact PInv_init|lia|exact (receiver_clock_is_monotone c src core_init)].
Qed.
