(** C01 (discrete half): a complete transmission — three header bursts, a voice gap long enough
    for the hold to run out, three trailer bursts — yields exactly one StartOfMessage and then
    exactly one EndOfMessage, for all burst contents satisfying the stated combine facts and
    all times inside the stated intervals. *)
From Sameold Require Import Base.Bytes Model.Header Model.Combiner Model.Assembler
  Proofs.Vote Proofs.HeaderP Proofs.CombinerP Proofs.AssemblerP.
From Coq Require Import ZifyBool ZifyN ZifyNat.
Arguments N.add : simpl never.
Arguments N.leb : simpl never.
Arguments N.ltb : simpl never.
Local Opaque MAX_MESSAGE_LENGTH.

(** a burst whose combination is suppressed (duplicate) or establishes nothing, while nothing is held *)
Lemma burst_suppressed s b now :
  b <> [] ->
  Forall (fun e => now < t_deadline e) (a_history s) -> (length (a_history s) <= 2)%nat ->
  a_pending s = None ->
  deduplicate (prune_previous (a_previous s) now)
              (combine (map t_data (a_history s ++ [entry b now]))) = None ->
  asm_assemble s b now =
  (TAssembling, mkAsm (keep_last2 (a_history s ++ [entry b now])) None (prune_previous (a_previous s) now)).
Proof.
  intros Hb Hh Hl Hp Hd. rewrite assemble_live by assumption. cbv zeta. rewrite Hd, Hp. reflexivity.
Qed.

(** a burst that establishes a (non-duplicate) EndOfMessage while nothing is held: returned at once *)
Lemma burst_eom_now s b now :
  b <> [] ->
  Forall (fun e => now < t_deadline e) (a_history s) -> (length (a_history s) <= 2)%nat ->
  a_pending s = None ->
  deduplicate (prune_previous (a_previous s) now)
              (combine (map t_data (a_history s ++ [entry b now]))) = Some (Ok EOM) ->
  asm_assemble s b now =
  (TMessage (Ok EOM), mkAsm (keep_last2 (a_history s ++ [entry b now])) None
                            (Some (mkTimed EOM (now + MAX_HISTORY_DURATION)))).
Proof.
  intros Hb Hh Hl Hp Hd. rewrite assemble_live by assumption. cbv zeta. rewrite Hd, Hp.
  cbn [pending_accept]. unfold pending_poll, is_expired_at. cbn [t_deadline t_data]. rewrite N.leb_refl. reflexivity.
Qed.

(** the poll that releases a held message, history alive *)
Lemma idle_fire_live s now m d :
  a_pending s = Some (mkTimed (Ok m) d) -> d <= now ->
  Forall (fun e => now < t_deadline e) (a_history s) -> (length (a_history s) <= 2)%nat ->
  asm_idle s now = (TMessage (Ok m), mkAsm (a_history s) None (Some (mkTimed m (now + MAX_HISTORY_DURATION)))).
Proof.
  intros Hp Hd Hh Hl. unfold asm_idle. rewrite prune_live by assumption. rewrite Hp.
  unfold pending_poll, is_expired_at. cbn [t_deadline t_data].
  assert ((d <=? now) = true) as -> by lia. reflexivity.
Qed.

Definition dup_or_none (h : header) (c : option msg_result) : Prop :=
  c = None \/ exists h', c = Some (Ok (SOM h')) /\ h_text h' = h_text h.

Lemma dedup_dup_or_none h c d : dup_or_none h c -> deduplicate (Some (mkTimed (SOM h) d)) c = None.
Proof.
  intros [->|(h' & -> & Ht)]; [reflexivity|]. cbn [deduplicate is_not_duplicate t_data message_as_str].
  rewrite Ht, list_eqb_refl. reflexivity.
Qed.

Section Transmission.
  Variables (prev0 : option (timed message)) (b1 b2 b3 n1 n2 n3 : bytes) (h : header).
  Variables (t1 t2 t3 u1 u2 u3 tf : N) (polls1 polls2 pa pb polls4 polls5 polls6 : list N).
  Hypothesis Hb1 : b1 <> []. Hypothesis Hb2 : b2 <> []. Hypothesis Hb3 : b3 <> [].
  Hypothesis Hn1 : n1 <> []. Hypothesis Hn2 : n2 <> []. Hypothesis Hn3 : n3 <> [].
  Hypothesis Hnd : nd h (prune_previous prev0 t1).
  Hypothesis Htext : h_text h <> PREFIX_MESSAGE_END.
  (** what the bursts combine to *)
  Hypothesis C1 : combine [trunc b1] = None.
  Hypothesis C2 : combine [trunc b1; trunc b2] <> Some (Ok EOM).
  Hypothesis C2v : votes_le [trunc b1; trunc b2] h.
  Hypothesis C3 : combine [trunc b1; trunc b2; trunc b3] = Some (Ok (SOM h)).
  Hypothesis C4 : dup_or_none h (combine [trunc b2; trunc b3; trunc n1]).
  Hypothesis C5 : combine [trunc b3; trunc n1; trunc n2] = Some (Ok EOM).
  Hypothesis C6 : combine [trunc n1; trunc n2; trunc n3] = Some (Ok EOM).
  (** when things happen: bursts in order; the header's hold runs out at poll [tf] before the
      trailer; everything inside the history window of the second header burst *)
  Hypothesis T12 : t1 <= t2. Hypothesis T23 : t2 <= t3.
  Hypothesis Tf : t3 + MAX_INTERBURST_SYMBOLS <= tf.
  Hypothesis Tfu : tf <= u1. Hypothesis U12 : u1 <= u2. Hypothesis U23 : u2 <= u3.
  Hypothesis Win : u3 < t2 + MAX_HISTORY_DURATION.
  Hypothesis Win1 : t3 < t1 + MAX_HISTORY_DURATION.
  Hypothesis P1 : Forall (fun n => n < t1 + MAX_HISTORY_DURATION) polls1.
  Hypothesis P2 : Forall (fun n => n < t2 + MAX_INTERBURST_SYMBOLS /\ n < t1 + MAX_HISTORY_DURATION) polls2.
  Hypothesis Pa : Forall (fun n => n < t3 + MAX_INTERBURST_SYMBOLS /\ n < t2 + MAX_HISTORY_DURATION) pa.
  Hypothesis Pb : Forall (fun n => n < t2 + MAX_HISTORY_DURATION) pb.
  Hypothesis P4 : Forall (fun n => n < t2 + MAX_HISTORY_DURATION) polls4.
  Hypothesis P5 : Forall (fun n => n < t2 + MAX_HISTORY_DURATION) polls5.

  Definition transmission_ops : list aop :=
    OBurst b1 t1 :: map OIdle polls1 ++ OBurst b2 t2 :: map OIdle polls2 ++ OBurst b3 t3 :: map OIdle pa
    ++ OIdle tf :: map OIdle pb ++ OBurst n1 u1 :: map OIdle polls4 ++ OBurst n2 u2 :: map OIdle polls5
    ++ OBurst n3 u3 :: map OIdle polls6.

  Lemma noop_msgs s polls rest :
    Forall (fun n => (forall p, a_pending s = Some p -> n < t_deadline p)
                     /\ Forall (fun e => n < t_deadline e) (a_history s)) polls ->
    (length (a_history s) <= 2)%nat ->
    msgs (fst (asm_run s (map OIdle polls ++ rest))) = msgs (fst (asm_run s rest)).
  Proof.
    intros Hf Hl. rewrite asm_run_app. cbn [fst snd]. rewrite msgs_app.
    rewrite polls_noop by assumption. cbn [fst snd]. rewrite msgs_idle_out. reflexivity.
  Qed.

  Theorem transmission_exact :
    msgs (fst (asm_run (mkAsm [] None prev0) transmission_ops)) = [(tf, Ok (SOM h)); (u2, Ok EOM)].
  Proof.
    pose proof MIS_le_MHD as Hle. pose proof MHD_pos as Hpos. pose proof MIS_pos as Hpos2.
    unfold transmission_ops.
    (* header burst 1 *)
    rewrite asm_run_cons. cbn [asm_op op_time fst snd].
    destruct (burst_from_empty (mkAsm [] None prev0) b1 t1 h Hb1) as (o1 & pend1 & prev1 & E1 & Hn1' & _ & _ & _ & Hnone1 & Hmsg1);
      [constructor|cbn [a_history length]; repeat constructor|reflexivity|exact Hnd|exact Htext| |].
    { cbn [a_history app map t_data entry]. intros h2 Hh2. rewrite C1 in Hh2. discriminate. }
    cbn [a_history app map t_data entry] in Hnone1, Hmsg1.
    assert (pend1 = None) as -> by (apply Hnone1; left; exact C1).
    assert (msgs [(t1, o1)] = []) as M1.
    { cbn [msgs]. destruct o1 as [| |r]; try reflexivity. destruct (Hmsg1 r eq_refl) as [_ Hc]. rewrite C1 in Hc. discriminate. }
    rewrite E1. cbn [fst snd a_history app keep_last2].
    change ((t1, o1) :: ?x) with ([(t1, o1)] ++ x). rewrite msgs_app, M1. cbn [app].
    rewrite noop_msgs.
    2:{ eapply Forall_impl; [|exact P1]. cbn. intros n Hn0. split; [intros p Hp; discriminate|].
        constructor; [unfold entry; cbn [t_deadline]; exact Hn0|constructor]. }
    2:{ cbn [a_history length]; repeat constructor. }
    (* header burst 2 *)
    rewrite asm_run_cons. cbn [asm_op op_time fst snd].
    destruct (burst_from_empty (mkAsm [entry b1 t1] None prev1) b2 t2 h Hb2)
      as (o2 & pend2 & prev2 & E2 & Hn2' & _ & Hw2 & Hd2 & _ & Hmsg2);
      [constructor; [unfold entry; cbn [t_deadline]; clear - T12 T23 Tf Tfu U12 U23 Win Win1 Hle Hpos Hpos2 ; lia|constructor]|cbn [a_history length]; repeat constructor
       |reflexivity|apply nd_prune, Hn1'|exact Htext|exact C2v|].
    cbn [a_history app map t_data entry] in Hmsg2.
    assert (msgs [(t2, o2)] = []) as M2.
    { cbn [msgs]. destruct o2 as [| |r]; try reflexivity. destruct (Hmsg2 r eq_refl) as [_ Hc]. exfalso. exact (C2 Hc). }
    rewrite E2. cbn [fst snd a_history app keep_last2].
    change ((t2, o2) :: ?x) with ([(t2, o2)] ++ x). rewrite msgs_app, M2. cbn [app].
    rewrite noop_msgs.
    2:{ eapply Forall_impl; [|exact P2]. cbn. intros n [Hn0 Hn0']. split.
        - intros p Hp. rewrite (Hd2 p Hp). exact Hn0.
        - constructor; [unfold entry; cbn [t_deadline]; exact Hn0'|].
          constructor; [unfold entry; cbn [t_deadline]; clear - T12 T23 Tf Tfu U12 U23 Win Win1 Hle Hpos Hpos2 Hn0'; lia|constructor]. }
    2:{ cbn [a_history length]; repeat constructor. }
    (* header burst 3 *)
    rewrite asm_run_cons. cbn [asm_op op_time fst snd].
    rewrite (burst_establishes _ b3 t3 h Hb3);
      [| constructor; [unfold entry; cbn [t_deadline]; exact Win1|];
         constructor; [unfold entry; cbn [t_deadline]; clear - T12 T23 Tf Tfu U12 U23 Win Win1 Hle Hpos Hpos2 ; lia|constructor]
       | cbn [a_history length]; repeat constructor | exact Hw2 | exact Hn2' | exact C3].
    cbn [fst snd msgs a_history app keep_last2].
    rewrite noop_msgs.
    2:{ eapply Forall_impl; [|exact Pa]. cbn. intros n [Hn0 Hn0']. split.
        - intros p Hp. inversion Hp; subst. cbn [t_deadline]. exact Hn0.
        - constructor; [unfold entry; cbn [t_deadline]; exact Hn0'|].
          constructor; [unfold entry; cbn [t_deadline]; clear - T12 T23 Tf Tfu U12 U23 Win Win1 Hle Hpos Hpos2 Hn0'; lia|constructor]. }
    2:{ cbn [a_history length]; repeat constructor. }
    (* the poll that releases the header *)
    rewrite asm_run_cons. cbn [asm_op op_time fst snd].
    rewrite (idle_fire_live _ tf (SOM h) (t3 + MAX_INTERBURST_SYMBOLS)); [|reflexivity|exact Tf| |cbn [a_history length]; repeat constructor].
    2:{ constructor; [unfold entry; cbn [t_deadline]; clear - T12 T23 Tf Tfu U12 U23 Win Win1 Hle Hpos Hpos2 ; lia|].
        constructor; [unfold entry; cbn [t_deadline]; clear - T12 T23 Tf Tfu U12 U23 Win Win1 Hle Hpos Hpos2 ; lia|constructor]. }
    cbn [fst snd msgs a_history]. f_equal.
    rewrite noop_msgs.
    2:{ eapply Forall_impl; [|exact Pb]. cbn. intros n Hn0. split; [intros p Hp; discriminate|].
        constructor; [unfold entry; cbn [t_deadline]; exact Hn0|].
        constructor; [unfold entry; cbn [t_deadline]; clear - T12 T23 Tf Tfu U12 U23 Win Win1 Hle Hpos Hpos2 Hn0; lia|constructor]. }
    2:{ cbn [a_history length]; repeat constructor. }
    (* trailer burst 1: votes to the header again, suppressed as a duplicate *)
    rewrite asm_run_cons. cbn [asm_op op_time fst snd].
    assert (prune_previous (Some (mkTimed (SOM h) (tf + MAX_HISTORY_DURATION))) u1
            = Some (mkTimed (SOM h) (tf + MAX_HISTORY_DURATION))) as Pr1.
    { unfold prune_previous, is_expired_at. cbn [t_deadline].
      assert ((tf + MAX_HISTORY_DURATION <=? u1) = false) as -> by (clear - T12 T23 Tf Tfu U12 U23 Win Win1 Hle Hpos Hpos2 ; lia). reflexivity. }
    rewrite (burst_suppressed _ n1 u1 Hn1); [| | cbn [a_history length]; repeat constructor | reflexivity | ].
    2:{ constructor; [unfold entry; cbn [t_deadline]; clear - T12 T23 Tf Tfu U12 U23 Win Win1 Hle Hpos Hpos2 ; lia|].
        constructor; [unfold entry; cbn [t_deadline]; clear - T12 T23 Tf Tfu U12 U23 Win Win1 Hle Hpos Hpos2 ; lia|constructor]. }
    2:{ cbn [a_history a_previous app map t_data entry]. rewrite Pr1. apply dedup_dup_or_none, C4. }
    cbn [fst snd msgs a_history a_previous app keep_last2]. rewrite Pr1.
    rewrite noop_msgs.
    2:{ eapply Forall_impl; [|exact P4]. cbn. intros n Hn0. split; [intros p Hp; discriminate|].
        constructor; [unfold entry; cbn [t_deadline]; clear - T12 T23 Tf Tfu U12 U23 Win Win1 Hle Hpos Hpos2 Hn0; lia|].
        constructor; [unfold entry; cbn [t_deadline]; clear - T12 T23 Tf Tfu U12 U23 Win Win1 Hle Hpos Hpos2 Hn0; lia|constructor]. }
    2:{ cbn [a_history length]; repeat constructor. }
    (* trailer burst 2: establishes the EndOfMessage, returned at once *)
    rewrite asm_run_cons. cbn [asm_op op_time fst snd].
    assert (prune_previous (Some (mkTimed (SOM h) (tf + MAX_HISTORY_DURATION))) u2
            = Some (mkTimed (SOM h) (tf + MAX_HISTORY_DURATION))) as Pr2.
    { unfold prune_previous, is_expired_at. cbn [t_deadline].
      assert ((tf + MAX_HISTORY_DURATION <=? u2) = false) as -> by (clear - T12 T23 Tf Tfu U12 U23 Win Win1 Hle Hpos Hpos2 ; lia). reflexivity. }
    rewrite (burst_eom_now _ n2 u2 Hn2); [| | cbn [a_history length]; repeat constructor | reflexivity | ].
    2:{ constructor; [unfold entry; cbn [t_deadline]; clear - T12 T23 Tf Tfu U12 U23 Win Win1 Hle Hpos Hpos2 ; lia|].
        constructor; [unfold entry; cbn [t_deadline]; clear - T12 T23 Tf Tfu U12 U23 Win Win1 Hle Hpos Hpos2 ; lia|constructor]. }
    2:{ cbn [a_history a_previous app map t_data entry]. rewrite Pr2, C5.
        cbn [deduplicate is_not_duplicate t_data message_as_str].
        destruct (list_eqb (h_text h) PREFIX_MESSAGE_END) eqn:E; [|reflexivity].
        exfalso. apply Htext. apply list_eqb_true, E. }
    cbn [fst snd msgs a_history app keep_last2]. f_equal.
    rewrite noop_msgs.
    2:{ eapply Forall_impl; [|exact P5]. cbn. intros n Hn0. split; [intros p Hp; discriminate|].
        constructor; [unfold entry; cbn [t_deadline]; clear - T12 T23 Tf Tfu U12 U23 Win Win1 Hle Hpos Hpos2 Hn0; lia|].
        constructor; [unfold entry; cbn [t_deadline]; clear - T12 T23 Tf Tfu U12 U23 Win Win1 Hle Hpos Hpos2 Hn0; lia|constructor]. }
    2:{ cbn [a_history length]; repeat constructor. }
    (* trailer burst 3: duplicate of the EndOfMessage just reported *)
    rewrite asm_run_cons. cbn [asm_op op_time fst snd].
    rewrite (burst_duplicate_eom _ n3 u3 (u2 + MAX_HISTORY_DURATION) Hn3); [| | cbn [a_history length]; repeat constructor | reflexivity | reflexivity | | ].
    2:{ constructor; [unfold entry; cbn [t_deadline]; clear - T12 T23 Tf Tfu U12 U23 Win Win1 Hle Hpos Hpos2 ; lia|].
        constructor; [unfold entry; cbn [t_deadline]; clear - T12 T23 Tf Tfu U12 U23 Win Win1 Hle Hpos Hpos2 ; lia|constructor]. }
    2:{ clear - T12 T23 Tf Tfu U12 U23 Win Win1 Hle Hpos Hpos2 ; lia. }
    2:{ cbn [a_history app map t_data entry]. exact C6. }
    cbn [fst snd msgs].
    rewrite polls_msgs. reflexivity.
  Qed.
End Transmission.

(** * The same transmission with NO voice segment: the trailer follows the header by one second, so
    the header's hold runs out while the first trailer burst is being received (no idle polling
    happens during a burst).  That burst votes with the two header bursts still in the history to
    the header again, with fewer voting bytes than the held one, so the held one stays and is
    released by the idle step of that very call; the second trailer burst establishes the
    EndOfMessage, which is returned at once. *)
Lemma burst_refused_then_release s b now h d :
  b <> [] ->
  Forall (fun e => now < t_deadline e) (a_history s) -> (length (a_history s) <= 2)%nat ->
  a_pending s = Some (mkTimed (Ok (SOM h)) d) -> d <= now ->
  (let c := deduplicate (prune_previous (a_previous s) now) (combine (map t_data (a_history s ++ [entry b now]))) in
   c = None \/ exists h4, c = Some (Ok (SOM h4)) /\ h_voting h4 < h_voting h) ->
  asm_assemble s b now =
  (TMessage (Ok (SOM h)), mkAsm (keep_last2 (a_history s ++ [entry b now])) None
                               (Some (mkTimed (SOM h) (now + MAX_HISTORY_DURATION)))).
Proof.
  intros Hb Hh Hl Hp Hd Hc. rewrite assemble_live by assumption. cbv zeta in *. rewrite Hp.
  assert (match deduplicate (prune_previous (a_previous s) now) (combine (map t_data (a_history s ++ [entry b now]))) with
          | Some msg => pending_accept (Some (mkTimed (Ok (SOM h)) d)) msg now
          | None => Some (mkTimed (Ok (SOM h)) d) end = Some (mkTimed (Ok (SOM h)) d)) as ->.
  { destruct Hc as [-> | (h4 & -> & Hv)]; [reflexivity|].
    cbn [pending_accept t_data]. assert ((h_voting h <=? h_voting h4) = false) as -> by lia. reflexivity. }
  unfold pending_poll, is_expired_at. cbn [t_deadline t_data].
  assert ((d <=? now) = true) as -> by lia. reflexivity.
Qed.

Section NoVoiceGap.
  Variables (prev0 : option (timed message)) (b1 b2 b3 n1 n2 n3 : bytes) (h : header).
  Variables (t1 t2 t3 u1 u2 u3 : N) (polls1 polls2 pa polls4 polls5 polls6 : list N).
  Hypothesis Hb1 : b1 <> []. Hypothesis Hb2 : b2 <> []. Hypothesis Hb3 : b3 <> [].
  Hypothesis Hn1 : n1 <> []. Hypothesis Hn2 : n2 <> []. Hypothesis Hn3 : n3 <> [].
  Hypothesis Hnd : nd h (prune_previous prev0 t1).
  Hypothesis Htext : h_text h <> PREFIX_MESSAGE_END.
  Hypothesis C1 : combine [trunc b1] = None.
  Hypothesis C2 : combine [trunc b1; trunc b2] <> Some (Ok EOM).
  Hypothesis C2v : votes_le [trunc b1; trunc b2] h.
  Hypothesis C3 : combine [trunc b1; trunc b2; trunc b3] = Some (Ok (SOM h)).
  (** the first trailer burst with the last two header bursts: nothing, or the same text with fewer voting bytes *)
  Hypothesis C4 : combine [trunc b2; trunc b3; trunc n1] = None
                  \/ exists h4, combine [trunc b2; trunc b3; trunc n1] = Some (Ok (SOM h4))
                                 /\ h_text h4 = h_text h /\ h_voting h4 < h_voting h.
  Hypothesis C5 : combine [trunc b3; trunc n1; trunc n2] = Some (Ok EOM).
  Hypothesis C6 : combine [trunc n1; trunc n2; trunc n3] = Some (Ok EOM).
  Hypothesis T12 : t1 <= t2. Hypothesis T23 : t2 <= t3.
  (** the hold of the third header burst has run out when the first trailer burst ends *)
  Hypothesis Tf : t3 + MAX_INTERBURST_SYMBOLS <= u1.
  Hypothesis U12 : u1 <= u2. Hypothesis U23 : u2 <= u3.
  Hypothesis Win : u3 < t2 + MAX_HISTORY_DURATION.
  Hypothesis Win1 : t3 < t1 + MAX_HISTORY_DURATION.
  Hypothesis P1 : Forall (fun n => n < t1 + MAX_HISTORY_DURATION) polls1.
  Hypothesis P2 : Forall (fun n => n < t2 + MAX_INTERBURST_SYMBOLS /\ n < t1 + MAX_HISTORY_DURATION) polls2.
  (** idle polling between the header and the trailer stops before the hold runs out *)
  Hypothesis Pa : Forall (fun n => n < t3 + MAX_INTERBURST_SYMBOLS /\ n < t2 + MAX_HISTORY_DURATION) pa.
  Hypothesis P4 : Forall (fun n => n < t2 + MAX_HISTORY_DURATION) polls4.
  Hypothesis P5 : Forall (fun n => n < t2 + MAX_HISTORY_DURATION) polls5.

  Definition no_gap_ops : list aop :=
    OBurst b1 t1 :: map OIdle polls1 ++ OBurst b2 t2 :: map OIdle polls2 ++ OBurst b3 t3 :: map OIdle pa
    ++ OBurst n1 u1 :: map OIdle polls4 ++ OBurst n2 u2 :: map OIdle polls5
    ++ OBurst n3 u3 :: map OIdle polls6.

  Theorem transmission_exact_no_voice_gap :
    msgs (fst (asm_run (mkAsm [] None prev0) no_gap_ops)) = [(u1, Ok (SOM h)); (u2, Ok EOM)].
  Proof.
    pose proof MIS_le_MHD as Hle. pose proof MHD_pos as Hpos. pose proof MIS_pos as Hpos2.
    unfold no_gap_ops.
    (* header burst 1 *)
    rewrite asm_run_cons. cbn [asm_op op_time fst snd].
    destruct (burst_from_empty (mkAsm [] None prev0) b1 t1 h Hb1) as (o1 & pend1 & prev1 & E1 & Hn1' & _ & _ & _ & Hnone1 & Hmsg1);
      [constructor|cbn [a_history length]; repeat constructor|reflexivity|exact Hnd|exact Htext| |].
    { cbn [a_history app map t_data entry]. intros h2 Hh2. rewrite C1 in Hh2. discriminate. }
    cbn [a_history app map t_data entry] in Hnone1, Hmsg1.
    assert (pend1 = None) as -> by (apply Hnone1; left; exact C1).
    assert (msgs [(t1, o1)] = []) as M1.
    { cbn [msgs]. destruct o1 as [| |r]; try reflexivity. destruct (Hmsg1 r eq_refl) as [_ Hc]. rewrite C1 in Hc. discriminate. }
    rewrite E1. cbn [fst snd a_history app keep_last2].
    change ((t1, o1) :: ?x) with ([(t1, o1)] ++ x). rewrite msgs_app, M1. cbn [app].
    rewrite noop_msgs.
    2:{ eapply Forall_impl; [|exact P1]. cbn. intros n Hn0. split; [intros p Hp; discriminate|].
        constructor; [unfold entry; cbn [t_deadline]; exact Hn0|constructor]. }
    2:{ cbn [a_history length]; repeat constructor. }
    (* header burst 2 *)
    rewrite asm_run_cons. cbn [asm_op op_time fst snd].
    destruct (burst_from_empty (mkAsm [entry b1 t1] None prev1) b2 t2 h Hb2)
      as (o2 & pend2 & prev2 & E2 & Hn2' & _ & Hw2 & Hd2 & _ & Hmsg2);
      [constructor; [unfold entry; cbn [t_deadline]; clear - T12 T23 Tf U12 U23 Win Win1 Hle Hpos Hpos2 ; lia|constructor]|cbn [a_history length]; repeat constructor
       |reflexivity|apply nd_prune, Hn1'|exact Htext|exact C2v|].
    cbn [a_history app map t_data entry] in Hmsg2.
    assert (msgs [(t2, o2)] = []) as M2.
    { cbn [msgs]. destruct o2 as [| |r]; try reflexivity. destruct (Hmsg2 r eq_refl) as [_ Hc]. exfalso. exact (C2 Hc). }
    rewrite E2. cbn [fst snd a_history app keep_last2].
    change ((t2, o2) :: ?x) with ([(t2, o2)] ++ x). rewrite msgs_app, M2. cbn [app].
    rewrite noop_msgs.
    2:{ eapply Forall_impl; [|exact P2]. cbn. intros n [Hn0 Hn0']. split.
        - intros p Hp. rewrite (Hd2 p Hp). exact Hn0.
        - constructor; [unfold entry; cbn [t_deadline]; exact Hn0'|].
          constructor; [unfold entry; cbn [t_deadline]; clear - T12 T23 Tf U12 U23 Win Win1 Hle Hpos Hpos2 Hn0'; lia|constructor]. }
    2:{ cbn [a_history length]; repeat constructor. }
    (* header burst 3 *)
    rewrite asm_run_cons. cbn [asm_op op_time fst snd].
    rewrite (burst_establishes _ b3 t3 h Hb3);
      [| constructor; [unfold entry; cbn [t_deadline]; exact Win1|];
         constructor; [unfold entry; cbn [t_deadline]; clear - T12 T23 Tf U12 U23 Win Win1 Hle Hpos Hpos2 ; lia|constructor]
       | cbn [a_history length]; repeat constructor | exact Hw2 | exact Hn2' | exact C3].
    cbn [fst snd msgs a_history app keep_last2].
    rewrite noop_msgs.
    2:{ eapply Forall_impl; [|exact Pa]. cbn. intros n [Hn0 Hn0']. split.
        - intros p Hp. inversion Hp; subst. cbn [t_deadline]. exact Hn0.
        - constructor; [unfold entry; cbn [t_deadline]; exact Hn0'|].
          constructor; [unfold entry; cbn [t_deadline]; clear - T12 T23 Tf U12 U23 Win Win1 Hle Hpos Hpos2 Hn0'; lia|constructor]. }
    2:{ cbn [a_history length]; repeat constructor. }
    (* trailer burst 1: the held header is not replaced and is released by this call *)
    rewrite asm_run_cons. cbn [asm_op op_time fst snd].
    rewrite (burst_refused_then_release _ n1 u1 h (t3 + MAX_INTERBURST_SYMBOLS) Hn1);
      [| | cbn [a_history length]; repeat constructor | reflexivity | exact Tf | ].
    2:{ constructor; [unfold entry; cbn [t_deadline]; clear - T12 T23 Tf U12 U23 Win Win1 Hle Hpos Hpos2 ; lia|].
        constructor; [unfold entry; cbn [t_deadline]; clear - T12 T23 Tf U12 U23 Win Win1 Hle Hpos Hpos2 ; lia|constructor]. }
    2:{ cbn [a_history a_previous app map t_data entry]. cbv zeta.
        destruct C4 as [C4n|(h4 & C4s & C4t & C4v)]; [rewrite C4n; left; reflexivity|].
        rewrite C4s. cbn [deduplicate].
        assert (is_not_duplicate (prune_previous (prune_previous prev2 t3) u1) (SOM h4) = true) as ->.
        { pose proof (nd_prune h _ u1 (nd_prune h _ t3 Hn2')) as Hx. unfold nd, is_not_duplicate in *.
          cbn [message_as_str] in *. rewrite C4t. exact Hx. }
        right. exists h4. split; [reflexivity|exact C4v]. }
    cbn [fst snd msgs a_history app keep_last2]. f_equal.
    rewrite noop_msgs.
    2:{ eapply Forall_impl; [|exact P4]. cbn. intros n Hn0. split; [intros p Hp; discriminate|].
        constructor; [unfold entry; cbn [t_deadline]; clear - T12 T23 Tf U12 U23 Win Win1 Hle Hpos Hpos2 Hn0; lia|].
        constructor; [unfold entry; cbn [t_deadline]; clear - T12 T23 Tf U12 U23 Win Win1 Hle Hpos Hpos2 Hn0; lia|constructor]. }
    2:{ cbn [a_history length]; repeat constructor. }
    (* trailer burst 2: establishes the EndOfMessage, returned at once *)
    rewrite asm_run_cons. cbn [asm_op op_time fst snd].
    assert (prune_previous (Some (mkTimed (SOM h) (u1 + MAX_HISTORY_DURATION))) u2
            = Some (mkTimed (SOM h) (u1 + MAX_HISTORY_DURATION))) as Pr2.
    { unfold prune_previous, is_expired_at. cbn [t_deadline].
      assert ((u1 + MAX_HISTORY_DURATION <=? u2) = false) as -> by (clear - T12 T23 Tf U12 U23 Win Win1 Hle Hpos Hpos2 ; lia). reflexivity. }
    rewrite (burst_eom_now _ n2 u2 Hn2); [| | cbn [a_history length]; repeat constructor | reflexivity | ].
    2:{ constructor; [unfold entry; cbn [t_deadline]; clear - T12 T23 Tf U12 U23 Win Win1 Hle Hpos Hpos2 ; lia|].
        constructor; [unfold entry; cbn [t_deadline]; clear - T12 T23 Tf U12 U23 Win Win1 Hle Hpos Hpos2 ; lia|constructor]. }
    2:{ cbn [a_history a_previous app map t_data entry]. rewrite Pr2, C5.
        cbn [deduplicate is_not_duplicate t_data message_as_str].
        destruct (list_eqb (h_text h) PREFIX_MESSAGE_END) eqn:E; [|reflexivity].
        exfalso. apply Htext. apply list_eqb_true, E. }
    cbn [fst snd msgs a_history app keep_last2]. f_equal.
    rewrite noop_msgs.
    2:{ eapply Forall_impl; [|exact P5]. cbn. intros n Hn0. split; [intros p Hp; discriminate|].
        constructor; [unfold entry; cbn [t_deadline]; clear - T12 T23 Tf U12 U23 Win Win1 Hle Hpos Hpos2 Hn0; lia|].
        constructor; [unfold entry; cbn [t_deadline]; clear - T12 T23 Tf U12 U23 Win Win1 Hle Hpos Hpos2 Hn0; lia|constructor]. }
    2:{ cbn [a_history length]; repeat constructor. }
    (* trailer burst 3: duplicate *)
    rewrite asm_run_cons. cbn [asm_op op_time fst snd].
    rewrite (burst_duplicate_eom _ n3 u3 (u2 + MAX_HISTORY_DURATION) Hn3); [| | cbn [a_history length]; repeat constructor | reflexivity | reflexivity | | ].
    2:{ constructor; [unfold entry; cbn [t_deadline]; clear - T12 T23 Tf U12 U23 Win Win1 Hle Hpos Hpos2 ; lia|].
        constructor; [unfold entry; cbn [t_deadline]; clear - T12 T23 Tf U12 U23 Win Win1 Hle Hpos Hpos2 ; lia|constructor]. }
    2:{ clear - T12 T23 Tf U12 U23 Win Win1 Hle Hpos Hpos2 ; lia. }
    2:{ cbn [a_history app map t_data entry]. exact C6. }
    cbn [fst snd msgs].
    rewrite polls_msgs. reflexivity.
  Qed.
End NoVoiceGap.

(** * Instantiation: three intact copies of a canonical header, three bursts starting "NN" *)
Lemma combine_single_not_NN a A : mask7 a <> 78 -> combine [a :: A] = None.
Proof.
  intros Ha. unfold combine, estimate_message. cbn [firstn].
  assert (MAX_MESSAGE_LENGTH = S (pred MAX_MESSAGE_LENGTH)) as -> by reflexivity.
  cbn [estimate_loop heads flat_map app].
  assert (estimate_step [a] = if is_allowed_byte (mask7 a) then Some (mask7 a, 1, 0 + b2n (existsb msb [a])) else None) as ->
    by reflexivity.
  destruct (is_allowed_byte (mask7 a)); [|reflexivity].
  cbn [tails map tl]. remember (estimate_loop (pred MAX_MESSAGE_LENGTH) [A]) as L.
  cbn [map fst snd truncate_with_reference].
  change (1 <? MIN_BURSTS_FOR_FULL_MESSAGE) with true. cbn iota.
  assert (forall e c, message_try_from_bytes [] e c = Err UnrecognizedPrefix) as -> by reflexivity.
  unfold message_prefix_is_eom.
  destruct (map (fun e : N * N * N => fst (fst e)) L) as [|b r]; [reflexivity|].
  assert ((mask7 a =? 78) = false) as -> by (apply N.eqb_neq; exact Ha). reflexivity.
Qed.

Lemma estimate_step_xNN x a b : x < 256 -> mask7 a = 78 -> mask7 b = 78 ->
  exists e, estimate_step [x; a; b] = Some (78, 3, e).
Proof.
  intros Hx Ha Hb. unfold estimate_step. cbn [map]. rewrite Ha, Hb.
  destruct (vote3_two_equal_value 78 (mask7 x)) as (_ & _ & H3); [reflexivity|pose proof (mask7_lt128 x Hx); lia|].
  rewrite (surjective_pairing (bit_vote_correct (mask7 x) 78 78)), H3.
  change (is_allowed_byte 78) with true. cbn [length N.of_nat Pos.of_succ_nat Pos.succ]. eexists. reflexivity.
Qed.

Lemma estimate_step_NN2 a b : mask7 a = 78 -> mask7 b = 78 -> exists e, estimate_step [a; b] = Some (78, 2, e).
Proof.
  intros Ha Hb. unfold estimate_step. cbn [map]. rewrite Ha, Hb. change (bit_vote_detect 78 78) with (78, 0).
  change (is_allowed_byte 78) with true. eexists. reflexivity.
Qed.

(** two bursts starting "NN" outvote whatever comes before them in the history *)
Lemma combine_X_NN X A B : all_bytes X = true -> starts_NN A -> starts_NN B -> combine [X; A; B] = Some (Ok EOM).
Proof.
  intros HX (a1 & a2 & Ar & -> & Ha1 & Ha2) (b1 & b2 & Br & -> & Hb1 & Hb2).
  assert (forall x r, all_bytes (x :: r) = true -> x < 256 /\ all_bytes r = true) as Hab.
  { intros x r H. unfold all_bytes in H. cbn [forallb] in H. apply andb_prop in H. destruct H as [H1 H2].
    unfold is_byte in H1. split; [lia|exact H2]. }
  destruct X as [|x [|y X']].
  - destruct (estimate_step_NN2 a1 b1 Ha1 Hb1) as (e1 & E1). destruct (estimate_step_NN2 a2 b2 Ha2 Hb2) as (e2 & E2).
    eapply combine_eom_of_estimate. cbn [firstn]. rewrite MAX_SS.
    cbn [estimate_loop heads tails flat_map app map tl]. rewrite E1. cbn [estimate_loop heads tails flat_map app map tl].
    rewrite E2. reflexivity.
  - destruct (Hab _ _ HX) as [Hx _].
    destruct (estimate_step_xNN x a1 b1 Hx Ha1 Hb1) as (e1 & E1). destruct (estimate_step_NN2 a2 b2 Ha2 Hb2) as (e2 & E2).
    eapply combine_eom_of_estimate. cbn [firstn]. rewrite MAX_SS.
    cbn [estimate_loop heads tails flat_map app map tl]. rewrite E1. cbn [estimate_loop heads tails flat_map app map tl].
    rewrite E2. reflexivity.
  - destruct (Hab _ _ HX) as [Hx HX2]. destruct (Hab _ _ HX2) as [Hy _].
    destruct (estimate_step_xNN x a1 b1 Hx Ha1 Hb1) as (e1 & E1). destruct (estimate_step_xNN y a2 b2 Hy Ha2 Hb2) as (e2 & E2).
    eapply combine_eom_of_estimate. cbn [firstn]. rewrite MAX_SS.
    cbn [estimate_loop heads tails flat_map app map tl]. rewrite E1. cbn [estimate_loop heads tails flat_map app map tl].
    rewrite E2. reflexivity.
Qed.

(** A canonical header three times; after the hold has run out (poll [tf]) three trailer bursts
    that start "NN" (any junk after, any eighth bits), all inside the history window of the
    second header burst: exactly two messages in the whole history — the StartOfMessage with
    text [H] at [tf], then the EndOfMessage returned by the call delivering the SECOND trailer
    burst (the first votes with the two header bursts still in the history and is a duplicate). *)
Theorem clean_transmission_exact H h0 prev0 n1 n2 n3 t1 t2 t3 u1 u2 u3 tf polls1 polls2 pa pb polls4 polls5 polls6 :
  header_new H = Ok h0 -> h_text h0 = H -> forallb is_allowed_byte H = true ->
  (length H <= MAX_MESSAGE_LENGTH)%nat -> nd h0 (prune_previous prev0 t1) ->
  starts_NN n1 -> starts_NN n2 -> starts_NN n3 -> all_bytes n1 = true ->
  t1 <= t2 -> t2 <= t3 -> t3 + MAX_INTERBURST_SYMBOLS <= tf -> tf <= u1 -> u1 <= u2 -> u2 <= u3 ->
  u3 < t2 + MAX_HISTORY_DURATION -> t3 < t1 + MAX_HISTORY_DURATION ->
  Forall (fun n => n < t1 + MAX_HISTORY_DURATION) polls1 ->
  Forall (fun n => n < t2 + MAX_INTERBURST_SYMBOLS /\ n < t1 + MAX_HISTORY_DURATION) polls2 ->
  Forall (fun n => n < t3 + MAX_INTERBURST_SYMBOLS /\ n < t2 + MAX_HISTORY_DURATION) pa ->
  Forall (fun n => n < t2 + MAX_HISTORY_DURATION) pb ->
  Forall (fun n => n < t2 + MAX_HISTORY_DURATION) polls4 ->
  Forall (fun n => n < t2 + MAX_HISTORY_DURATION) polls5 ->
  msgs (fst (asm_run (mkAsm [] None prev0)
              (transmission_ops H H H n1 n2 n3 t1 t2 t3 u1 u2 u3 tf polls1 polls2 pa pb polls4 polls5 polls6)))
  = [(tf, Ok (SOM (mkHeader H (h_offset_time h0) (parity_spec H H) (voting_spec H H)))); (u2, Ok EOM)].
Proof.
  intros Hnew Htext Hall Hlen Hnd S1 S2 S3 Hb1 T12 T23 Tf Tfu U12 U23 Win Win1 Q1 Q2 Qa Qb Q4 Q5.
  assert (H <> []) as HHne by (rewrite <- Htext; eapply header_new_text_nonempty, Hnew).
  assert (all_bytes H = true) as HHb by (apply ascii_all_bytes, forallb_allowed_ascii, Hall).
  pose proof (trunc_short H Hlen) as TH.
  pose proof (starts_NN_nonempty _ S1) as N1. pose proof (starts_NN_nonempty _ S2) as N2. pose proof (starts_NN_nonempty _ S3) as N3.
  pose proof (starts_NN_trunc _ S1) as S1t. pose proof (starts_NN_trunc _ S2) as S2t. pose proof (starts_NN_trunc _ S3) as S3t.
  pose proof (combine_two_good P2 H H h0 Hnew Htext Hall Hlen HHb) as C3. cbn [arr] in C3.
  set (h := mkHeader H (h_offset_time h0) (parity_spec H H) (voting_spec H H)) in *.
  destruct (header_new_ok_inv _ _ Hnew) as (_ & n & Hchk & _).
  pose proof (check_header_starts H _ Hchk) as Hs.
  apply (transmission_exact prev0 H H H n1 n2 n3 h t1 t2 t3 u1 u2 u3 tf polls1 polls2 pa pb polls4 polls5 polls6);
    try assumption.
  - unfold nd, is_not_duplicate in *. cbn [message_as_str h h_text] in *. rewrite Htext in Hnd. exact Hnd.
  - cbn [h h_text]. intros E. rewrite E in Hs. discriminate.
  - rewrite TH. destruct H as [|c0 Hr]; [contradiction|]. apply combine_single_not_NN.
    cbn [starts_with PREFIX_MESSAGE_START] in Hs. apply andb_prop in Hs. destruct Hs as [Hc _].
    apply N.eqb_eq in Hc. subst c0. discriminate.
  - rewrite TH. pose proof (combine_two_good P2 H [] h0 Hnew Htext Hall Hlen eq_refl) as C2.
    cbn [arr] in C2. rewrite combine_HH_empty in C2. intros E. pose proof (eq_trans (eq_sym E) C2) as X. discriminate X.
  - rewrite TH. intros h2 E. rewrite (combine_two_voting_zero H H h2 HHb HHb E). lia.
  - rewrite TH. exact C3.
  - rewrite TH. right.
    pose proof (combine_two_good P2 H (trunc n1) h0 Hnew Htext Hall Hlen (all_bytes_firstn _ _ Hb1)) as C4.
    cbn [arr] in C4. eexists. split; [exact C4|reflexivity].
  - rewrite TH. apply combine_X_NN; assumption.
  - apply combine_NN; [cbn [length]; lia|repeat constructor; assumption].
Qed.

(** instance: a canonical header three times, then — one second later — three bursts starting "NN",
    each shorter than the header (they are: "NNNN" plus a few junk bytes against at least 37) *)
Theorem clean_transmission_no_voice_gap H h0 prev0 n1 n2 n3 t1 t2 t3 u1 u2 u3 polls1 polls2 pa polls4 polls5 polls6 :
  header_new H = Ok h0 -> h_text h0 = H -> forallb is_allowed_byte H = true ->
  (length H <= MAX_MESSAGE_LENGTH)%nat -> nd h0 (prune_previous prev0 t1) ->
  starts_NN n1 -> starts_NN n2 -> starts_NN n3 -> all_bytes n1 = true -> (length n1 < length H)%nat ->
  t1 <= t2 -> t2 <= t3 -> t3 + MAX_INTERBURST_SYMBOLS <= u1 -> u1 <= u2 -> u2 <= u3 ->
  u3 < t2 + MAX_HISTORY_DURATION -> t3 < t1 + MAX_HISTORY_DURATION ->
  Forall (fun n => n < t1 + MAX_HISTORY_DURATION) polls1 ->
  Forall (fun n => n < t2 + MAX_INTERBURST_SYMBOLS /\ n < t1 + MAX_HISTORY_DURATION) polls2 ->
  Forall (fun n => n < t3 + MAX_INTERBURST_SYMBOLS /\ n < t2 + MAX_HISTORY_DURATION) pa ->
  Forall (fun n => n < t2 + MAX_HISTORY_DURATION) polls4 ->
  Forall (fun n => n < t2 + MAX_HISTORY_DURATION) polls5 ->
  msgs (fst (asm_run (mkAsm [] None prev0)
              (no_gap_ops H H H n1 n2 n3 t1 t2 t3 u1 u2 u3 polls1 polls2 pa polls4 polls5 polls6)))
  = [(u1, Ok (SOM (mkHeader H (h_offset_time h0) (parity_spec H H) (voting_spec H H)))); (u2, Ok EOM)].
Proof.
  intros Hnew Htext Hall Hlen Hnd S1 S2 S3 Hb1 Hshort T12 T23 Tf U12 U23 Win Win1 Q1 Q2 Qa Q4 Q5.
  assert (H <> []) as HHne by (rewrite <- Htext; eapply header_new_text_nonempty, Hnew).
  assert (all_bytes H = true) as HHb by (apply ascii_all_bytes, forallb_allowed_ascii, Hall).
  pose proof (trunc_short H Hlen) as TH.
  pose proof (starts_NN_nonempty _ S1) as N1. pose proof (starts_NN_nonempty _ S2) as N2. pose proof (starts_NN_nonempty _ S3) as N3.
  pose proof (starts_NN_trunc _ S1) as S1t. pose proof (starts_NN_trunc _ S2) as S2t. pose proof (starts_NN_trunc _ S3) as S3t.
  pose proof (combine_two_good P2 H H h0 Hnew Htext Hall Hlen HHb) as C3. cbn [arr] in C3.
  set (h := mkHeader H (h_offset_time h0) (parity_spec H H) (voting_spec H H)) in *.
  destruct (header_new_ok_inv _ _ Hnew) as (_ & n & Hchk & _).
  pose proof (check_header_starts H _ Hchk) as Hs.
  apply (transmission_exact_no_voice_gap prev0 H H H n1 n2 n3 h t1 t2 t3 u1 u2 u3 polls1 polls2 pa polls4 polls5 polls6);
    try assumption.
  - unfold nd, is_not_duplicate in *. cbn [message_as_str h h_text] in *. rewrite Htext in Hnd. exact Hnd.
  - cbn [h h_text]. intros E. rewrite E in Hs. discriminate.
  - rewrite TH. destruct H as [|c0 Hr]; [contradiction|]. apply combine_single_not_NN.
    cbn [starts_with PREFIX_MESSAGE_START] in Hs. apply andb_prop in Hs. destruct Hs as [Hc _].
    apply N.eqb_eq in Hc. subst c0. discriminate.
  - rewrite TH. pose proof (combine_two_good P2 H [] h0 Hnew Htext Hall Hlen eq_refl) as C2.
    cbn [arr] in C2. rewrite combine_HH_empty in C2. intros E. pose proof (eq_trans (eq_sym E) C2) as X. discriminate X.
  - rewrite TH. intros h2 E. rewrite (combine_two_voting_zero H H h2 HHb HHb E). lia.
  - rewrite TH. exact C3.
  - rewrite TH. right.
    pose proof (combine_two_good P2 H (trunc n1) h0 Hnew Htext Hall Hlen (all_bytes_firstn _ _ Hb1)) as C4.
    cbn [arr] in C4. eexists. split; [exact C4|]. split; [reflexivity|].
    cbn [h h_voting]. unfold voting_spec.
    assert (length (trunc n1) <= length n1)%nat by (unfold trunc; rewrite firstn_length; lia).
    lia.
  - rewrite TH. apply combine_X_NN; assumption.
  - apply combine_NN; [cbn [length]; lia|repeat constructor; assumption].
Qed.

(** * C05: a second, different transmission after the first has been reported.
    The history still holds the last two bursts [x], [y] of the first transmission and the duplicate
    record holds its header [ha].  The first burst of the new transmission votes with them to [ha]
    again (suppressed as a duplicate) or to nothing; the second and third establish the new header
    [hb], which is reported once, 682 symbols after the third burst: the two transmissions are
    reported in the order transmitted. *)
Section FollowOn.
  Variables (x y : timed bytes) (ha hb : header) (d : N) (b1 b2 b3 : bytes).
  Variables (t1 t2 t3 : N) (polls1 polls2 polls3 : list N).
  Hypothesis Hb1 : b1 <> []. Hypothesis Hb2 : b2 <> []. Hypothesis Hb3 : b3 <> [].
  Hypothesis Hdiff : h_text ha <> h_text hb.
  Hypothesis Htext : h_text hb <> PREFIX_MESSAGE_END.
  Hypothesis Lx : t3 < t_deadline x. Hypothesis Ly : t3 < t_deadline y. Hypothesis Ld : t3 < d.
  Hypothesis C1 : dup_or_none ha (combine [t_data x; t_data y; trunc b1]).
  Hypothesis C2v : votes_le [t_data y; trunc b1; trunc b2] hb.
  Hypothesis C3 : combine [trunc b1; trunc b2; trunc b3] = Some (Ok (SOM hb)).
  Hypothesis T12 : t1 <= t2. Hypothesis T23 : t2 <= t3.
  Hypothesis Win : t3 < t1 + MAX_HISTORY_DURATION.
  Hypothesis P1 : Forall (fun n => n < t3) polls1.
  Hypothesis P2 : Forall (fun n => n < t2 + MAX_INTERBURST_SYMBOLS /\ n < t3) polls2.

  Lemma nd_other : nd hb (Some (mkTimed (SOM ha) d)).
  Proof.
    unfold nd, is_not_duplicate. cbn [t_data message_as_str].
    destruct (list_eqb (h_text ha) (h_text hb)) eqn:E; [|reflexivity].
    exfalso. apply Hdiff. apply list_eqb_true, E.
  Qed.

  Theorem follow_on_reported_once :
    som_reports (fst (asm_run (mkAsm [x; y] None (Some (mkTimed (SOM ha) d)))
        (OBurst b1 t1 :: map OIdle polls1 ++ OBurst b2 t2 :: map OIdle polls2 ++ OBurst b3 t3 :: map OIdle polls3)))
    = match find (fun n => t3 + MAX_INTERBURST_SYMBOLS <=? n) polls3 with
      | Some tf => [(tf, hb)]
      | None => []
      end.
  Proof.
    pose proof MIS_le_MHD as Hle. pose proof MHD_pos as Hpos. pose proof MIS_pos as Hpos2.
    assert (forall n, n <= t3 -> prune_previous (Some (mkTimed (SOM ha) d)) n = Some (mkTimed (SOM ha) d)) as Hprev.
    { intros n Hn. unfold prune_previous, is_expired_at. cbn [t_deadline].
      assert ((d <=? n) = false) as -> by (clear - Hn Ld; lia). reflexivity. }
    (* first burst: suppressed *)
    rewrite asm_run_cons. cbn [asm_op op_time fst snd].
    rewrite (burst_suppressed _ b1 t1 Hb1); [| | cbn [a_history length]; repeat constructor | reflexivity | ].
    2:{ constructor; [clear - Lx T12 T23; lia|]. constructor; [clear - Ly T12 T23; lia|constructor]. }
    2:{ cbn [a_history a_previous app map t_data entry]. rewrite Hprev by (clear - T12 T23; lia). apply dedup_dup_or_none, C1. }
    cbn [fst snd a_history a_previous app keep_last2]. rewrite Hprev by (clear - T12 T23; lia).
    rewrite som_reports_cons_other by discriminate.
    rewrite asm_run_app. cbn [fst snd]. rewrite polls_noop.
    2:{ eapply Forall_impl; [|exact P1]. cbn. intros n Hn0. split; [intros p Hp; discriminate|].
        constructor; [clear - Hn0 Ly; lia|]. constructor; [unfold entry; cbn [t_deadline]; clear - Hn0 Win Hpos; lia|constructor]. }
    2:{ cbn [a_history length]; repeat constructor. }
    cbn [fst snd]. rewrite som_reports_app. unfold som_reports at 1. rewrite msgs_idle_out. cbn [soms app].
    (* second burst *)
    rewrite asm_run_cons. cbn [asm_op op_time fst snd].
    destruct (burst_from_empty (mkAsm [y; entry b1 t1] None (Some (mkTimed (SOM ha) d))) b2 t2 hb Hb2)
      as (u & pend2 & prev2 & E2 & Hn2 & Hns2 & Hw2 & Hd2 & _ & _);
      [constructor; [clear - Ly T23; lia|constructor; [unfold entry; cbn [t_deadline]; clear - T23 Win; lia|constructor]]
       |cbn [a_history length]; repeat constructor|reflexivity
       |cbn [a_previous]; rewrite Hprev by (clear - T23; lia); apply nd_other|exact Htext|exact C2v|].
    rewrite E2. cbn [fst snd a_history app keep_last2].
    rewrite som_reports_cons_other by exact Hns2.
    rewrite asm_run_app. cbn [fst snd]. rewrite polls_noop.
    2:{ eapply Forall_impl; [|exact P2]. cbn. intros n [Hn0 Hn0']. split.
        - intros p Hp. rewrite (Hd2 p Hp). exact Hn0.
        - constructor; [unfold entry; cbn [t_deadline]; clear - Hn0' Win; lia|].
          constructor; [unfold entry; cbn [t_deadline]; clear - Hn0' Win T12; lia|constructor]. }
    2:{ cbn [a_history length]; repeat constructor. }
    cbn [fst snd]. rewrite som_reports_app. unfold som_reports at 1. rewrite msgs_idle_out. cbn [soms app].
    (* third burst *)
    rewrite asm_run_cons. cbn [asm_op op_time fst snd].
    rewrite (burst_establishes _ b3 t3 hb Hb3);
      [| constructor; [unfold entry; cbn [t_deadline]; exact Win|];
         constructor; [unfold entry; cbn [t_deadline]; clear - Win T12; lia|constructor]
       | cbn [a_history length]; repeat constructor | exact Hw2 | exact Hn2 | exact C3].
    cbn [fst snd]. rewrite som_reports_cons_other by discriminate.
    rewrite som_reports_polls. cbn [a_pending t_data t_deadline]. reflexivity.
  Qed.
End FollowOn.


(** * Known finding F9: what follows the header in the bursts can extend a short callsign *)
Definition f9_H : bytes := [90;67;90;67;45;80;69;80;45;65;68;82;45;50;57;52;53;53;55;45;54;57;55;53;54;51;43;56;54;50;57;45;48;52;48;49;51;52;50;45;77;70;90;45].   (* "ZCZC-PEP-ADR-294557-697563+8629-0401342-MFZ-" *)
(** three intact copies of the header, each followed by two noise bytes; bitwise the noise votes to "H-" *)
Example F9_junk_extends_callsign :
  match combine [f9_H ++ [205; 156]; f9_H ++ [42; 165]; f9_H ++ [192; 235]] with
  | Some (Ok (SOM h)) => h_text h = f9_H ++ [72; 45]      (* ... "-MFZ-H-" *)
  | _ => False
  end.
Proof. vm_compute. reflexivity. Qed.

Definition f9_old : bytes := [90;67;90;67;45;80;69;80;45;83;86;82;45;49;54;56;55;49;51;45;54;53;52;48;52;54;43;56;54;51;56;45;48;57;55;50;48;53;54;45;83;54;70;89;71;86;78;83;45].   (* an older burst: "ZCZC-PEP-SVR-168713-654046+8638-0972056-S6FYGVNS-" *)
Definition f9_W : bytes := [90;67;90;67;45;69;113;100;45;78;73;67;45;53;53;56;57;51;49;43;50;50;48;52;45;50;50;50;49;48;50;52;45;78;87;85;45].     (* "ZCZC-Eqd-NIC-558931+2204-2221024-NWU-" *)
(** an older, longer burst still in the history and two copies of the new header whose junk bytes
    are complementary (0xFF / 0x00): the old burst's bytes "56-" decide the positions after the header *)
Example F9_old_burst_extends_callsign :
  match combine [f9_old; f9_W ++ [255; 255; 255]; f9_W ++ [0; 0; 0]] with
  | Some (Ok (SOM h)) => h_text h = f9_W ++ [53; 54; 45] /\ h_voting h = 40      (* ... "-NWU-56-" *)
  | _ => False
  end.
Proof. vm_compute. split; reflexivity. Qed.
