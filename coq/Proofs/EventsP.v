(** C16: event / significance / originator decoding over the regenerated tables. *)
From Coq Require Import String.
From Sameold Require Import Base.Bytes Model.Header Model.Events Spec.CodeTable.
From Sameold Require Gen.Generated.
From Coq Require Import ZifyBool ZifyN ZifyNat.
Close Scope string_scope.
Open Scope N_scope.

(** * The published codes decode as documented (finite: the 61 transcribed rows) *)
Lemma published_codes_decode :
  forallb (fun r => match r with (c, p, s) =>
     let e := event_from (s2b c) in list_eqb (fst e) (s2b p) && sig_eqb (snd e) s end)
    published = true.
Proof. vm_compute. reflexivity. Qed.

Lemma published_codes_display :
  forallb (fun r => match r with (c, d) =>
     list_eqb (event_display (event_from (s2b c))) (s2b d) end)
    published_display = true.
Proof. vm_compute. reflexivity. Qed.

Lemma published_count : length published = 61%nat /\ length published_display = 61%nat.
Proof. split; reflexivity. Qed.

(** * Fallback for every other code *)
Definition sig_of_letter (c : N) : sig :=
  if c =? 84 then Test else if c =? 83 then Statement else if c =? 69 then Emergency
  else if c =? 65 then Watch else if c =? 87 then Warning else Unknown.

Lemma sig_from_letter c : sig_from [c] = sig_of_letter c.
Proof.
  unfold sig_of_letter.
  destruct (N.eqb_spec c 84) as [->|H1]; [reflexivity|].
  destruct (N.eqb_spec c 83) as [->|H2]; [reflexivity|].
  destruct (N.eqb_spec c 69) as [->|H3]; [reflexivity|].
  destruct (N.eqb_spec c 65) as [->|H4]; [reflexivity|].
  destruct (N.eqb_spec c 87) as [->|H5]; [reflexivity|].
  unfold sig_from.
  destruct c as [|p]; [reflexivity|].
  do 8 (try (destruct p as [p|p|]); try reflexivity); try congruence.
Qed.

(** three bytes [a;b;c], with [c] not a UTF-8 continuation byte (true of all ASCII) *)
Theorem event_from_three a b c :
  is_cont c = false ->
  event_from [a; b; c] =
  match lookup_three [a; b; c] with
  | Some r => r
  | None =>
    match lookup [a; b] Generated.CODEBOOK2 with
    | Some [p] => (p, sig_of_letter c)
    | _ => (UNRECOGNIZED, sig_of_letter c)
    end
  end.
Proof.
  intros Hc. unfold event_from, parse_event. cbn [length Nat.eqb negb].
  destruct (lookup_three [a; b; c]) as [r|]; [reflexivity|].
  unfold lookup_two, lookup_one, boundary2. cbn [nth_error firstn skipn]. rewrite Hc. cbn [negb].
  rewrite sig_from_letter.
  destruct (lookup [a; b] Generated.CODEBOOK2) as [[|p [|q l]]|]; reflexivity.
Qed.

(** when index 2 is inside a multi-byte character no lookup applies *)
Theorem event_from_three_nonboundary a b c :
  is_cont c = true -> lookup_three [a; b; c] = None ->
  event_from [a; b; c] = (UNRECOGNIZED, Unknown).
Proof.
  intros Hc H3. unfold event_from, parse_event. cbn [length Nat.eqb negb]. rewrite H3.
  unfold lookup_two, lookup_one, boundary2. cbn [nth_error]. rewrite Hc. reflexivity.
Qed.

Theorem event_from_wrong_length code :
  length code <> 3%nat -> event_from code = (UNRECOGNIZED, Unknown).
Proof.
  intros H. unfold event_from, parse_event.
  destruct (Nat.eqb_spec (length code) 3); [contradiction|]. reflexivity.
Qed.

(** every key of CODEBOOK3 is pure ASCII, so a non-boundary string never hits stage 1 *)
Lemma codebook3_keys_ascii :
  forallb (fun r => match r with k :: _ => is_ascii k && (length k =? 3)%nat | [] => false end)
    Generated.CODEBOOK3 = true.
Proof. vm_compute. reflexivity. Qed.
Lemma codebook2_keys_ascii :
  forallb (fun r => match r with k :: _ => is_ascii k && (length k =? 2)%nat | [] => false end)
    Generated.CODEBOOK2 = true.
Proof. vm_compute. reflexivity. Qed.

(** * No display string carries an unexpanded placeholder, and none is empty *)
Lemma display_no_placeholder :
  forallb (fun r => match r with
     | n :: _ => forallb (fun s =>
          let d := event_display (n, s) in
          negb (existsb (fun c => c =? PERCENT) d) && negb (match d with [] => true | _ => false end))
          all_sigs
     | [] => false end) Generated.PHENOMENA = true.
Proof. vm_compute. reflexivity. Qed.

(** every phenomenon a lookup can return is a row of the PHENOMENA table *)
Lemma codebook_phenomena_known :
  forallb (fun r => match r with [_; p; s] => match phen_row p, sig_of_name s with Some _, Some _ => true | _, _ => false end | _ => false end)
    Generated.CODEBOOK3
  && forallb (fun r => match r with [_; p] => match phen_row p with Some _ => true | None => false end | _ => false end)
    Generated.CODEBOOK2
  && match phen_row UNRECOGNIZED with Some _ => true | None => false end = true.
Proof. vm_compute. reflexivity. Qed.

(** * Significance: order, numeric form, code letters *)
Lemma significance_table_matches :
  Generated.SIGNIFICANCE =
  map (fun r => match r with (s, code, disp, v) => [sig_name s; s2b code; s2b disp; [v]] end) significance_spec.
Proof. vm_compute. reflexivity. Qed.

(** the derived [Ord] of a fieldless #[repr(u8)] enum is the order of its discriminants *)
Definition sig_lt (a b : sig) : Prop := (sig_as_u8 a < sig_as_u8 b)%N.

Lemma sig_order :
  sig_lt Test Statement /\ sig_lt Statement Emergency /\ sig_lt Emergency Watch
  /\ sig_lt Watch Warning /\ sig_lt Warning Unknown
  /\ map sig_as_u8 all_sigs = [0; 1; 2; 3; 4; 5]%N.
Proof. unfold sig_lt. vm_compute. repeat split. Qed.

Lemma sig_code_roundtrip s : s <> Unknown -> sig_from (sig_code_str s) = s.
Proof. intros _. destruct s; reflexivity. Qed.

Lemma sig_as_u8_matches_table :
  forallb (fun s => match sig_row s with Some [_; code; _; [v]] => (v =? sig_as_u8 s) && list_eqb code (sig_code_str s) | _ => false end)
    all_sigs = true.
Proof. vm_compute. reflexivity. Qed.

(** * Classification consistency *)
Lemma class_consistent :
  forallb (fun r => match r with n :: _ =>
      implb (phen_is_national n) (negb (phen_is_weather n))
      && implb (phen_is_test n) (negb (phen_is_weather n)) | [] => false end) Generated.PHENOMENA
  && forallb (fun r => match r with [_; p; s] => implb (phen_is_test p) (list_eqb s (sig_name Test)) | _ => false end)
       Generated.CODEBOOK3 = true.
Proof. vm_compute. reflexivity. Qed.

Theorem event_is_test_iff e :
  event_is_test e = true <-> snd e = Test \/ phen_is_test (fst e) = true.
Proof.
  unfold event_is_test. rewrite orb_true_iff. split; intros [H|H]; auto; left.
  - destruct (snd e); try discriminate; reflexivity.
  - rewrite H. reflexivity.
Qed.

(** * Originators *)
Definition originator_spec_tbl : list (list bytes) :=
  map (fun r => match r with (c, n) => [s2b c; s2b n] end) originator_spec.

Lemma lookup_same_length k tbl :
  lookup k tbl = lookup k (filter (fun r => match r with k' :: _ => (length k' =? length k)%nat | [] => false end) tbl).
Proof.
  assert (forall a b, list_eqb a b = true -> length a = length b) as L.
  { induction a as [|x a IH]; intros [|y b]; cbn [list_eqb length]; try discriminate; [reflexivity|].
    intros E. apply andb_prop in E. destruct E as [_ E]. f_equal. apply IH, E. }
  induction tbl as [|r tbl IH]; [reflexivity|]. destruct r as [|k' v]; cbn [lookup filter]; [exact IH|].
  destruct (Nat.eqb_spec (length k') (length k)) as [E|E]; cbn [lookup].
  - destruct (list_eqb k k'); [reflexivity|exact IH].
  - destruct (list_eqb k k') eqn:Ek; [apply L in Ek; congruence|exact IH].
Qed.

(** for three-character codes the derived FromStr behaves as the four-row table *)
Theorem originator_three org call :
  length org = 3%nat ->
  originator_from_org_and_call org call =
  let d := match lookup org originator_spec_tbl with Some [o] => o | _ => ORIG_UNKNOWN end in
  if list_eqb d ORIG_NWS && starts_with EC_PREFIX call then ORIG_EC else d.
Proof.
  intros H. unfold originator_from_org_and_call, originator_parse.
  rewrite lookup_same_length, H.
  replace (filter _ Generated.ORIGINATOR_PARSE) with originator_spec_tbl.
  - reflexivity.
  - vm_compute. 
    (* same rows up to order *) 
    reflexivity.
Qed.
