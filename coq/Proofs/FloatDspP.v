(** Proofs about the binary32 model of the DC blocker (dcblock.rs): after the repair it FORGETS -- from any state whatever,
    4 window lengths of zero input bring both moving averages back to the state of a new filter -- and before the repair
    it did not (a 17-sample input inside the C10 domain leaves a residue in the running sum for ever). *)
From Coq Require Import ZArith NArith Bool List Lia.
From Flocq Require Import Core BinarySingleNaN.
From Sameold Require Import Model.ConfigSizes Model.FloatDsp Proofs.ConfigSizesP.
Import ListNotations.

Definition zeros (n : nat) : list f32 := repeat f0 n.

(** ** the window *)
Definition push (win : list f32) (x : f32) : list f32 := match win with [] => [] | _ :: r => r ++ [x] end.

Lemma push_length win x : length (push win x) = length win.
Proof. destruct win as [|a r]; [reflexivity|]. cbn [push]. rewrite app_length. cbn. lia. Qed.

Lemma skipn_S_tl {A} (l : list A) k : skipn (S k) l = tl (skipn k l).
Proof.
  revert l; induction k as [|k IH]; intros l.
  - destruct l; reflexivity.
  - destruct l as [|a l]; [reflexivity|]. change (skipn (S (S k)) (a :: l)) with (skipn (S k) l).
    change (skipn (S k) (a :: l)) with (skipn k l). apply IH.
Qed.

Lemma zeros_S_r n : zeros (S n) = zeros n ++ [f0].
Proof. unfold zeros. induction n as [|n IH]; [reflexivity|]. cbn [repeat app] in *. rewrite <- IH. reflexivity. Qed.

Fixpoint pushes (win : list f32) (k : nat) : list f32 := match k with O => win | S k' => push (pushes win k') f0 end.

Lemma pushes_skipn win k : win <> [] -> pushes win k = skipn k (win ++ zeros k).
Proof.
  intros Hne. induction k as [|k IH].
  - cbn. unfold zeros. cbn. rewrite app_nil_r. reflexivity.
  - cbn [pushes]. rewrite IH.
    assert (Hlen : (k < length (win ++ zeros k))%nat).
    { rewrite app_length. unfold zeros. rewrite repeat_length. destruct win; [congruence|]. cbn. lia. }
    rewrite zeros_S_r, app_assoc, skipn_S_tl.
    rewrite (skipn_app k (win ++ zeros k) [f0]).
    replace (k - length (win ++ zeros k))%nat with O by lia. cbn [skipn].
    destruct (skipn k (win ++ zeros k)) as [|a r] eqn:E.
    + exfalso. apply (f_equal (@length _)) in E. rewrite skipn_length in E. cbn in E. lia.
    + reflexivity.
Qed.

Lemma pushes_all_zero win : pushes win (length win) = zeros (length win).
Proof.
  destruct win as [|a r] eqn:E; [reflexivity|]. rewrite <- E.
  rewrite pushes_skipn by (rewrite E; discriminate).
  rewrite skipn_app, Nat.sub_diag, skipn_all. reflexivity.
Qed.

Lemma push_zeros n : push (zeros n) f0 = zeros n.
Proof. destruct n as [|n]; [reflexivity|]. change (push (zeros (S n)) f0) with (zeros n ++ [f0]). symmetry. apply zeros_S_r. Qed.

(** ** one moving average *)
Definition wf (m : mavg) (len : nat) : Prop :=
  length (m_win m) = len /\ (0 < len)%nat /\ (m_since m < len)%nat.

Definition mstep (m : mavg) (x : f32) : mavg := fst (mavg_filter m x).
Fixpoint mfeed (m : mavg) (xs : list f32) : mavg := match xs with [] => m | x :: r => mfeed (mstep m x) r end.

Lemma mfeed_app m xs ys : mfeed m (xs ++ ys) = mfeed (mfeed m xs) ys.
Proof. revert m; induction xs as [|x xs IH]; intros m; [reflexivity|]. cbn [app mfeed]. apply IH. Qed.

Lemma mstep_win m x : m_win (mstep m x) = push (m_win m) x.
Proof. unfold mstep, mavg_filter, push. destruct (m_win m) eqn:E; [cbn [fst]; exact E | reflexivity]. Qed.

Lemma mstep_inv m x : m_inv (mstep m x) = m_inv m.
Proof. unfold mstep, mavg_filter. destruct (m_win m); reflexivity. Qed.

Lemma mstep_wf m x len : wf m len -> wf (mstep m x) len.
Proof.
  intros (Hl & Hp & Hs). unfold wf. rewrite mstep_win, push_length. split; [exact Hl|]. split; [exact Hp|].
  unfold mstep, mavg_filter. destruct (m_win m) as [|a r] eqn:E; [cbn in Hl; lia|]. cbn [fst m_since].
  assert (Hlen : length (r ++ [x]) = len) by (rewrite app_length; cbn in *; lia). rewrite Hlen.
  destruct (Nat.leb len (S (m_since m))) eqn:El; [lia|]. apply Nat.leb_gt in El. exact El.
Qed.

Lemma mfeed_wf m xs len : wf m len -> wf (mfeed m xs) len.
Proof. revert m; induction xs as [|x xs IH]; intros m H; [exact H|]. cbn [mfeed]. apply IH, mstep_wf, H. Qed.

Lemma mfeed_inv m xs : m_inv (mfeed m xs) = m_inv m.
Proof. revert m; induction xs as [|x xs IH]; intros m; [reflexivity|]. cbn [mfeed]. rewrite IH. apply mstep_inv. Qed.

Lemma mfeed_zeros_win m k : m_win (mfeed m (zeros k)) = pushes (m_win m) k.
Proof.
  revert m. induction k as [|k IH]; intros m; [reflexivity|].
  rewrite zeros_S_r, mfeed_app. cbn [mfeed]. rewrite mstep_win, IH. reflexivity.
Qed.

(** the state of a moving average that has forgotten everything: the window and the sum are those of a new one *)
Definition mzero (m : mavg) : Prop := m_win m = zeros (length (m_win m)) /\ m_sum m = f0.

Lemma fold_zeros n : fold_left fadd (zeros n) f0 = f0.
Proof. induction n as [|n IH]; [reflexivity|]. cbn [zeros repeat fold_left]. change (fadd f0 f0) with f0. exact IH. Qed.

(** a forgotten state stays forgotten under zero input (both the running update and the refresh give +0) *)
Lemma mzero_step m len : wf m len -> mzero m -> mzero (mstep m f0).
Proof.
  intros (Hl & Hp & Hs) (Hw & Hsum). unfold mzero. rewrite mstep_win, push_length.
  split; [rewrite Hw at 1; apply push_zeros|].
  unfold mstep, mavg_filter. destruct (m_win m) as [|a r] eqn:E; [cbn in Hl; lia|]. cbn [fst m_sum].
  assert (Ha : a = f0 /\ r ++ [f0] = zeros (length (a :: r))).
  { cbn [length zeros repeat] in Hw. injection Hw as Ha Hr. split; [exact Ha|].
    rewrite Hr at 1. fold (zeros (length r)). rewrite <- zeros_S_r. reflexivity. }
  destruct Ha as (-> & Hz). rewrite Hz, Hsum.
  destruct (Nat.leb _ _); [apply fold_zeros|reflexivity].
Qed.

Lemma mzero_feed m len k : wf m len -> mzero m -> mzero (mfeed m (zeros k)).
Proof.
  revert m; induction k as [|k IH]; intros m Hwf Hz; [exact Hz|]. cbn [zeros repeat mfeed].
  apply IH; [apply mstep_wf, Hwf | eapply mzero_step; eauto].
Qed.

(** once the window holds only zeros, the next refresh (at most [len] samples away) clears the sum *)
Lemma zero_window_then_refresh r : forall m len, wf m len -> m_win m = zeros len -> (len - m_since m = r)%nat ->
  mzero (mfeed m (zeros r)).
Proof.
  induction r as [|r IH]; intros m len Hwf Hw Hr.
  - destruct Hwf as (_ & _ & Hs). lia.
  - cbn [zeros repeat mfeed].
    pose proof (mstep_wf m f0 len Hwf) as Hwf'. destruct Hwf as (Hl & Hp & Hs).
    assert (Hw' : m_win (mstep m f0) = zeros len) by (rewrite mstep_win, Hw; apply push_zeros).
    destruct (Nat.eq_dec (S (m_since m)) len) as [Heq|Hne].
    + (* this step refreshes *)
      assert (Hz : mzero (mstep m f0)).
      { split; [rewrite Hw'; unfold zeros; rewrite repeat_length; reflexivity|].
        unfold mstep, mavg_filter. rewrite Hw. destruct len as [|n]; [lia|]. cbn [zeros repeat fst m_sum].
        change (repeat f0 n ++ [f0]) with (zeros n ++ [f0]). rewrite <- zeros_S_r.
        assert (Hlen : length (zeros (S n)) = S n) by (unfold zeros; apply repeat_length). rewrite Hlen.
        rewrite Heq, Nat.leb_refl. apply fold_zeros. }
      eapply mzero_feed; eauto.
    + apply (IH (mstep m f0) len Hwf' Hw').
      unfold mstep, mavg_filter. rewrite Hw. destruct len as [|n]; [lia|]. cbn [zeros repeat fst m_since].
      change (repeat f0 n ++ [f0]) with (zeros n ++ [f0]). rewrite <- zeros_S_r.
      assert (Hlen : length (zeros (S n)) = S n) by (unfold zeros; apply repeat_length). rewrite Hlen.
      destruct (Nat.leb (S n) (S (m_since m))) eqn:El; [apply Nat.leb_le in El; lia|]. lia.
Qed.

(** ANY state (NaN or infinite sums and samples included): two window lengths of zero input and it has forgotten *)
Theorem mavg_forgets m len n : wf m len -> (2 * len <= n)%nat -> mzero (mfeed m (zeros n)).
Proof.
  intros Hwf Hn.
  set (m1 := mfeed m (zeros len)).
  assert (Hwf1 : wf m1 len) by (apply mfeed_wf, Hwf).
  assert (Hw1 : m_win m1 = zeros len).
  { unfold m1. rewrite mfeed_zeros_win. destruct Hwf as (Hl & _). rewrite <- Hl. apply pushes_all_zero. }
  set (r := (len - m_since m1)%nat).
  assert (Hr : (r <= len)%nat) by (unfold r; lia).
  replace n with (len + (r + (n - len - r)))%nat by lia.
  unfold zeros. rewrite !repeat_app, !mfeed_app. fold (zeros len) (zeros r) (zeros (n - len - r)). fold m1.
  eapply mzero_feed; [apply mfeed_wf, Hwf1|]. eapply zero_window_then_refresh; eauto.
Qed.

(** ** the DC blocker *)
Definition dwf (d : dcb) (len : nat) : Prop := wf (d_ff d) len /\ wf (d_fb d) len.
Definition dzero (d : dcb) : Prop := mzero (d_ff d) /\ mzero (d_fb d).
(** [1 / len] is a positive finite number *)
Definition inv_pos (v : f32) : Prop := exists m e H, v = B754_finite false m e H.

Definition dstep (d : dcb) (x : f32) : dcb := fst (dcb_filter d x).
Fixpoint dfeed (d : dcb) (xs : list f32) : dcb := match xs with [] => d | x :: r => dfeed (dstep d x) r end.

Lemma dfeed_app d xs ys : dfeed d (xs ++ ys) = dfeed (dfeed d xs) ys.
Proof. revert d; induction xs as [|x xs IH]; intros d; [reflexivity|]. cbn [app dfeed]. apply IH. Qed.

Lemma dstep_ff d x : d_ff (dstep d x) = mstep (d_ff d) x.
Proof.
  unfold dstep, dcb_filter, dcb_filter_with, mstep.
  destruct (mavg_filter (d_ff d) x) as [ff [ma0 sig]]. destruct (mavg_filter (d_fb d) ma0) as [fb [ma1 z]]. reflexivity.
Qed.

Lemma dstep_fb d x : d_fb (dstep d x) = mstep (d_fb d) (fst (snd (mavg_filter (d_ff d) x))).
Proof.
  unfold dstep, dcb_filter, dcb_filter_with, mstep.
  destruct (mavg_filter (d_ff d) x) as [ff [ma0 sig]]. cbn [snd fst]. destruct (mavg_filter (d_fb d) ma0) as [fb [ma1 z]]. reflexivity.
Qed.

Lemma dstep_wf d x len : dwf d len -> dwf (dstep d x) len.
Proof. intros [H1 H2]. split; [rewrite dstep_ff | rewrite dstep_fb]; apply mstep_wf; assumption. Qed.

Lemma dfeed_wf d xs len : dwf d len -> dwf (dfeed d xs) len.
Proof. revert d; induction xs as [|x xs IH]; intros d H; [exact H|]. cbn [dfeed]. apply IH, dstep_wf, H. Qed.

Lemma dfeed_ff d xs : d_ff (dfeed d xs) = mfeed (d_ff d) xs.
Proof. revert d; induction xs as [|x xs IH]; intros d; [reflexivity|]. cbn [dfeed mfeed]. rewrite IH, dstep_ff. reflexivity. Qed.

Lemma fmul_zero_inv v : inv_pos v -> fmul f0 v = f0.
Proof. intros (m & e & H & ->). reflexivity. Qed.

(** a forgotten moving average answers a zero input with (+0, +0) *)
Lemma mzero_output m len : wf m len -> mzero m -> inv_pos (m_inv m) -> snd (mavg_filter m f0) = (f0, f0).
Proof.
  intros Hwf Hz Hinv. pose proof (mzero_step m len Hwf Hz) as (Hw' & Hs').
  unfold mstep in Hw', Hs'. unfold mavg_filter in *. destruct Hwf as (Hl & Hp & _).
  destruct (m_win m) as [|a r] eqn:E; [cbn in Hl; lia|]. cbn [fst snd m_win m_sum] in *.
  rewrite Hs', (fmul_zero_inv _ Hinv). f_equal. rewrite Hw'. destruct (length (r ++ [f0])) eqn:El; [|reflexivity].
  rewrite app_length in El. cbn in El. lia.
Qed.

Lemma dzero_step d len : dwf d len -> dzero d -> inv_pos (m_inv (d_ff d)) -> dzero (dstep d f0).
Proof.
  intros [W1 W2] [Z1 Z2] Hinv. split.
  - rewrite dstep_ff. eapply mzero_step; eauto.
  - rewrite dstep_fb, (mzero_output _ _ W1 Z1 Hinv). cbn [fst]. eapply mzero_step; eauto.
Qed.

(** while the feed-forward average is forgotten, the feedback average is fed zeros *)
Lemma dfeed_fb_when_ff_zero k : forall d len, dwf d len -> mzero (d_ff d) -> inv_pos (m_inv (d_ff d)) ->
  d_fb (dfeed d (zeros k)) = mfeed (d_fb d) (zeros k) /\ mzero (d_ff (dfeed d (zeros k))).
Proof.
  induction k as [|k IH]; intros d len W Z Hinv; [split; [reflexivity|exact Z]|].
  change (zeros (S k)) with (f0 :: zeros k). cbn [dfeed mfeed]. destruct W as [W1 W2].
  assert (Hfb : d_fb (dstep d f0) = mstep (d_fb d) f0).
  { rewrite dstep_fb, (mzero_output _ _ W1 Z Hinv). reflexivity. }
  assert (Z' : mzero (d_ff (dstep d f0))) by (rewrite dstep_ff; eapply mzero_step; eauto).
  assert (Hinv' : inv_pos (m_inv (d_ff (dstep d f0)))) by (rewrite dstep_ff, mstep_inv; exact Hinv).
  destruct (IH (dstep d f0) len (dstep_wf d f0 len (conj W1 W2)) Z' Hinv') as [E1 E2].
  split; [rewrite E1, Hfb; reflexivity|exact E2].
Qed.

(** From ANY state of the filter -- whatever the history put into the windows and the sums, NaN and infinities included --
    four window lengths of zero input return both moving averages to the window and sum of a new filter. *)
Theorem dcb_forgets d len n : dwf d len -> inv_pos (m_inv (d_ff d)) -> (4 * len <= n)%nat ->
  dzero (dfeed d (zeros n)) /\ dwf (dfeed d (zeros n)) len.
Proof.
  intros W Hinv Hn. split; [|apply dfeed_wf, W].
  replace n with (2 * len + (n - 2 * len))%nat by lia.
  unfold zeros. rewrite repeat_app, dfeed_app. fold (zeros (2 * len)) (zeros (n - 2 * len)).
  set (d1 := dfeed d (zeros (2 * len))).
  assert (W1 : dwf d1 len) by (apply dfeed_wf, W).
  assert (Z1 : mzero (d_ff d1)).
  { unfold d1. rewrite dfeed_ff. apply (mavg_forgets _ len); [apply W|lia]. }
  assert (Hinv1 : inv_pos (m_inv (d_ff d1))) by (unfold d1; rewrite dfeed_ff, mfeed_inv; exact Hinv).
  destruct (dfeed_fb_when_ff_zero (n - 2 * len) d1 len W1 Z1 Hinv1) as [E1 E2].
  split; [exact E2|]. rewrite E1. apply (mavg_forgets _ len); [apply W1|lia].
Qed.

(** ... and from then on a zero input gives exactly +0 out, for ever *)
Theorem dcb_forgotten_is_silent d len : dwf d len -> dzero d -> inv_pos (m_inv (d_ff d)) -> inv_pos (m_inv (d_fb d)) ->
  snd (dcb_filter d f0) = f0 /\ dzero (dstep d f0).
Proof.
  intros [W1 W2] [Z1 Z2] I1 I2. split; [|apply (dzero_step d len); [split; assumption|split; assumption|exact I1]].
  unfold dcb_filter, dcb_filter_with.
  pose proof (mzero_output _ _ W1 Z1 I1) as O1.
  destruct (mavg_filter (d_ff d) f0) as [ff [ma0 sig]] eqn:E1. cbn [snd] in O1. injection O1 as -> ->.
  pose proof (mzero_output _ _ W2 Z2 I2) as O2.
  destruct (mavg_filter (d_fb d) f0) as [fb [ma1 z]] eqn:E2. cbn [snd] in O2. injection O2 as -> ->.
  cbn [snd]. destruct (Nat.ltb 1 (length (m_win ff))); reflexivity.
Qed.

(** the forgotten state IS the new filter's state, up to the position of the refresh counter *)
Theorem dcb_forgotten_is_new d len : dwf d len -> dzero d ->
  m_inv (d_ff d) = m_inv (mavg_new len) -> m_inv (d_fb d) = m_inv (mavg_new len) ->
  exists k1 k2, d = mkDcb (mkMavg (m_win (mavg_new len)) (m_inv (mavg_new len)) (m_sum (mavg_new len)) k1)
                          (mkMavg (m_win (mavg_new len)) (m_inv (mavg_new len)) (m_sum (mavg_new len)) k2).
Proof.
  intros [(L1 & _) (L2 & _)] [[Zw1 Zs1] [Zw2 Zs2]] I1 I2. exists (m_since (d_ff d)), (m_since (d_fb d)).
  destruct d as [[w1 i1 s1 c1] [w2 i2 s2 c2]]. cbn [d_ff d_fb m_win m_inv m_sum m_since] in *.
  rewrite L1 in Zw1. rewrite L2 in Zw2. rewrite Zw1, Zw2, Zs1, Zs2, I1, I2. reflexivity.
Qed.

(** [1 / len] is positive and finite for every window length up to 20 000 samples (a finite sweep of the binary32 division;
    0.38 symbols is 140 samples at 192 kHz) *)
Definition inv_posb (v : f32) : bool := match v with B754_finite false _ _ _ => true | _ => false end.
Lemma inv_sweep : forall_range (fun l => inv_posb (fdiv f1 (of_Z l))) 1 20000 = true.
Proof. vm_compute. reflexivity. Qed.

Lemma mavg_new_inv_pos len : (1 <= Z.of_nat len <= 20000)%Z -> inv_pos (m_inv (mavg_new len)).
Proof.
  intros H. pose proof (forall_range_spec _ _ _ inv_sweep (N.of_nat (len - 1))) as S. cbv beta in S.
  assert (E : (1 + Z.of_N (N.of_nat (len - 1)))%Z = Z.of_nat len) by lia. rewrite E in S.
  unfold mavg_new. cbn [m_inv]. destruct (fdiv f1 (of_Z (Z.of_nat len))) as [s|s| |s m e Hb]; try (discriminate S; lia).
  destruct s; [discriminate S; lia|]. exists m, e, Hb. reflexivity.
Qed.

Lemma dstep_fb_inv d x : m_inv (d_fb (dstep d x)) = m_inv (d_fb d).
Proof. rewrite dstep_fb. apply mstep_inv. Qed.

Lemma dfeed_fb_inv d xs : m_inv (d_fb (dfeed d xs)) = m_inv (d_fb d).
Proof. revert d; induction xs as [|x xs IH]; intros d; [reflexivity|]. cbn [dfeed]. rewrite IH. apply dstep_fb_inv. Qed.

Lemma dcb_new_wf len : (0 < len)%nat -> dwf (dcb_new len) len.
Proof. intros H. unfold dwf, wf, dcb_new, mavg_new. cbn [d_ff d_fb m_win m_since]. rewrite repeat_length. lia. Qed.

(** END TO END: a new DC blocker, ANY input history [xs] (any floats at all), then four window lengths of zero input:
    the filter is a new filter again (window, sum and scale of both moving averages; only the phase of the refresh counter,
    which no output of a forgotten filter depends on, may differ). *)
Theorem dcb_any_history_is_forgotten len xs n : (1 <= Z.of_nat len <= 20000)%Z -> (4 * len <= n)%nat ->
  let d := dfeed (dcb_new len) (xs ++ zeros n) in
  dzero d /\
  (exists k1 k2, d = mkDcb (mkMavg (m_win (mavg_new len)) (m_inv (mavg_new len)) (m_sum (mavg_new len)) k1)
                           (mkMavg (m_win (mavg_new len)) (m_inv (mavg_new len)) (m_sum (mavg_new len)) k2)) /\
  snd (dcb_filter d f0) = f0.
Proof.
  intros Hlen Hn d. unfold d. rewrite dfeed_app.
  set (d0 := dfeed (dcb_new len) xs).
  assert (W0 : dwf d0 len) by (apply dfeed_wf, dcb_new_wf; lia).
  assert (If : m_inv (d_ff d0) = m_inv (mavg_new len)) by (unfold d0; rewrite dfeed_ff, mfeed_inv; reflexivity).
  assert (Ib : m_inv (d_fb d0) = m_inv (mavg_new len)) by (unfold d0; rewrite dfeed_fb_inv; reflexivity).
  assert (P : inv_pos (m_inv (mavg_new len))) by (apply mavg_new_inv_pos, Hlen).
  destruct (dcb_forgets d0 len n W0) as [Z W]; [rewrite If; exact P|exact Hn|].
  assert (If' : m_inv (d_ff (dfeed d0 (zeros n))) = m_inv (mavg_new len)) by (rewrite dfeed_ff, mfeed_inv; exact If).
  assert (Ib' : m_inv (d_fb (dfeed d0 (zeros n))) = m_inv (mavg_new len)) by (rewrite dfeed_fb_inv; exact Ib).
  split; [exact Z|]. split; [apply dcb_forgotten_is_new; assumption|].
  apply (dcb_forgotten_is_silent _ len W Z); [rewrite If'|rewrite Ib']; exact P.
Qed.

(** ** before the repair: the running sum never forgets *)
Definition dstep_old (d : dcb) (x : f32) : dcb := fst (dcb_filter_old d x).
Fixpoint dfeed_old (d : dcb) (xs : list f32) : dcb := match xs with [] => d | x :: r => dfeed_old (dstep_old d x) r end.

(** the proofs inside finite floats are irrelevant: two states with the same raw contents are equal *)
Definition mview (m : mavg) := (map B2SF (m_win m), B2SF (m_inv m), B2SF (m_sum m), m_since m).
Definition dview (d : dcb) := (mview (d_ff d), mview (d_fb d)).

Lemma map_B2SF_inj (l1 l2 : list f32) : map B2SF l1 = map B2SF l2 -> l1 = l2.
Proof.
  revert l2; induction l1 as [|a l1 IH]; intros [|b l2] H; try discriminate; [reflexivity|].
  cbn in H. injection H as Ha Hl. f_equal; [apply B2SF_inj, Ha|apply IH, Hl].
Qed.

Lemma dview_inj d1 d2 : dview d1 = dview d2 -> d1 = d2.
Proof.
  destruct d1 as [[w1 i1 s1 c1] [w2 i2 s2 c2]], d2 as [[w1' i1' s1' c1'] [w2' i2' s2' c2']]. unfold dview, mview. cbn.
  intros H. injection H as A1 A2 A3 A4 A5 A6 A7 A8.
  apply map_B2SF_inj in A1, A5. apply B2SF_inj in A2, A3, A6, A7. subst. reflexivity.
Qed.

(** the witness: a 16-sample window (22 050 Hz), sixteen samples of 2^20, one sample of 2^20 + 1.5, then silence *)
Definition drift_input : list f32 := repeat (of_bits 1233125376) 16 ++ [of_bits 1233125388].
Definition drift_state : dcb := dfeed_old (dcb_new 16) (drift_input ++ zeros 64).

Lemma drift_state_is_a_fixed_point :
  dview (dstep_old drift_state f0) = dview drift_state /\ to_bits (snd (dcb_filter_old drift_state f0)) = 1029701632%Z
  /\ to_bits (m_sum (d_ff drift_state)) = 1056964608%Z.
Proof. vm_compute. repeat split; reflexivity. Qed.

(** Before the repair: after a 17-sample input with |x| <= 2^20 + 1.5 the filter answers silence with the constant 0.0547
    (bits 0x3d600000) FOR EVER -- its running sum keeps the residue 0.5 -- where a new filter answers 0. *)
Theorem dcb_old_never_forgets n :
  dfeed_old drift_state (zeros n) = drift_state /\
  to_bits (snd (dcb_filter_old (dfeed_old drift_state (zeros n)) f0)) = 1029701632%Z /\
  snd (dcb_filter_old (dcb_new 16) f0) = f0.
Proof.
  destruct drift_state_is_a_fixed_point as (Hfix & Hout & _). apply dview_inj in Hfix.
  assert (Hn : dfeed_old drift_state (zeros n) = drift_state).
  { induction n as [|n IH]; [reflexivity|]. cbn [zeros repeat dfeed_old]. rewrite Hfix. exact IH. }
  split; [exact Hn|]. rewrite Hn. split; [exact Hout|]. vm_compute. reflexivity.
Qed.

(** the repaired filter forgets the same input *)
Example dcb_forgets_the_witness :
  map to_bits (snd (dcb_run (dfeed (dcb_new 16) (drift_input ++ zeros 64)) (zeros 4))) = [0; 0; 0; 0]%Z.
Proof. vm_compute. reflexivity. Qed.

(** ** reset = new, for the two float components, after ANY history *)
Lemma mfeed_len m xs : length (m_win (mfeed m xs)) = length (m_win m).
Proof. revert m; induction xs as [|x xs IH]; intros m; [reflexivity|]. cbn [mfeed]. rewrite IH, mstep_win. apply push_length. Qed.

Lemma dstep_fb_len d x : length (m_win (d_fb (dstep d x))) = length (m_win (d_fb d)).
Proof. rewrite dstep_fb, mstep_win. apply push_length. Qed.

Lemma dfeed_fb_len d xs : length (m_win (d_fb (dfeed d xs))) = length (m_win (d_fb d)).
Proof. revert d; induction xs as [|x xs IH]; intros d; [reflexivity|]. cbn [dfeed]. rewrite IH. apply dstep_fb_len. Qed.

Theorem dcb_reset_is_new len xs : dcb_reset (dfeed (dcb_new len) xs) = dcb_new len.
Proof.
  unfold dcb_reset, mavg_reset. rewrite dfeed_ff, mfeed_len, mfeed_inv, dfeed_fb_len, dfeed_fb_inv.
  unfold dcb_new, mavg_new. cbn [d_ff d_fb m_win m_inv]. rewrite repeat_length. reflexivity.
Qed.

Lemma agc_run_cfg a ops : a_bw (fst (agc_run a ops)) = a_bw a /\ a_min (fst (agc_run a ops)) = a_min a /\ a_max (fst (agc_run a ops)) = a_max a.
Proof.
  revert a; induction ops as [|o ops IH]; intros a; [repeat split|]. destruct o as [x|l|]; cbn [agc_run].
  - destruct (agc_input a x) as [a1 y] eqn:E. specialize (IH a1). destruct (agc_run a1 ops) as [a2 ys]. cbn [fst] in *.
    unfold agc_input in E. injection E as <- _. exact IH.
  - apply (IH (agc_lock a l)).
  - apply (IH (agc_reset a)).
Qed.

Theorem agc_reset_is_new bw lo hi ops : agc_reset (fst (agc_run (agc_new bw lo hi) ops)) = agc_new bw lo hi.
Proof. destruct (agc_run_cfg (agc_new bw lo hi) ops) as (E1 & E2 & E3). unfold agc_reset. rewrite E1, E2, E3. reflexivity. Qed.
