(** Proofs about the binary32 model of the automatic gain control (agc.rs): for every sequence of finite samples in or
    around the PCM range the gain stays finite and inside its configured limits -- it never becomes NaN, never infinite,
    never escapes the clamp -- and every output is finite.  This is the "gain clamp" anchor of C10, for ALL inputs. *)
From Coq Require Import ZArith NArith Bool List Lia Reals Lra.
From Flocq Require Import Core BinarySingleNaN.
From Sameold Require Import Model.ConfigSizes Model.FloatDsp.
Import ListNotations.
Open Scope R_scope.

Local Notation fexp := (SpecFloat.fexp prec emax).
Local Notation rnd := (round radix2 fexp (round_mode mode_NE)).
Local Notation B2R := (@B2R prec emax).
Local Notation is_finite := (@is_finite prec emax).
Local Notation is_nan := (@is_nan prec emax).

(** ** order facts on non-NaN floats, from [SFcompare] *)
Lemma bcompare_some (x y : f32) : is_nan x = false -> is_nan y = false -> exists c, Bcompare x y = Some c.
Proof. destruct x, y; cbn; intros; try discriminate; eexists; reflexivity. Qed.

Lemma bcompare_refl (x : f32) : is_nan x = false -> Bcompare x x = Some Eq.
Proof.
  destruct x as [s|s| |s m e H]; cbn; intros Hn; try discriminate; try (destruct s; reflexivity).
  unfold Bcompare. cbn. rewrite Z.compare_refl, Pos.compare_cont_refl. destruct s; reflexivity.
Qed.

Lemma flt_cmp (x y : f32) : flt x y = match Bcompare x y with Some Lt => true | _ => false end.
Proof. reflexivity. Qed.
Lemma fle_cmp (x y : f32) : fle x y = match Bcompare x y with Some Lt => true | Some Eq => true | _ => false end.
Proof. unfold fle, Bleb, SpecFloat.SFleb, Bcompare. destruct (SpecFloat.SFcompare _ _) as [[| |]|]; reflexivity. Qed.

Lemma fle_refl (x : f32) : is_nan x = false -> fle x x = true.
Proof. intros H. rewrite fle_cmp, bcompare_refl by exact H. reflexivity. Qed.

Lemma fle_nn (x y : f32) : fle x y = true -> is_nan x = false /\ is_nan y = false.
Proof. destruct x, y; cbn; intros; try discriminate; split; reflexivity. Qed.

Lemma not_flt_fle (x y : f32) : is_nan x = false -> is_nan y = false -> flt x y = false -> fle y x = true.
Proof.
  intros Hx Hy. rewrite flt_cmp, fle_cmp, (Bcompare_swap _ _ x y).
  destruct (bcompare_some x y Hx Hy) as [c ->]. destruct c; cbn; intros; try reflexivity; discriminate.
Qed.

Lemma fle_not_flt (x y : f32) : fle x y = true -> flt y x = false.
Proof.
  rewrite flt_cmp, fle_cmp, (Bcompare_swap _ _ x y). destruct (Bcompare x y) as [[| |]|]; cbn; intros; try reflexivity; discriminate.
Qed.

Lemma flt_fle (x y : f32) : flt x y = true -> fle x y = true.
Proof. rewrite flt_cmp, fle_cmp. destruct (Bcompare x y) as [[| |]|]; intros; try reflexivity; discriminate. Qed.

(** [f32::clamp]: a non-NaN value lands between the limits *)
Lemma fclamp_range (x lo hi : f32) : is_nan x = false -> fle lo hi = true ->
  fle lo (fclamp x lo hi) = true /\ fle (fclamp x lo hi) hi = true.
Proof.
  intros Hx Hlh. destruct (fle_nn _ _ Hlh) as [Hlo Hhi]. unfold fclamp.
  destruct (flt x lo) eqn:E1.
  - rewrite (fle_not_flt _ _ Hlh). split; [apply fle_refl, Hlo|exact Hlh].
  - pose proof (not_flt_fle _ _ Hx Hlo E1) as Hlx.
    destruct (flt hi x) eqn:E2.
    + split; [exact Hlh|apply fle_refl, Hhi].
    + split; [exact Hlx|apply not_flt_fle; assumption].
Qed.

(** anything between two finite floats is finite *)
Lemma between_finite (lo r hi : f32) : is_finite lo = true -> is_finite hi = true ->
  fle lo r = true -> fle r hi = true -> is_finite r = true.
Proof. destruct r as [s|[|]| |s m e H]; destruct lo as [sl|sl| |sl ml el Hl]; destruct hi as [sh|sh| |sh mh eh Hh]; cbn; intros; try discriminate; reflexivity. Qed.

(** ** no operation of [Agc::input] overflows or produces a NaN *)
Lemma f1_constructor : exists H, f1 = B754_finite false 8388608 (-23) H.
Proof. unfold f1, of_Z, of_me. vm_compute. eexists. reflexivity. Qed.

Lemma B2R_f1 : B2R f1 = 1.
Proof.
  destruct f1_constructor as [H ->]. unfold BinarySingleNaN.B2R, F2R. cbn [Fnum Fexp cond_Zopp].
  change (bpow radix2 (-23)) with (/ IZR (Z.pow_pos 2 23)). change (Z.pow_pos 2 23) with 8388608%Z. field.
Qed.

Lemma finite_not_nan (x : f32) : is_finite x = true -> is_nan x = false.
Proof. destruct x; cbn; intros; try discriminate; reflexivity. Qed.

Lemma B2R_lt_emax (x : f32) : - bpow radix2 emax < B2R x < bpow radix2 emax.
Proof. pose proof (abs_B2R_lt_emax prec emax x) as H. apply Rabs_def2 in H. lra. Qed.

(** [1.0 - |out|] is finite, between [-|out|] and 1 *)
Lemma one_minus_abs_finite (y : f32) : is_finite y = true -> 0 <= B2R y ->
  is_finite (fsub f1 y) = true /\ - B2R y <= B2R (fsub f1 y) <= 1.
Proof.
  intros Fy Py. assert (F1 : is_finite f1 = true) by (destruct f1_constructor as [H ->]; reflexivity).
  pose proof (Bminus_correct prec emax Hprec Hmax mode_NE f1 y F1 Fy) as C. rewrite B2R_f1 in C.
  assert (Hhi : rnd (1 - B2R y) <= 1).
  { apply round_le_generic; [apply fexp_correct; reflexivity|apply valid_rnd_N| |lra].
    rewrite <- B2R_f1. apply generic_format_B2R. }
  assert (Hlo : - B2R y <= rnd (1 - B2R y)).
  { apply round_ge_generic; [apply fexp_correct; reflexivity|apply valid_rnd_N| |lra].
    apply generic_format_opp, generic_format_B2R. }
  rewrite Rlt_bool_true in C.
  - destruct C as (E & F & _). unfold fsub. rewrite E. split; [exact F|split; assumption].
  - pose proof (B2R_lt_emax y). apply Rabs_def1; [|]; pose proof (bpow_gt_0 radix2 emax); try lra.
    assert (1 < bpow radix2 emax) by (change 1 with (bpow radix2 0); apply bpow_lt; reflexivity). lra.
Qed.

(** [(1.0 or 0.0) * t] is finite and no larger than [t] *)
Lemma unit_times_finite (u t : f32) : (u = f1 \/ u = f0) -> is_finite t = true ->
  is_finite (fmul u t) = true /\ Rabs (B2R (fmul u t)) <= Rabs (B2R t).
Proof.
  intros [-> | ->] Ft.
  - assert (F1 : is_finite f1 = true) by (destruct f1_constructor as [H ->]; reflexivity).
    pose proof (Bmult_correct prec emax Hprec Hmax mode_NE f1 t) as C. rewrite B2R_f1, Rmult_1_l in C.
    rewrite round_generic in C; [|apply valid_rnd_N|apply generic_format_B2R].
    rewrite Rlt_bool_true in C by apply abs_B2R_lt_emax.
    destruct C as (E & F & _). unfold fmul. rewrite E, F, F1, Ft. split; [reflexivity|lra].
  - destruct t as [s|s| |s m e H]; try discriminate; (split; [reflexivity|]).
    + apply Rle_refl.
    + change (B2R (fmul f0 (B754_finite s m e H))) with 0. rewrite Rabs_R0. apply Rabs_pos.
Qed.

(** [p * bandwidth] with the bandwidth in [0, 1] is finite and no larger than [p] *)
Lemma times_bandwidth_finite (p bw : f32) : is_finite p = true -> is_finite bw = true -> 0 <= B2R bw <= 1 ->
  is_finite (fmul p bw) = true.
Proof.
  intros Fp Fb Hb. pose proof (Bmult_correct prec emax Hprec Hmax mode_NE p bw) as C.
  assert (Hle : Rabs (rnd (B2R p * B2R bw)) <= Rabs (B2R p)).
  { apply abs_round_le_generic; [apply fexp_correct; reflexivity|apply valid_rnd_N| |].
    - apply generic_format_abs, generic_format_B2R.
    - rewrite Rabs_mult. rewrite (Rabs_pos_eq (B2R bw)) by lra. pose proof (Rabs_pos (B2R p)). nra. }
  rewrite Rlt_bool_true in C by (pose proof (abs_B2R_lt_emax prec emax p); lra).
  destruct C as (_ & F & _). unfold fmul. rewrite F, Fp, Fb. reflexivity.
Qed.

(** the sum of two finite floats is never a NaN (it is finite or an infinity) *)
Lemma plus_finite_not_nan (a b : f32) : is_finite a = true -> is_finite b = true -> is_nan (fadd a b) = false.
Proof.
  intros Fa Fb. pose proof (Bplus_correct prec emax Hprec Hmax mode_NE a b Fa Fb) as C.
  destruct (Rlt_bool _ _).
  - destruct C as (_ & F & _). apply finite_not_nan, F.
  - destruct C as (E & _). unfold fadd. destruct (Bplus mode_NE a b); try reflexivity.
    cbn in E. discriminate E.
Qed.

(** the product of a sample in or around the PCM range and a gain of at most 2^100 does not overflow *)
Lemma sample_times_gain_finite (x g : f32) : is_finite x = true -> is_finite g = true ->
  Rabs (B2R x) <= bpow radix2 20 -> Rabs (B2R g) <= bpow radix2 100 -> is_finite (fmul x g) = true.
Proof.
  intros Fx Fg Hx Hg. pose proof (Bmult_correct prec emax Hprec Hmax mode_NE x g) as C.
  assert (Hle : Rabs (rnd (B2R x * B2R g)) <= bpow radix2 120).
  { apply abs_round_le_generic; [apply fexp_correct; reflexivity|apply valid_rnd_N| |].
    - apply generic_format_bpow. cbv. discriminate.
    - rewrite Rabs_mult. change 120%Z with (20 + 100)%Z. rewrite bpow_plus.
      pose proof (Rabs_pos (B2R x)). pose proof (Rabs_pos (B2R g)). pose proof (bpow_gt_0 radix2 20). nra. }
  rewrite Rlt_bool_true in C.
  - destruct C as (_ & F & _). unfold fmul. rewrite F, Fx, Fg. reflexivity.
  - apply Rle_lt_trans with (1 := Hle). apply bpow_lt. reflexivity.
Qed.

(** ** the invariant *)
Record cfg_ok (a : agc) : Prop := {
  c_bw_fin : is_finite (a_bw a) = true;
  c_bw_rng : 0 <= B2R (a_bw a) <= 1;
  c_min_fin : is_finite (a_min a) = true;
  c_max_fin : is_finite (a_max a) = true;
  c_le : fle (a_min a) (a_max a) = true }.

Definition gain_ok (a : agc) : Prop :=
  is_finite (a_gain a) = true /\ fle (a_min a) (a_gain a) = true /\ fle (a_gain a) (a_max a) = true.

(** one sample: if the multiplication [input * gain] does not overflow, the new gain is finite and inside the limits,
    locked or not, whatever the bandwidth in [0, 1] (0 included) *)
Theorem agc_input_keeps_the_gain_sane (a : agc) (x : f32) :
  cfg_ok a -> gain_ok a -> is_finite (fmul x (a_gain a)) = true ->
  gain_ok (fst (agc_input a x)) /\ cfg_ok (fst (agc_input a x)) /\ is_finite (snd (agc_input a x)) = true.
Proof.
  intros C (Fg & _ & _) Fo. unfold agc_input. cbn [fst snd].
  set (out := fmul x (a_gain a)) in *.
  set (u := if a_locked a then f0 else f1).
  assert (Hu : u = f1 \/ u = f0) by (unfold u; destruct (a_locked a); auto).
  assert (Fabs : is_finite (fabs out) = true) by (unfold fabs; rewrite is_finite_Babs; exact Fo).
  assert (Pabs : 0 <= B2R (fabs out)) by (unfold fabs; rewrite B2R_Babs; apply Rabs_pos).
  destruct (one_minus_abs_finite (fabs out) Fabs Pabs) as (Ft & _).
  destruct (unit_times_finite u _ Hu Ft) as (Fp & _).
  pose proof (times_bandwidth_finite _ _ Fp (c_bw_fin a C) (c_bw_rng a C)) as Fd.
  pose proof (plus_finite_not_nan _ _ Fg Fd) as Ng.
  destruct (fclamp_range _ _ _ Ng (c_le a C)) as (L1 & L2).
  split; [|split; [destruct C; constructor; assumption|exact Fo]].
  unfold gain_ok. cbn [a_gain a_min a_max]. split; [|split; assumption].
  eapply between_finite; [apply (c_min_fin a C)|apply (c_max_fin a C)|exact L1|exact L2].
Qed.

(** ** every run *)
Definition sample_ok (x : f32) : Prop := is_finite x = true /\ Rabs (B2R x) <= bpow radix2 20.
Definition op_ok (o : agc_op) : Prop := match o with AIn x => sample_ok x | _ => True end.

Lemma gain_bounded (a : agc) : cfg_ok a -> gain_ok a -> 0 <= B2R (a_min a) -> B2R (a_max a) <= bpow radix2 100 ->
  Rabs (B2R (a_gain a)) <= bpow radix2 100.
Proof.
  intros C (Fg & L1 & L2) Hmin Hmax. unfold fle in L1, L2.
  rewrite (Bleb_correct _ _ _ _ (c_min_fin a C) Fg) in L1. rewrite (Bleb_correct _ _ _ _ Fg (c_max_fin a C)) in L2.
  destruct (Rle_bool_spec (B2R (a_min a)) (B2R (a_gain a))) as [R1|R1]; [|discriminate L1].
  destruct (Rle_bool_spec (B2R (a_gain a)) (B2R (a_max a))) as [R2|R2]; [|discriminate L2].
  rewrite Rabs_pos_eq; lra.
Qed.

Lemma fminnum_spec (a b : f32) : is_nan a = false -> is_nan b = false -> fminnum a b = if flt b a then b else a.
Proof. destruct a, b; intros; try discriminate; reflexivity. Qed.
Lemma fmaxnum_spec (a b : f32) : is_nan a = false -> is_nan b = false -> fmaxnum a b = if flt a b then b else a.
Proof. destruct a, b; intros; try discriminate; reflexivity. Qed.

(** [reset()] puts the gain at [max(min_gain, min(1.0, max_gain))], which is inside the limits *)
Lemma initial_gain_ok (lo hi : f32) : is_finite lo = true -> is_finite hi = true -> fle lo hi = true ->
  let g := agc_initial_gain lo hi in is_finite g = true /\ fle lo g = true /\ fle g hi = true.
Proof.
  intros Fl Fh Hle g. unfold g, agc_initial_gain.
  assert (F1 : is_finite f1 = true) by (destruct f1_constructor as [H ->]; reflexivity).
  pose proof (finite_not_nan _ Fl) as Nl. pose proof (finite_not_nan _ Fh) as Nh. pose proof (finite_not_nan _ F1) as N1.
  set (m := fminnum f1 hi).
  assert (Hm : (m = f1 /\ fle f1 hi = true) \/ (m = hi /\ flt hi f1 = true)).
  { unfold m. rewrite (fminnum_spec _ _ N1 Nh). destruct (flt hi f1) eqn:El; [right; split; reflexivity|left; split; [reflexivity|]].
    apply not_flt_fle; assumption. }
  assert (Fm : is_finite m = true) by (destruct Hm as [[-> _]|[-> _]]; assumption).
  assert (Lm : fle m hi = true) by (destruct Hm as [[-> H]|[-> _]]; [exact H|apply fle_refl, Nh]).
  pose proof (finite_not_nan _ Fm) as Nm.
  assert (Hg : (fmaxnum lo m = m /\ flt lo m = true) \/ (fmaxnum lo m = lo /\ flt lo m = false)).
  { rewrite (fmaxnum_spec _ _ Nl Nm). destruct (flt lo m); [left|right]; split; reflexivity. }
  destruct Hg as [[-> Hlt]|[-> Hnlt]].
  - split; [exact Fm|split; [apply flt_fle, Hlt|exact Lm]].
  - split; [exact Fl|split; [apply fle_refl, Nl|exact Hle]].
Qed.

(** ANY sequence of operations (samples that are finite and at most 2^20 in magnitude, lock, unlock, reset), a gain range
    with 0 <= min <= max <= 2^100 and a bandwidth in [0, 1]: after every operation the gain is finite and within its limits,
    and every output sample is finite.  No NaN, no infinity, no escape from the clamp -- for every input, not a sample. *)
Theorem agc_never_leaves_its_limits (ops : list agc_op) : forall a,
  cfg_ok a -> gain_ok a -> 0 <= B2R (a_min a) -> B2R (a_max a) <= bpow radix2 100 -> Forall op_ok ops ->
  gain_ok (fst (agc_run a ops)) /\ Forall (fun y => is_finite y = true) (snd (agc_run a ops)).
Proof.
  induction ops as [|o ops IH]; intros a C G Hmin Hmax Hops; [split; [exact G|constructor]|].
  inversion Hops as [|o' ops' Ho Hrest]; subst. destruct o as [x|l|].
  - cbn [agc_run]. destruct Ho as (Fx & Bx).
    assert (Fo : is_finite (fmul x (a_gain a)) = true).
    { apply sample_times_gain_finite; [exact Fx|apply G|exact Bx|apply gain_bounded; assumption]. }
    destruct (agc_input_keeps_the_gain_sane a x C G Fo) as (G' & C' & Fy).
    destruct (agc_input a x) as [a1 y] eqn:E. cbn [fst snd] in *.
    assert (Emin : a_min a1 = a_min a) by (unfold agc_input in E; injection E as <- _; reflexivity).
    assert (Emax : a_max a1 = a_max a) by (unfold agc_input in E; injection E as <- _; reflexivity).
    destruct (IH a1 C' G') as (G2 & F2); [rewrite Emin; exact Hmin|rewrite Emax; exact Hmax|exact Hrest|].
    destruct (agc_run a1 ops) as [a2 ys]. cbn [fst snd] in *. split; [exact G2|constructor; assumption].
  - cbn [agc_run]. apply IH; [destruct C; constructor; assumption|exact G|exact Hmin|exact Hmax|exact Hrest].
  - cbn [agc_run]. apply IH; [destruct C; constructor; assumption| |exact Hmin|exact Hmax|exact Hrest].
    unfold gain_ok, agc_reset. cbn [a_gain a_min a_max]. apply initial_gain_ok; [apply C|apply C|apply C].
Qed.

(** a new AGC with the builder's default limits (0 .. 1e6) and with the limits recommended for 16-bit input
    (1/32767 .. 1/200) meets the premises *)
Definition agc_default : agc := agc_new (of_bits 1008981770) (of_bits 0) (of_bits 1232348160).          (* 0.01, 0.0, 1e6 *)
Definition agc_pcm16 : agc := agc_new (of_bits 1008981770) (of_bits 939524352) (of_bits 1000593162).    (* 0.01, 2^-15, 0.005 *)

(** ** the same theorem with premises a machine can check ([vm_compute]) *)
Definition two20 : f32 := @B754_finite prec emax false 8388608 (-3) eq_refl.
Definition two100 : f32 := @B754_finite prec emax false 8388608 77 eq_refl.

Lemma B2R_two20 : B2R two20 = bpow radix2 20.
Proof. unfold two20, BinarySingleNaN.B2R, F2R. cbn [Fnum Fexp cond_Zopp]. change (IZR 8388608) with (bpow radix2 23). rewrite <- bpow_plus. reflexivity. Qed.
Lemma B2R_two100 : B2R two100 = bpow radix2 100.
Proof. unfold two100, BinarySingleNaN.B2R, F2R. cbn [Fnum Fexp cond_Zopp]. change (IZR 8388608) with (bpow radix2 23). rewrite <- bpow_plus. reflexivity. Qed.

Lemma fle_real (x y : f32) : is_finite x = true -> is_finite y = true -> fle x y = true -> B2R x <= B2R y.
Proof. intros Fx Fy H. unfold fle in H. rewrite (Bleb_correct _ _ _ _ Fx Fy) in H. destruct (Rle_bool_spec (B2R x) (B2R y)); [assumption|discriminate]. Qed.

Definition agc_premises (a : agc) : bool :=
  is_finite (a_bw a) && fle f0 (a_bw a) && fle (a_bw a) f1 &&
  is_finite (a_min a) && is_finite (a_max a) && fle (a_min a) (a_max a) && fle f0 (a_min a) && fle (a_max a) two100 &&
  is_finite (a_gain a) && fle (a_min a) (a_gain a) && fle (a_gain a) (a_max a).
Definition sample_okb (x : f32) : bool := is_finite x && fle (fabs x) two20.
Definition op_okb (o : agc_op) : bool := match o with AIn x => sample_okb x | _ => true end.
Definition gain_okb (a : agc) : bool := is_finite (a_gain a) && fle (a_min a) (a_gain a) && fle (a_gain a) (a_max a).

Theorem agc_never_leaves_its_limits_bool (a : agc) (ops : list agc_op) :
  agc_premises a = true -> forallb op_okb ops = true ->
  gain_okb (fst (agc_run a ops)) = true /\ forallb (fun y => is_finite y) (snd (agc_run a ops)) = true.
Proof.
  unfold agc_premises. rewrite !andb_true_iff. intros ((((((((((P1 & P2) & P3) & P4) & P5) & P6) & P7) & P8) & P9) & P10) & P11) Hops.
  assert (F0 : is_finite f0 = true) by reflexivity.
  assert (F1 : is_finite f1 = true) by (destruct f1_constructor as [H ->]; reflexivity).
  assert (C : cfg_ok a).
  { constructor; try assumption. pose proof (fle_real _ _ F0 P1 P2) as A. pose proof (fle_real _ _ P1 F1 P3) as B.
    rewrite B2R_f1 in B. change (B2R f0) with 0 in A. lra. }
  assert (G : gain_ok a) by (split; [|split]; assumption).
  assert (Hmin : 0 <= B2R (a_min a)) by (pose proof (fle_real _ _ F0 P4 P7) as A; exact A).
  assert (Hmax : B2R (a_max a) <= bpow radix2 100) by (rewrite <- B2R_two100; apply fle_real; [assumption|reflexivity|assumption]).
  assert (Hall : Forall op_ok ops).
  { apply Forall_forall. intros o Ho. rewrite forallb_forall in Hops. specialize (Hops o Ho). destruct o as [x| |]; cbn; [|exact I|exact I].
    unfold op_okb, sample_okb in Hops. apply andb_true_iff in Hops. destruct Hops as [Fx Bx]. split; [exact Fx|].
    rewrite <- B2R_two20. unfold fabs in Bx. rewrite <- B2R_Babs. apply fle_real; [rewrite is_finite_Babs; exact Fx|reflexivity|exact Bx]. }
  destruct (agc_never_leaves_its_limits ops a C G Hmin Hmax Hall) as ((G1 & G2 & G3) & Fy).
  split; [unfold gain_okb; rewrite G1, G2, G3; reflexivity|].
  apply forallb_forall. intros y Hy. rewrite Forall_forall in Fy. apply Fy, Hy.
Qed.

(** both the builder's default AGC and the one recommended for 16-bit input meet the premises; so does a hostile sample *)
Example agc_premises_hold :
  agc_premises agc_default = true /\ agc_premises agc_pcm16 = true /\
  sample_okb (of_bits 1233125376) = true /\ sample_okb (of_bits 3380609024) = true.      (* 2^20, -2^20 *)
Proof. vm_compute. repeat split; reflexivity. Qed.

(** ... and the premise on the samples cannot simply be dropped: with a (permitted) maximum gain of 2^127 and the loop
    bandwidth 0 -- "prevents the filter from updating at all" -- ONE sample of 4.0 turns the gain into a NaN for ever *)
Example agc_nan_outside_the_premises :
  let a := mkAgc f0 f0 (of_bits 2130706432) false (of_bits 2130706432) in
  to_bits (a_gain (fst (agc_input a (of_bits 1082130432)))) = 2143289344%Z.
Proof. vm_compute. reflexivity. Qed.
