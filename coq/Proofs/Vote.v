(** Bit-level facts about [bit_vote_detect] / [bit_vote_correct]. *)
From Sameold Require Import Base.Bytes Model.Header Model.Combiner.
Arguments N.add : simpl never.
Arguments N.sub : simpl never.
Arguments N.mul : simpl never.

Definition maj (a b c : bool) : bool := (a && b) || (b && c) || (a && c).

(** sum over the eight bit positions of a byte *)
Definition bitsum8 (f : N -> bool) : N :=
  b2n (f 0) + b2n (f 1) + b2n (f 2) + b2n (f 3) + b2n (f 4) + b2n (f 5) + b2n (f 6) + b2n (f 7).

Definition unanimous (a b c : N) (i : N) : bool :=
  Bool.eqb (N.testbit a i) (N.testbit b i) && Bool.eqb (N.testbit b i) (N.testbit c i).

(** number of bit positions (of 8) on which the three bytes are not unanimous *)
Definition disagreements3 (a b c : N) : N := bitsum8 (fun i => negb (unanimous a b c i)).
(** number of bit positions on which two bytes differ *)
Definition disagreements2 (a b : N) : N := bitsum8 (fun i => xorb (N.testbit a i) (N.testbit b i)).

Lemma testbit_255 i : N.testbit 255 i = (i <? 8).
Proof.
  destruct (N.ltb_spec i 8) as [H|H].
  - assert (i = 0 \/ i = 1 \/ i = 2 \/ i = 3 \/ i = 4 \/ i = 5 \/ i = 6 \/ i = 7) as D by lia.
    repeat (destruct D as [D|D]; [subst; reflexivity|]). subst; reflexivity.
  - apply N.bits_above_log2. change (N.log2 255) with 7. lia.
Qed.

Lemma byte_high a i : a < 256 -> 8 <= i -> N.testbit a i = false.
Proof.
  intros Ha Hi. destruct (N.eq_dec a 0) as [->|Hz]; [apply N.bits_0|].
  apply N.bits_above_log2.
  assert (N.log2 a < 8); [|lia].
  apply N.log2_lt_pow2; [lia|]. change (2 ^ 8) with 256. exact Ha.
Qed.

Lemma lt256_of_high a : (forall i, 8 <= i -> N.testbit a i = false) -> a < 256.
Proof.
  intros H. destruct (N.eq_dec a 0) as [->|Hz]; [lia|].
  destruct (N.lt_ge_cases a 256) as [|Hge]; [assumption|exfalso].
  assert (8 <= N.log2 a) as Hl.
  { change 8 with (N.log2 256). apply N.log2_le_mono. exact Hge. }
  specialize (H _ Hl). rewrite N.bit_log2 in H by exact Hz. discriminate.
Qed.

Lemma not8_spec a i : N.testbit (not8 a) i = xorb (N.testbit a i) (i <? 8).
Proof. unfold not8. rewrite N.lxor_spec, testbit_255. reflexivity. Qed.

Lemma land_lt256 a b : b < 256 -> N.land a b < 256.
Proof.
  intros Hb. apply lt256_of_high. intros i Hi.
  rewrite N.land_spec, (byte_high b i Hb Hi). apply andb_false_r.
Qed.

Lemma lor_lt256 a b : a < 256 -> b < 256 -> N.lor a b < 256.
Proof.
  intros Ha Hb. apply lt256_of_high. intros i Hi.
  rewrite N.lor_spec, (byte_high a i Ha Hi), (byte_high b i Hb Hi). reflexivity.
Qed.

Lemma lxor_lt256 a b : a < 256 -> b < 256 -> N.lxor a b < 256.
Proof.
  intros Ha Hb. apply lt256_of_high. intros i Hi.
  rewrite N.lxor_spec, (byte_high a i Ha Hi), (byte_high b i Hb Hi). reflexivity.
Qed.

Lemma not8_lt256 a : a < 256 -> not8 a < 256.
Proof. intros Ha. apply lxor_lt256; [exact Ha|lia]. Qed.

Lemma land_255 a : a < 256 -> N.land a 255 = a.
Proof.
  intros Ha. apply N.bits_inj. intros i. rewrite N.land_spec, testbit_255.
  destruct (N.ltb_spec i 8) as [H|H]; [apply andb_true_r|].
  rewrite (byte_high a i Ha H). reflexivity.
Qed.

(** * popcount as a sum of bits (finite sweep over the 256 byte values) *)
Definition all_bytes_list : list N := map N.of_nat (seq 0 256).

Lemma in_all_bytes_list a : a < 256 -> In a all_bytes_list.
Proof.
  intros Ha. unfold all_bytes_list. apply in_map_iff. exists (N.to_nat a).
  split; [apply N2Nat.id|]. apply in_seq. lia.
Qed.

Lemma popcount_bitsum8 a : a < 256 -> popcount a = bitsum8 (N.testbit a).
Proof.
  intros Ha.
  assert (forallb (fun x => popcount x =? bitsum8 (N.testbit x)) all_bytes_list = true) as S
    by (vm_compute; reflexivity).
  rewrite forallb_forall in S. apply N.eqb_eq. apply S. apply in_all_bytes_list. exact Ha.
Qed.

Lemma bitsum8_ext f g : (forall i, i < 8 -> f i = g i) -> bitsum8 f = bitsum8 g.
Proof.
  intros H. unfold bitsum8.
  rewrite (H 0), (H 1), (H 2), (H 3), (H 4), (H 5), (H 6), (H 7) by lia. reflexivity.
Qed.

Lemma bitsum8_compl f : 8 - bitsum8 f = bitsum8 (fun i => negb (f i)).
Proof.
  unfold bitsum8.
  destruct (f 0), (f 1), (f 2), (f 3), (f 4), (f 5), (f 6), (f 7); reflexivity.
Qed.

Lemma bitsum8_le f : bitsum8 f <= 8.
Proof.
  unfold bitsum8.
  destruct (f 0), (f 1), (f 2), (f 3), (f 4), (f 5), (f 6), (f 7); cbv; discriminate.
Qed.

(** * Two-of-three voting *)
Lemma vote3_testbit a b c i :
  a < 256 -> b < 256 -> c < 256 ->
  N.testbit (fst (bit_vote_correct a b c)) i = maj (N.testbit a i) (N.testbit b i) (N.testbit c i).
Proof.
  intros Ha Hb Hc. unfold bit_vote_correct, maj. cbn [fst].
  rewrite !N.lor_spec, !N.land_spec, !not8_spec, !N.lxor_spec.
  destruct (N.ltb_spec i 8) as [H|H].
  - destruct (N.testbit a i), (N.testbit b i), (N.testbit c i); reflexivity.
  - rewrite (byte_high a i Ha H), (byte_high b i Hb H), (byte_high c i Hc H). reflexivity.
Qed.

Lemma vote3_lt256 a b c :
  a < 256 -> b < 256 -> c < 256 -> fst (bit_vote_correct a b c) < 256.
Proof.
  intros Ha Hb Hc. unfold bit_vote_correct. cbn [fst].
  repeat apply lor_lt256; apply land_lt256; apply not8_lt256; apply lxor_lt256; assumption.
Qed.

Lemma vote3_errs a b c :
  a < 256 -> b < 256 -> c < 256 ->
  snd (bit_vote_correct a b c) = disagreements3 a b c.
Proof.
  intros Ha Hb Hc. unfold bit_vote_correct, disagreements3, count_zeros8. cbn [snd].
  rewrite popcount_bitsum8.
  2:{ repeat apply land_lt256. apply not8_lt256. apply lxor_lt256; assumption. }
  rewrite bitsum8_compl. apply bitsum8_ext. intros i Hi.
  rewrite !N.land_spec, !not8_spec, !N.lxor_spec. unfold unanimous.
  apply N.ltb_lt in Hi. rewrite Hi.
  destruct (N.testbit a i), (N.testbit b i), (N.testbit c i); reflexivity.
Qed.

(** the majority of two equal bytes and anything is that byte *)
Lemma maj_same_l x y : maj x x y = x. Proof. destruct x, y; reflexivity. Qed.
Lemma maj_same_m x y : maj x y x = x. Proof. destruct x, y; reflexivity. Qed.
Lemma maj_same_r x y : maj y x x = x. Proof. destruct x, y; reflexivity. Qed.

Lemma vote3_two_equal_value a x :
  a < 256 -> x < 256 ->
  fst (bit_vote_correct a a x) = a /\ fst (bit_vote_correct a x a) = a /\ fst (bit_vote_correct x a a) = a.
Proof.
  intros Ha Hx. repeat split; apply N.bits_inj; intros i; rewrite vote3_testbit by assumption.
  - apply maj_same_l. - apply maj_same_m. - apply maj_same_r.
Qed.

Lemma popcount_lxor a b : a < 256 -> b < 256 -> popcount (N.lxor a b) = disagreements2 a b.
Proof.
  intros Ha Hb. rewrite popcount_bitsum8 by (apply lxor_lt256; assumption).
  apply bitsum8_ext. intros i _. apply N.lxor_spec.
Qed.

Lemma vote3_two_equal_errs a x :
  a < 256 -> x < 256 ->
  snd (bit_vote_correct a a x) = disagreements2 a x /\
  snd (bit_vote_correct a x a) = disagreements2 a x /\
  snd (bit_vote_correct x a a) = disagreements2 a x.
Proof.
  intros Ha Hx. repeat split; rewrite vote3_errs by assumption;
    apply bitsum8_ext; intros i _; unfold unanimous;
    destruct (N.testbit a i), (N.testbit x i); reflexivity.
Qed.

(** * Two-of-two voting *)
Lemma vote2_spec a b :
  a < 256 -> b < 256 ->
  bit_vote_detect a b = (if a =? b then a else 0, disagreements2 a b).
Proof.
  intros Ha Hb. unfold bit_vote_detect. rewrite popcount_lxor by assumption. f_equal.
  destruct (N.eqb_spec a b) as [->|Hne].
  - rewrite N.lxor_nilpotent. cbn [N.eqb negb b2n]. change (255 * 0) with 0.
    change (not8 0) with 255. apply land_255. exact Hb.
  - destruct (N.eqb_spec (N.lxor a b) 0) as [E|E].
    + apply N.lxor_eq in E. contradiction.
    + cbn [negb b2n]. change (255 * 1) with 255. change (not8 255) with 0. apply N.land_0_r.
Qed.

Lemma disagreements2_same a : disagreements2 a a = 0.
Proof.
  unfold disagreements2, bitsum8. rewrite !xorb_nilpotent. reflexivity.
Qed.

Lemma disagreements2_le a b : disagreements2 a b <= 8.
Proof. apply bitsum8_le. Qed.
Lemma disagreements3_le a b c : disagreements3 a b c <= 8.
Proof. apply bitsum8_le. Qed.

(** cross-check: exhaustive sweep of all 2^16 pairs against the bit-level spec *)
Lemma vote2_sweep :
  forallb (fun a => forallb (fun b =>
     let r := bit_vote_detect a b in
     (fst r =? (if a =? b then a else 0)) && (snd r =? disagreements2 a b))
     all_bytes_list) all_bytes_list = true.
Proof. vm_compute. reflexivity. Qed.
