(** C13: link events follow the carrier lifecycle, for every item stream.
    no carrier -> searching -> {reading, no carrier};  reading -> burst;  burst -> no carrier;
    plus the one extra edge burst -> searching (an immediate re-synchronisation on the symbol after a
    burst ended: known finding F7).  No other edge can occur. *)
From Sameold Require Import Base.Bytes Model.Header Model.Combiner Model.Framer Model.Squelch
  Model.Assembler Model.Receiver Proofs.EvidenceP.
From Coq Require Import ZifyBool ZifyN ZifyNat.
Arguments N.add : simpl never.
Arguments N.leb : simpl never.
Arguments N.ltb : simpl never.

Inductive lkind := Kn | Ks | Kr | KB.
Definition kind_of (l : link) : lkind :=
  match l with LNoCarrier => Kn | LSearching => Ks | LReading => Kr | LBurst _ => KB end.

(** edges between the link states of two CONSECUTIVE symbols (self loops produce no event) *)
Definition edge_ok (a b : lkind) : bool :=
  match a, b with
  | Kn, Kn | Kn, Ks | Ks, Ks | Ks, Kr | Ks, Kn | Kr, Kr | Kr, KB | KB, Kn => true
  | KB, Ks => true        (* F7 *)
  | _, _ => false
  end.

(** the framer state that goes with the link state just returned *)
Definition shape (k : lkind) (f : fstate) : Prop :=
  match k with
  | Kn | KB => f = FIdle
  | Ks => exists w c, f = FPrefixSearch w c
  | Kr => exists m i, f = FDataRead m i
  end.

(** while the framer reads a burst the squelch is locked: it cannot re-synchronise *)
Definition locked_while_reading (s : sq) (f : fstate) : Prop :=
  match f with FDataRead _ _ => sq_lock s = true | _ => True end.

Lemma sq_input_lock me s bit po pc o s' :
  sq_input me s bit po pc = (o, s') ->
  (forall hb, o = SqReady true hb -> sq_lock s = false)
  /\ (o <> SqDropped -> sq_lock s' = sq_lock s).
Proof.
  unfold sq_input.
  destruct (N.min (sq_fill s + 1) HISTORY_SYMBOLS <? HISTORY_SYMBOLS).
  - intros E; inversion E; subst. split; [intros; discriminate|reflexivity].
  - destruct (negb (sq_lock s) && (num_bit_errors SYNC_WORD _ <=? me) && po) eqn:Es.
    + assert (sq_lock s = false) as Hl.
      { destruct (sq_lock s); [cbn in Es; discriminate|reflexivity]. }
      destruct (sq_clock s) as [[|p]|]; intros E; inversion E; subst; (split; [intros; exact Hl|reflexivity]).
    + destruct (sq_clock s) as [c|].
      * destruct (push_wrapping (sq_phist s) pc) as [|front ph].
        -- intros E; inversion E; subst. split; [intros; discriminate|reflexivity].
        -- destruct (negb front).
           ++ intros E; inversion E; subst. split; [intros; discriminate|intros H; contradiction].
           ++ destruct c as [|p]; intros E; inversion E; subst; (split; [intros; discriminate|reflexivity]).
      * intros E; inversion E; subst. split; [intros; discriminate|reflexivity].
Qed.

Lemma framer_end_shape f k : shape k f ->
  (k = Kr -> exists b, framer_end f = (LBurst b, FIdle))
  /\ (k <> Kr -> framer_end f = (LNoCarrier, FIdle)).
Proof.
  intros H. destruct k; cbn [shape] in H.
  - subst. split; [discriminate|reflexivity].
  - destruct H as (w & c & ->). split; [discriminate|reflexivity].
  - destruct H as (m & i & ->). split; [intros _; eexists; reflexivity|intros X; contradiction].
  - subst. split; [discriminate|reflexivity].
Qed.

(** one symbol: the edge is allowed and the invariants carry over *)
Lemma linklayer_lifecycle c s f t l s' f' u k :
  max_prefix_bit_errors (fc c) <= 7 ->
  shape k f -> locked_while_reading s f ->
  linklayer_symbol c s f t = (l, s', f', u) ->
  edge_ok k (kind_of l) = true /\ shape (kind_of l) f' /\ locked_while_reading s' f'.
Proof.
  intros Hb Hs Hl. unfold linklayer_symbol.
  destruct (sq_input (preamble_max_errors c) s (t_bit t) (t_popen t) (t_pclose t)) as [o s1] eqn:E.
  destruct (sq_input_lock _ _ _ _ _ _ _ E) as [Hres Hkeep].
  destruct (framer_end_shape f k Hs) as [Er En].
  assert (forall sx, (let '(lx, fx) := framer_end f in (lx, sx, fx, false)) = (l, s', f', u) ->
            edge_ok k (kind_of l) = true /\ shape (kind_of l) f' /\ locked_while_reading s' f') as Hend.
  { intros sx. destruct k.
    - rewrite En by discriminate. intros X; inversion X; subst. repeat split.
    - rewrite En by discriminate. intros X; inversion X; subst. repeat split.
    - destruct (Er eq_refl) as (b & ->). intros X; inversion X; subst. repeat split.
    - rewrite En by discriminate. intros X; inversion X; subst. repeat split. }
  destruct o as [| | |rs hb|]; try (apply Hend).
  - (* SqReading: the framer is not called *)
    intros X; inversion X; subst. destruct k; cbn [shape] in Hs.
    + subst. repeat split.
    + destruct Hs as (w & c0 & ->). cbn [framer_state kind_of edge_ok shape locked_while_reading]. repeat split. eexists _, _; reflexivity.
    + destruct Hs as (m & i & ->). cbn [framer_state kind_of edge_ok shape locked_while_reading]. split; [reflexivity|]. split; [eexists _, _; reflexivity|].
      cbn [locked_while_reading] in Hl. rewrite Hkeep by discriminate. exact Hl.
    + subst. repeat split.
  - (* SqReady: a byte goes to the framer *)
    destruct rs.
    + (* (re)synchronisation: only when not locked, hence never while a burst is read *)
      pose proof (Hres hb eq_refl) as Hunl.
      assert (k <> Kr) as Hnr.
      { intros ->. destruct Hs as (m & i & ->). cbn [locked_while_reading] in Hl. congruence. }
      unfold framer_input. rewrite (En Hnr). cbn [fst snd].
      cbn [framer_step ZERO_WORD tl app snd]. pose proof (restart_word_far (t_eq t)) as Hfar.
      assert ((prefix_errors [0; 0; 0; t_eq t] <=? max_prefix_bit_errors (fc c)) = false) as -> by lia.
      change (PREFIX_SEARCH_LEN <? 0 + 1) with false. cbn iota.
      intros X; inversion X; subst. cbn [kind_of shape locked_while_reading].
      split; [destruct k; try reflexivity; contradiction|]. split; [eexists _, _; reflexivity|exact I].
    + unfold framer_input. destruct k; cbn [shape] in Hs.
      * subst. cbn [framer_step]. intros X; inversion X; subst. repeat split.
      * destruct Hs as (w & c0 & ->). cbn [framer_step].
        destruct (prefix_errors (tl w ++ [t_eq t]) <=? max_prefix_bit_errors (fc c)).
        -- cbn [framer_state]. intros X; inversion X; subst. cbn [kind_of edge_ok shape locked_while_reading sq_set_lock sq_lock].
           split; [reflexivity|]. split; [eexists _, _; reflexivity|reflexivity].
        -- destruct (PREFIX_SEARCH_LEN <? c0 + 1); cbn [framer_state]; intros X; inversion X; subst;
             cbn [kind_of edge_ok shape locked_while_reading]; repeat split. eexists _, _; reflexivity.
      * destruct Hs as (m & i & ->). cbn [framer_step].
        destruct (max_invalid_bytes (fc c) <? i + b2n (negb (is_allowed_byte (t_eq t)))).
        -- cbn [framer_end]. intros X; inversion X; subst. repeat split.
        -- destruct (MAX_BURST_LENGTH <=? length (m ++ [t_eq t]))%nat.
           ++ cbn [framer_end]. intros X; inversion X; subst. repeat split.
           ++ intros X; inversion X; subst. cbn [kind_of edge_ok shape locked_while_reading sq_set_lock sq_lock].
              split; [reflexivity|]. split; [eexists _, _; reflexivity|reflexivity].
      * subst. cbn [framer_step]. intros X; inversion X; subst. repeat split.
Qed.

(** * Lifted to the receiver's event list *)
(** walk the events; [last] is the kind of the last link state REPORTED (or no carrier at the start) *)
Fixpoint link_chain (last : lkind) (evs : list event) : Prop :=
  match evs with
  | [] => True
  | e :: r =>
    match ev_what e with
    | WLink l => edge_ok last (kind_of l) = true /\ link_chain (kind_of l) r
    | WTransport _ => link_chain last r
    end
  end.

Fixpoint last_kind (last : lkind) (evs : list event) : lkind :=
  match evs with
  | [] => last
  | e :: r => match ev_what e with WLink l => last_kind (kind_of l) r | WTransport _ => last_kind last r end
  end.

Lemma link_chain_app a : forall last b,
  link_chain last a -> link_chain (last_kind last a) b -> link_chain last (a ++ b).
Proof.
  induction a as [|e a IH]; intros last b Ha Hb; cbn [app link_chain last_kind] in *; [exact Hb|].
  destruct (ev_what e) as [l|t]; [destruct Ha as [H1 H2]; split; [exact H1|apply IH; assumption]|apply IH; assumption].
Qed.

Definition LInv (k : core) : Prop :=
  shape (kind_of (r_link k)) (r_fr k) /\ locked_while_reading (r_sq k) (r_fr k).

Lemma LInv_init : LInv core_init.
Proof. split; [reflexivity|exact I]. Qed.

Lemma kind_of_eqb a b : link_eqb a b = true -> kind_of a = kind_of b.
Proof. intros H. rewrite (link_eqb_eq a b H). reflexivity. Qed.

Theorem step_core_lifecycle c k i k' evs :
  max_prefix_bit_errors (fc c) <= 7 -> LInv k -> step_core c k i = (k', evs) ->
  LInv k' /\ link_chain (kind_of (r_link k)) evs /\ last_kind (kind_of (r_link k)) evs = kind_of (r_link k').
Proof.
  intros Hb [Hs Hl]. unfold step_core. destruct i as [|t].
  - intros E; inversion E; subst. cbn [r_link r_fr r_sq link_chain last_kind]. repeat split; assumption.
  - destruct (linklayer_symbol c (r_sq k) (r_fr k) t) as [[[l sq'] fr'] u] eqn:El.
    destruct (linklayer_lifecycle _ _ _ _ _ _ _ _ _ Hb Hs Hl El) as (He & Hs' & Hl').
    destruct (transportlayer c (r_asm k) l (sq_symcount sq') (r_samples k + 1) (r_force_eom k)) as [[ot asm'] force'].
    destruct (link_eqb l (r_link k)) eqn:Eq; cbn [negb].
    + (* unchanged: no link event; the stored state has the same kind *)
      pose proof (kind_of_eqb _ _ Eq) as Hk. rewrite Hk in Hs'.
      destruct ot as [t'|]; [destruct (transport_eqb t' (r_transport k))|];
        intros E; inversion E; subst; cbn [r_link r_fr r_sq app link_chain last_kind ev_what];
        (split; [split; [exact Hs'|exact Hl']|split; [exact I|reflexivity]]).
    + destruct ot as [t'|]; [destruct (transport_eqb t' (r_transport k))|];
        intros E; inversion E; subst; cbn [r_link r_fr r_sq app link_chain last_kind ev_what];
        (split; [split; [exact Hs'|exact Hl']|split; [split; [exact He|exact I]|reflexivity]]).
Qed.

Theorem run_core_lifecycle c : forall src k,
  max_prefix_bit_errors (fc c) <= 7 -> LInv k ->
  link_chain (kind_of (r_link k)) (fst (run_core c k src)).
Proof.
  induction src as [|i src IH]; intros k Hb Hi; cbn [run_core fst]; [exact I|].
  destruct (step_core c k i) as [k1 evs] eqn:E.
  destruct (step_core_lifecycle _ _ _ _ _ Hb Hi E) as (Hi1 & Hc & Hk).
  specialize (IH k1 Hb Hi1). destruct (run_core c k1 src) as [evs' kf]. cbn [fst] in *.
  apply link_chain_app; [exact Hc|]. rewrite Hk. exact IH.
Qed.

(** every stream, from a new receiver *)
Theorem link_events_follow_lifecycle c src :
  max_prefix_bit_errors (fc c) <= 7 ->
  link_chain Kn (fst (run_core c core_init src)).
Proof. intros Hb. exact (run_core_lifecycle c src core_init Hb LInv_init). Qed.

(** in particular the squelch never re-synchronises while a burst is being read: a burst ends only by
    carrier loss, by the invalid-character budget or at the maximum length *)
Theorem no_resync_while_reading c s f t l s' f' u m i :
  max_prefix_bit_errors (fc c) <= 7 ->
  f = FDataRead m i -> locked_while_reading s f ->
  linklayer_symbol c s f t = (l, s', f', u) ->
  kind_of l = Kr \/ kind_of l = KB.
Proof.
  intros Hb -> Hl E.
  destruct (linklayer_lifecycle c s _ t l s' f' u Kr Hb (ex_intro _ m (ex_intro _ i eq_refl)) Hl E) as (He & _).
  destruct (kind_of l); cbn in He; try discriminate; [left|right]; reflexivity.
Qed.

(** * The extra edge is real: a witness stream (known finding F7) *)
Definition ab_bit (i : N) : bool := N.testbit 171 (i mod 8).     (* 0xAB, least significant bit first *)
Definition f7_eq (t : N) : N :=
  if t =? 32 then 171 else if t =? 40 then 90 else if t =? 48 then 67 else if t =? 56 then 90
  else if t =? 64 then 67 else if t =? 72 then 45 else 0.
(** a preamble bit pattern that slips by one bit at symbol 80, power present throughout; the equaliser
    delivers 0xAB, "ZCZC-", then invalid bytes until the burst ends at symbol 120 *)
Definition f7_tick (t : N) : tick :=
  mkTick (ab_bit (if t <? 80 then t - 1 else t - 2)) true true (f7_eq t).
Definition f7_items : list item := map (fun i => Tick (f7_tick (N.of_nat i))) (seq 1 130).
Definition f7_cfg : rcfg := mkRcfg 2 (mkFcfg 2 5) 22050.

Definition link_kinds (evs : list event) : list (N * lkind) :=
  flat_map (fun e => match ev_what e with WLink l => [(ev_time e, kind_of l)] | _ => [] end) evs.

Example F7_burst_then_searching :
  link_kinds (fst (run_core f7_cfg core_init f7_items)) = [(32, Ks); (64, Kr); (120, KB); (121, Ks)].
Proof. vm_compute. reflexivity. Qed.
