(** C07: while a burst is being read (sync locked, byte clock running, power recorded with the oldest
    symbol of the delay line) the link layer gives the framer exactly one byte per eight symbols — the
    equaliser's byte at the instant the byte clock is at 0 — and nothing in between: ticks to bytes. *)
From Sameold Require Import Base.Bytes Model.Header Model.Combiner Model.Framer Model.Squelch
  Model.Assembler Model.Receiver Proofs.RobustP Proofs.QuiesceP Proofs.DelayLineP.
From Coq Require Import ZifyBool ZifyN ZifyNat.
Arguments N.add : simpl never.
Arguments N.leb : simpl never.
Arguments N.ltb : simpl never.
Local Open Scope N_scope.

Lemma locked_link_step c s g f t clk :
  aligned s g -> sq_lock s = true -> sq_clock s = Some clk -> clk < 8 ->
  front_power g (t_bit t, t_pclose t) = true ->
  exists s',
    aligned s' (shift_in g (t_bit t, t_pclose t))
    /\ (clk <> 0 ->
          linklayer_symbol c s f t = (framer_state f, s', f, false)
          /\ sq_lock s' = true /\ sq_clock s' = Some ((clk + 1) mod 8))
    /\ (clk = 0 ->
          exists s1, sq_lock s1 = true /\ sq_clock s1 = Some 1
          /\ linklayer_symbol c s f t =
             (fst (framer_step (fc c) f (t_eq t)),
              match fst (framer_step (fc c) f (t_eq t)) with
              | LReading => sq_set_lock s1 true
              | LSearching => s1
              | _ => sq_end s1
              end,
              snd (framer_step (fc c) f (t_eq t)), true)
          /\ aligned s1 (shift_in g (t_bit t, t_pclose t)) /\ s' = s1).
Proof.
  intros Ha Hl Hc Hc8 Hfp.
  destruct (locked_step (preamble_max_errors c) s g (t_bit t) (t_popen t) (t_pclose t) clk Ha Hl Hc Hc8 Hfp)
    as (hb & s1 & E & Hc1 & Hl1 & Ha1 & _).
  exists s1. split; [exact Ha1|]. split.
  - intros Hne. unfold linklayer_symbol. rewrite E.
    assert ((clk =? 0) = false) as -> by lia. split; [reflexivity|]. split; [exact Hl1|exact Hc1].
  - intros ->. exists s1. split; [exact Hl1|]. split; [exact Hc1|]. split; [|split; [exact Ha1|reflexivity]].
    unfold linklayer_symbol. rewrite E. cbn [N.eqb]. unfold framer_input.
    destruct (framer_step (fc c) f (t_eq t)) as [l f']. cbn [fst snd]. destruct l; reflexivity.
Qed.

(** the alignment survives what the link layer does to the squelch afterwards *)
Lemma aligned_set_lock s g b : aligned s g -> aligned (sq_set_lock s b) g.
Proof. intros H. exact H. Qed.
Lemma aligned_end s g : aligned s g -> aligned (sq_end s) g.
Proof. intros H. exact H. Qed.

(** a whole byte time while reading: eight symbols from a byte boundary make exactly ONE call of the
    framer, with the equaliser byte of the first of them, as long as that call says "reading" *)
Theorem eight_symbols_one_framer_step c s g msg inv t ts :
  aligned s g -> sq_lock s = true -> sq_clock s = Some 0 ->
  length ts = 7%nat ->
  Forall (fun gl => snd (nth 0 gl (false, false)) = true)
         (lines_after g (map (fun t => (t_bit t, t_pclose t)) (t :: ts))) ->
  fst (framer_step (fc c) (FDataRead msg inv) (t_eq t)) = LReading ->
  let '(s', f') := link_run c s (FDataRead msg inv) (t :: ts) in
  f' = snd (framer_step (fc c) (FDataRead msg inv) (t_eq t))
  /\ sq_lock s' = true /\ sq_clock s' = Some 0
  /\ aligned s' (fold_left (fun g t => shift_in g (t_bit t, t_pclose t)) (t :: ts) g).
Proof.
  intros Ha Hl Hc Hlen Hf Hread.
  cbn [map lines_after] in Hf. inversion Hf as [|? ? Hf0 Hf']; subst.
  destruct (locked_link_step c s g (FDataRead msg inv) t 0 Ha Hl Hc ltac:(lia) Hf0) as (s1 & Ha1 & _ & H0).
  destruct (H0 eq_refl) as (s1' & Hl1 & Hc1 & E & Ha1' & ->).
  cbn [link_run]. rewrite E, Hread.
  set (f1 := snd (framer_step (fc c) (FDataRead msg inv) (t_eq t))).
  assert (exists m1 i1, f1 = FDataRead m1 i1) as (m1 & i1 & Ef1).
  { unfold f1. revert Hread. cbn [framer_step].
    destruct (max_invalid_bytes (fc c) <? inv + b2n (negb (is_allowed_byte (t_eq t)))); [cbn; discriminate|].
    destruct (MAX_BURST_LENGTH <=? length (msg ++ [t_eq t]))%nat; [cbn; discriminate|]. cbn [fst snd]. intros _. eexists _, _. reflexivity. }
  cbn [fold_left].
  (* seven more symbols: the clock runs 1..7, the framer is not called *)
  assert (forall ts0 s0 g0 clk,
            aligned s0 g0 -> sq_lock s0 = true -> sq_clock s0 = Some clk -> 0 < clk -> clk < 8 -> clk + N.of_nat (length ts0) <= 8 ->
            Forall (fun gl => snd (nth 0 gl (false, false)) = true) (lines_after g0 (map (fun t => (t_bit t, t_pclose t)) ts0)) ->
            let '(s', f') := link_run c s0 f1 ts0 in
            f' = f1 /\ sq_lock s' = true /\ sq_clock s' = Some ((clk + N.of_nat (length ts0)) mod 8)
            /\ aligned s' (fold_left (fun g t => shift_in g (t_bit t, t_pclose t)) ts0 g0)) as Hrest.
  { induction ts0 as [|t0 ts0 IH]; intros s0 g0 clk Ha0 Hl0 Hc0 Hpos Hlt Hle Hf0'.
    - cbn [link_run length fold_left]. split; [reflexivity|]. split; [exact Hl0|]. split; [|exact Ha0].
      rewrite Hc0. f_equal. rewrite N.add_0_r. symmetry. apply N.mod_small. exact Hlt.
    - cbn [map lines_after] in Hf0'. inversion Hf0' as [|? ? Hq Hq']; subst.
      destruct (locked_link_step c s0 g0 f1 t0 clk Ha0 Hl0 Hc0 Hlt Hq) as (s2 & Ha2 & Hne & _).
      destruct (Hne ltac:(lia)) as (E2 & Hl2 & Hc2).
      cbn [link_run fold_left]. rewrite E2.
      destruct ts0 as [|t1 ts1].
      + cbn [link_run length fold_left]. split; [reflexivity|]. split; [exact Hl2|]. split; [exact Hc2|exact Ha2].
      + cbn [length] in Hle.
        assert ((clk + 1) mod 8 = clk + 1) as Em by (apply N.mod_small; lia). rewrite Em in Hc2.
        specialize (IH s2 (shift_in g0 (t_bit t0, t_pclose t0)) (clk + 1) Ha2 Hl2 Hc2 ltac:(lia) ltac:(lia) ltac:(cbn [length]; lia) Hq').
        destruct (link_run c s2 f1 (t1 :: ts1)) as [s3 f3]. destruct IH as (I1 & I2 & I3 & I4).
        split; [exact I1|]. split; [exact I2|]. split; [|exact I4]. rewrite I3. f_equal. f_equal. cbn [length]. lia. }
  specialize (Hrest ts (sq_set_lock s1' true) (shift_in g (t_bit t, t_pclose t)) 1 (aligned_set_lock _ _ true Ha1')
                    eq_refl Hc1 ltac:(lia) ltac:(lia) ltac:(rewrite Hlen; lia) Hf').
  destruct (link_run c (sq_set_lock s1' true) f1 ts) as [s3 f3]. destruct Hrest as (I1 & I2 & I3 & I4).
  split; [exact I1|]. split; [exact I2|]. split; [|exact I4]. rewrite I3, Hlen. reflexivity.
Qed.

(** * Acquisition: the squelch synchronises at the symbol that completes the sync word in the delay line *)
Lemma word32_sync : word32 SYNC_WORD.
Proof. intros i Hi. apply N.bits_above_log2. change (N.log2 SYNC_WORD) with 31. lia. Qed.

Lemma line_is_word s g w :
  aligned s g -> word32 w -> (forall i, (i < 32)%nat -> fst (nth i g (false, false)) = N.testbit w (N.of_nat i)) ->
  sq_corr s = w.
Proof.
  intros (_ & _ & Hw & Hc & _) Hww Hb. apply N.bits_inj. intros n.
  destruct (N.lt_ge_cases n 32) as [H|H].
  - replace n with (N.of_nat (N.to_nat n)) by lia. rewrite Hc by lia. apply Hb. lia.
  - rewrite Hw, Hww by lia. reflexivity.
Qed.

(** unsynchronised and unlocked, power above the open threshold: when the symbol just received completes
    the sync word in the line — the last four preamble bytes, byte-aligned by construction — the squelch
    declares sync at once, the byte clock starts at that symbol, and the byte handed on is the oldest
    byte of the sync word *)
Theorem sync_at_the_symbol_completing_the_sync_word me s g bit pc :
  aligned s g -> sq_lock s = false -> sq_clock s = None ->
  (forall i, (i < 32)%nat -> fst (nth i (shift_in g (bit, pc)) (false, false)) = N.testbit SYNC_WORD (N.of_nat i)) ->
  exists s', sq_input me s bit true pc = (SqReady true (SYNC_WORD mod 256), s') /\ sq_clock s' = Some 1
             /\ aligned s' (shift_in g (bit, pc)).
Proof.
  intros Ha Hl Hc Hb.
  pose proof (sq_input_aligned me s g bit true pc Ha) as Ha'.
  assert (push_bit (sq_corr s) bit = SYNC_WORD) as Ew.
  { assert (sq_corr (snd (sq_input me s bit true pc)) = push_bit (sq_corr s) bit) as <-.
    { destruct Ha as (_ & Hf & _). unfold sq_input. fold (push_bit (sq_corr s) bit). rewrite Hf, Hl, Hc.
      change (N.min (HISTORY_SYMBOLS + 1) HISTORY_SYMBOLS) with HISTORY_SYMBOLS.
      change (HISTORY_SYMBOLS <? HISTORY_SYMBOLS) with false. cbv iota. cbn [negb andb].
      destruct (num_bit_errors SYNC_WORD (push_bit (sq_corr s) bit) <=? me); reflexivity. }
    apply (line_is_word _ _ SYNC_WORD Ha' word32_sync Hb). }
  destruct Ha as (_ & Hf & _).
  revert Ha'. unfold sq_input. fold (push_bit (sq_corr s) bit). rewrite Hf, Hl, Hc, Ew.
  change (N.min (HISTORY_SYMBOLS + 1) HISTORY_SYMBOLS) with HISTORY_SYMBOLS.
  change (HISTORY_SYMBOLS <? HISTORY_SYMBOLS) with false. cbv iota. cbn [negb andb].
  assert (num_bit_errors SYNC_WORD SYNC_WORD = 0) as -> by (vm_compute; reflexivity).
  assert ((0 <=? me) = true) as -> by lia. cbn [andb snd]. intros Ha'.
  eexists. split; [reflexivity|]. split; [reflexivity|exact Ha'].
Qed.
