(** Assembler (assembler.rs) as a transducer over arbitrary operation histories:
    invariants for C05 (no double report inside the duplicate window) and C08
    (an end-of-message is released by the call that establishes it; a held result
    is released by the first idle poll 682 symbols after the last burst at the latest). *)
From Sameold Require Import Base.Bytes Model.Header Model.Combiner Model.Assembler Proofs.Vote Proofs.HeaderP Proofs.CombinerP.
From Coq Require Import ZifyBool ZifyN ZifyNat.
Arguments N.add : simpl never.
Arguments N.leb : simpl never.
Arguments N.ltb : simpl never.
Local Opaque MAX_MESSAGE_LENGTH.

(** * Operation histories *)
Inductive aop := OIdle (now : N) | OBurst (b : bytes) (now : N).

Definition op_time (o : aop) : N := match o with OIdle n => n | OBurst _ n => n end.

Definition asm_op (s : asm) (o : aop) : transport * asm :=
  match o with OIdle n => asm_idle s n | OBurst b n => asm_assemble s b n end.

(** every call with its time and what it returned *)
Fixpoint asm_run (s : asm) (ops : list aop) : list (N * transport) * asm :=
  match ops with
  | [] => ([], s)
  | o :: r =>
    let '(t, s1) := asm_op s o in
    let '(ts, s2) := asm_run s1 r in
    ((op_time o, t) :: ts, s2)
  end.

(** the symbol counter never runs backwards *)
Fixpoint mono (t0 : N) (ops : list aop) : Prop :=
  match ops with [] => True | o :: r => t0 <= op_time o /\ mono (op_time o) r end.

Fixpoint last_burst (t0 : N) (ops : list aop) : N :=
  match ops with
  | [] => t0
  | OBurst _ n :: r => last_burst n r
  | OIdle _ :: r => last_burst t0 r
  end.

Lemma asm_run_app s a b :
  asm_run s (a ++ b) =
  (fst (asm_run s a) ++ fst (asm_run (snd (asm_run s a)) b), snd (asm_run (snd (asm_run s a)) b)).
Proof.
  revert s. induction a as [|o a IH]; intros s; cbn [app asm_run fst snd].
  - destruct (asm_run s b); reflexivity.
  - destruct (asm_op s o) as [t s1]. rewrite IH.
    destruct (asm_run s1 a) as [ts s2]. cbn [fst snd]. reflexivity.
Qed.

(** * The pending slot: what [idle] does with it *)
Lemma idle_fire s now p :
  a_pending s = Some p -> t_deadline p <= now ->
  fst (asm_idle s now) = TMessage (t_data p) /\ a_pending (snd (asm_idle s now)) = None.
Proof.
  intros Hp Hd. unfold asm_idle, pending_poll, is_expired_at. rewrite Hp.
  assert ((t_deadline p <=? now) = true) as -> by lia.
  destruct (t_data p) as [m|e]; cbn [fst snd a_pending]; split; reflexivity.
Qed.

Lemma idle_hold s now :
  (forall p, a_pending s = Some p -> now < t_deadline p) ->
  a_pending (snd (asm_idle s now)) = a_pending s
  /\ a_previous (snd (asm_idle s now)) = a_previous s
  /\ (forall r, fst (asm_idle s now) <> TMessage r).
Proof.
  intros Hp. unfold asm_idle, pending_poll, is_expired_at.
  destruct (a_pending s) as [p|] eqn:E.
  - specialize (Hp p eq_refl). assert ((t_deadline p <=? now) = false) as -> by lia.
    cbn [fst snd a_pending a_previous]. repeat split.
    intros r. destruct (prune_history _ _); discriminate.
  - cbn [fst snd a_pending a_previous]. repeat split.
    intros r. destruct (prune_history _ _); discriminate.
Qed.

(** either way: the slot afterwards is the old slot or empty, and a message comes out
    exactly when the deadline has passed *)
Lemma idle_cases s now :
  (exists p, a_pending s = Some p /\ t_deadline p <= now
             /\ fst (asm_idle s now) = TMessage (t_data p) /\ a_pending (snd (asm_idle s now)) = None)
  \/ ((forall p, a_pending s = Some p -> now < t_deadline p)
      /\ a_pending (snd (asm_idle s now)) = a_pending s
      /\ a_previous (snd (asm_idle s now)) = a_previous s
      /\ (forall r, fst (asm_idle s now) <> TMessage r)).
Proof.
  destruct (a_pending s) as [p|] eqn:E.
  - destruct (N.le_gt_cases (t_deadline p) now) as [H|H].
    + left. exists p. destruct (idle_fire s now p E H) as [A B]. repeat split; assumption.
    + right. assert (forall q, a_pending s = Some q -> now < t_deadline q) as Hq.
      { intros q Hq. rewrite E in Hq. inversion Hq; subst. exact H. }
      split; [intros q Hq2; inversion Hq2; subst; exact H|].
      rewrite <- E. apply idle_hold. exact Hq.
  - right. assert (forall q, a_pending s = Some q -> now < t_deadline q) as Hq.
    { intros q Hq. rewrite E in Hq. discriminate. }
    split; [intros q Hq2; discriminate|]. rewrite <- E. apply idle_hold. exact Hq.
Qed.

(** * C08: the hold is bounded by the last burst; an EndOfMessage never waits *)
Definition pend_not_eom (p : option (timed msg_result)) : Prop :=
  forall t, p = Some t -> t_data t <> Ok EOM.

Definition pend_bound (p : option (timed msg_result)) (last : N) : Prop :=
  forall t, p = Some t -> t_deadline t <= last + MAX_INTERBURST_SYMBOLS.

Definition PInv (s : asm) (last : N) : Prop :=
  pend_not_eom (a_pending s) /\ pend_bound (a_pending s) last.

Lemma PInv_init : PInv asm_init 0.
Proof. split; intros t H; discriminate. Qed.

Definition pend_eom_due (p : option (timed msg_result)) (now : N) : Prop :=
  forall t, p = Some t -> t_data t = Ok EOM -> t_deadline t <= now.

Lemma idle_PInv s now last :
  pend_eom_due (a_pending s) now -> pend_bound (a_pending s) last ->
  PInv (snd (asm_idle s now)) last.
Proof.
  intros H1 H2. destruct (idle_cases s now) as [(p & _ & _ & _ & Hn)|(Hq & He & _)].
  - unfold PInv. rewrite Hn. split; intros t H; discriminate.
  - unfold PInv. rewrite He. split; [|exact H2].
    intros t Ht Hd. specialize (H1 t Ht Hd). specialize (Hq t Ht). lia.
Qed.

Lemma not_eom_due p now : pend_not_eom p -> pend_eom_due p now.
Proof. intros H t Ht Hd. exfalso. exact (H t Ht Hd). Qed.

(** what [accept] can leave in the slot *)
Lemma accept_cases p msg now :
  pending_accept p msg now = p
  \/ pending_accept p msg now =
     Some (mkTimed msg (match msg with Ok EOM => now | _ => now + MAX_INTERBURST_SYMBOLS end)).
Proof.
  unfold pending_accept. destruct p as [old|].
  - match goal with |- context [if ?c then _ else _] => destruct c end.
    + right. destruct msg as [[h|]|e]; reflexivity.
    + left. reflexivity.
  - right. destruct msg as [[h|]|e]; reflexivity.
Qed.

Lemma assemble_unfold s b now : b <> [] ->
  asm_assemble s b now =
  asm_idle (mkAsm (prune_history (a_history s) now
                    ++ [mkTimed (firstn MAX_MESSAGE_LENGTH b) (now + MAX_HISTORY_DURATION)])
                  (match deduplicate (prune_previous (a_previous s) now)
                           (combine (map t_data (prune_history (a_history s) now
                              ++ [mkTimed (firstn MAX_MESSAGE_LENGTH b) (now + MAX_HISTORY_DURATION)]))) with
                   | Some msg => pending_accept (a_pending s) msg now
                   | None => a_pending s
                   end)
                  (prune_previous (a_previous s) now)) now.
Proof. intros Hb. unfold asm_assemble. destruct b; [contradiction|reflexivity]. Qed.

Lemma op_PInv s o last :
  PInv s last -> last <= op_time o ->
  PInv (snd (asm_op s o)) (match o with OBurst _ n => n | OIdle _ => last end).
Proof.
  intros [H1 H2] Hl. destruct o as [now|b now]; cbn [asm_op op_time] in *.
  - apply idle_PInv; [apply not_eom_due, H1|exact H2].
  - assert (pend_bound (a_pending s) now) as H2'.
    { intros t Ht. specialize (H2 t Ht). lia. }
    destruct b as [|b0 b'].
    + cbn [asm_assemble]. apply idle_PInv; [apply not_eom_due, H1|exact H2'].
    + rewrite assemble_unfold by discriminate. cbn [a_pending].
      destruct (deduplicate _ _) as [msg|].
      * destruct (accept_cases (a_pending s) msg now) as [E|E].
        -- apply idle_PInv; cbn [a_pending]; rewrite E; [apply not_eom_due, H1|exact H2'].
        -- apply idle_PInv; cbn [a_pending]; rewrite E.
           ++ intros t Ht Hd. inversion Ht; subst. cbn [t_data t_deadline] in *. subst msg. lia.
           ++ intros t Ht. inversion Ht; subst. cbn [t_deadline]. destruct msg as [[h|]|e]; lia.
      * apply idle_PInv; cbn [a_pending]; [apply not_eom_due, H1|exact H2'].
Qed.

(** for every history: whatever is held is due at most 682 symbols after the last burst *)
Theorem run_PInv : forall ops s clock last,
  PInv s last -> last <= clock -> mono clock ops ->
  PInv (snd (asm_run s ops)) (last_burst last ops).
Proof.
  induction ops as [|o ops IH]; intros s clock last Hi Hl Hm; cbn [asm_run last_burst snd]; [exact Hi|].
  destruct Hm as [Hm1 Hm2].
  assert (last <= op_time o) as Hlo by lia.
  pose proof (op_PInv s o last Hi Hlo) as Hi'.
  destruct (asm_op s o) as [t s1]. cbn [snd] in Hi'.
  destruct o as [now|b now]; cbn [op_time] in *.
  - specialize (IH s1 now last Hi' Hlo Hm2). destruct (asm_run s1 ops) as [ts s2]. exact IH.
  - specialize (IH s1 now now Hi' (N.le_refl _) Hm2). destruct (asm_run s1 ops) as [ts s2]. exact IH.
Qed.

(** ... and the first idle poll at or after that instant releases it *)
Theorem held_result_released s last now p :
  PInv s last -> a_pending s = Some p -> last + MAX_INTERBURST_SYMBOLS <= now ->
  fst (asm_idle s now) = TMessage (t_data p) /\ a_pending (snd (asm_idle s now)) = None.
Proof.
  intros [_ Hb] Hp Hn. apply idle_fire; [exact Hp|]. specialize (Hb p Hp). lia.
Qed.

(** an EndOfMessage established by a burst is returned by that very [assemble] call,
    unless a StartOfMessage is being held (see the known finding F2) *)
Theorem eom_at_once s b now :
  b <> [] -> pend_not_eom (a_pending s) ->
  (forall p h, a_pending s = Some p -> t_data p <> Ok (SOM h)) ->
  deduplicate (prune_previous (a_previous s) now)
    (combine (map t_data (prune_history (a_history s) now
       ++ [mkTimed (firstn MAX_MESSAGE_LENGTH b) (now + MAX_HISTORY_DURATION)]))) = Some (Ok EOM) ->
  fst (asm_assemble s b now) = TMessage (Ok EOM).
Proof.
  intros Hb Hne Hns Hd. rewrite assemble_unfold by exact Hb. rewrite Hd.
  assert (pending_accept (a_pending s) (Ok EOM) now = Some (mkTimed (Ok EOM) now)) as Ea.
  { unfold pending_accept. destruct (a_pending s) as [old|] eqn:E; [|reflexivity].
    destruct (t_data old) as [[h|]|e] eqn:Eo.
    - exfalso. exact (Hns old h eq_refl Eo).
    - exfalso. exact (Hne old eq_refl Eo).
    - reflexivity. }
  rewrite Ea.
  match goal with |- fst (asm_idle ?s0 now) = _ =>
    destruct (idle_fire s0 now (mkTimed (Ok EOM) now) eq_refl (N.le_refl _)) as [A _]; exact A end.
Qed.

(** * C05: the same text is not reported twice within the duplicate window *)
Fixpoint ok_reports (outs : list (N * transport)) : list (N * message) :=
  match outs with
  | [] => []
  | (t, TMessage (Ok m)) :: r => (t, m) :: ok_reports r
  | _ :: r => ok_reports r
  end.

Definition spacing (last : option (N * message)) (t : N) (m : message) : Prop :=
  match last with
  | Some (t0, m0) => message_as_str m0 = message_as_str m -> t0 + MAX_HISTORY_DURATION <= t
  | None => True
  end.

(** every report whose text equals that of the report before it comes at least
    MAX_HISTORY_DURATION symbols after it *)
Fixpoint spaced (last : option (N * message)) (rs : list (N * message)) : Prop :=
  match rs with
  | [] => True
  | (t, m) :: r => spacing last t m /\ spaced (Some (t, m)) r
  end.

Definition prev_ok (prev : option (timed message)) (clock : N) (last : option (N * message)) : Prop :=
  match last with
  | None => prev = None
  | Some (t0, m0) =>
    prev = Some (mkTimed m0 (t0 + MAX_HISTORY_DURATION))
    \/ (prev = None /\ t0 + MAX_HISTORY_DURATION <= clock)
  end.

Definition pend_spaced (p : option (timed msg_result)) (last : option (N * message)) : Prop :=
  forall x m, p = Some x -> t_data x = Ok m -> spacing last (t_deadline x) m.

Definition DInv (s : asm) (clock : N) (last : option (N * message)) : Prop :=
  prev_ok (a_previous s) clock last /\ pend_spaced (a_pending s) last.

Lemma DInv_init : DInv asm_init 0 None.
Proof. split; [reflexivity|]. intros x m H; discriminate. Qed.

Lemma prev_ok_mono prev c1 c2 last : c1 <= c2 -> prev_ok prev c1 last -> prev_ok prev c2 last.
Proof.
  intros Hc. unfold prev_ok. destruct last as [[t0 m0]|]; [|auto].
  intros [H|[H1 H2]]; [left; exact H|right; split; [exact H1|lia]].
Qed.

Lemma list_eqb_refl a : list_eqb a a = true.
Proof. induction a as [|x a IH]; [reflexivity|]. cbn [list_eqb]. rewrite N.eqb_refl, IH. reflexivity. Qed.

Definition out_ok (t : transport) (s' : asm) (now : N) (last : option (N * message)) : Prop :=
  match t with
  | TMessage (Ok m) => spacing last now m /\ DInv s' now (Some (now, m))
  | _ => DInv s' now last
  end.

Lemma idle_DInv s now clock last :
  DInv s clock last -> clock <= now ->
  out_ok (fst (asm_idle s now)) (snd (asm_idle s now)) now last.
Proof.
  intros [Hp Hq] Hc.
  destruct (idle_cases s now) as [(p & Ep & Hd & Ef & En)|(_ & He & Hv & Hf)].
  - unfold out_ok. rewrite Ef.
    unfold asm_idle, pending_poll, is_expired_at in *. rewrite Ep in *.
    assert ((t_deadline p <=? now) = true) as Hb by lia. rewrite Hb in *.
    destruct (t_data p) as [m|e] eqn:Ed; cbn [fst snd a_pending a_previous] in *.
    + split.
      * specialize (Hq p m eq_refl Ed). unfold spacing in *. destruct last as [[t0 m0]|]; [|exact I].
        intros Hs. specialize (Hq Hs). lia.
      * split; cbn [a_previous a_pending]; [left; reflexivity|intros x m' H; discriminate].
    + split; cbn [a_previous a_pending]; [apply (prev_ok_mono _ clock); assumption|intros x m' H; discriminate].
  - assert (DInv (snd (asm_idle s now)) now last) as Hd.
    { split; [rewrite Hv; apply (prev_ok_mono _ clock); assumption|rewrite He; exact Hq]. }
    unfold out_ok. destruct (fst (asm_idle s now)) as [| |[m|e]] eqn:Et; try exact Hd.
    exfalso. exact (Hf _ eq_refl).
Qed.

Lemma prune_previous_ok prev clock now last :
  prev_ok prev clock last -> clock <= now -> prev_ok (prune_previous prev now) now last.
Proof.
  intros Hp Hc. unfold prev_ok in *. destruct last as [[t0 m0]|].
  - destruct Hp as [->|[-> H]].
    + unfold prune_previous, is_expired_at. cbn [t_deadline].
      destruct (N.leb_spec (t0 + MAX_HISTORY_DURATION) now) as [H|H]; [right; split; [reflexivity|exact H]|left; reflexivity].
    + right. split; [reflexivity|lia].
  - subst prev. reflexivity.
Qed.

Lemma accept_spaced prev p msg now last :
  prev_ok prev now last -> pend_spaced p last ->
  deduplicate prev (Some msg) = Some msg ->
  pend_spaced (pending_accept p msg now) last.
Proof.
  intros Hp Hq Hd. destruct (accept_cases p msg now) as [->| ->]; [exact Hq|].
  intros x m Hx Hm. inversion Hx; subst x. cbn [t_data t_deadline] in *. subst msg.
  unfold spacing. destruct last as [[t0 m0]|]; [|exact I]. intros Hs.
  unfold prev_ok in Hp. destruct Hp as [->|[-> H]].
  - exfalso. cbn [deduplicate is_not_duplicate t_data] in Hd. rewrite Hs, list_eqb_refl in Hd. discriminate.
  - destruct m; lia.
Qed.

Lemma dedup_some prev r msg : deduplicate prev r = Some msg -> deduplicate prev (Some msg) = Some msg.
Proof.
  unfold deduplicate. destruct r as [[m|e]|]; try discriminate.
  - destruct (is_not_duplicate prev m) eqn:E; [|discriminate]. intros H; inversion H; subst. rewrite E. reflexivity.
  - intros H; inversion H; subst. reflexivity.
Qed.

Lemma op_DInv s o clock last :
  DInv s clock last -> clock <= op_time o ->
  out_ok (fst (asm_op s o)) (snd (asm_op s o)) (op_time o) last.
Proof.
  intros Hi Hc. destruct o as [now|b now]; cbn [asm_op op_time] in *.
  - eapply idle_DInv; eassumption.
  - destruct b as [|b0 b'].
    + cbn [asm_assemble]. eapply idle_DInv; eassumption.
    + rewrite assemble_unfold by discriminate.
      destruct Hi as [Hp Hq].
      pose proof (prune_previous_ok _ _ now _ Hp Hc) as Hp'.
      eapply (idle_DInv _ now now); [|lia]. split; cbn [a_previous a_pending]; [exact Hp'|].
      destruct (deduplicate _ _) as [msg|] eqn:Ed; [|exact Hq].
      eapply accept_spaced; [exact Hp'|exact Hq|]. eapply dedup_some, Ed.
Qed.

(** for every history with a monotone clock *)
Theorem run_spaced : forall ops s clock last,
  DInv s clock last -> mono clock ops -> spaced last (ok_reports (fst (asm_run s ops))).
Proof.
  induction ops as [|o ops IH]; intros s clock last Hi Hm; cbn [asm_run fst ok_reports spaced]; [exact I|].
  destruct Hm as [Hm1 Hm2].
  pose proof (op_DInv s o clock last Hi Hm1) as Ho.
  destruct (asm_op s o) as [t s1]. cbn [fst snd] in Ho.
  specialize (IH s1 (op_time o)). destruct (asm_run s1 ops) as [ts s2]. cbn [fst] in *.
  unfold out_ok in Ho. destruct t as [| |[m|e]]; cbn [ok_reports spaced].
  - eapply IH; eassumption.
  - eapply IH; eassumption.
  - destruct Ho as [Hs Hd]. split; [exact Hs|]. eapply IH; eassumption.
  - eapply IH; eassumption.
Qed.

Corollary no_double_report ops :
  mono 0 ops -> spaced None (ok_reports (fst (asm_run asm_init ops))).
Proof. intros Hm. eapply run_spaced; [exact DInv_init|exact Hm]. Qed.

(** * Macro steps for scenario proofs *)
Lemma MIS_pos : 0 < MAX_INTERBURST_SYMBOLS. Proof. reflexivity. Qed.
Lemma MHD_pos : 0 < MAX_HISTORY_DURATION. Proof. reflexivity. Qed.
Lemma MIS_le_MHD : MAX_INTERBURST_SYMBOLS <= MAX_HISTORY_DURATION. Proof. discriminate. Qed.

Lemma filter_all {A} (f : A -> bool) l : Forall (fun x => f x = true) l -> filter f l = l.
Proof. induction 1 as [|x l Hx _ IH]; [reflexivity|]. cbn [filter]. rewrite Hx, IH. reflexivity. Qed.

Lemma keep_last2_short {A} (l : list A) : (length l <= 2)%nat -> keep_last2 l = l.
Proof. destruct l as [|a [|b [|c r]]]; cbn [length]; intros H; try reflexivity. lia. Qed.

Lemma filter_live (h : list (timed bytes)) now : Forall (fun e => now < t_deadline e) h ->
  filter (fun e => negb (is_expired_at e now)) h = h.
Proof.
  intros H. apply filter_all. eapply Forall_impl; [|exact H]. cbn. intros e He.
  unfold is_expired_at. assert ((t_deadline e <=? now) = false) as -> by lia. reflexivity. (*x*)
Qed.

Lemma prune_live (h : list (timed bytes)) now : Forall (fun e => now < t_deadline e) h -> (length h <= 2)%nat ->
  prune_history h now = h.
Proof. intros H L. unfold prune_history. rewrite filter_live by exact H. apply keep_last2_short, L. Qed.

Definition idle_out (s : asm) : transport :=
  match a_history s with [] => TIdle | _ => TAssembling end.

Lemma idle_noop s now :
  (forall p, a_pending s = Some p -> now < t_deadline p) ->
  Forall (fun e => now < t_deadline e) (a_history s) -> (length (a_history s) <= 2)%nat ->
  asm_idle s now = (idle_out s, s).
Proof.
  intros Hp Hh Hl. unfold asm_idle, idle_out. rewrite prune_live by assumption.
  unfold pending_poll, is_expired_at. destruct s as [h p prev]. cbn [a_history a_pending a_previous] in *.
  destruct p as [x|]; [|reflexivity].
  specialize (Hp x eq_refl). assert ((t_deadline x <=? now) = false) as -> by lia. reflexivity.
Qed.

(** idle polling that comes before anything is due changes nothing and reports nothing *)
Lemma polls_noop : forall polls s,
  Forall (fun n => (forall p, a_pending s = Some p -> n < t_deadline p)
                   /\ Forall (fun e => n < t_deadline e) (a_history s)) polls ->
  (length (a_history s) <= 2)%nat ->
  asm_run s (map OIdle polls) = (map (fun n => (n, idle_out s)) polls, s).
Proof.
  induction polls as [|n polls IH]; intros s Hf Hl; [reflexivity|].
  inversion Hf as [|? ? [H1 H2] Hf']; subst. cbn [map asm_run asm_op op_time].
  rewrite idle_noop by assumption. rewrite IH by assumption. reflexivity.
Qed.

Fixpoint msgs (outs : list (N * transport)) : list (N * msg_result) :=
  match outs with
  | [] => []
  | (t, TMessage r) :: rest => (t, r) :: msgs rest
  | _ :: rest => msgs rest
  end.

Lemma msgs_app a b : msgs (a ++ b) = msgs a ++ msgs b.
Proof.
  induction a as [|[t x] a IH]; [reflexivity|]. cbn [app msgs]. destruct x; rewrite IH; reflexivity.
Qed.

Lemma msgs_idle_out s polls : msgs (map (fun n => (n, idle_out s)) polls) = [].
Proof. induction polls as [|n polls IH]; [reflexivity|]. cbn [map msgs]. unfold idle_out at 1. destruct (a_history s); exact IH. Qed.

(** what a run of idle polls reports depends on the pending slot alone: the held result,
    once, at the first poll at or after its deadline *)
Lemma polls_msgs : forall polls s,
  msgs (fst (asm_run s (map OIdle polls))) =
  match a_pending s with
  | None => []
  | Some p =>
    match find (fun n => t_deadline p <=? n) polls with
    | Some tf => [(tf, t_data p)]
    | None => []
    end
  end.
Proof.
  induction polls as [|n polls IH]; intros s.
  - cbn [map asm_run fst msgs find]. destruct (a_pending s); reflexivity.
  - cbn [map asm_run asm_op op_time find].
    destruct (idle_cases s n) as [(p & Ep & Hd & Ef & En)|(Hq & He & _ & Hf)].
    + specialize (IH (snd (asm_idle s n))). destruct (asm_idle s n) as [t s1]. cbn [fst snd] in *.
      destruct (asm_run s1 (map OIdle polls)) as [ts s2]. cbn [fst] in *.
      rewrite Ef, Ep. cbn [msgs]. assert ((t_deadline p <=? n) = true) as -> by lia.
      rewrite IH, En. reflexivity.
    + specialize (IH (snd (asm_idle s n))). destruct (asm_idle s n) as [t s1]. cbn [fst snd] in *.
      destruct (asm_run s1 (map OIdle polls)) as [ts s2]. cbn [fst] in *.
      assert (msgs ((n, t) :: ts) = msgs ts) as ->.
      { cbn [msgs]. destruct t as [| |r]; try reflexivity. exfalso. exact (Hf r eq_refl). }
      rewrite IH, He. destruct (a_pending s) as [p|]; [|reflexivity].
      specialize (Hq p eq_refl). assert ((t_deadline p <=? n) = false) as -> by lia. reflexivity.
Qed.

Definition trunc (b : bytes) : bytes := firstn MAX_MESSAGE_LENGTH b.
Definition entry (b : bytes) (now : N) : timed bytes := mkTimed (trunc b) (now + MAX_HISTORY_DURATION).

(** [assemble] when every history entry is still alive *)
Lemma assemble_live s b now : b <> [] ->
  Forall (fun e => now < t_deadline e) (a_history s) -> (length (a_history s) <= 2)%nat ->
  asm_assemble s b now =
  let h' := a_history s ++ [entry b now] in
  let prev := prune_previous (a_previous s) now in
  let pend := match deduplicate prev (combine (map t_data h')) with
              | Some msg => pending_accept (a_pending s) msg now
              | None => a_pending s end in
  match pending_poll pend now with
  | (Some (Ok m), p) => (TMessage (Ok m), mkAsm (keep_last2 h') p (Some (mkTimed m (now + MAX_HISTORY_DURATION))))
  | (Some (Err e), p) => (TMessage (Err e), mkAsm (keep_last2 h') p prev)
  | (None, p) => (TAssembling, mkAsm (keep_last2 h') p prev)
  end.
Proof.
  intros Hb Hh Hl. rewrite assemble_unfold by exact Hb. rewrite prune_live by assumption.
  change (mkTimed (firstn MAX_MESSAGE_LENGTH b) (now + MAX_HISTORY_DURATION)) with (entry b now). cbv zeta.
  unfold asm_idle. cbn [a_history a_pending a_previous].
  match goal with |- context [prune_history ?x now] =>
    assert (prune_history x now = keep_last2 x) as -> end.
  { unfold prune_history. rewrite filter_live; [reflexivity|].
    apply Forall_app. split; [exact Hh|]. constructor; [|constructor].
    unfold entry. cbn [t_deadline]. pose proof MHD_pos. lia. }
  destruct (pending_poll _ now) as [[[m|e]|] p]; try reflexivity.
  apply (f_equal2 pair); [|reflexivity].
  match goal with |- match ?k with [] => _ | _ => _ end = _ => destruct k eqn:E end; [|reflexivity].
  exfalso. destruct (a_history s) as [|x [|y [|z r]]]; cbn in E; try discriminate. cbn [length] in Hl. lia.
Qed.

(** the last report, if any, is not the text of [h] *)
Definition nd (h : header) (prev : option (timed message)) : Prop :=
  is_not_duplicate prev (SOM h) = true.

Lemma nd_none h : nd h None. Proof. reflexivity. Qed.

Lemma nd_prune h prev now : nd h prev -> nd h (prune_previous prev now).
Proof.
  intros H. destruct prev as [m|]; [|reflexivity]. cbn [prune_previous].
  destruct (is_expired_at m now); [reflexivity|exact H].
Qed.

Lemma list_eqb_true : forall a b, list_eqb a b = true -> a = b.
Proof.
  induction a as [|x a IH]; intros [|y b] E; cbn [list_eqb] in E; try discriminate; [reflexivity|].
  apply andb_true_iff in E. destruct E as [E1 E2]. apply N.eqb_eq in E1. subst. f_equal. apply IH, E2.
Qed.

Lemma nd_eom h d : h_text h <> PREFIX_MESSAGE_END -> nd h (Some (mkTimed EOM d)).
Proof.
  intros H. unfold nd, is_not_duplicate. cbn [t_data message_as_str].
  destruct (list_eqb PREFIX_MESSAGE_END (h_text h)) eqn:E; [|reflexivity].
  exfalso. apply H. symmetry. apply list_eqb_true, E.
Qed.

(** a pending result that a StartOfMessage [h] will replace *)
Definition weakR (h : header) (p : option (timed msg_result)) : Prop :=
  match p with
  | None => True
  | Some x =>
    match t_data x with
    | Ok EOM => False
    | Ok (SOM h2) => h_voting h2 <= h_voting h
    | Err _ => True
    end
  end.

(** a burst that establishes [h] takes the slot and starts a fresh hold *)
Lemma burst_establishes s b now h :
  b <> [] ->
  Forall (fun e => now < t_deadline e) (a_history s) -> (length (a_history s) <= 2)%nat ->
  weakR h (a_pending s) -> nd h (a_previous s) ->
  combine (map t_data (a_history s ++ [entry b now])) = Some (Ok (SOM h)) ->
  asm_assemble s b now =
  (TAssembling, mkAsm (keep_last2 (a_history s ++ [entry b now]))
                      (Some (mkTimed (Ok (SOM h)) (now + MAX_INTERBURST_SYMBOLS)))
                      (prune_previous (a_previous s) now)).
Proof.
  intros Hb Hh Hl Hw Hn Hc. rewrite assemble_live by assumption. cbv zeta. rewrite Hc.
  pose proof (nd_prune h _ now Hn) as Hn'. unfold nd in Hn'.
  cbn [deduplicate]. rewrite Hn'.
  assert (pending_accept (a_pending s) (Ok (SOM h)) now
          = Some (mkTimed (Ok (SOM h)) (now + MAX_INTERBURST_SYMBOLS))) as ->.
  { unfold pending_accept. destruct (a_pending s) as [old|]; [|reflexivity].
    unfold weakR in Hw. destruct (t_data old) as [[h2|]|e]; [|contradiction|reflexivity].
    assert ((h_voting h2 <=? h_voting h) = true) as -> by lia. reflexivity. }
  unfold pending_poll, is_expired_at. cbn [t_deadline].
  pose proof MIS_pos. assert ((now + MAX_INTERBURST_SYMBOLS <=? now) = false) as -> by lia.
  reflexivity.
Qed.

(** a burst arriving while nothing is held: whatever it establishes, no StartOfMessage
    comes out of that call, and what it leaves in the slot can be replaced by [h] *)
Lemma burst_from_empty s b now h :
  b <> [] ->
  Forall (fun e => now < t_deadline e) (a_history s) -> (length (a_history s) <= 2)%nat ->
  a_pending s = None -> nd h (prune_previous (a_previous s) now) -> h_text h <> PREFIX_MESSAGE_END ->
  let c := combine (map t_data (a_history s ++ [entry b now])) in
  (forall h2, c = Some (Ok (SOM h2)) -> h_voting h2 <= h_voting h) ->
  exists t pend' prev',
    asm_assemble s b now = (t, mkAsm (keep_last2 (a_history s ++ [entry b now])) pend' prev')
    /\ nd h prev' /\ (forall hh, t <> TMessage (Ok (SOM hh)))
    /\ weakR h pend'
    /\ (forall x, pend' = Some x -> t_deadline x = now + MAX_INTERBURST_SYMBOLS)
    /\ ((c = None \/ c = Some (Ok EOM)) -> pend' = None)
    /\ (forall r, t = TMessage r -> r = Ok EOM /\ c = Some (Ok EOM)).
Proof.
  intros Hb Hh Hl Hp Hn Ht c Hv. rewrite assemble_live by assumption. cbv zeta.
  fold c. rewrite Hp.
  pose proof Hn as Hn'. pose proof MIS_pos as Hpos.
  destruct c as [[[h2|]|e]|] eqn:Ec; cbn [deduplicate].
  - destruct (is_not_duplicate _ (SOM h2)).
    + cbn [pending_accept]. unfold pending_poll, is_expired_at. cbn [t_deadline t_data].
      assert ((now + MAX_INTERBURST_SYMBOLS <=? now) = false) as -> by lia.
      eexists _, _, _. split; [reflexivity|]. split; [exact Hn'|]. split; [discriminate|].
      split; [cbn [weakR t_data]; apply Hv; reflexivity|].
      split; [intros x Hx; inversion Hx; reflexivity|]. split; [intros [H|H]; discriminate|discriminate].
    + cbn [pending_poll]. eexists _, _, _. split; [reflexivity|]. split; [exact Hn'|]. split; [discriminate|].
      split; [exact I|]. split; [discriminate|]. split; [reflexivity|discriminate].
  - destruct (is_not_duplicate _ EOM).
    + cbn [pending_accept]. unfold pending_poll, is_expired_at. cbn [t_deadline t_data].
      rewrite N.leb_refl.
      eexists _, _, _. split; [reflexivity|]. split; [apply nd_eom, Ht|]. split; [discriminate|].
      split; [exact I|]. split; [discriminate|]. split; [reflexivity|]. intros r Hr; inversion Hr; split; reflexivity.
    + cbn [pending_poll]. eexists _, _, _. split; [reflexivity|]. split; [exact Hn'|]. split; [discriminate|].
      split; [exact I|]. split; [discriminate|]. split; [reflexivity|discriminate].
  - cbn [pending_accept]. unfold pending_poll, is_expired_at. cbn [t_deadline t_data].
    assert ((now + MAX_INTERBURST_SYMBOLS <=? now) = false) as -> by lia.
    eexists _, _, _. split; [reflexivity|]. split; [exact Hn'|]. split; [discriminate|].
    split; [exact I|]. split; [intros x Hx; inversion Hx; reflexivity|]. split; [intros [H|H]; discriminate|discriminate].
  - cbn [pending_poll]. eexists _, _, _. split; [reflexivity|]. split; [exact Hn'|]. split; [discriminate|].
    split; [exact I|]. split; [discriminate|]. split; [reflexivity|discriminate].
Qed.

(** * C02 scenarios: which StartOfMessage reports a history yields *)
Fixpoint soms (l : list (N * msg_result)) : list (N * header) :=
  match l with
  | [] => []
  | (t, Ok (SOM h)) :: r => (t, h) :: soms r
  | _ :: r => soms r
  end.

Definition som_reports (outs : list (N * transport)) : list (N * header) := soms (msgs outs).

Lemma soms_app a b : soms (a ++ b) = soms a ++ soms b.
Proof.
  induction a as [|[t [[h|]|e]] a IH]; cbn [app soms]; try rewrite IH; reflexivity.
Qed.

Lemma som_reports_app a b : som_reports (a ++ b) = som_reports a ++ som_reports b.
Proof. unfold som_reports. rewrite msgs_app, soms_app. reflexivity. Qed.

Lemma som_reports_cons_other t x r :
  (forall hh, x <> TMessage (Ok (SOM hh))) -> som_reports ((t, x) :: r) = som_reports r.
Proof.
  intros H. unfold som_reports. cbn [msgs]. destruct x as [| |[[hh|]|e]]; try reflexivity.
  exfalso. exact (H hh eq_refl).
Qed.

Lemma asm_run_cons s o r :
  asm_run s (o :: r) =
  ((op_time o, fst (asm_op s o)) :: fst (asm_run (snd (asm_op s o)) r),
   snd (asm_run (snd (asm_op s o)) r)).
Proof.
  cbn [asm_run]. destruct (asm_op s o) as [t s1]. cbn [fst snd]. destruct (asm_run s1 r) as [ts s2]. reflexivity.
Qed.

Lemma som_reports_polls s polls :
  som_reports (fst (asm_run s (map OIdle polls))) =
  match a_pending s with
  | Some p =>
    match t_data p, find (fun n => t_deadline p <=? n) polls with
    | Ok (SOM h), Some tf => [(tf, h)]
    | _, _ => []
    end
  | None => []
  end.
Proof.
  unfold som_reports. rewrite polls_msgs. destruct (a_pending s) as [p|]; [|reflexivity].
  destruct (find _ polls) as [tf|]; [|destruct (t_data p) as [[h|]|e]; reflexivity].
  destruct (t_data p) as [[h|]|e]; reflexivity.
Qed.

(** a header heard in two bursts (the third lost, or the middle one): reported once, exactly
    when the hold after the second burst runs out; [b1]/[b2] are whatever the link layer
    delivered (any bytes, any junk after the header) as long as they combine to [h] *)
Theorem two_bursts_one_som prev0 b1 b2 t1 t2 polls1 polls2 h :
  b1 <> [] -> b2 <> [] -> nd h (prune_previous prev0 t1) -> h_text h <> PREFIX_MESSAGE_END ->
  t2 < t1 + MAX_HISTORY_DURATION ->
  combine [trunc b1; trunc b2] = Some (Ok (SOM h)) ->
  Forall (fun n => n < t1 + MAX_HISTORY_DURATION) polls1 ->
  som_reports (fst (asm_run (mkAsm [] None prev0)
        (OBurst b1 t1 :: map OIdle polls1 ++ OBurst b2 t2 :: map OIdle polls2)))
  = match find (fun n => t2 + MAX_INTERBURST_SYMBOLS <=? n) polls2 with
    | Some tf => [(tf, h)]
    | None => []
    end.
Proof.
  intros Hb1 Hb2 Hn Ht Ht2 Hc Hp1.
  rewrite asm_run_cons. cbn [asm_op op_time fst snd].
  destruct (burst_from_empty (mkAsm [] None prev0) b1 t1 h Hb1) as (t & pend1 & prev1 & E1 & Hn1 & Hns1 & _ & _ & Hnone & _);
    [constructor|cbn; lia|reflexivity|exact Hn|exact Ht| |].
  { cbn [a_history app map t_data entry]. intros h2 Hh2.
    destruct (combine_one_never_header (trunc b1)) as [C|C]; rewrite C in Hh2; discriminate. }
  cbn [a_history app map t_data entry] in Hnone.
  assert (pend1 = None) as ->.
  { apply Hnone. destruct (combine_one_never_header (trunc b1)) as [C|C]; [left|right]; exact C. }
  rewrite E1. cbn [fst snd a_history app keep_last2].
  rewrite som_reports_cons_other by exact Hns1.
  rewrite asm_run_app. cbn [fst snd].
  rewrite polls_noop.
  2:{ eapply Forall_impl; [|exact Hp1]. cbn. intros n Hn0. split; [intros p Hp; discriminate|].
      constructor; [unfold entry; cbn [t_deadline]; exact Hn0|constructor]. }
  2:{ cbn; lia. }
  cbn [fst snd]. rewrite som_reports_app. unfold som_reports at 1. rewrite msgs_idle_out. cbn [soms app].
  rewrite asm_run_cons. cbn [asm_op op_time fst snd].
  rewrite (burst_establishes _ b2 t2 h Hb2);
    [|constructor; [unfold entry; cbn [t_deadline]; exact Ht2|constructor]|cbn; lia|exact I|exact Hn1|exact Hc].
  cbn [fst snd]. rewrite som_reports_cons_other by discriminate.
  rewrite som_reports_polls. cbn [a_pending t_data t_deadline]. reflexivity.
Qed.

Definition votes_le (bs : list bytes) (h : header) : Prop :=
  forall h2, combine bs = Some (Ok (SOM h2)) -> h_voting h2 <= h_voting h.

(** three bursts, the hold of the second not yet run out when polling stops for the third:
    whatever the first two establish between them (nothing, an error, a shorter header), the
    header [h] that the three combine to is reported once, 682 symbols after the third *)
Theorem three_bursts_one_som prev0 b1 b2 b3 t1 t2 t3 polls1 polls2 polls3 h :
  b1 <> [] -> b2 <> [] -> b3 <> [] -> nd h (prune_previous prev0 t1) -> h_text h <> PREFIX_MESSAGE_END ->
  t2 < t1 + MAX_HISTORY_DURATION -> t3 < t1 + MAX_HISTORY_DURATION -> t1 <= t2 -> t2 <= t3 ->
  combine [trunc b1; trunc b2; trunc b3] = Some (Ok (SOM h)) ->
  votes_le [trunc b1; trunc b2] h ->
  Forall (fun n => n < t1 + MAX_HISTORY_DURATION) polls1 ->
  Forall (fun n => n < t2 + MAX_INTERBURST_SYMBOLS /\ n < t1 + MAX_HISTORY_DURATION) polls2 ->
  som_reports (fst (asm_run (mkAsm [] None prev0)
        (OBurst b1 t1 :: map OIdle polls1 ++ OBurst b2 t2 :: map OIdle polls2
           ++ OBurst b3 t3 :: map OIdle polls3)))
  = match find (fun n => t3 + MAX_INTERBURST_SYMBOLS <=? n) polls3 with
    | Some tf => [(tf, h)]
    | None => []
    end.
Proof.
  intros Hb1 Hb2 Hb3 Hn Ht Ht2 Ht3 Ht12 Ht23 Hc Hv Hp1 Hp2. pose proof MIS_le_MHD as Hle.
  rewrite asm_run_cons. cbn [asm_op op_time fst snd].
  destruct (burst_from_empty (mkAsm [] None prev0) b1 t1 h Hb1) as (t & pend1 & prev1 & E1 & Hn1 & Hns1 & _ & _ & Hnone & _);
    [constructor|cbn; lia|reflexivity|exact Hn|exact Ht| |].
  { cbn [a_history app map t_data entry]. intros h2 Hh2.
    destruct (combine_one_never_header (trunc b1)) as [C|C]; rewrite C in Hh2; discriminate. }
  cbn [a_history app map t_data entry] in Hnone.
  assert (pend1 = None) as ->.
  { apply Hnone. destruct (combine_one_never_header (trunc b1)) as [C|C]; [left|right]; exact C. }
  rewrite E1. cbn [fst snd a_history app keep_last2].
  rewrite som_reports_cons_other by exact Hns1.
  rewrite asm_run_app. cbn [fst snd].
  rewrite polls_noop.
  2:{ eapply Forall_impl; [|exact Hp1]. cbn. intros n Hn0. split; [intros p Hp; discriminate|].
      constructor; [unfold entry; cbn [t_deadline]; exact Hn0|constructor]. }
  2:{ cbn; lia. }
  cbn [fst snd]. rewrite som_reports_app. unfold som_reports at 1. rewrite msgs_idle_out. cbn [soms app].
  (* second burst *)
  rewrite asm_run_cons. cbn [asm_op op_time fst snd].
  destruct (burst_from_empty (mkAsm [entry b1 t1] None prev1) b2 t2 h Hb2)
    as (u & pend2 & prev2 & E2 & Hn2 & Hns2 & Hw2 & Hd2 & _ & _);
    [constructor; [unfold entry; cbn [t_deadline]; exact Ht2|constructor]|cbn; lia|reflexivity|apply nd_prune, Hn1|exact Ht|exact Hv|].
  rewrite E2. cbn [fst snd a_history app keep_last2].
  rewrite som_reports_cons_other by exact Hns2.
  rewrite asm_run_app. cbn [fst snd].
  rewrite polls_noop.
  2:{ eapply Forall_impl; [|exact Hp2]. cbn. intros n [Hn0 Hn0']. split.
      - intros p Hp. rewrite (Hd2 p Hp). exact Hn0.
      - constructor; [unfold entry; cbn [t_deadline]; exact Hn0'|].
        constructor; [unfold entry; cbn [t_deadline]; lia|constructor]. }
  2:{ cbn; lia. }
  cbn [fst snd]. rewrite som_reports_app. unfold som_reports at 1. rewrite msgs_idle_out. cbn [soms app].
  (* third burst *)
  rewrite asm_run_cons. cbn [asm_op op_time fst snd].
  rewrite (burst_establishes _ b3 t3 h Hb3);
    [| constructor; [unfold entry; cbn [t_deadline]; exact Ht3|];
       constructor; [unfold entry; cbn [t_deadline]; lia|constructor]
     | cbn; lia | exact Hw2 | exact Hn2 | exact Hc].
  cbn [fst snd]. rewrite som_reports_cons_other by discriminate.
  rewrite som_reports_polls. cbn [a_pending t_data t_deadline]. reflexivity.
Qed.


(** a header heard in one burst only is never reported, whatever polling surrounds it *)
Lemma polls_keep_empty : forall polls s, a_pending s = None -> a_history s = [] ->
  a_pending (snd (asm_run s (map OIdle polls))) = None
  /\ a_history (snd (asm_run s (map OIdle polls))) = [].
Proof.
  induction polls as [|n polls IH]; intros s Hp Hh; [split; assumption|].
  cbn [map]. rewrite asm_run_cons. cbn [snd asm_op]. apply IH.
  - destruct (idle_cases s n) as [(p & Ep & _)|(_ & He & _)]; [rewrite Hp in Ep; discriminate|].
    rewrite He. exact Hp.
  - unfold asm_idle. rewrite Hh. cbn [prune_history filter keep_last2].
    destruct (pending_poll (a_pending s) n) as [[[m|e]|] p]; reflexivity.
Qed.

Theorem one_burst_no_som prev0 b t polls1 polls2 :
  som_reports (fst (asm_run (mkAsm [] None prev0)
     (map OIdle polls1 ++ OBurst b t :: map OIdle polls2))) = [].
Proof.
  rewrite asm_run_app. cbn [fst snd]. rewrite som_reports_app, som_reports_polls. cbn [a_pending app].
  destruct (polls_keep_empty polls1 (mkAsm [] None prev0) eq_refl eq_refl) as [Hp Hh].
  set (s1 := snd (asm_run _ (map OIdle polls1))) in *.
  rewrite asm_run_cons. cbn [asm_op op_time fst snd].
  destruct b as [|b0 b'].
  - cbn [asm_assemble].
    destruct (idle_cases s1 t) as [(p & Ep & _)|(_ & He & _ & Hf)]; [rewrite Hp in Ep; discriminate|].
    rewrite som_reports_cons_other by (intros hh E; exact (Hf _ E)).
    rewrite som_reports_polls, He, Hp. reflexivity.
  - rewrite assemble_live; [|discriminate|rewrite Hh; constructor|rewrite Hh; cbn [length]; repeat constructor].
    cbv zeta. rewrite Hh, Hp. cbn [app map t_data entry].
    destruct (combine_one_never_header (trunc (b0 :: b'))) as [C|C]; rewrite C; cbn [deduplicate].
    + cbn [pending_poll fst snd]. rewrite som_reports_cons_other by discriminate.
      rewrite som_reports_polls. reflexivity.
    + destruct (is_not_duplicate _ EOM).
      * cbn [pending_accept]. unfold pending_poll, is_expired_at. cbn [t_deadline t_data].
        rewrite N.leb_refl. cbn [fst snd]. rewrite som_reports_cons_other by discriminate.
        rewrite som_reports_polls. reflexivity.
      * cbn [pending_poll fst snd]. rewrite som_reports_cons_other by discriminate.
        rewrite som_reports_polls. reflexivity.
Qed.

(** two bursts never give voting bytes, so whatever header they establish is replaced by
    the one that three bursts establish *)
Lemma combine_two_voting_zero A B h :
  all_bytes A = true -> all_bytes B = true ->
  combine [A; B] = Some (Ok (SOM h)) -> h_voting h = 0.
Proof.
  intros HA HB E.
  destruct (combine_som_backed [A; B] h) as (_ & _ & _ & Hv); [cbn; lia|repeat constructor; assumption|exact E|].
  rewrite Hv. unfold index_sum. generalize (seq 0 (length (h_text h))). intros l.
  induction l as [|i l IH]; [reflexivity|]. cbn [map Nsum fold_right]. fold (Nsum (map (fun i0 : nat => b2n (3 <=? N.of_nat (length (column i0 [A; B])))) l)).
  rewrite IH. unfold column. cbn [flat_map]. rewrite app_nil_r.
  destruct (nth_error A i), (nth_error B i); reflexivity.
Qed.

(** * C02 instantiated with C03: two intact copies of a header and anything else *)
Lemma ascii_all_bytes s : is_ascii s = true -> all_bytes s = true.
Proof.
  unfold is_ascii, all_bytes. rewrite !forallb_forall. intros H x Hx. specialize (H x Hx).
  unfold is_byte. lia.
Qed.

Lemma all_bytes_firstn n : forall s, all_bytes s = true -> all_bytes (firstn n s) = true.
Proof.
  unfold all_bytes. induction n as [|n IH]; intros [|x s] H; cbn [firstn forallb] in *; try reflexivity.
  apply andb_true_iff in H. destruct H as [H1 H2]. rewrite H1, (IH s H2). reflexivity.
Qed.

Lemma trunc_short s : (length s <= MAX_MESSAGE_LENGTH)%nat -> trunc s = s.
Proof. intros H. unfold trunc. apply firstn_all2, H. Qed.

Definition nth_burst (p : pos3) (H X : bytes) (i : nat) : bytes := nth i (arr p H X) [].

(** A canonical header [H] is sent three times; one copy, in any position, is replaced by an
    arbitrary non-empty burst [X] (any byte values, any length); polling between bursts stops
    before the hold of the second burst runs out (it does: the next preamble is at most
    1.05 s + sync latency away).  Then exactly one StartOfMessage is reported, its text is [H],
    its counters are those of C03, and it is released by the first poll at or after
    682 symbols after the end of the third burst. *)
Theorem header_two_of_three p H X h0 prev0 t1 t2 t3 polls1 polls2 polls3 :
  header_new H = Ok h0 -> h_text h0 = H -> forallb is_allowed_byte H = true ->
  (length H <= MAX_MESSAGE_LENGTH)%nat -> all_bytes X = true -> X <> [] ->
  nd h0 (prune_previous prev0 t1) ->
  t1 <= t2 -> t2 <= t3 -> t3 < t1 + MAX_HISTORY_DURATION ->
  Forall (fun n => n < t1 + MAX_HISTORY_DURATION) polls1 ->
  Forall (fun n => n < t2 + MAX_INTERBURST_SYMBOLS /\ n < t1 + MAX_HISTORY_DURATION) polls2 ->
  som_reports (fst (asm_run (mkAsm [] None prev0)
        (OBurst (nth_burst p H X 0) t1 :: map OIdle polls1
         ++ OBurst (nth_burst p H X 1) t2 :: map OIdle polls2
         ++ OBurst (nth_burst p H X 2) t3 :: map OIdle polls3)))
  = match find (fun n => t3 + MAX_INTERBURST_SYMBOLS <=? n) polls3 with
    | Some tf => [(tf, mkHeader H (h_offset_time h0) (parity_spec H (trunc X)) (voting_spec H (trunc X)))]
    | None => []
    end.
Proof.
  intros Hnew Htext Hall Hlen HX HXne Hnd H12 H23 H31 Hp1 Hp2.
  assert (H <> []) as HHne.
  { rewrite <- Htext. eapply header_new_text_nonempty, Hnew. }
  assert (trunc X <> []) as HtX.
  { unfold trunc. destruct X as [|x X']; [contradiction|].
    assert (MAX_MESSAGE_LENGTH = S (pred MAX_MESSAGE_LENGTH)) as -> by reflexivity. discriminate. }
  assert (all_bytes (trunc X) = true) as HXt by (apply all_bytes_firstn, HX).
  assert (all_bytes H = true) as HHb by (apply ascii_all_bytes, forallb_allowed_ascii, Hall).
  pose proof (combine_two_good p H (trunc X) h0 Hnew Htext Hall Hlen HXt) as Hc.
  set (h := mkHeader H (h_offset_time h0) (parity_spec H (trunc X)) (voting_spec H (trunc X))) in *.
  assert (nd h (prune_previous prev0 t1)) as Hnd' by (unfold nd, is_not_duplicate in *; cbn [message_as_str h h_text] in *; rewrite Htext in Hnd; exact Hnd).
  assert (h_text h <> PREFIX_MESSAGE_END) as Hne.
  { cbn [h h_text]. destruct (header_new_ok_inv _ _ Hnew) as (_ & n & Hchk & _).
    pose proof (check_header_starts H _ Hchk) as Hs. intros E. rewrite E in Hs. discriminate. }
  assert (forall A B, all_bytes A = true -> all_bytes B = true -> votes_le [A; B] h) as Hvz.
  { intros A B HA HB h2 E. rewrite (combine_two_voting_zero A B h2 HA HB E). lia. }
  assert (t2 < t1 + MAX_HISTORY_DURATION) as H21 by (clear - H23 H31; lia).
  assert (nth_burst p H X 0 <> [] /\ nth_burst p H X 1 <> [] /\ nth_burst p H X 2 <> []) as (N0 & N1 & N2).
  { destruct p; cbn [nth_burst arr nth]; repeat split; assumption. }
  apply (three_bursts_one_som prev0 _ _ _ t1 t2 t3 polls1 polls2 polls3 h N0 N1 N2 Hnd' Hne H21 H31 H12 H23);
    [| |exact Hp1|exact Hp2].
  - destruct p; cbn [nth_burst arr nth]; rewrite ?(trunc_short H Hlen); exact Hc.
  - destruct p; cbn [nth_burst arr nth]; rewrite ?(trunc_short H Hlen); apply Hvz; assumption.
Qed.

Lemma estimate_loop_empty_tail fuel : forall bs, estimate_loop fuel (bs ++ [[]]) = estimate_loop fuel bs.
Proof.
  induction fuel as [|f IH]; intros bs; [reflexivity|]. cbn [estimate_loop].
  assert (heads (bs ++ [[]]) = heads bs) as ->.
  { unfold heads. rewrite flat_map_app. cbn [flat_map]. rewrite app_nil_r. reflexivity. }
  assert (tails (bs ++ [[]]) = tails bs ++ [[]]) as ->.
  { unfold tails. rewrite map_app. reflexivity. }
  rewrite IH. reflexivity.
Qed.

Lemma combine_HH_empty A B : combine [A; B; []] = combine [A; B].
Proof.
  unfold combine, estimate_message. cbn [firstn].
  change [A; B; []] with ([A; B] ++ [[]]). rewrite estimate_loop_empty_tail. reflexivity.
Qed.

(** the same header in two bursts only (one of the three lost): reported once, 682 symbols
    after the second, with no voting bytes and no bit errors *)
Theorem header_two_bursts H h0 prev0 t1 t2 polls1 polls2 :
  header_new H = Ok h0 -> h_text h0 = H -> forallb is_allowed_byte H = true ->
  (length H <= MAX_MESSAGE_LENGTH)%nat -> nd h0 (prune_previous prev0 t1) ->
  t2 < t1 + MAX_HISTORY_DURATION ->
  Forall (fun n => n < t1 + MAX_HISTORY_DURATION) polls1 ->
  som_reports (fst (asm_run (mkAsm [] None prev0)
        (OBurst H t1 :: map OIdle polls1 ++ OBurst H t2 :: map OIdle polls2)))
  = match find (fun n => t2 + MAX_INTERBURST_SYMBOLS <=? n) polls2 with
    | Some tf => [(tf, mkHeader H (h_offset_time h0) (parity_spec H []) (voting_spec H []))]
    | None => []
    end.
Proof.
  intros Hnew Htext Hall Hlen Hnd H21 Hp1.
  assert (H <> []) as HHne by (rewrite <- Htext; eapply header_new_text_nonempty, Hnew).
  pose proof (combine_two_good P2 H [] h0 Hnew Htext Hall Hlen eq_refl) as Hc.
  cbn [arr] in Hc. rewrite combine_HH_empty in Hc.
  set (h := mkHeader H (h_offset_time h0) (parity_spec H []) (voting_spec H [])) in *.
  assert (nd h (prune_previous prev0 t1)) as Hnd' by (unfold nd, is_not_duplicate in *; cbn [message_as_str h h_text] in *; rewrite Htext in Hnd; exact Hnd).
  assert (h_text h <> PREFIX_MESSAGE_END) as Hne.
  { cbn [h h_text]. destruct (header_new_ok_inv _ _ Hnew) as (_ & n & Hchk & _).
    pose proof (check_header_starts H _ Hchk) as Hs. intros E. rewrite E in Hs. discriminate. }
  apply (two_bursts_one_som prev0 H H t1 t2 polls1 polls2 h HHne HHne Hnd' Hne H21); [|exact Hp1].
  rewrite (trunc_short H Hlen). exact Hc.
Qed.

(** * End-of-message: what bursts combine to it, and the trailer scenario *)
Lemma estimate_step_allowed col e : estimate_step col = Some e -> is_allowed_byte (e_byte e) = true.
Proof.
  unfold estimate_step.
  destruct (match map mask7 col with
            | [] => None | [a] => Some (a, 0) | [a; b] => Some (bit_vote_detect a b)
            | [a; b; c] => Some (bit_vote_correct a b c) | _ => None end) as [[est errs]|]; [|discriminate].
  destruct (is_allowed_byte est) eqn:A; [|discriminate]. intros E; inversion E; subst. exact A.
Qed.

Lemma estimate_loop_allowed fuel : forall bs,
  forallb is_allowed_byte (map e_byte (estimate_loop fuel bs)) = true.
Proof.
  induction fuel as [|f IH]; intros bs; [reflexivity|]. cbn [estimate_loop].
  destruct (estimate_step (heads bs)) as [e|] eqn:E; [|reflexivity].
  cbn [map forallb]. rewrite (estimate_step_allowed _ _ E), IH. reflexivity.
Qed.

Lemma forallb_prefix {A} (f : A -> bool) p l : prefix p l -> forallb f l = true -> forallb f p = true.
Proof. intros (r & ->). rewrite forallb_app. intros H. apply andb_prop in H. tauto. Qed.

(** whenever the estimate starts with "NN" the bursts combine to an EndOfMessage, however many
    bursts back each byte *)
Lemma combine_eom_of_estimate bs c1 e1 c2 e2 L :
  estimate_loop MAX_MESSAGE_LENGTH (firstn 3 bs) = (78, c1, e1) :: (78, c2, e2) :: L ->
  combine bs = Some (Ok EOM).
Proof.
  intros E. unfold combine, estimate_message. rewrite E.
  pose proof (estimate_loop_allowed MAX_MESSAGE_LENGTH (firstn 3 bs)) as Hall. rewrite E in Hall.
  change (map (fun e : N * N * N => fst (fst e))) with (map e_byte) in *.
  change (map (fun e : N * N * N => snd (fst e))) with (map e_count).
  rewrite truncate_entries.
  set (ent := (78, c1, e1) :: (78, c2, e2) :: L) in *.
  set (good := map e_byte (take_while (fun e => 2 <=? e_count e) ent)).
  assert (valid_utf8 good = true) as Hv.
  { apply valid_utf8_ascii, forallb_allowed_ascii. unfold good.
    eapply forallb_prefix; [|exact Hall].
    destruct (take_while_prefix (fun e => 2 <=? e_count e) ent) as (r & Hr).
    exists (map e_byte r). rewrite <- map_app, <- Hr. reflexivity. }
  cbn [map e_byte fst ent]. unfold message_try_from_bytes. rewrite Hv. cbn [negb].
  unfold good, ent. cbn [take_while e_count fst snd].
  destruct (2 <=? c1); [destruct (2 <=? c2)|]; cbn [map e_byte fst starts_with PREFIX_MESSAGE_START PREFIX_EOM2 N.eqb Pos.eqb andb];
    reflexivity.
Qed.

Definition starts_NN (b : bytes) : Prop :=
  exists x y r, b = x :: y :: r /\ mask7 x = 78 /\ mask7 y = 78.

Lemma MAX_SS : MAX_MESSAGE_LENGTH = S (S (pred (pred MAX_MESSAGE_LENGTH))). Proof. reflexivity. Qed.

(** one, two or three bursts that all start with "NN" (eighth bit ignored) *)
Lemma combine_NN bs :
  (1 <= length bs <= 3)%nat -> Forall starts_NN bs -> combine bs = Some (Ok EOM).
Proof.
  intros Hl Hf.
  destruct bs as [|b1 [|b2 [|b3 [|b4 r]]]]; cbn [length] in Hl; try lia.
  - inversion Hf as [|? ? (x1 & y1 & r1 & -> & Hx1 & Hy1) _]; subst.
    eapply combine_eom_of_estimate. cbn [firstn]. rewrite MAX_SS. cbn [estimate_loop heads tails flat_map app map tl].
    unfold estimate_step. cbn [map existsb]. rewrite Hx1, Hy1. cbn [is_allowed_byte]. reflexivity.
  - inversion Hf as [|? ? (x1 & y1 & r1 & -> & Hx1 & Hy1) Hf2]; subst.
    inversion Hf2 as [|? ? (x2 & y2 & r2 & -> & Hx2 & Hy2) _]; subst.
    eapply combine_eom_of_estimate. cbn [firstn]. rewrite MAX_SS. cbn [estimate_loop heads tails flat_map app map tl].
    unfold estimate_step. cbn [map existsb]. rewrite Hx1, Hy1, Hx2, Hy2.
    change (bit_vote_detect 78 78) with (78, 0). cbn [is_allowed_byte]. reflexivity.
  - inversion Hf as [|? ? (x1 & y1 & r1 & -> & Hx1 & Hy1) Hf2]; subst.
    inversion Hf2 as [|? ? (x2 & y2 & r2 & -> & Hx2 & Hy2) Hf3]; subst.
    inversion Hf3 as [|? ? (x3 & y3 & r3 & -> & Hx3 & Hy3) _]; subst.
    eapply combine_eom_of_estimate. cbn [firstn]. rewrite MAX_SS. cbn [estimate_loop heads tails flat_map app map tl].
    unfold estimate_step. cbn [map existsb]. rewrite Hx1, Hy1, Hx2, Hy2, Hx3, Hy3.
    change (bit_vote_correct 78 78 78) with (78, 0). cbn [is_allowed_byte]. reflexivity.
Qed.

Lemma starts_NN_trunc b : starts_NN b -> starts_NN (trunc b).
Proof.
  intros (x & y & r & -> & Hx & Hy). unfold trunc. rewrite MAX_SS. cbn [firstn].
  eexists _, _, _. split; [reflexivity|split; assumption].
Qed.

Lemma starts_NN_nonempty b : starts_NN b -> b <> [].
Proof. intros (x & y & r & -> & _). discriminate. Qed.

(** a burst that establishes an EndOfMessage while the last report was an EndOfMessage that
    has not expired: suppressed, nothing changes but the history *)
Lemma burst_duplicate_eom s b now d :
  b <> [] ->
  Forall (fun e => now < t_deadline e) (a_history s) -> (length (a_history s) <= 2)%nat ->
  a_pending s = None -> a_previous s = Some (mkTimed EOM d) -> now < d ->
  combine (map t_data (a_history s ++ [entry b now])) = Some (Ok EOM) ->
  asm_assemble s b now =
  (TAssembling, mkAsm (keep_last2 (a_history s ++ [entry b now])) None (Some (mkTimed EOM d))).
Proof.
  intros Hb Hh Hl Hp Hprev Hd Hc. rewrite assemble_live by assumption. cbv zeta.
  rewrite Hc, Hprev, Hp. unfold prune_previous, is_expired_at. cbn [t_deadline].
  assert ((d <=? now) = false) as -> by lia. reflexivity.
Qed.

(** The trailer after a quiet channel: three "NNNN" bursts (any junk after the first two
    characters), the last no later than the duplicate window after the first.  Exactly one
    message comes out of the whole history: the EndOfMessage, returned by the assemble call of
    the FIRST burst (fast EOM).  Bursts two and three are suppressed as duplicates. *)
Theorem trailer_one_eom prev0 n1 n2 n3 t1 t2 t3 polls1 polls2 polls3 :
  starts_NN n1 -> starts_NN n2 -> starts_NN n3 ->
  (forall now, is_not_duplicate (prune_previous prev0 now) EOM = true) ->
  t1 <= t2 -> t2 <= t3 -> t3 < t1 + MAX_HISTORY_DURATION ->
  Forall (fun n => n < t1 + MAX_HISTORY_DURATION) polls1 ->
  Forall (fun n => n < t1 + MAX_HISTORY_DURATION) polls2 ->
  msgs (fst (asm_run (mkAsm [] None prev0)
        (OBurst n1 t1 :: map OIdle polls1 ++ OBurst n2 t2 :: map OIdle polls2
           ++ OBurst n3 t3 :: map OIdle polls3)))
  = [(t1, Ok EOM)].
Proof.
  intros S1 S2 S3 Hnd H12 H23 H31 Hp1 Hp2.
  pose proof (starts_NN_nonempty _ S1) as N1. pose proof (starts_NN_nonempty _ S2) as N2.
  pose proof (starts_NN_nonempty _ S3) as N3.
  apply starts_NN_trunc in S1, S2, S3.
  (* first burst *)
  assert (asm_assemble (mkAsm [] None prev0) n1 t1
          = (TMessage (Ok EOM), mkAsm [entry n1 t1] None (Some (mkTimed EOM (t1 + MAX_HISTORY_DURATION))))) as E1.
  { rewrite assemble_live; [|exact N1|constructor|cbn [a_history length]; repeat constructor].
    cbv zeta. cbn [a_history a_pending a_previous app map t_data entry].
    rewrite (combine_NN [trunc n1]); [|cbn [length]; lia|repeat constructor; assumption].
    cbn [deduplicate]. rewrite Hnd. cbn [pending_accept].
    unfold pending_poll, is_expired_at. cbn [t_deadline t_data]. rewrite N.leb_refl. reflexivity. }
  rewrite asm_run_cons. cbn [asm_op op_time fst snd]. rewrite E1.
  cbn [fst snd msgs]. f_equal.
  rewrite asm_run_app. cbn [fst snd]. rewrite msgs_app.
  rewrite polls_noop.
  2:{ eapply Forall_impl; [|exact Hp1]. cbn. intros n Hn0. split; [intros p Hp; discriminate|].
      constructor; [exact Hn0|constructor]. }
  2:{ cbn [a_history length]; repeat constructor. }
  cbn [fst snd]. rewrite msgs_idle_out. cbn [app].
  (* second burst *)
  rewrite asm_run_cons. cbn [asm_op op_time fst snd].
  rewrite (burst_duplicate_eom _ n2 t2 (t1 + MAX_HISTORY_DURATION)); try reflexivity; try assumption.
  2:{ constructor; [unfold entry; cbn [t_deadline]; lia|constructor]. }
  2:{ cbn [a_history length]; repeat constructor. }
  2:{ lia. }
  2:{ cbn [a_history app map t_data entry]. apply combine_NN; [cbn [length]; lia|repeat constructor; assumption]. }
  cbn [fst snd msgs a_history app keep_last2].
  rewrite asm_run_app. cbn [fst snd]. rewrite msgs_app.
  rewrite polls_noop.
  2:{ eapply Forall_impl; [|exact Hp2]. cbn. intros n Hn0. split; [intros p Hp; discriminate|].
      constructor; [exact Hn0|]. constructor; [unfold entry; cbn [t_deadline]; lia|constructor]. }
  2:{ cbn [a_history length]; repeat constructor. }
  cbn [fst snd]. rewrite msgs_idle_out. cbn [app].
  (* third burst *)
  rewrite asm_run_cons. cbn [asm_op op_time fst snd].
  rewrite (burst_duplicate_eom _ n3 t3 (t1 + MAX_HISTORY_DURATION)); try reflexivity; try assumption.
  2:{ constructor; [unfold entry; cbn [t_deadline]; lia|]. constructor; [unfold entry; cbn [t_deadline]; pose proof MHD_pos; lia|constructor]. }
  2:{ cbn [a_history app map t_data entry]. apply combine_NN; [cbn [length]; lia|repeat constructor; assumption]. }
  cbn [fst snd msgs].
  rewrite polls_msgs. reflexivity.
Qed.

(** * C05: re-report after the window; order of two transmissions *)
Lemma nd_expired h m d now : d <= now -> nd h (prune_previous (Some (mkTimed m d)) now).
Proof.
  intros H. unfold prune_previous, is_expired_at. cbn [t_deadline].
  assert ((d <=? now) = true) as -> by lia. reflexivity.
Qed.

(** the same header transmitted again after the duplicate record of its report has expired
    (report time + MAX_HISTORY_DURATION <= end of the first new burst) is reported again *)
Corollary header_rereported_after_window p H X h0 hprev treport t1 t2 t3 polls1 polls2 polls3 :
  header_new H = Ok h0 -> h_text h0 = H -> forallb is_allowed_byte H = true ->
  (length H <= MAX_MESSAGE_LENGTH)%nat -> all_bytes X = true -> X <> [] ->
  h_text hprev = H -> treport + MAX_HISTORY_DURATION <= t1 ->
  t1 <= t2 -> t2 <= t3 -> t3 < t1 + MAX_HISTORY_DURATION ->
  Forall (fun n => n < t1 + MAX_HISTORY_DURATION) polls1 ->
  Forall (fun n => n < t2 + MAX_INTERBURST_SYMBOLS /\ n < t1 + MAX_HISTORY_DURATION) polls2 ->
  som_reports (fst (asm_run (mkAsm [] None (Some (mkTimed (SOM hprev) (treport + MAX_HISTORY_DURATION))))
        (OBurst (nth_burst p H X 0) t1 :: map OIdle polls1
         ++ OBurst (nth_burst p H X 1) t2 :: map OIdle polls2
         ++ OBurst (nth_burst p H X 2) t3 :: map OIdle polls3)))
  = match find (fun n => t3 + MAX_INTERBURST_SYMBOLS <=? n) polls3 with
    | Some tf => [(tf, mkHeader H (h_offset_time h0) (parity_spec H (trunc X)) (voting_spec H (trunc X)))]
    | None => []
    end.
Proof.
  intros Hnew Htext Hall Hlen HX HXne _ Hexp. apply header_two_of_three; try assumption.
  apply nd_expired, Hexp.
Qed.

(** * Witnesses: statements that are FALSE of the faithful model (known findings) *)
Definition str_A : bytes :=   (* "ZCZC-EAS-DMO-999000+0015-0011122-NOCALL00-" *)
  [90;67;90;67;45;69;65;83;45;68;77;79;45;57;57;57;48;48;48;43;48;48;49;53;45;48;48;49;49;49;50;50;45;78;79;67;65;76;76;48;48;45].
Definition str_B : bytes :=   (* "ZCZC-WXR-TOR-039173+0030-0011122-KCLE/NWS-" *)
  [90;67;90;67;45;87;88;82;45;84;79;82;45;48;51;57;49;55;51;43;48;48;51;48;45;48;48;49;49;49;50;50;45;75;67;76;69;47;78;87;83;45].
Definition str_N : bytes := [78;78;78;78].

(** idle is polled at every symbol from [a+1] to [b] *)
Definition ticks (a b : N) : list aop := map (fun i => OIdle (a + N.of_nat i)) (seq 1 (N.to_nat (b - a))).

(** bursts given as (gap from the end of the previous burst to the start of the preamble, bytes):
    idle polled at every symbol until 50 symbols into the preamble, assemble at the burst end *)
Fixpoint tx_ops (now : N) (bursts : list (N * bytes)) (tail : N) : list aop :=
  match bursts with
  | [] => ticks now (now + tail)
  | (gap, d) :: r =>
    let e := now + gap + (16 + N.of_nat (length d)) * 8 in
    ticks now (now + gap + 50) ++ OBurst d e :: tx_ops e r tail
  end.

Definition report_kinds (outs : list (N * transport)) : list (N * N) :=   (* (time, 1=SOM A,2=SOM B,3=EOM,0=other) *)
  map (fun r => (fst r, match snd r with
                        | Ok (SOM h) => if list_eqb (h_text h) str_A then 1 else if list_eqb (h_text h) str_B then 2 else 0
                        | Ok EOM => 3 | Err _ => 0 end)) (msgs outs).

Definition SEC : N := 521.   (* one second of symbols, rounded *)

(** F1 (C05/C02): header A three times, header B three times one second later, idle polled at
    every symbol while the link is idle: A is never reported *)
Example F1_following_header_displaces_pending :
  report_kinds (fst (asm_run asm_init
    (tx_ops 1000 [(SEC,str_A);(SEC,str_A);(SEC,str_A);(SEC,str_B);(SEC,str_B);(SEC,str_B)] 800)))
  = [(7592, 2)].
Proof. vm_compute. reflexivity. Qed.

(** F2 (C02/C08): header bursts 1 and 3, trailer bursts 1 and 2 one second later: the
    StartOfMessage is reported, the EndOfMessage never (6000 symbols of polling follow) *)
Example F2_eom_refused_while_som_pending :
  report_kinds (fst (asm_run asm_init
    (tx_ops 1000 [(SEC,str_A);(SEC+SEC+(16+42)*8,str_A);(SEC,str_N);(SEC,str_N)] 6000)))
  = [(5318, 1)].
Proof. vm_compute. reflexivity. Qed.

(** F3 (C08): the same header six times at one-second intervals: the report comes 682 symbols
    after the SIXTH burst (first burst ends at 1985, third at 3955) *)
Example F3_repeats_extend_the_hold :
  report_kinds (fst (asm_run asm_init
    (tx_ops 1000 [(SEC,str_A);(SEC,str_A);(SEC,str_A);(SEC,str_A);(SEC,str_A);(SEC,str_A)] 800)))
  = [(7592, 1)].
Proof. vm_compute. reflexivity. Qed.

(** F8 (C02/C05): a full trailer, then an unrelated burst ending after the duplicate record of
    the report expired but while trailer bursts 2 and 3 are still in the history: a second
    EndOfMessage for one transmission *)
Example F8_second_eom_from_stale_history :
  report_kinds (fst (asm_run asm_init
    (tx_ops 1000 [(SEC,str_N);(SEC,str_N);(SEC,str_N);(4272,str_B)] 800)))
  = [(1681, 3); (7779, 3)].
Proof. vm_compute. reflexivity. Qed.

(** the ordinary case, for contrast: header x3, 2.5 s, trailer x3 *)
Example normal_transmission :
  report_kinds (fst (asm_run asm_init
    (tx_ops 1000 [(SEC,str_A);(SEC,str_A);(SEC,str_A);(1300,str_N);(SEC,str_N);(SEC,str_N)] 800)))
  = [(4637, 1); (6096, 3)].
Proof. vm_compute. reflexivity. Qed.

(** the hypotheses of the scenario theorems are satisfiable: [str_A] is a canonical header *)
Example str_A_canonical :
  exists h0, header_new str_A = Ok h0 /\ h_text h0 = str_A /\ forallb is_allowed_byte str_A = true
             /\ (length str_A <= MAX_MESSAGE_LENGTH)%nat.
Proof. eexists. split; [vm_compute; reflexivity|]. split; [reflexivity|]. split; [reflexivity|]. vm_compute. lia. Qed.

(** * C10: the assembler forgets.  Once everything it holds has expired (history entries, the
    duplicate record) and nothing is pending, it answers every further history exactly as a
    newly built one does. *)
Definition stale (s : asm) (now : N) : Prop :=
  Forall (fun e => t_deadline e <= now) (a_history s)
  /\ a_pending s = None
  /\ (forall p, a_previous s = Some p -> t_deadline p <= now).

Lemma filter_stale (h : list (timed bytes)) now n :
  Forall (fun e => t_deadline e <= now) h -> now <= n ->
  filter (fun e => negb (is_expired_at e n)) h = [].
Proof.
  intros H Hn. induction H as [|e h He _ IH]; [reflexivity|]. cbn [filter].
  unfold is_expired_at at 1. assert ((t_deadline e <=? n) = true) as -> by lia. exact IH.
Qed.

Lemma stale_idle s now n : stale s now -> now <= n ->
  fst (asm_idle s n) = TIdle /\ stale (snd (asm_idle s n)) n.
Proof.
  intros (Hh & Hp & Hv) Hn. unfold asm_idle, prune_history. rewrite (filter_stale _ now n Hh Hn), Hp.
  cbn [keep_last2 pending_poll fst snd]. split; [reflexivity|].
  repeat split; cbn [a_history a_pending a_previous]; [constructor|].
  intros p Hq. specialize (Hv p Hq). lia.
Qed.

Lemma stale_assemble s now n b : stale s now -> now <= n -> b <> [] ->
  asm_assemble s b n = asm_assemble asm_init b n.
Proof.
  intros (Hh & Hp & Hv) Hn Hb. rewrite !assemble_unfold by exact Hb.
  unfold prune_history at 1 2. rewrite (filter_stale _ now n Hh Hn), Hp.
  assert (prune_previous (a_previous s) n = None) as ->.
  { destruct (a_previous s) as [p|] eqn:E; [|reflexivity]. cbn [prune_previous]. unfold is_expired_at.
    specialize (Hv p eq_refl). assert ((t_deadline p <=? n) = true) as -> by lia. reflexivity. }
  reflexivity.
Qed.

Theorem stale_behaves_as_new : forall ops s now,
  stale s now -> mono now ops -> fst (asm_run s ops) = fst (asm_run asm_init ops).
Proof.
  induction ops as [|o ops IH]; intros s now Hs Hm; [reflexivity|].
  destruct Hm as [Hm1 Hm2]. rewrite !asm_run_cons. cbn [fst].
  assert (forall n, asm_idle asm_init n = (TIdle, asm_init)) as Hinit by reflexivity.
  destruct o as [n|b n]; cbn [asm_op op_time] in *.
  - destruct (stale_idle s now n Hs Hm1) as [Ho Hs']. rewrite Ho, Hinit. cbn [fst snd]. f_equal.
    apply (IH _ n Hs' Hm2).
  - destruct b as [|b0 b'].
    + cbn [asm_assemble]. destruct (stale_idle s now n Hs Hm1) as [Ho Hs']. rewrite Ho, Hinit. cbn [fst snd]. f_equal.
      apply (IH _ n Hs' Hm2).
    + rewrite (stale_assemble s now n (b0 :: b') Hs Hm1) by discriminate. reflexivity.
Qed.
