(** Assembler (assembler.rs) as a transducer over arbitrary operation histories:
    invariants for C05 (no double report inside the duplicate window) and C08
    (an end-of-message is released by the call that establishes it; a held result
    is released by the first idle poll 682 symbols after the last burst at the latest). *)
From Sameold Require Import Base.Bytes Model.Header Model.Combiner Model.Assembler Proofs.Vote Proofs.HeaderP Proofs.CombinerP.
From Coq Require Import ZifyBool ZifyN ZifyNat.
Arguments N.add : simpl never.
Arguments N.leb : simpl never.
Arguments N.ltb : simpl never.
Local Opaque MAX_MESSAGE_LENGTH.

(** * Operation histories *)
Inductive aop := OIdle (now : N) | OBurst (b : bytes) (now : N).

Definition op_time (o : aop) : N := match o with OIdle n => n | OBurst _ n => n end.

Definition asm_op (s : asm) (o : aop) : transport * asm :=
  match o with OIdle n => asm_idle s n | OBurst b n => asm_assemble s b n end.

(** every call with its time and what it returned *)
Fixpoint asm_run (s : asm) (ops : list aop) : list (N * transport) * asm :=
  match ops with
  | [] => ([], s)
  | o :: r =>
    let '(t, s1) := asm_op s o in
    let '(ts, s2) := asm_run s1 r in
    ((op_time o, t) :: ts, s2)
  end.

(** the symbol counter never runs backwards *)
Fixpoint mono (t0 : N) (ops : list aop) : Prop :=
  match ops with [] => True | o :: r => t0 <= op_time o /\ mono (op_time o) r end.

Fixpoint last_burst (t0 : N) (ops : list aop) : N :=
  match ops with
  | [] => t0
  | OBurst _ n :: r => last_burst n r
  | OIdle _ :: r => last_burst t0 r
  end.

Lemma asm_run_app s a b :
  asm_run s (a ++ b) =
  (fst (asm_run s a) ++ fst (asm_run (snd (asm_run s a)) b), snd (asm_run (snd (asm_run s a)) b)).
Proof.
  revert s. induction a as [|o a IH]; intros s; cbn [app asm_run fst snd].
  - destruct (asm_run s b); reflexivity.
  - destruct (asm_op s o) as [t s1]. rewrite IH.
    destruct (asm_run s1 a) as [ts s2]. cbn [fst snd]. reflexivity.
Qed.

(** * The pending slot: what [idle] does with it *)
Lemma idle_fire s now p :
  a_pending s = Some p -> t_deadline p <= now ->
  fst (asm_idle s now) = TMessage (t_data p) /\ a_pending (snd (asm_idle s now)) = None.
Proof.
  intros Hp Hd. unfold asm_idle, pending_poll, is_expired_at. rewrite Hp.
  assert ((t_deadline p <=? now) = true) as -> by lia.
  destruct (t_data p) as [m|e]; cbn [fst snd a_pending]; split; reflexivity.
Qed.

Lemma idle_hold s now :
  (forall p, a_pending s = Some p -> now < t_deadline p) ->
  a_pending (snd (asm_idle s now)) = a_pending s
  /\ a_previous (snd (asm_idle s now)) = a_previous s
  /\ (forall r, fst (asm_idle s now) <> TMessage r).
Proof.
  intros Hp. unfold asm_idle, pending_poll, is_expired_at.
  destruct (a_pending s) as [p|] eqn:E.
  - specialize (Hp p eq_refl). assert ((t_deadline p <=? now) = false) as -> by lia.
    cbn [fst snd a_pending a_previous]. repeat split.
    intros r. destruct (prune_history _ _); discriminate.
  - cbn [fst snd a_pending a_previous]. repeat split.
    intros r. destruct (prune_history _ _); discriminate.
Qed.

(** either way: the slot afterwards is the old slot or empty, and a message comes out
    exactly when the deadline has passed *)
Lemma idle_cases s now :
  (exists p, a_pending s = Some p /\ t_deadline p <= now
             /\ fst (asm_idle s now) = TMessage (t_data p) /\ a_pending (snd (asm_idle s now)) = None)
  \/ ((forall p, a_pending s = Some p -> now < t_deadline p)
      /\ a_pending (snd (asm_idle s now)) = a_pending s
      /\ a_previous (snd (asm_idle s now)) = a_previous s
      /\ (forall r, fst (asm_idle s now) <> TMessage r)).
Proof.
  destruct (a_pending s) as [p|] eqn:E.
  - destruct (N.le_gt_cases (t_deadline p) now) as [H|H].
    + left. exists p. destruct (idle_fire s now p E H) as [A B]. repeat split; assumption.
    + right. assert (forall q, a_pending s = Some q -> now < t_deadline q) as Hq.
      { intros q Hq. rewrite E in Hq. inversion Hq; subst. exact H. }
      split; [intros q Hq2; inversion Hq2; subst; exact H|].
      rewrite <- E. apply idle_hold. exact Hq.
  - right. assert (forall q, a_pending s = Some q -> now < t_deadline q) as Hq.
    { intros q Hq. rewrite E in Hq. discriminate. }
    split; [intros q Hq2; discriminate|]. rewrite <- E. apply idle_hold. exact Hq.
Qed.

(** * C08: the hold is bounded by the last burst; an EndOfMessage never waits *)
Definition pend_not_eom (p : option (timed msg_result)) : Prop :=
  forall t, p = Some t -> t_data t <> Ok EOM.

Definition pend_bound (p : option (timed msg_result)) (last : N) : Prop :=
  forall t, p = Some t -> t_deadline t <= last + MAX_INTERBURST_SYMBOLS.

Definition PInv (s : asm) (last : N) : Prop :=
  pend_not_eom (a_pending s) /\ pend_bound (a_pending s) last.

Lemma PInv_init : PInv asm_init 0.
Proof. split; intros t H; discriminate. Qed.

Definition pend_eom_due (p : option (timed msg_result)) (now : N) : Prop :=
  forall t, p = Some t -> t_data t = Ok EOM -> t_deadline t <= now.

Lemma idle_PInv s now last :
  pend_eom_due (a_pending s) now -> pend_bound (a_pending s) last ->
  PInv (snd (asm_idle s now)) last.
Proof.
  intros H1 H2. destruct (idle_cases s now) as [(p & _ & _ & _ & Hn)|(Hq & He & _)].
  - unfold PInv. rewrite Hn. split; intros t H; discriminate.
  - unfold PInv. rewrite He. split; [|exact H2].
    intros t Ht Hd. specialize (H1 t Ht Hd). specialize (Hq t Ht). lia.
Qed.

Lemma not_eom_due p now : pend_not_eom p -> pend_eom_due p now.
Proof. intros H t Ht Hd. exfalso. exact (H t Ht Hd). Qed.

(** what [accept] can leave in the slot *)
Lemma accept_cases p msg now :
  pending_accept p msg now = p
  \/ pending_accept p msg now =
     Some (mkTimed msg (match msg with Ok EOM => now | _ => now + MAX_INTERBURST_SYMBOLS end)).
Proof.
  unfold pending_accept. destruct p as [old|].
  - match goal with |- context [if ?c then _ else _] => destruct c end.
    + right. destruct msg as [[h|]|e]; reflexivity.
    + left. reflexivity.
  - right. destruct msg as [[h|]|e]; reflexivity.
Qed.

Lemma assemble_unfold s b now : b <> [] ->
  asm_assemble s b now =
  asm_idle (mkAsm (prune_history (a_history s) now
                    ++ [mkTimed (firstn MAX_MESSAGE_LENGTH b) (now + MAX_HISTORY_DURATION)])
                  (match deduplicate (prune_previous (a_previous s) now)
                           (combine (map t_data (prune_history (a_history s) now
                              ++ [mkTimed (firstn MAX_MESSAGE_LENGTH b) (now + MAX_HISTORY_DURATION)]))) with
                   | Some msg => pending_accept (a_pending s) msg now
                   | None => a_pending s
                   end)
                  (prune_previous (a_previous s) now)) now.
Proof. intros Hb. unfold asm_assemble. destruct b; [contradiction|reflexivity]. Qed.

Lemma op_PInv s o last :
  PInv s last -> last <= op_time o ->
  PInv (snd (asm_op s o)) (match o with OBurst _ n => n | OIdle _ => last end).
Proof.
  intros [H1 H2] Hl. destruct o as [now|b now]; cbn [asm_op op_time] in *.
  - apply idle_PInv; [apply not_eom_due, H1|exact H2].
  - assert (pend_bound (a_pending s) now) as H2'.
    { intros t Ht. specialize (H2 t Ht). lia. }
    destruct b as [|b0 b'].
    + cbn [asm_assemble]. apply idle_PInv; [apply not_eom_due, H1|exact H2'].
    + rewrite assemble_unfold by discriminate. cbn [a_pending].
      destruct (deduplicate _ _) as [msg|].
      * destruct (accept_cases (a_pending s) msg now) as [E|E].
        -- apply idle_PInv; cbn [a_pending]; rewrite E; [apply not_eom_due, H1|exact H2'].
        -- apply idle_PInv; cbn [a_pending]; rewrite E.
           ++ intros t Ht Hd. inversion Ht; subst. cbn [t_data t_deadline] in *. subst msg. lia.
           ++ intros t Ht. inversion Ht; subst. cbn [t_deadline]. destruct msg as [[h|]|e]; lia.
      * apply idle_PInv; cbn [a_pending]; [apply not_eom_due, H1|exact H2'].
Qed.

(** for every history: whatever is held is due at most 682 symbols after the last burst *)
Theorem run_PInv : forall ops s clock last,
  PInv s last -> last <= clock -> mono clock ops ->
  PInv (snd (asm_run s ops)) (last_burst last ops).
Proof.
  induction ops as [|o ops IH]; intros s clock last Hi Hl Hm; cbn [asm_run last_burst snd]; [exact Hi|].
  destruct Hm as [Hm1 Hm2].
  assert (last <= op_time o) as Hlo by lia.
  pose proof (op_PInv s o last Hi Hlo) as Hi'.
  destruct (asm_op s o) as [t s1]. cbn [snd] in Hi'.
  destruct o as [now|b now]; cbn [op_time] in *.
  - specialize (IH s1 now last Hi' Hlo Hm2). destruct (asm_run s1 ops) as [ts s2]. exact IH.
  - specialize (IH s1 now now Hi' (N.le_refl _) Hm2). destruct (asm_run s1 ops) as [ts s2]. exact IH.
Qed.

(** ... and the first idle poll at or after that instant releases it *)
Theorem held_result_released s last now p :
  PInv s last -> a_pending s = Some p -> last + MAX_INTERBURST_SYMBOLS <= now ->
  fst (asm_idle s now) = TMessage (t_data p) /\ a_pending (snd (asm_idle s now)) = None.
Proof.
  intros [_ Hb] Hp Hn. apply idle_fire; [exact Hp|]. specialize (Hb p Hp). lia.
Qed.

(** an EndOfMessage established by a burst is returned by that very [assemble] call,
    unless a StartOfMessage is being held (see the known finding F2) *)
Theorem eom_at_once s b now :
  b <> [] -> pend_not_eom (a_pending s) ->
  (forall p h, a_pending s = Some p -> t_data p <> Ok (SOM h)) ->
  deduplicate (prune_previous (a_previous s) now)
    (combine (map t_data (prune_history (a_history s) now
       ++ [mkTimed (firstn MAX_MESSAGE_LENGTH b) (now + MAX_HISTORY_DURATION)]))) = Some (Ok EOM) ->
  fst (asm_assemble s b now) = TMessage (Ok EOM).
Proof.
  intros Hb Hne Hns Hd. rewrite assemble_unfold by exact Hb. rewrite Hd.
  assert (pending_accept (a_pending s) (Ok EOM) now = Some (mkTimed (Ok EOM) now)) as Ea.
  { unfold pending_accept. destruct (a_pending s) as [old|] eqn:E; [|reflexivity].
    destruct (t_data old) as [[h|]|e] eqn:Eo.
    - exfalso. exact (Hns old h eq_refl Eo).
    - exfalso. exact (Hne old eq_refl Eo).
    - reflexivity. }
  rewrite Ea.
  match goal with |- fst (asm_idle ?s0 now) = _ =>
    destruct (idle_fire s0 now (mkTimed (Ok EOM) now) eq_refl (N.le_refl _)) as [A _]; exact A end.
Qed.

(** * C05: the same text is not reported twice within the duplicate window *)
Fixpoint ok_reports (outs : list (N * transport)) : list (N * message) :=
  match outs with
  | [] => []
  | (t, TMessage (Ok m)) :: r => (t, m) :: ok_reports r
  | _ :: r => ok_reports r
  end.

Definition spacing (last : option (N * message)) (t : N) (m : message) : Prop :=
  match last with
  | Some (t0, m0) => message_as_str m0 = message_as_str m -> t0 + MAX_HISTORY_DURATION <= t
  | None => True
  end.

(** every report whose text equals that of the report before it comes at least
    MAX_HISTORY_DURATION symbols after it *)
Fixpoint spaced (last : option (N * message)) (rs : list (N * message)) : Prop :=
  match rs with
  | [] => True
  | (t, m) :: r => spacing last t m /\ spaced (Some (t, m)) r
  end.

Definition prev_ok (prev : option (timed message)) (clock : N) (last : option (N * message)) : Prop :=
  match last with
  | None => prev = None
  | Some (t0, m0) =>
    prev = Some (mkTimed m0 (t0 + MAX_HISTORY_DURATION))
    \/ (prev = None /\ t0 + MAX_HISTORY_DURATION <= clock)
  end.

Definition pend_spaced (p : option (timed msg_result)) (last : option (N * message)) : Prop :=
  forall x m, p = Some x -> t_data x = Ok m -> spacing last (t_deadline x) m.

Definition DInv (s : asm) (clock : N) (last : option (N * message)) : Prop :=
  prev_ok (a_previous s) clock last /\ pend_spaced (a_pending s) last.

Lemma DInv_init : DInv asm_init 0 None.
Proof. split; [reflexivity|]. intros x m H; discriminate. Qed.

Lemma prev_ok_mono prev c1 c2 last : c1 <= c2 -> prev_ok prev c1 last -> prev_ok prev c2 last.
Proof.
  intros Hc. unfold prev_ok. destruct last as [[t0 m0]|]; [|auto].
  intros [H|[H1 H2]]; [left; exact H|right; split; [exact H1|lia]].
Qed.

Lemma list_eqb_refl a : list_eqb a a = true.
Proof. induction a as [|x a IH]; [reflexivity|]. cbn [list_eqb]. rewrite N.eqb_refl, IH. reflexivity. Qed.

Definition out_ok (t : transport) (s' : asm) (now : N) (last : option (N * message)) : Prop :=
  match t with
  | TMessage (Ok m) => spacing last now m /\ DInv s' now (Some (now, m))
  | _ => DInv s' now last
  end.

Lemma idle_DInv s now clock last :
  DInv s clock last -> clock <= now ->
  out_ok (fst (asm_idle s now)) (snd (asm_idle s now)) now last.
Proof.
  intros [Hp Hq] Hc.
  destruct (idle_cases s now) as [(p & Ep & Hd & Ef & En)|(_ & He & Hv & Hf)].
  - unfold out_ok. rewrite Ef.
    unfold asm_idle, pending_poll, is_expired_at in *. rewrite Ep in *.
    assert ((t_deadline p <=? now) = true) as Hb by lia. rewrite Hb in *.
    destruct (t_data p) as [m|e] eqn:Ed; cbn [fst snd a_pending a_previous] in *.
    + split.
      * specialize (Hq p m eq_refl Ed). unfold spacing in *. destruct last as [[t0 m0]|]; [|exact I].
        intros Hs. specialize (Hq Hs). lia.
      * split; cbn [a_previous a_pending]; [left; reflexivity|intros x m' H; discriminate].
    + split; cbn [a_previous a_pending]; [apply (prev_ok_mono _ clock); assumption|intros x m' H; discriminate].
  - assert (DInv (snd (asm_idle s now)) now last) as Hd.
    { split; [rewrite Hv; apply (prev_ok_mono _ clock); assumption|rewrite He; exact Hq]. }
    unfold out_ok. destruct (fst (asm_idle s now)) as [| |[m|e]] eqn:Et; try exact Hd.
    exfalso. exact (Hf _ eq_refl).
Qed.

Lemma prune_previous_ok prev clock now last :
  prev_ok prev clock last -> clock <= now -> prev_ok (prune_previous prev now) now last.
Proof.
  intros Hp Hc. unfold prev_ok in *. destruct last as [[t0 m0]|].
  - destruct Hp as [->|[-> H]].
    + unfold prune_previous, is_expired_at. cbn [t_deadline].
      destruct (N.leb_spec (t0 + MAX_HISTORY_DURATION) now) as [H|H]; [right; split; [reflexivity|exact H]|left; reflexivity].
    + right. split; [reflexivity|lia].
  - subst prev. reflexivity.
Qed.

Lemma accept_spaced prev p msg now last :
  prev_ok prev now last -> pend_spaced p last ->
  deduplicate prev (Some msg) = Some msg ->
  pend_spaced (pending_accept p msg now) last.
Proof.
  intros Hp Hq Hd. destruct (accept_cases p msg now) as [->| ->]; [exact Hq|].
  intros x m Hx Hm. inversion Hx; subst x. cbn [t_data t_deadline] in *. subst msg.
  unfold spacing. destruct last as [[t0 m0]|]; [|exact I]. intros Hs.
  unfold prev_ok in Hp. destruct Hp as [->|[-> H]].
  - exfalso. cbn [deduplicate is_not_duplicate t_data] in Hd. rewrite Hs, list_eqb_refl in Hd. discriminate.
  - destruct m; lia.
Qed.

Lemma dedup_some prev r msg : deduplicate prev r = Some msg -> deduplicate prev (Some msg) = Some msg.
Proof.
  unfold deduplicate. destruct r as [[m|e]|]; try discriminate.
  - destruct (is_not_duplicate prev m) eqn:E; [|discriminate]. intros H; inversion H; subst. rewrite E. reflexivity.
  - intros H; inversion H; subst. reflexivity.
Qed.

Lemma op_DInv s o clock last :
  DInv s clock last -> clock <= op_time o ->
  out_ok (fst (asm_op s o)) (snd (asm_op s o)) (op_time o) last.
Proof.
  intros Hi Hc. destruct o as [now|b now]; cbn [asm_op op_time] in *.
  - eapply idle_DInv; eassumption.
  - destruct b as [|b0 b'].
    + cbn [asm_assemble]. eapply idle_DInv; eassumption.
    + rewrite assemble_unfold by discriminate.
      destruct Hi as [Hp Hq].
      pose proof (prune_previous_ok _ _ now _ Hp Hc) as Hp'.
      eapply (idle_DInv _ now now); [|lia]. split; cbn [a_previous a_pending]; [exact Hp'|].
      destruct (deduplicate _ _) as [msg|] eqn:Ed; [|exact Hq].
      eapply accept_spaced; [exact Hp'|exact Hq|]. eapply dedup_some, Ed.
Qed.

(** for every history with a monotone clock *)
Theorem run_spaced : forall ops s clock last,
  DInv s clock last -> mono clock ops -> spaced last (ok_reports (fst (asm_run s ops))).
Proof.
  induction ops as [|o ops IH]; intros s clock last Hi Hm; cbn [asm_run fst ok_reports spaced]; [exact I|].
  destruct Hm as [Hm1 Hm2].
  pose proof (op_DInv s o clock last Hi Hm1) as Ho.
  destruct (asm_op s o) as [t s1]. cbn [fst snd] in Ho.
  specialize (IH s1 (op_time o)). destruct (asm_run s1 ops) as [ts s2]. cbn [fst] in *.
  unfold out_ok in Ho. destruct t as [| |[m|e]]; cbn [ok_reports spaced].
  - eapply IH; eassumption.
  - eapply IH; eassumption.
  - destruct Ho as [Hs Hd]. split; [exact Hs|]. eapply IH; eassumption.
  - eapply IH; eassumption.
Qed.

Corollary no_double_report ops :
  mono 0 ops -> spaced None (ok_reports (fst (asm_run asm_init ops))).
Proof. intros Hm. eapply run_spaced; [exact DInv_init|exact Hm]. Qed.

(** * Macro steps for scenario proofs *)
Lemma MIS_pos : 0 < MAX_INTERBURST_SYMBOLS. Proof. reflexivity. Qed.
Lemma MHD_pos : 0 < MAX_HISTORY_DURATION. Proof. reflexivity. Qed.
Lemma MIS_le_MHD : MAX_INTERBURST_SYMBOLS <= MAX_HISTORY_DURATION. Proof. discriminate. Qed.

Lemma filter_all {A} (f : A -> bool) l : Forall (fun x => f x = true) l -> filter f l = l.
Proof. induction 1 as [|x l Hx _ IH]; [reflexivity|]. cbn [filter]. rewrite Hx, IH. reflexivity. Qed.

Lemma keep_last2_short {A} (l : list A) : (length l <= 2)%nat -> keep_last2 l = l.
Proof. destruct l as [|a [|b [|c r]]]; cbn [length]; intros H; try reflexivity. lia. Qed.

Lemma filter_live (h : list (timed bytes)) now : Forall (fun e => now < t_deadline e) h ->
  filter (fun e => negb (is_expired_at e now)) h = h.
Proof.
  intros H. apply filter_all. eapply Forall_impl; [|exact H]. cbn. intros e He.
  unfold is_expired_at. assert ((t_deadline e <=? now) = false) as -> by lia. reflexivity. (*x*)
Qed.

Lemma prune_live (h : list (timed bytes)) now : Forall (fun e => now < t_deadline e) h -> (length h <= 2)%nat ->
  prune_history h now = h.
Proof. intros H L. unfold prune_history. rewrite filter_live by exact H. apply keep_last2_short, L. Qed.

Definition idle_out (s : asm) : transport :=
  match a_history s with [] => TIdle | _ => TAssembling end.

Lemma idle_noop s now :
  (forall p, a_pending s = Some p -> now < t_deadline p) ->
  Forall (fun e => now < t_deadline e) (a_history s) -> (length (a_history s) <= 2)%nat ->
  asm_idle s now = (idle_out s, s).
Proof.
  intros Hp Hh Hl. unfold asm_idle, idle_out. rewrite prune_live by assumption.
  unfold pending_poll, is_expired_at. destruct s as [h p prev]. cbn [a_history a_pending a_previous] in *.
  destruct p as [x|]; [|reflexivity].
  specialize (Hp x eq_refl). assert ((t_deadline x <=? now) = false) as -> by lia. reflexivity.
Qed.

(** idle polling that comes before anything is due changes nothing and reports nothing *)
Lemma polls_noop : forall polls s,
  Forall (fun n => (forall p, a_pending s = Some p -> n < t_deadline p)
                   /\ Forall (fun e => n < t_deadline e) (a_history s)) polls ->
  (length (a_history s) <= 2)%nat ->
  asm_run s (map OIdle polls) = (map (fun n => (n, idle_out s)) polls, s).
Proof.
  induction polls as [|n polls IH]; intros s Hf Hl; [reflexivity|].
  inversion Hf as [|? ? [H1 H2] Hf']; subst. cbn [map asm_run asm_op op_time].
  rewrite idle_noop by assumption. rewrite IH by assumption. reflexivity.
Qed.

Fixpoint msgs (outs : list (N * transport)) : list (N * msg_result) :=
  match outs with
  | [] => []
  | (t, TMessage r) :: rest => (t, r) :: msgs rest
  | _ :: rest => msgs rest
  end.

Lemma msgs_app a b : msgs (a ++ b) = msgs a ++ msgs b.
Proof.
  induction a as [|[t x] a IH]; [reflexivity|]. cbn [app msgs]. destruct x; rewrite IH; reflexivity.
Qed.

Lemma msgs_idle_out s polls : msgs (map (fun n => (n, idle_out s)) polls) = [].
Proof. induction polls as [|n polls IH]; [reflexivity|]. cbn [map msgs]. unfold idle_out at 1. destruct (a_history s); exact IH. Qed.

(** what a run of idle polls reports depends on the pending slot alone: the held result,
    once, at the first poll at or after its deadline *)
Lemma polls_msgs : forall polls s,
  msgs (fst (asm_run s (map OIdle polls))) =
  match a_pending s with
  | None => []
  | Some p =>
    match find (fun n => t_deadline p <=? n) polls with
    | Some tf => [(tf, t_data p)]
    | None => []
    end
  end.
Proof.
  induction polls as [|n polls IH]; intros s.
  - cbn [map asm_run fst msgs find]. destruct (a_pending s); reflexivity.
  - cbn [map asm_run asm_op op_time find].
    destruct (idle_cases s n) as [(p & Ep & Hd & Ef & En)|(Hq & He & _ & Hf)].
    + specialize (IH (snd (asm_idle s n))). destruct (asm_idle s n) as [t s1]. cbn [fst snd] in *.
      destruct (asm_run s1 (map OIdle polls)) as [ts s2]. cbn [fst] in *.
      rewrite Ef, Ep. cbn [msgs]. assert ((t_deadline p <=? n) = true) as -> by lia.
      rewrite IH, En. reflexivity.
    + specialize (IH (snd (asm_idle s n))). destruct (asm_idle s n) as [t s1]. cbn [fst snd] in *.
      destruct (asm_run s1 (map OIdle polls)) as [ts s2]. cbn [fst] in *.
      assert (msgs ((n, t) :: ts) = msgs ts) as ->.
      { cbn [msgs]. destruct t as [| |r]; try reflexivity. exfalso. exact (Hf r eq_refl). }
      rewrite IH, He. destruct (a_pending s) as [p|]; [|reflexivity].
      specialize (Hq p eq_refl). assert ((t_deadline p <=? n) = false) as -> by lia. reflexivity.
Qed.

Definition trunc (b : bytes) : bytes := firstn MAX_MESSAGE_LENGTH b.
Definition entry (b : bytes) (now : N) : timed bytes := mkTimed (trunc b) (now + MAX_HISTORY_DURATION).

(** [assemble] when every history entry is still alive *)
Lemma assemble_live s b now : b <> [] ->
  Forall (fun e => now < t_deadline e) (a_history s) -> (length (a_history s) <= 2)%nat ->
  asm_assemble s b now =
  let h' := a_history s ++ [entry b now] in
  let prev := prune_previous (a_previous s) now in
  let pend := match deduplicate prev (combine (map t_data h')) with
              | Some msg => pending_accept (a_pending s) msg now
              | None => a_pending s end in
  match pending_poll pend now with
  | (Some (Ok m), p) => (TMessage (Ok m), mkAsm (keep_last2 h') p (Some (mkTimed m (now + MAX_HISTORY_DURATION))))
  | (Some (Err e), p) => (TMessage (Err e), mkAsm (keep_last2 h') p prev)
  | (None, p) => (TAssembling, mkAsm (keep_last2 h') p prev)
  end.
Proof.
  intros Hb Hh Hl. rewrite assemble_unfold by exact Hb. rewrite prune_live by assumption.
  change (mkTimed (firstn MAX_MESSAGE_LENGTH b) (now + MAX_HISTORY_DURATION)) with (entry b now). cbv zeta.
  unfold asm_idle. cbn [a_history a_pending a_previous].
  match goal with |- context [prune_history ?x now] =>
    assert (prune_history x now = keep_last2 x) as -> end.
  { unfold prune_history. rewrite filter_live; [reflexivity|].
    apply Forall_app. split; [exact Hh|]. constructor; [|constructor].
    unfold entry. cbn [t_deadline]. pose proof MHD_pos. lia. }
  destruct (pending_poll _ now) as [[[m|e]|] p]; try reflexivity.
  apply (f_equal2 pair); [|reflexivity].
  match goal with |- match ?k with [] => _ | _ => _ end = _ => destruct k eqn:E end; [|reflexivity].
  exfalso. destruct (a_history s) as [|x [|y [|z r]]]; cbn in E; try discriminate. cbn [length] in Hl. lia.
Qed.

(** the last report, if any, is not the text of [h] *)
Definition nd (h : header) (prev : option (timed message)) : Prop :=
  is_not_duplicate prev (SOM h) = true.

Lemma nd_none h : nd h None. Proof. reflexivity. Qed.

Lemma nd_prune h prev now : nd h prev -> nd h (prune_previous prev now).
Proof.
  intros H. destruct prev as [m|]; [|reflexivity]. cbn [prune_previous].
  destruct (is_expired_at m now); [reflexivity|exact H].
Qed.

Lemma list_eqb_true : forall a b, list_eqb a b = true -> a = b.
Proof.
  induction a as [|x a IH]; intros [|y b] E; cbn [list_eqb] in E; try discriminate; [reflexivity|].
  apply andb_true_iff in E. destruct E as [E1 E2]. apply N.eqb_eq in E1. subst. f_equal. apply IH, E2.
Qed.

Lemma nd_eom h d : h_text h <> PREFIX_MESSAGE_END -> nd h (Some (mkTimed EOM d)).
Proof.
  intros H. unfold nd, is_not_duplicate. cbn [t_data message_as_str].
  destruct (list_eqb PREFIX_MESSAGE_END (h_text h)) eqn:E; [|reflexivity].
  exfalso. apply H. symmetry. apply list_eqb_true, E.
Qed.

(** a pending result that a StartOfMessage [h] will replace *)
Definition weakR (h : header) (p : option (timed msg_result)) : Prop :=
  match p with
  | None => True
  | Some x =>
    match t_data x with
    | Ok EOM => False
    | Ok (SOM h2) => h_voting h2 <= h_voting h
    | Err _ => True
    end
  end.

(** a burst that establishes [h] takes the slot and starts a fresh hold *)
Lemma burst_establishes s b now h :
  b <> [] ->
  Forall (fun e => now < t_deadline e) (a_history s) -> (length (a_history s) <= 2)%nat ->
  weakR h (a_pending s) -> nd h (a_previous s) ->
  combine (map t_data (a_history s ++ [entry b now])) = Some (Ok (SOM h)) ->
  asm_assemble s b now =
  (TAssembling, mkAsm (keep_last2 (a_history s ++ [entry b now]))
                      (Some (mkTimed (Ok (SOM h)) (now + MAX_INTERBURST_SYMBOLS)))
                      (prune_previous (a_previous s) now)).
Proof.
  intros Hb Hh Hl Hw Hn Hc. rewrite assemble_live by assumption. cbv zeta. rewrite Hc.
  pose proof (nd_prune h _ now Hn) as Hn'. unfold nd in Hn'.
  cbn [deduplicate]. rewrite Hn'.
  assert (pending_accept (a_pending s) (Ok (SOM h)) now
          = Some (mkTimed (Ok (SOM h)) (now + MAX_INTERBURST_SYMBOLS))) as ->.
  { unfold pending_accept. destruct (a_pending s) as [old|]; [|reflexivity].
    unfold weakR in Hw. destruct (t_data old) as [[h2|]|e]; [|contradiction|reflexivity].
    assert ((h_voting h2 <=? h_voting h) = true) as -> by lia. reflexivity. }
  unfold pending_poll, is_expired_at. cbn [t_deadline].
  pose proof MIS_pos. assert ((now + MAX_INTERBURST_SYMBOLS <=? now) = false) as -> by lia.
  reflexivity.
Qed.

(** a burst arriving while nothing is held: whatever it establishes, no StartOfMessage
    comes out of that call, and what it leaves in the slot can be replaced by [h] *)
Lemma burst_from_empty s b now h :
  b <> [] ->
  Forall (fun e => now < t_deadline e) (a_history s) -> (length (a_history s) <= 2)%nat ->
  a_pending s = None -> nd h (a_previous s) -> h_text h <> PREFIX_MESSAGE_END ->
  let c := combine (map t_data (a_history s ++ [entry b now])) in
  (forall h2, c = Some (Ok (SOM h2)) -> h_voting h2 <= h_voting h) ->
  exists t pend' prev',
    asm_assemble s b now = (t, mkAsm (keep_last2 (a_history s ++ [entry b now])) pend' prev')
    /\ nd h prev' /\ (forall hh, t <> TMessage (Ok (SOM hh)))
    /\ weakR h pend'
    /\ (forall x, pend' = Some x -> t_deadline x = now + MAX_INTERBURST_SYMBOLS)
    /\ ((c = None \/ c = Some (Ok EOM)) -> pend' = None)
    /\ (forall r, t = TMessage r -> r = Ok EOM).
Proof.
  intros Hb Hh Hl Hp Hn Ht c Hv. rewrite assemble_live by assumption. cbv zeta.
  fold c. rewrite Hp.
  pose proof (nd_prune h _ now Hn) as Hn'. pose proof MIS_pos as Hpos.
  destruct c as [[[h2|]|e]|] eqn:Ec; cbn [deduplicate].
  - destruct (is_not_duplicate _ (SOM h2)).
    + cbn [pending_accept]. unfold pending_poll, is_expired_at. cbn [t_deadline t_data].
      assert ((now + MAX_INTERBURST_SYMBOLS <=? now) = false) as -> by lia.
      eexists _, _, _. split; [reflexivity|]. split; [exact Hn'|]. split; [discriminate|].
      split; [cbn [weakR t_data]; apply Hv; reflexivity|].
      split; [intros x Hx; inversion Hx; reflexivity|]. split; [intros [H|H]; discriminate|discriminate].
    + cbn [pending_poll]. eexists _, _, _. split; [reflexivity|]. split; [exact Hn'|]. split; [discriminate|].
      split; [exact I|]. split; [discriminate|]. split; [reflexivity|discriminate].
  - destruct (is_not_duplicate _ EOM).
    + cbn [pending_accept]. unfold pending_poll, is_expired_at. cbn [t_deadline t_data].
      rewrite N.leb_refl.
      eexists _, _, _. split; [reflexivity|]. split; [apply nd_eom, Ht|]. split; [discriminate|].
      split; [exact I|]. split; [discriminate|]. split; [reflexivity|]. intros r Hr; inversion Hr; reflexivity.
    + cbn [pending_poll]. eexists _, _, _. split; [reflexivity|]. split; [exact Hn'|]. split; [discriminate|].
      split; [exact I|]. split; [discriminate|]. split; [reflexivity|discriminate].
  - cbn [pending_accept]. unfold pending_poll, is_expired_at. cbn [t_deadline t_data].
    assert ((now + MAX_INTERBURST_SYMBOLS <=? now) = false) as -> by lia.
    eexists _, _, _. split; [reflexivity|]. split; [exact Hn'|]. split; [discriminate|].
    split; [exact I|]. split; [intros x Hx; inversion Hx; reflexivity|]. split; [intros [H|H]; discriminate|discriminate].
  - cbn [pending_poll]. eexists _, _, _. split; [reflexivity|]. split; [exact Hn'|]. split; [discriminate|].
    split; [exact I|]. split; [discriminate|]. split; [reflexivity|discriminate].
Qed.

(** * C02 scenarios: which StartOfMessage reports a history yields *)
Fixpoint soms (l : list (N * msg_result)) : list (N * header) :=
  match l with
  | [] => []
  | (t, Ok (SOM h)) :: r => (t, h) :: soms r
  | _ :: r => soms r
  end.

Definition som_reports (outs : list (N * transport)) : list (N * header) := soms (msgs outs).

Lemma soms_app a b : soms (a ++ b) = soms a ++ soms b.
Proof.
  induction a as [|[t [[h|]|e]] a IH]; cbn [app soms]; try rewrite IH; reflexivity.
Qed.

Lemma som_reports_app a b : som_reports (a ++ b) = som_reports a ++ som_reports b.
Proof. unfold som_reports. rewrite msgs_app, soms_app. reflexivity. Qed.

Lemma som_reports_cons_other t x r :
  (forall hh, x <> TMessage (Ok (SOM hh))) -> som_reports ((t, x) :: r) = som_reports r.
Proof.
  intros H. unfold som_reports. cbn [msgs]. destruct x as [| |[[hh|]|e]]; try reflexivity.
  exfalso. exact (H hh eq_refl).
Qed.

Lemma asm_run_cons s o r :
  asm_run s (o :: r) =
  ((op_time o, fst (asm_op s o)) :: fst (asm_run (snd (asm_op s o)) r),
   snd (asm_run (snd (asm_op s o)) r)).
Proof.
  cbn [asm_run]. destruct (asm_op s o) as [t s1]. cbn [fst snd]. destruct (asm_run s1 r) as [ts s2]. reflexivity.
Qed.

Lemma som_reports_polls s polls :
  som_reports (fst (asm_run s (map OIdle polls))) =
  match a_pending s with
  | Some p =>
    match t_data p, find (fun n => t_deadline p <=? n) polls with
    | Ok (SOM h), Some tf => [(tf, h)]
    | _, _ => []
    end
  | None => []
  end.
Proof.
  unfold som_reports. rewrite polls_msgs. destruct (a_pending s) as [p|]; [|reflexivity].
  destruct (find _ polls) as [tf|]; [|destruct (t_data p) as [[h|]|e]; reflexivity].
  destruct (t_data p) as [[h|]|e]; reflexivity.
Qed.

(** a header heard in two bursts (the third lost, or the middle one): reported once, exactly
    when the hold after the second burst runs out; [b1]/[b2] are whatever the link layer
    delivered (any bytes, any junk after the header) as long as they combine to [h] *)
Theorem two_bursts_one_som prev0 b1 b2 t1 t2 polls1 polls2 h :
  b1 <> [] -> b2 <> [] -> nd h prev0 -> h_text h <> PREFIX_MESSAGE_END ->
  t2 < t1 + MAX_HISTORY_DURATION ->
  combine [trunc b1; trunc b2] = Some (Ok (SOM h)) ->
  Forall (fun n => n < t1 + MAX_HISTORY_DURATION) polls1 ->
  som_reports (fst (asm_run (mkAsm [] None prev0)
        (OBurst b1 t1 :: map OIdle polls1 ++ OBurst b2 t2 :: map OIdle polls2)))
  = match find (fun n => t2 + MAX_INTERBURST_SYMBOLS <=? n) polls2 with
    | Some tf => [(tf, h)]
    | None => []
    end.
Proof.
  intros Hb1 Hb2 Hn Ht Ht2 Hc Hp1.
  rewrite asm_run_cons. cbn [asm_op op_time fst snd].
  destruct (burst_from_empty (mkAsm [] None prev0) b1 t1 h Hb1) as (t & pend1 & prev1 & E1 & Hn1 & Hns1 & _ & _ & Hnone & _);
    [constructor|cbn; lia|reflexivity|exact Hn|exact Ht| |].
  { cbn [a_history app map t_data entry]. intros h2 Hh2.
    destruct (combine_one_never_header (trunc b1)) as [C|C]; rewrite C in Hh2; discriminate. }
  cbn [a_history app map t_data entry] in Hnone.
  assert (pend1 = None) as ->.
  { apply Hnone. destruct (combine_one_never_header (trunc b1)) as [C|C]; [left|right]; exact C. }
  rewrite E1. cbn [fst snd a_history app keep_last2].
  rewrite som_reports_cons_other by exact Hns1.
  rewrite asm_run_app. cbn [fst snd].
  rewrite polls_noop.
  2:{ eapply Forall_impl; [|exact Hp1]. cbn. intros n Hn0. split; [intros p Hp; discriminate|].
      constructor; [unfold entry; cbn [t_deadline]; exact Hn0|constructor]. }
  2:{ cbn; lia. }
  cbn [fst snd]. rewrite som_reports_app. unfold som_reports at 1. rewrite msgs_idle_out. cbn [soms app].
  rewrite asm_run_cons. cbn [asm_op op_time fst snd].
  rewrite (burst_establishes _ b2 t2 h Hb2);
    [|constructor; [unfold entry; cbn [t_deadline]; exact Ht2|constructor]|cbn; lia|exact I|exact Hn1|exact Hc].
  cbn [fst snd]. rewrite som_reports_cons_other by discriminate.
  rewrite som_reports_polls. cbn [a_pending t_data t_deadline]. reflexivity.
Qed.

Definition votes_le (bs : list bytes) (h : header) : Prop :=
  forall h2, combine bs = Some (Ok (SOM h2)) -> h_voting h2 <= h_voting h.

(** three bursts, the hold of the second not yet run out when polling stops for the third:
    whatever the first two establish between them (nothing, an error, a shorter header), the
    header [h] that the three combine to is reported once, 682 symbols after the third *)
Theorem three_bursts_one_som prev0 b1 b2 b3 t1 t2 t3 polls1 polls2 polls3 h :
  b1 <> [] -> b2 <> [] -> b3 <> [] -> nd h prev0 -> h_text h <> PREFIX_MESSAGE_END ->
  t2 < t1 + MAX_HISTORY_DURATION -> t3 < t1 + MAX_HISTORY_DURATION -> t1 <= t2 -> t2 <= t3 ->
  combine [trunc b1; trunc b2; trunc b3] = Some (Ok (SOM h)) ->
  votes_le [trunc b1; trunc b2] h ->
  Forall (fun n => n < t1 + MAX_HISTORY_DURATION) polls1 ->
  Forall (fun n => n < t2 + MAX_INTERBURST_SYMBOLS /\ n < t1 + MAX_HISTORY_DURATION) polls2 ->
  som_reports (fst (asm_run (mkAsm [] None prev0)
        (OBurst b1 t1 :: map OIdle polls1 ++ OBurst b2 t2 :: map OIdle polls2
           ++ OBurst b3 t3 :: map OIdle polls3)))
  = match find (fun n => t3 + MAX_INTERBURST_SYMBOLS <=? n) polls3 with
    | Some tf => [(tf, h)]
    | None => []
    end.
Proof.
  intros Hb1 Hb2 Hb3 Hn Ht Ht2 Ht3 Ht12 Ht23 Hc Hv Hp1 Hp2. pose proof MIS_le_MHD as Hle.
  rewrite asm_run_cons. cbn [asm_op op_time fst snd].
  destruct (burst_from_empty (mkAsm [] None prev0) b1 t1 h Hb1) as (t & pend1 & prev1 & E1 & Hn1 & Hns1 & _ & _ & Hnone & _);
    [constructor|cbn; lia|reflexivity|exact Hn|exact Ht| |].
  { cbn [a_history app map t_data entry]. intros h2 Hh2.
    destruct (combine_one_never_header (trunc b1)) as [C|C]; rewrite C in Hh2; discriminate. }
  cbn [a_history app map t_data entry] in Hnone.
  assert (pend1 = None) as ->.
  { apply Hnone. destruct (combine_one_never_header (trunc b1)) as [C|C]; [left|right]; exact C. }
  rewrite E1. cbn [fst snd a_history app keep_last2].
  rewrite som_reports_cons_other by exact Hns1.
  rewrite asm_run_app. cbn [fst snd].
  rewrite polls_noop.
  2:{ eapply Forall_impl; [|exact Hp1]. cbn. intros n Hn0. split; [intros p Hp; discriminate|].
      constructor; [unfold entry; cbn [t_deadline]; exact Hn0|constructor]. }
  2:{ cbn; lia. }
  cbn [fst snd]. rewrite som_reports_app. unfold som_reports at 1. rewrite msgs_idle_out. cbn [soms app].
  (* second burst *)
  rewrite asm_run_cons. cbn [asm_op op_time fst snd].
  destruct (burst_from_empty (mkAsm [entry b1 t1] None prev1) b2 t2 h Hb2)
    as (u & pend2 & prev2 & E2 & Hn2 & Hns2 & Hw2 & Hd2 & _ & _);
    [constructor; [unfold entry; cbn [t_deadline]; exact Ht2|constructor]|cbn; lia|reflexivity|exact Hn1|exact Ht|exact Hv|].
  rewrite E2. cbn [fst snd a_history app keep_last2].
  rewrite som_reports_cons_other by exact Hns2.
  rewrite asm_run_app. cbn [fst snd].
  rewrite polls_noop.
  2:{ eapply Forall_impl; [|exact Hp2]. cbn. intros n [Hn0 Hn0']. split.
      - intros p Hp. rewrite (Hd2 p Hp). exact Hn0.
      - constructor; [unfold entry; cbn [t_deadline]; exact Hn0'|].
        constructor; [unfold entry; cbn [t_deadline]; lia|constructor]. }
  2:{ cbn; lia. }
  cbn [fst snd]. rewrite som_reports_app. unfold som_reports at 1. rewrite msgs_idle_out. cbn [soms app].
  (* third burst *)
  rewrite asm_run_cons. cbn [asm_op op_time fst snd].
  rewrite (burst_establishes _ b3 t3 h Hb3);
    [| constructor; [unfold entry; cbn [t_deadline]; exact Ht3|];
       constructor; [unfold entry; cbn [t_deadline]; lia|constructor]
     | cbn; lia | exact Hw2 | exact Hn2 | exact Hc].
  cbn [fst snd]. rewrite som_reports_cons_other by discriminate.
  rewrite som_reports_polls. cbn [a_pending t_data t_deadline]. reflexivity.
Qed.

