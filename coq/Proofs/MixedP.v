(** C13: iter_events() and iter_messages() mixed on one receiver.  Whatever sequence of calls the client
    makes — next() on an event iterator, next() on a message iterator, each on a fresh binding or not —
    what it is handed is, in order, a subsequence of the events of the single pass: an event-iterator call
    takes the next event, a message-iterator call takes the next Ok message and discards exactly the
    non-message events before it.  Nothing is duplicated, reordered or invented. *)
From Sameold Require Import Base.Bytes Model.Header Model.Combiner Model.Framer Model.Squelch
  Model.Assembler Model.Receiver Proofs.ReceiverP Proofs.FlushP.
From Coq Require Import Lia.

Inductive call := PCall | MCall (fuel : nat).

(** everything still to be delivered: what is queued, then what the rest of the source will produce *)
Definition pending (c : rcfg) (s : rx) (src : list item) : list event :=
  r_queue s ++ fst (run_core c (r_core s) src).

Definition answer := (option event + option message)%type.

(** the implementation: the calls threaded through the receiver and the shared source *)
Fixpoint run_calls (c : rcfg) (s : rx) (src : list item) (cs : list call) : list answer :=
  match cs with
  | [] => []
  | PCall :: r => let '(oe, s', rest) := process c s src in inl oe :: run_calls c s' rest r
  | MCall fuel :: r => let '(om, s', rest) := next_message fuel c s src in inr om :: run_calls c s' rest r
  end.

(** the specification: the same calls on the pending event stream alone *)
Fixpoint spec_calls (R : list event) (cs : list call) : list answer :=
  match cs with
  | [] => []
  | PCall :: r => inl (hd_error R) :: spec_calls (tl R) r
  | MCall _ :: r => inr (first_msg R) :: spec_calls (after_first_msg R) r
  end.

Lemma after_first_msg_length R : (length (after_first_msg R) <= length R)%nat.
Proof. induction R as [|e R IH]; cbn [after_first_msg length]; [lia|]. destruct (msg_of e); lia. Qed.

Fixpoint fuel_ok (n : nat) (cs : list call) : Prop :=
  match cs with [] => True | PCall :: r => fuel_ok n r | MCall f :: r => (n < f)%nat /\ fuel_ok n r end.

Lemma fuel_ok_weaken n m cs : (m <= n)%nat -> fuel_ok n cs -> fuel_ok m cs.
Proof.
  intros H. induction cs as [|[|f] cs IH]; cbn [fuel_ok]; [auto|exact IH|].
  intros [H1 H2]. split; [lia|apply IH, H2].
Qed.

Theorem mixed_calls_refine c : forall cs s src,
  fuel_ok (length (pending c s src)) cs ->
  run_calls c s src cs = spec_calls (pending c s src) cs.
Proof.
  induction cs as [|[|f] cs IH]; intros s src Hf; cbn [run_calls spec_calls]; [reflexivity| |].
  - pose proof (process_spec c s src) as P. cbv zeta in P. fold (pending c s src) in P.
    destruct (process c s src) as [[oe s'] rest]. destruct oe as [e|].
    + destruct P as (P1 & _). fold (pending c s' rest) in P1. rewrite P1. cbn [hd_error tl]. f_equal.
      apply IH. cbn [fuel_ok] in Hf. eapply fuel_ok_weaken; [|exact Hf]. rewrite P1. cbn [length]. lia.
    + destruct P as (P1 & P2 & P3 & _). rewrite P1. cbn [hd_error tl]. f_equal.
      assert (pending c s' rest = []) as E by (unfold pending; rewrite P3, P2; reflexivity).
      rewrite <- E. apply IH. rewrite E. cbn [fuel_ok] in Hf. eapply fuel_ok_weaken; [|exact Hf]. cbn [length]. lia.
  - cbn [fuel_ok] in Hf. destruct Hf as [Hlt Hf].
    pose proof (next_message_spec c f s src) as P. cbv zeta in P. fold (pending c s src) in P. specialize (P Hlt).
    destruct (next_message f c s src) as [[om s'] rest]. destruct P as (P1 & P2). fold (pending c s' rest) in P2.
    rewrite P1. f_equal. rewrite <- P2. apply IH. eapply fuel_ok_weaken; [|exact Hf]. rewrite P2. apply after_first_msg_length.
Qed.

(** the events behind the answers: an in-order subsequence of the pending stream *)
Inductive subseq {A} : list A -> list A -> Prop :=
| sub_nil : forall l, subseq [] l
| sub_skip : forall x a l, subseq a l -> subseq a (x :: l)
| sub_take : forall x a l, subseq a l -> subseq (x :: a) (x :: l).

Fixpoint first_msg_event (R : list event) : option event :=
  match R with [] => None | e :: r => match msg_of e with Some _ => Some e | None => first_msg_event r end end.

Fixpoint taken (R : list event) (cs : list call) : list event :=
  match cs with
  | [] => []
  | PCall :: r => match R with [] => taken [] r | e :: R' => e :: taken R' r end
  | MCall _ :: r => match first_msg_event R with Some e => e :: taken (after_first_msg R) r | None => taken (after_first_msg R) r end
  end.

Lemma subseq_after R a : subseq a (after_first_msg R) -> subseq a R.
Proof.
  induction R as [|e R IH]; cbn [after_first_msg]; [auto|]. destruct (msg_of e); intros H; [apply sub_skip, H|apply sub_skip, IH, H].
Qed.

Lemma subseq_first R e a : first_msg_event R = Some e -> subseq a (after_first_msg R) -> subseq (e :: a) R.
Proof.
  induction R as [|x R IH]; cbn [first_msg_event after_first_msg]; [discriminate|].
  destruct (msg_of x) eqn:E; intros H1 H2.
  - inversion H1; subst. apply sub_take, H2.
  - apply sub_skip, IH; assumption.
Qed.

Theorem taken_is_subsequence : forall cs R, subseq (taken R cs) R.
Proof.
  induction cs as [|[|f] cs IH]; intros R; cbn [taken]; [apply sub_nil| |].
  - destruct R as [|e R']; [apply IH|apply sub_take, IH].
  - destruct (first_msg_event R) as [e|] eqn:E.
    + apply (subseq_first R e _ E), IH.
    + apply subseq_after, IH.
Qed.

(** the answers are exactly those events (an event call shows the event, a message call its message) *)
Fixpoint answers_of (R : list event) (cs : list call) : list answer :=
  match cs with
  | [] => []
  | PCall :: r => match R with [] => inl None :: answers_of [] r | e :: R' => inl (Some e) :: answers_of R' r end
  | MCall _ :: r => match first_msg_event R with
                    | Some e => inr (msg_of e) :: answers_of (after_first_msg R) r
                    | None => inr None :: answers_of (after_first_msg R) r
                    end
  end.

Lemma first_msg_of_event R : first_msg R = match first_msg_event R with Some e => msg_of e | None => None end.
Proof.
  induction R as [|e R IH]; cbn [first_msg first_msg_event]; [reflexivity|].
  destruct (msg_of e) eqn:E; [rewrite E; reflexivity|exact IH].
Qed.

Theorem spec_calls_answers : forall cs R, spec_calls R cs = answers_of R cs.
Proof.
  induction cs as [|[|f] cs IH]; intros R; cbn [spec_calls answers_of]; [reflexivity| |].
  - destruct R as [|e R']; cbn [hd_error tl]; rewrite IH; reflexivity.
  - rewrite first_msg_of_event, IH. destruct (first_msg_event R); reflexivity.
Qed.
