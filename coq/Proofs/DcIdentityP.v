(** A DC blocker of length 1 -- what with_dc_blocker_length(0.0), documented as "disabled", builds since fix aac361b -- passes
    every finite sample through unchanged (as a real number; only the sign of a zero may differ). *)
From Coq Require Import ZArith NArith Bool List Lia Reals Lra.
From Flocq Require Import Core BinarySingleNaN.
From Sameold Require Import Model.ConfigSizes Model.FloatDsp Proofs.AgcP Proofs.FloatDspP.
Import ListNotations.
Open Scope R_scope.

Local Notation fexp := (SpecFloat.fexp prec emax).
Local Notation rnd := (round radix2 fexp (round_mode mode_NE)).
Local Notation B2R := (@B2R prec emax).
Local Notation is_finite := (@is_finite prec emax).

Lemma fadd_zero_l (x : f32) : is_finite x = true -> is_finite (fadd f0 x) = true /\ B2R (fadd f0 x) = B2R x.
Proof. destruct x as [s|s| |s m e H]; intros F; try discriminate; [destruct s|]; split; reflexivity. Qed.

Lemma fmul_one_r (x : f32) : is_finite x = true -> is_finite (fmul x f1) = true /\ B2R (fmul x f1) = B2R x.
Proof.
  intros F. assert (F1 : is_finite f1 = true) by (destruct f1_constructor as [H ->]; reflexivity).
  pose proof (Bmult_correct prec emax Hprec Hmax mode_NE x f1) as C. rewrite B2R_f1, Rmult_1_r in C.
  rewrite round_generic in C; [|apply valid_rnd_N|apply generic_format_B2R].
  rewrite Rlt_bool_true in C by apply abs_B2R_lt_emax.
  destruct C as (E & Fi & _). unfold fmul. rewrite E, Fi, F, F1. split; reflexivity.
Qed.

Lemma fsub_zero_product (x y : f32) : is_finite x = true -> is_finite y = true -> B2R (fsub x (fmul f0 y)) = B2R x /\ is_finite (fsub x (fmul f0 y)) = true.
Proof.
  intros Fx Fy. destruct y as [sy|sy| |sy my ey Hy]; try discriminate;
    (destruct x as [sx|sx| |sx mx ex Hx]; try discriminate; [destruct sx, sy; split; reflexivity|split; reflexivity]).
Qed.

Lemma inv_one : fdiv f1 (of_Z 1) = f1.
Proof. apply B2SF_inj. vm_compute. reflexivity. Qed.

(** a moving average of length 1 whose scale is 1.0: the average IS the sample (as a real number) and the delayed sample is the sample *)
Lemma mavg1_filter (m : mavg) (x : f32) : length (m_win m) = 1%nat -> m_inv m = f1 -> is_finite x = true ->
  let '(m', (avg, sig)) := mavg_filter m x in
  length (m_win m') = 1%nat /\ m_inv m' = f1 /\ sig = x /\ is_finite avg = true /\ B2R avg = B2R x.
Proof.
  intros L I F. unfold mavg_filter. destruct (m_win m) as [|a [|b r]]; try discriminate. cbn [app length Nat.leb fold_left hd m_win m_inv].
  destruct (fadd_zero_l x F) as (F1 & E1). destruct (fmul_one_r _ F1) as (F2 & E2). rewrite I.
  repeat split; try reflexivity; [exact F2|rewrite E2; exact E1].
Qed.

Theorem dcb_length_one_is_the_identity (d : dcb) (x : f32) :
  length (m_win (d_ff d)) = 1%nat -> length (m_win (d_fb d)) = 1%nat -> m_inv (d_ff d) = f1 -> m_inv (d_fb d) = f1 -> is_finite x = true ->
  let '(d', y) := dcb_filter d x in
  B2R y = B2R x /\ is_finite y = true /\
  length (m_win (d_ff d')) = 1%nat /\ length (m_win (d_fb d')) = 1%nat /\ m_inv (d_ff d') = f1 /\ m_inv (d_fb d') = f1.
Proof.
  intros L1 L2 I1 I2 F. unfold dcb_filter, dcb_filter_with.
  pose proof (mavg1_filter (d_ff d) x L1 I1 F) as H1. destruct (mavg_filter (d_ff d) x) as [ff [ma0 sig]].
  destruct H1 as (A1 & A2 & -> & A4 & A5).
  pose proof (mavg1_filter (d_fb d) ma0 L2 I2 A4) as H2. destruct (mavg_filter (d_fb d) ma0) as [fb [ma1 z]].
  destruct H2 as (B1 & B2 & _ & B4 & B5).
  rewrite A1. cbn [Nat.ltb Nat.leb d_ff d_fb].
  destruct (fsub_zero_product x ma1 F B4) as (E & Fy). repeat split; assumption.
Qed.

(** every sample of every finite input sequence comes out unchanged *)
Theorem dcb_disabled_passes_everything (xs : list f32) : Forall (fun x => is_finite x = true) xs ->
  Forall2 (fun x y => B2R y = B2R x /\ is_finite y = true) xs (snd (dcb_run (dcb_new 1) xs)).
Proof.
  assert (G : forall d, length (m_win (d_ff d)) = 1%nat -> length (m_win (d_fb d)) = 1%nat -> m_inv (d_ff d) = f1 -> m_inv (d_fb d) = f1 ->
              Forall (fun x => is_finite x = true) xs ->
              Forall2 (fun x y => B2R y = B2R x /\ is_finite y = true) xs (snd (dcb_run d xs))).
  { induction xs as [|x xs IH]; intros d L1 L2 I1 I2 HF; [constructor|].
    inversion HF as [|? ? Fx Fr]; subst. unfold dcb_run in *. cbn [dcb_run_with].
    pose proof (dcb_length_one_is_the_identity d x L1 L2 I1 I2 Fx) as H. unfold dcb_filter in H.
    destruct (dcb_filter_with mavg_filter d x) as [d1 y]. destruct H as (E & Fy & L1' & L2' & I1' & I2').
    specialize (IH d1 L1' L2' I1' I2' Fr). destruct (dcb_run_with mavg_filter d1 xs) as [d2 ys]. cbn [snd] in *.
    constructor; [split; assumption|exact IH]. }
  apply G; try reflexivity; unfold dcb_new, mavg_new; cbn [d_ff d_fb m_inv]; exact inv_one.
Qed.
