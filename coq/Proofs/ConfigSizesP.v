From Coq Require Import ZArith NArith Bool List Lia.
From Sameold Require Import Model.ConfigSizes.
Open Scope Z_scope.

Lemma forall_range_spec p lo n :
  forall_range p lo n = true -> forall k, (k < n)%N -> p (lo + Z.of_N k) = true.
Proof.
  unfold forall_range. induction n as [|n IH] using N.peano_ind; intros H k Hk; [lia|].
  rewrite N.recursion_succ in H; [|reflexivity|intros a b -> x y ->; reflexivity].
  apply andb_prop in H. destruct H as [H1 H2].
  destruct (N.eq_dec k n) as [->|Hne]; [exact H2|]. apply IH; [exact H1|lia].
Qed.

(** every sample rate from 8000 Hz to 192000 Hz gives at least 15 matched-filter taps
    (finite sweep of the binary32 computation: 184001 rates) *)
Lemma ntaps_sweep : forall_range (fun r => 15 <=? ntaps r) 8000 184001 = true.
Proof. vm_compute. reflexivity. Qed.

Theorem ntaps_ge_15 rate : 8000 <= rate <= 192000 -> 15 <= ntaps rate.
Proof.
  intros H. pose proof (forall_range_spec _ _ _ ntaps_sweep (Z.to_N (rate - 8000))) as S.
  cbv beta in S. rewrite Z2N.id in S by lia. replace (8000 + (rate - 8000)) with rate in S by lia.
  apply Z.leb_le, S. lia.
Qed.

(** the DC blocker's window is at least one sample for every float and every rate, by construction *)
Theorem dc_window_ge_1 dc_bits rate : 1 <= dc_window dc_bits rate.
Proof. unfold dc_window. lia. Qed.

(** the documented special value 0.0 and a short length at a low rate (the inputs that
    panicked before commit aac361b) really do come to zero samples before the guard *)
Example dc_zero_is_zero_samples : dcraw 0 22050 = 0 /\ dcraw 1028443341 8000 = 0.   (* 0.0f32; 0.05f32 = 0x3d4ccccd *)
Proof. vm_compute. split; reflexivity. Qed.

Example sizes_at_standard_rates :
  ntaps 8000 = 15 /\ ntaps 22050 = 42 /\ ntaps 44100 = 84 /\ ntaps 48000 = 92 /\ ntaps 192000 = 368
  /\ dcraw 1052938076 22050 = 16.     (* 0.38f32 = 0x3ec28f5c *)
Proof. vm_compute. repeat split; reflexivity. Qed.
