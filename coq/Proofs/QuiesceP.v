(** C10 at the level of the whole discrete receiver: hostile audio has no lasting effect.
    Once the link layer is idle, the assembler's records have expired and no end-of-message
    timer is armed ("quiesced": every reachable state gets there under silence, see below),
    the receiver is observationally a NEW receiver: after the 32 symbols a new receiver needs
    to fill its correlator, every later event on ANY further input is the event the new receiver
    reports, with the timestamp offset by the samples already consumed. *)
From Sameold Require Import Base.Bytes Model.Header Model.Combiner Model.Framer Model.Squelch
  Model.Assembler Model.Receiver Proofs.AssemblerP Proofs.RobustP Proofs.ShiftP.
From Coq Require Import ZifyBool ZifyN ZifyNat.
Arguments N.add : simpl never.
Arguments N.leb : simpl never.
Arguments N.ltb : simpl never.
Local Open Scope N_scope.

(** * The 32-bit correlator forgets: after 32 pushes only the pushed bits remain *)
Definition push_bit (c : N) (b : bool) : N := N.lor (N.shiftr c 1) (N.shiftl (b2n b) 31).

Definition agree_from (n : N) (c1 c2 : N) : Prop := forall i, n <= i -> N.testbit c1 i = N.testbit c2 i.

Lemma push_agree n c1 c2 b : agree_from (n + 1) c1 c2 -> agree_from n (push_bit c1 b) (push_bit c2 b).
Proof.
  intros H i Hi. unfold push_bit. rewrite !N.lor_spec, !N.shiftr_spec by apply N.le_0_l.
  f_equal. apply H. lia.
Qed.

Lemma pushes_agree : forall bits n c1 c2,
  agree_from (n + N.of_nat (length bits)) c1 c2 ->
  agree_from n (fold_left push_bit bits c1) (fold_left push_bit bits c2).
Proof.
  induction bits as [|b bits IH]; intros n c1 c2 H; cbn [fold_left length] in *.
  - replace (n + N.of_nat 0) with n in H by lia. exact H.
  - apply IH. apply push_agree. replace (n + N.of_nat (length bits) + 1) with (n + N.of_nat (S (length bits))) by lia. exact H.
Qed.

Definition word32 (c : N) : Prop := forall i, 32 <= i -> N.testbit c i = false.

Lemma push_word32 c b : word32 c -> word32 (push_bit c b).
Proof.
  intros H i Hi. unfold push_bit. rewrite N.lor_spec, N.shiftr_spec by apply N.le_0_l.
  rewrite H by lia. rewrite N.shiftl_spec_high by lia.
  destruct b; cbn [b2n orb]; [|apply N.bits_0].
  destruct (i - 31) as [|p] eqn:E; [lia|]. destruct p; reflexivity.
Qed.

Lemma correlator_forgets bits c1 c2 :
  length bits = 32%nat -> word32 c1 -> word32 c2 ->
  fold_left push_bit bits c1 = fold_left push_bit bits c2.
Proof.
  intros Hl H1 H2. apply N.bits_inj. intros i.
  apply (pushes_agree bits 0); [|lia]. rewrite Hl. intros j Hj. rewrite H1, H2 by lia. reflexivity.
Qed.

(** * A silent symbol on a calm receiver does nothing but count *)
Definition calm (k : core) : Prop :=
  sq_clock (r_sq k) = None /\ sq_lock (r_sq k) = false /\ r_fr k = FIdle /\ r_link k = LNoCarrier
  /\ r_transport k = TIdle /\ r_force_eom k = None.

Definition calm_next (k : core) (t : tick) : core :=
  mkCore (mkSq (push_bit (sq_corr (r_sq k)) (t_bit t)) (N.min (sq_fill (r_sq k) + 1) HISTORY_SYMBOLS)
               (push_wrapping (sq_phist (r_sq k)) false) None false (sq_symcount (r_sq k) + 1))
         FIdle (snd (asm_idle (r_asm k) (sq_symcount (r_sq k) + 1))) LNoCarrier TIdle (r_samples k + 1) None.

Lemma calm_silent_step c k t :
  calm k -> silent t -> fst (asm_idle (r_asm k) (sq_symcount (r_sq k) + 1)) = TIdle ->
  step_core c k (Tick t) = (calm_next k t, []).
Proof.
  destruct k as [s f a l tr n fo]. destruct s as [corr fill ph cl lk sym].
  unfold calm, silent. cbn [r_sq r_fr r_asm r_link r_transport r_samples r_force_eom sq_clock sq_lock sq_symcount].
  intros (-> & -> & -> & -> & -> & ->) [Hpo Hpc] Hidle.
  unfold step_core, calm_next. cbn [r_sq r_fr r_asm r_link r_transport r_samples r_force_eom sq_corr sq_fill sq_phist sq_symcount].
  assert (linklayer_symbol c (mkSq corr fill ph None false sym) FIdle t
          = (LNoCarrier, mkSq (push_bit corr (t_bit t)) (N.min (fill + 1) HISTORY_SYMBOLS) (push_wrapping ph false) None false (sym + 1), FIdle, false)) as ->.
  { unfold linklayer_symbol, sq_input. rewrite Hpo, Hpc.
    cbn [sq_corr sq_fill sq_phist sq_clock sq_lock sq_symcount]. rewrite andb_false_r.
    fold (push_bit corr (t_bit t)).
    destruct (N.min (fill + 1) HISTORY_SYMBOLS <? HISTORY_SYMBOLS); reflexivity. }
  cbn [link_eqb negb]. unfold transportlayer. cbn [sq_symcount].
  destruct (asm_idle a (sym + 1)) as [t0 a'] eqn:Ea. cbn [fst snd] in *. subst t0.
  cbn [transport_eqb]. reflexivity.
Qed.

Lemma calm_next_calm k t : calm (calm_next k t).
Proof. repeat split. Qed.

(** * A run of silent symbols *)
Fixpoint calm_run (k : core) (ts : list tick) : core :=
  match ts with [] => k | t :: r => calm_run (calm_next k t) r end.

Lemma calm_silent_run c : forall ts k,
  calm k -> Forall silent ts -> stale (r_asm k) (sq_symcount (r_sq k)) ->
  run_core c k (map Tick ts) = ([], calm_run k ts)
  /\ stale (r_asm (calm_run k ts)) (sq_symcount (r_sq (calm_run k ts)))
  /\ calm (calm_run k ts).
Proof.
  induction ts as [|t ts IH]; intros k Hc Hs Hst; cbn [map run_core calm_run].
  - split; [reflexivity|split; assumption].
  - inversion Hs as [|? ? Ht Hs']; subst.
    destruct (stale_idle (r_asm k) (sq_symcount (r_sq k)) (sq_symcount (r_sq k) + 1) Hst ltac:(lia)) as [Hi Hst'].
    rewrite (calm_silent_step c k t Hc Ht Hi).
    destruct (IH (calm_next k t) (calm_next_calm k t) Hs' Hst') as (Hr & Hst'' & Hc'').
    rewrite Hr. split; [reflexivity|split; assumption].
Qed.

Fixpoint iter_l {A} (n : nat) (f : A -> A) (x : A) : A :=
  match n with O => x | S m => iter_l m f (f x) end.

(** what the run leaves, field by field *)
Lemma calm_run_fields : forall ts k,
  let k' := calm_run k ts in
  sq_corr (r_sq k') = fold_left push_bit (map t_bit ts) (sq_corr (r_sq k))
  /\ sq_fill (r_sq k') = iter_l (length ts) (fun f => N.min (f + 1) HISTORY_SYMBOLS) (sq_fill (r_sq k))
  /\ sq_phist (r_sq k') = iter_l (length ts) (fun l => push_wrapping l false) (sq_phist (r_sq k))
  /\ sq_symcount (r_sq k') = sq_symcount (r_sq k) + N.of_nat (length ts)
  /\ r_samples k' = r_samples k + N.of_nat (length ts)
  /\ (r_asm k = asm_init -> r_asm k' = asm_init).
Proof.
  induction ts as [|t ts IH]; intros k; cbn [calm_run map fold_left length].
  - cbn [iter_l]. repeat split; try reflexivity; try lia. auto.
  - specialize (IH (calm_next k t)). cbv zeta in IH. destruct IH as (I1 & I2 & I3 & I4 & I5 & I6).
    cbv zeta. rewrite I1, I2, I3, I4, I5. cbn [calm_next r_sq r_samples r_asm sq_corr sq_fill sq_phist sq_symcount].
    cbn [iter_l]. repeat split; try reflexivity; try lia.
    intros Ha. apply I6. cbn [calm_next r_asm]. rewrite Ha. reflexivity.
Qed.

(** * Quiesced states *)
Definition quiesced (k : core) : Prop :=
  calm k /\ stale (r_asm k) (sq_symcount (r_sq k))
  /\ sq_fill (r_sq k) = HISTORY_SYMBOLS /\ word32 (sq_corr (r_sq k))
  /\ sq_phist (r_sq k) = repeat false POWER_HISTORY.

Lemma mono_shift d : forall ops now, mono now ops -> mono (now + d) (map (shift_op d) ops).
Proof.
  induction ops as [|o ops IH]; intros now Hm; [exact I|]. destruct Hm as [H1 H2]. cbn [map mono].
  assert (op_time (shift_op d o) = op_time o + d) as -> by (destruct o; reflexivity).
  split; [lia|apply IH; exact H2].
Qed.

Lemma stale_eqv a now2 dy : stale a (now2 + dy) -> asm_eqv dy a asm_init now2.
Proof.
  intros Hs ops Hm.
  rewrite (stale_behaves_as_new _ a (now2 + dy) Hs (mono_shift dy ops now2 Hm)).
  apply new_assembler_time_invariant.
Qed.

Lemma init_calm : calm core_init.
Proof. repeat split. Qed.

Lemma init_stale : stale (r_asm core_init) (sq_symcount (r_sq core_init)).
Proof. repeat split; [constructor|discriminate]. Qed.

Lemma word32_0 : word32 0.
Proof. intros i _. apply N.bits_0. Qed.

(** ** The theorem.  [k] is any quiesced state, however it was reached; [sil] is 32 symbols of
    silence (any bits, any equaliser output); [src] is ANY further input. *)
Theorem quiesced_receiver_is_as_new c k sil src :
  quiesced k -> length sil = 32%nat -> Forall silent sil ->
  fst (run_core c k (map Tick sil ++ src))
  = map (shift_ev (r_samples k)) (fst (run_core c core_init (map Tick sil ++ src))).
Proof.
  intros (Hc & Hst & Hfill & Hw & Hph) Hl Hs.
  assert (forall k0 a b, run_core c k0 (a ++ b)
            = (fst (run_core c k0 a) ++ fst (run_core c (snd (run_core c k0 a)) b), snd (run_core c (snd (run_core c k0 a)) b))) as Happ.
  { intros k0 a. revert k0. induction a as [|i a IH]; intros k0 b; cbn [app run_core fst snd].
    - destruct (run_core c k0 b); reflexivity.
    - destruct (step_core c k0 i) as [k1 e1]. rewrite IH.
      destruct (run_core c k1 a) as [e2 k2]. cbn [fst snd]. rewrite app_assoc. reflexivity. }
  rewrite !Happ. cbn [fst].
  destruct (calm_silent_run c sil k Hc Hs Hst) as (R1 & St1 & C1).
  destruct (calm_silent_run c sil core_init init_calm Hs init_stale) as (R2 & St2 & C2).
  rewrite R1, R2. cbn [fst snd app].
  pose proof (calm_run_fields sil k) as F1. pose proof (calm_run_fields sil core_init) as F2. cbv zeta in F1, F2.
  destruct F1 as (A1 & A2 & A3 & A4 & A5 & _). destruct F2 as (B1 & B2 & B3 & B4 & B5 & B6).
  rewrite Hl in *. rewrite Hfill in A2. rewrite Hph in A3.
  change (iter_l 32 (fun f => N.min (f + 1) HISTORY_SYMBOLS) HISTORY_SYMBOLS) with HISTORY_SYMBOLS in A2.
  change (iter_l 32 (fun f => N.min (f + 1) HISTORY_SYMBOLS) (sq_fill (r_sq core_init))) with HISTORY_SYMBOLS in B2.
  assert (iter_l 32 (fun l => push_wrapping l false) (repeat false POWER_HISTORY) = repeat false POWER_HISTORY) as E3 by (vm_compute; reflexivity).
  assert (iter_l 32 (fun l => push_wrapping l false) (sq_phist (r_sq core_init)) = repeat false POWER_HISTORY) as E4 by (vm_compute; reflexivity).
  rewrite E3 in A3. rewrite E4 in B3.
  assert (sq_corr (r_sq (calm_run k sil)) = sq_corr (r_sq (calm_run core_init sil))) as Ecorr.
  { rewrite A1, B1. apply correlator_forgets; [rewrite map_length; exact Hl|exact Hw|exact word32_0]. }
  apply (run_sim c (r_samples k) (sq_symcount (r_sq k)) src).
  destruct C1 as (C1a & C1b & C1c & C1d & C1e & C1f). destruct C2 as (C2a & C2b & C2c & C2d & C2e & C2f).
  unfold sim. rewrite C1c, C2c, C1d, C2d, C1e, C2e, C1f, C2f, A5, B5.
  split.
  { destruct (r_sq (calm_run k sil)) as [co fi ph cl lk sy]. destruct (r_sq (calm_run core_init sil)) as [co' fi' ph' cl' lk' sy'].
    unfold sq_shift. cbn [sq_corr sq_fill sq_phist sq_clock sq_lock sq_symcount] in *. subst.
    f_equal; [exact Ecorr|]. change (sq_symcount (r_sq core_init)) with 0. lia. }
  repeat split; try reflexivity.
  - change (r_samples core_init) with 0. lia.
  - rewrite (B6 eq_refl). apply stale_eqv.
    replace (sq_symcount (r_sq (calm_run core_init sil)) + sq_symcount (r_sq k)) with (sq_symcount (r_sq (calm_run k sil))); [exact St1|].
    rewrite A4, B4. change (sq_symcount (r_sq core_init)) with 0. lia.
Qed.
