(** C09, trace level: an armed 135 s timer does not survive two symbols after it has elapsed —
    for every item stream the StartOfMessage is closed by an EndOfMessage event, or superseded
    by a newer StartOfMessage that re-arms the timer with a later deadline. *)
From Sameold Require Import Base.Bytes Model.Header Model.Combiner Model.Framer Model.Squelch
  Model.Assembler Model.Receiver Proofs.EvidenceP Proofs.ClosureP Proofs.ReceiverP.
From Coq Require Import ZifyBool ZifyN ZifyNat.
Arguments N.add : simpl never.
Arguments N.mul : simpl never.
Arguments N.leb : simpl never.
Arguments N.ltb : simpl never.

Section Closed.
  Variable c : rcfg.
  Hypothesis budget : max_prefix_bit_errors (fc c) <= 7.
  Notation D := (MAX_MESSAGE_DURATION_SECS * input_rate c).

  Definition J (k : core) : Prop :=
    timer_ok k /\ fr_ok (r_fr k) /\ (forall x, r_force_eom k = Some x -> x <= r_samples k + D).

  Lemma J_init : J core_init.
  Proof. split; [intros tm H; discriminate|]. split; [exact I|intros x H; discriminate]. Qed.

  Lemma step_samples k i k' evs : step_core c k i = (k', evs) -> r_samples k' = r_samples k + 1.
  Proof.
    unfold step_core. destruct i as [|t]; [intros E; inversion E; reflexivity|].
    destruct (linklayer_symbol c (r_sq k) (r_fr k) t) as [[[l sq'] fr'] u].
    destruct (transportlayer c (r_asm k) l (sq_symcount sq') (r_samples k + 1) (r_force_eom k)) as [[ot asm'] force'].
    destruct ot as [t'|]; [destruct (transport_eqb t' (r_transport k))|]; intros E; inversion E; reflexivity.
  Qed.

  Lemma step_fr k i k' evs : fr_ok (r_fr k) -> step_core c k i = (k', evs) -> fr_ok (r_fr k').
  Proof.
    intros Hf. unfold step_core. destruct i as [|t]; [intros E; inversion E; exact Hf|].
    destruct (linklayer_symbol c (r_sq k) (r_fr k) t) as [[[l sq'] fr'] u] eqn:El.
    destruct (linklayer_symbol_ok c _ _ _ _ _ _ _ budget Hf El) as (Hf' & _).
    destruct (transportlayer c (r_asm k) l (sq_symcount sq') (r_samples k + 1) (r_force_eom k)) as [[ot asm'] force'].
    destruct ot as [t'|]; [destruct (transport_eqb t' (r_transport k))|]; intros E; inversion E; exact Hf'.
  Qed.

  Lemma step_J k i k' evs : J k -> step_core c k i = (k', evs) -> J k'.
  Proof.
    intros (Ht & Hf & Hx) E. destruct (step_core_timer c k i k' evs Ht E) as (Ht' & _ & _ & H4).
    split; [exact Ht'|]. split; [eapply step_fr; eassumption|].
    intros x Hx'. rewrite (step_samples _ _ _ _ E).
    destruct (r_force_eom k) as [tm|] eqn:Ef.
    - pose proof (Hx tm eq_refl) as Hb.
      destruct (H4 tm eq_refl) as [H|[H|H]]; rewrite H in Hx'; inversion Hx'; subst; lia.
    - (* not armed before: armed now means a StartOfMessage at this very sample *)
      revert E Hx'. unfold step_core. destruct i as [|t]; [intros E; inversion E; subst; cbn [r_force_eom]; rewrite Ef; discriminate|].
      destruct (linklayer_symbol c (r_sq k) (r_fr k) t) as [[[l sq'] fr'] u].
      destruct (transportlayer c (r_asm k) l (sq_symcount sq') (r_samples k + 1) (r_force_eom k)) as [[ot asm'] force'] eqn:Et.
      destruct (transport_out _ _ _ _ _ _ _ _ _ Et) as [Hforce _]. rewrite Ef in Hforce.
      destruct ot as [t'|]; [destruct (transport_eqb t' (r_transport k))|]; intros E; inversion E; subst k' evs; cbn [r_force_eom];
        intros Hx'; rewrite Hforce in Hx'; try discriminate;
        destruct t' as [| |[[h|]|er]]; try discriminate; inversion Hx'; lia.
  Qed.

  (** when an armed timer is cleared, the EndOfMessage event is in that step's events *)
  Lemma step_cleared k i k' evs tm :
    timer_ok k -> r_force_eom k = Some tm -> step_core c k i = (k', evs) -> r_force_eom k' = None ->
    In (eom_event (r_samples k + 1)) evs.
  Proof.
    intros Hto Hf. unfold step_core. destruct i as [|t]; [intros E; inversion E; subst; cbn [r_force_eom]; congruence|].
    destruct (linklayer_symbol c (r_sq k) (r_fr k) t) as [[[l sq'] fr'] u].
    destruct (transportlayer c (r_asm k) l (sq_symcount sq') (r_samples k + 1) (r_force_eom k)) as [[ot asm'] force'] eqn:Et.
    destruct (transport_out _ _ _ _ _ _ _ _ _ Et) as [Hforce _]. rewrite Hf in Hforce.
    destruct ot as [t'|].
    - destruct (transport_eqb t' (r_transport k)) eqn:Eq; intros E; inversion E; subst k' evs; cbn [r_force_eom]; intros Hn;
        rewrite Hn in Hforce; destruct t' as [| |[[h|]|er]]; try discriminate.
      + apply transport_eqb_eq in Eq. exfalso. apply (Hto tm Hf). symmetry. exact Eq.
      + apply in_or_app. right. left. reflexivity.
    - intros E; inversion E; subst k' evs; cbn [r_force_eom]. intros Hn. rewrite Hn in Hforce. discriminate.
  Qed.

  (** "resolved": an EndOfMessage event has been emitted, or a newer StartOfMessage re-armed the timer later *)
  Definition resolved (tm : N) (evs : list event) (k : core) : Prop :=
    (exists n, In (eom_event n) evs) \/ (exists x, r_force_eom k = Some x /\ tm < x).

  Lemma resolved_step tm evs k i k' evs' :
    J k -> resolved tm evs k -> step_core c k i = (k', evs') -> resolved tm (evs ++ evs') k'.
  Proof.
    intros (Ht & Hf & Hx) [(n & Hn)|(x & Hfx & Hlt)] E.
    - left. exists n. apply in_or_app. left. exact Hn.
    - destruct (step_core_timer c k i k' evs' Ht E) as (_ & _ & _ & H4).
      destruct (H4 x Hfx) as [H|[H|H]].
      + right. exists x. split; assumption.
      + left. eexists. apply in_or_app. right. eapply step_cleared; eassumption.
      + right. eexists. split; [exact H|]. specialize (Hx x Hfx). lia.
  Qed.

  Lemma resolved_run tm : forall src evs k,
    J k -> resolved tm evs k ->
    resolved tm (evs ++ fst (run_core c k src)) (snd (run_core c k src)).
  Proof.
    induction src as [|i src IH]; intros evs k Hj Hr; cbn [run_core fst snd]; [rewrite app_nil_r; exact Hr|].
    destruct (step_core c k i) as [k1 e1] eqn:E.
    pose proof (resolved_step tm evs k i k1 e1 Hj Hr E) as Hr1. pose proof (step_J _ _ _ _ Hj E) as Hj1.
    specialize (IH (evs ++ e1) k1 Hj1 Hr1). destruct (run_core c k1 src) as [e2 kf]. cbn [fst snd] in *.
    rewrite app_assoc. exact IH.
  Qed.

  (** one step from an armed, unresolved state: still armed with the same deadline, or resolved *)
  Lemma armed_step tm k i k' evs :
    J k -> r_force_eom k = Some tm -> step_core c k i = (k', evs) ->
    r_force_eom k' = Some tm \/ resolved tm evs k'.
  Proof.
    intros (Ht & Hf & Hx) Hfm E. destruct (step_core_timer c k i k' evs Ht E) as (_ & _ & _ & H4).
    destruct (H4 tm Hfm) as [H|[H|H]].
    - left. exact H.
    - right. left. eexists. eapply step_cleared; eassumption.
    - right. right. eexists. split; [exact H|]. specialize (Hx tm Hfm). lia.
  Qed.

  (** samples without a symbol change nothing the link layer or the timer looks at *)
  Lemma notick_run : forall gap k, Forall (fun i => i = NoTick) gap ->
    fst (run_core c k gap) = []
    /\ r_sq (snd (run_core c k gap)) = r_sq k /\ r_fr (snd (run_core c k gap)) = r_fr k
    /\ r_force_eom (snd (run_core c k gap)) = r_force_eom k
    /\ r_transport (snd (run_core c k gap)) = r_transport k
    /\ r_samples (snd (run_core c k gap)) = r_samples k + N.of_nat (length gap).
  Proof.
    induction gap as [|i gap IH]; intros k Hg; cbn [run_core fst snd length].
    - repeat split; try reflexivity. cbn. lia.
    - inversion Hg as [|? ? Hi Hg']; subst. cbn [step_core].
      specialize (IH (mkCore (r_sq k) (r_fr k) (r_asm k) (r_link k) (r_transport k) (r_samples k + 1) (r_force_eom k)) Hg').
      destruct (run_core c _ gap) as [e kf]. cbn [fst snd r_sq r_fr r_force_eom r_transport r_samples] in *.
      destruct IH as (A & B & C0 & D0 & E0 & F0). repeat split; try assumption. lia.
  Qed.

  (** ** The trace-level statement *)
  Theorem armed_timer_resolves : forall pre k tm t1 gap t2,
    J k -> r_force_eom k = Some tm ->
    Forall (fun i => i = NoTick) gap ->
    tm < r_samples k + N.of_nat (length pre) + 1 ->
    let r := run_core c k (pre ++ Tick t1 :: gap ++ [Tick t2]) in
    resolved tm (fst r) (snd r).
  Proof.
    induction pre as [|i pre IH]; intros k tm t1 gap t2 Hj Hf Hg Hlt.
    - cbn [app length] in *. cbn zeta.
      (* first symbol after the deadline *)
      cbn [run_core]. destruct (step_core c k (Tick t1)) as [k1 e1] eqn:E1.
      pose proof (step_J _ _ _ _ Hj E1) as Hj1.
      destruct Hj as (Ht & Hfr & Hx).
      destruct (linklayer_symbol c (r_sq k) (r_fr k) t1) as [[[l1 s1] f1] u1] eqn:El1.
      assert ((forall b, l1 <> LBurst b) \/ exists b, l1 = LBurst b) as [Hnb|Hb].
      { destruct l1; [left|left|left|right]; try (intros b X; discriminate). eexists; reflexivity. }
      + (* not a burst: the timer fires here *)
        destruct (step_core_timer c k (Tick t1) k1 e1 Ht E1) as (_ & _ & H3 & _).
        assert (tm < r_samples k + 1) as Hlt1 by lia.
        destruct (H3 t1 tm eq_refl Hf Hlt1) as [Hin _]; [rewrite El1; cbn [fst]; exact Hnb|].
        pose proof (resolved_run tm (gap ++ [Tick t2]) e1 k1 Hj1) as R.
        destruct (run_core c k1 (gap ++ [Tick t2])) as [e2 kf]. cbn [fst snd] in *.
        apply R. left. eexists. exact Hin.
      + (* a burst ends on this symbol: the next symbol cannot deliver another *)
        destruct (armed_step tm k (Tick t1) k1 e1 (conj Ht (conj Hfr Hx)) Hf E1) as [Hf1|Hr1].
        * rewrite run_core_app. pose proof (notick_run gap k1 Hg) as (G1 & G2 & G3 & G4 & G5 & G6).
          destruct (run_core c k1 gap) as [eg kg] eqn:Eg. cbn [fst snd] in *. subst eg.
          cbn [run_core app]. destruct (step_core c kg (Tick t2)) as [k2 e2] eqn:E2. cbn [fst snd].
          assert (J kg) as Hjg.
          { assert (kg = snd (run_core c k1 gap)) as -> by (rewrite Eg; reflexivity).
            clear - Hj1 Hg budget. revert k1 Hj1. induction gap as [|i gap IHg]; intros k1 Hj1; [exact Hj1|].
            inversion Hg; subst. cbn [run_core]. destruct (step_core c k1 NoTick) as [ka ea] eqn:Ea.
            pose proof (step_J _ _ _ _ Hj1 Ea) as Hja. specialize (IHg H2 ka Hja).
            destruct (run_core c ka gap) as [eb kb]. exact IHg. }
          destruct Hjg as (Htg & Hfg & Hxg).
          destruct (step_core_timer c kg (Tick t2) k2 e2 Htg E2) as (_ & _ & H3 & _).
          (* the link state of the first symbol in terms of the step's own computation *)
          assert (r_sq k1 = s1 /\ r_fr k1 = f1) as [Hs1 Hf1'].
          { revert E1. unfold step_core. rewrite El1.
            destruct (transportlayer c (r_asm k) l1 (sq_symcount s1) (r_samples k + 1) (r_force_eom k)) as [[ot asm'] force'].
            destruct ot as [t'|]; [destruct (transport_eqb t' (r_transport k))|]; intros X; inversion X; split; reflexivity. }
          assert (forall b2, fst (fst (fst (linklayer_symbol c (r_sq kg) (r_fr kg) t2))) <> LBurst b2) as Hnb2.
          { rewrite G2, G3, Hs1, Hf1'. eapply no_two_burst_ticks; [exact budget|exact Hfr|exact El1|exact Hb]. }
          assert (tm < r_samples kg + 1) as Hlt2.
          { rewrite G6, (step_samples _ _ _ _ E1). lia. }
          destruct (H3 t2 tm eq_refl (eq_trans G4 Hf1) Hlt2 Hnb2) as [Hin _].
          left. eexists. apply in_or_app. right. rewrite app_nil_r. exact Hin.
        * pose proof (resolved_run tm (gap ++ [Tick t2]) e1 k1 Hj1 Hr1) as R.
          destruct (run_core c k1 (gap ++ [Tick t2])) as [e2 kf]. cbn [fst snd] in *. exact R.
    - cbn [app length run_core] in *. cbn zeta.
      destruct (step_core c k i) as [k1 e1] eqn:E1.
      pose proof (step_J _ _ _ _ Hj E1) as Hj1.
      destruct (armed_step tm k i k1 e1 Hj Hf E1) as [Hf1|Hr1].
      + specialize (IH k1 tm t1 gap t2 Hj1 Hf1 Hg). cbn zeta in IH.
        assert (tm < r_samples k1 + N.of_nat (length pre) + 1) as Hlt1.
        { rewrite (step_samples _ _ _ _ E1). lia. }
        specialize (IH Hlt1). destruct (run_core c k1 (pre ++ Tick t1 :: gap ++ [Tick t2])) as [e2 kf]. cbn [fst snd] in *.
        destruct IH as [(n & Hn)|(x & Hx1 & Hx2)]; [left; exists n; apply in_or_app; right; exact Hn|right; exists x; split; assumption].
      + pose proof (resolved_run tm (pre ++ Tick t1 :: gap ++ [Tick t2]) e1 k1 Hj1 Hr1) as R.
        destruct (run_core c k1 (pre ++ Tick t1 :: gap ++ [Tick t2])) as [e2 kf]. cbn [fst snd] in *. exact R.
  Qed.
End Closed.
