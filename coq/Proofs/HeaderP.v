(** Facts about the header matcher, constructors and accessors (C06). *)
From Sameold Require Import Base.Bytes Model.Header.
From Coq Require Import ZifyBool ZifyN ZifyNat.
Arguments N.add : simpl never.
Arguments N.sub : simpl never.
Arguments N.mul : simpl never.
Arguments N.leb : simpl never.
Arguments N.ltb : simpl never.
Arguments N.eqb : simpl never.

(** * Inversion of the primitive matchers *)
Lemma strip_prefix_inv pre s r : strip_prefix pre s = Some r -> s = pre ++ r.
Proof.
  revert s. induction pre as [|p pre IH]; intros s; cbn [strip_prefix app].
  - intros E; inversion E; reflexivity.
  - destruct s as [|c s]; [discriminate|]. destruct (N.eqb_spec p c) as [->|]; [|discriminate].
    intros E. rewrite (IH _ E). reflexivity.
Qed.

Lemma strip_prefix_app pre r : strip_prefix pre (pre ++ r) = Some r.
Proof.
  induction pre as [|p pre IH]; [reflexivity|]. cbn [strip_prefix app]. rewrite N.eqb_refl. exact IH.
Qed.

Lemma strip_prefix_starts_with pre s r : strip_prefix pre s = Some r -> starts_with pre s = true.
Proof.
  revert s. induction pre as [|p pre IH]; intros s; [reflexivity|].
  cbn [strip_prefix starts_with]. destruct s as [|c s]; [discriminate|].
  destruct (p =? c); [apply IH|discriminate].
Qed.

Lemma starts_with_app pre r : starts_with pre (pre ++ r) = true.
Proof.
  induction pre as [|p pre IH]; [reflexivity|]. cbn [starts_with app]. rewrite N.eqb_refl. exact IH.
Qed.

Lemma take_n_inv p n : forall s r, take_n p n s = Some r ->
  exists t, s = t ++ r /\ length t = n /\ forallb p t = true.
Proof.
  induction n as [|n IH]; intros s r; cbn [take_n].
  - intros E; inversion E; subst. exists []. repeat split.
  - destruct s as [|c s]; [discriminate|]. destruct (p c) eqn:Pc; [|discriminate].
    intros E. destruct (IH _ _ E) as (t & -> & Hl & Hp).
    exists (c :: t). cbn [app length forallb]. rewrite Pc, Hp, Hl. repeat split.
Qed.

Lemma take_n_app p t r : forallb p t = true -> take_n p (length t) (t ++ r) = Some r.
Proof.
  induction t as [|c t IH]; [reflexivity|]. cbn [forallb length take_n app].
  intros E. apply andb_prop in E. destruct E as [-> E]. apply IH, E.
Qed.

Lemma take_n_app' p n t r : length t = n -> forallb p t = true -> take_n p n (t ++ r) = Some r.
Proof. intros <-. apply take_n_app. Qed.

(** * Location groups *)
Definition loc_group (g : bytes) : Prop :=
  exists d, g = DASH :: d /\ length d = 6%nat /\ forallb is_digit d = true.

Lemma take_locs_inv : forall (fuel : nat) s n r, (length s <= fuel)%nat -> take_locs s = (n, r) ->
  exists groups, s = concat groups ++ r /\ length groups = n /\ Forall loc_group groups.
Proof.
  induction fuel as [|f IH]; intros s n r Hf.
  - destruct s; [|cbn in Hf; lia]. cbn. intros E; inversion E; subst. exists []. repeat split; constructor.
  - destruct s as [|c [|d1 [|d2 [|d3 [|d4 [|d5 [|d6 s']]]]]]];
      try (cbn [take_locs]; intros E; inversion E; subst; exists []; repeat split; constructor).
    cbn [take_locs].
    destruct ((c =? DASH) && is_digit d1 && is_digit d2 && is_digit d3 && is_digit d4
              && is_digit d5 && is_digit d6) eqn:G.
    + destruct (take_locs s') as [n' r'] eqn:E'. intros E; inversion E; subst.
      destruct (IH s' n' r) as (gs & -> & Hl & Hg); [cbn [length] in Hf; lia|exact E'|].
      exists ((c :: [d1; d2; d3; d4; d5; d6]) :: gs). split; [reflexivity|]. split; [cbn; lia|].
      constructor; [|exact Hg]. exists [d1; d2; d3; d4; d5; d6].
      assert (c = DASH) as -> by lia. split; [reflexivity|]. split; [reflexivity|].
      cbn [forallb]. lia.
    + intros E; inversion E; subst. exists []. repeat split; constructor.
Qed.

Lemma take_locs_stop s : match s with c :: _ => c <> DASH | [] => True end -> take_locs s = (O, s).
Proof.
  destruct s as [|c [|d1 [|d2 [|d3 [|d4 [|d5 [|d6 s']]]]]]]; try reflexivity.
  intros Hc. cbn [take_locs]. assert ((c =? DASH) = false) as -> by lia. reflexivity.
Qed.

Lemma take_locs_app groups r :
  Forall loc_group groups -> match r with c :: _ => c <> DASH | [] => True end ->
  take_locs (concat groups ++ r) = (length groups, r).
Proof.
  intros Hg Hr. induction Hg as [|g gs (d & -> & Hl & Hd) _ IH]; [apply take_locs_stop, Hr|].
  destruct d as [|d1 [|d2 [|d3 [|d4 [|d5 [|d6 [|]]]]]]]; try discriminate.
  cbn [concat app take_locs]. cbn [forallb] in Hd.
  assert ((DASH =? DASH) && is_digit d1 && is_digit d2 && is_digit d3 && is_digit d4
          && is_digit d5 && is_digit d6 = true) as -> by (rewrite N.eqb_refl; lia).
  cbn [app] in IH. rewrite IH. reflexivity.
Qed.

(** * The callsign *)
Definition no_newline (c : bytes) : bool := forallb (fun b => negb (b =? NEWLINE)) c.

Lemma call_ok_app c r : no_newline c = true -> call_ok (c ++ DASH :: r) (length c) = true.
Proof.
  intros Hc. unfold call_ok.
  rewrite app_length, firstn_app, Nat.sub_diag, firstn_all. cbn [firstn]. rewrite app_nil_r.
  fold (no_newline c). rewrite Hc.
  rewrite nth_error_app2, Nat.sub_diag by lia. cbn [nth_error]. rewrite N.eqb_refl.
  cbn [length]. lia.
Qed.

Lemma call_ok_inv s k : call_ok s k = true ->
  exists c r, s = c ++ DASH :: r /\ length c = k /\ no_newline c = true.
Proof.
  unfold call_ok. intros E. apply andb_prop in E. destruct E as [E E3].
  apply andb_prop in E. destruct E as [E1 E2].
  destruct (nth_error s k) as [d|] eqn:En; [|discriminate].
  assert (d = DASH) as -> by lia.
  apply nth_error_split in En. destruct En as (c & r & -> & <-).
  exists c, r. split; [reflexivity|]. split; [reflexivity|].
  rewrite firstn_app, Nat.sub_diag, firstn_all in E2. cbn [firstn] in E2. rewrite app_nil_r in E2. exact E2.
Qed.

Lemma find_call_inv s k : find_call s = Some k ->
  (3 <= k <= 8)%nat /\ call_ok s k = true /\
  forall k', (k < k' <= 8)%nat -> call_ok s k' = false.
Proof.
  unfold find_call. cbn [find].
  destruct (call_ok s 8) eqn:C8; [intros E; inversion E; subst; repeat split; try lia; intros; lia|].
  destruct (call_ok s 7) eqn:C7;
    [intros E; inversion E; subst; repeat split; try lia; intros k' Hk; assert (k' = 8)%nat as -> by lia; assumption|].
  destruct (call_ok s 6) eqn:C6;
    [intros E; inversion E; subst; repeat split; try lia; intros k' Hk;
     assert (k' = 8 \/ k' = 7)%nat as [-> | ->] by lia; assumption|].
  destruct (call_ok s 5) eqn:C5;
    [intros E; inversion E; subst; repeat split; try lia; intros k' Hk;
     assert (k' = 8 \/ k' = 7 \/ k' = 6)%nat as [-> | [-> | ->]] by lia; assumption|].
  destruct (call_ok s 4) eqn:C4;
    [intros E; inversion E; subst; repeat split; try lia; intros k' Hk;
     assert (k' = 8 \/ k' = 7 \/ k' = 6 \/ k' = 5)%nat as [-> | [-> | [-> | ->]]] by lia; assumption|].
  destruct (call_ok s 3) eqn:C3; [|discriminate].
  intros E; inversion E; subst; repeat split; try lia; intros k' Hk.
  assert (k' = 8 \/ k' = 7 \/ k' = 6 \/ k' = 5 \/ k' = 4)%nat as [-> | [-> | [-> | [-> | ->]]]] by lia; assumption.
Qed.

Lemma find_call_some s k : (3 <= k <= 8)%nat -> call_ok s k = true ->
  exists k', find_call s = Some k' /\ (k <= k' <= 8)%nat /\ call_ok s k' = true.
Proof.
  intros Hk Hc. unfold find_call. cbn [find].
  destruct (call_ok s 8) eqn:C8; [exists 8%nat; repeat split; try assumption; lia|].
  destruct (call_ok s 7) eqn:C7; [exists 7%nat; repeat split; try assumption; try lia;
    destruct (Nat.eq_dec k 8) as [->|]; [congruence|lia]|].
  destruct (call_ok s 6) eqn:C6; [exists 6%nat; repeat split; try assumption; try lia;
    destruct (Nat.eq_dec k 8) as [->|]; [congruence|]; destruct (Nat.eq_dec k 7) as [->|]; [congruence|lia]|].
  destruct (call_ok s 5) eqn:C5; [exists 5%nat; repeat split; try assumption; try lia;
    destruct (Nat.eq_dec k 8) as [->|]; [congruence|]; destruct (Nat.eq_dec k 7) as [->|]; [congruence|];
    destruct (Nat.eq_dec k 6) as [->|]; [congruence|lia]|].
  destruct (call_ok s 4) eqn:C4; [exists 4%nat; repeat split; try assumption; try lia;
    destruct (Nat.eq_dec k 8) as [->|]; [congruence|]; destruct (Nat.eq_dec k 7) as [->|]; [congruence|];
    destruct (Nat.eq_dec k 6) as [->|]; [congruence|]; destruct (Nat.eq_dec k 5) as [->|]; [congruence|lia]|].
  exists 3%nat.
  assert (k = 3)%nat as ->.
  { destruct (Nat.eq_dec k 8) as [->|]; [congruence|]. destruct (Nat.eq_dec k 7) as [->|]; [congruence|].
    destruct (Nat.eq_dec k 6) as [->|]; [congruence|]. destruct (Nat.eq_dec k 5) as [->|]; [congruence|].
    destruct (Nat.eq_dec k 4) as [->|]; [congruence|]. lia. }
  rewrite Hc. repeat split; try assumption; lia.
Qed.

(** * Step-by-step inversion of [check_header] *)
Lemma check_header_inv s ot n :
  check_header s = Some (ot, n) ->
  exists s1 s2 s3 s4 nl s5 s6 s7 s8 s9 s10 k,
    strip_prefix PREFIX_MESSAGE_START s = Some s1 /\
    take_n is_alpha 3 s1 = Some s2 /\
    strip_prefix [DASH] s2 = Some s3 /\
    take_n is_alpha 3 s3 = Some s4 /\
    take_locs s4 = (S nl, s5) /\
    strip_prefix [PLUS] s5 = Some s6 /\
    take_n is_digit 4 s6 = Some s7 /\
    strip_prefix [DASH] s7 = Some s8 /\
    take_n is_digit 7 s8 = Some s9 /\
    strip_prefix [DASH] s9 = Some s10 /\
    find_call s10 = Some k /\
    ot = (12 + 7 * S nl)%nat /\ n = (ot + 14 + k + 1)%nat.
Proof.
  unfold check_header.
  destruct (strip_prefix PREFIX_MESSAGE_START s) as [s1|] eqn:E1; cbn [obnd]; [|discriminate].
  destruct (take_n is_alpha 3 s1) as [s2|] eqn:E2; cbn [obnd]; [|discriminate].
  destruct (strip_prefix [DASH] s2) as [s3|] eqn:E3; cbn [obnd]; [|discriminate].
  destruct (take_n is_alpha 3 s3) as [s4|] eqn:E4; cbn [obnd]; [|discriminate].
  destruct (take_locs s4) as [nl s5] eqn:E5. destruct nl as [|nl]; [discriminate|].
  destruct (strip_prefix [PLUS] s5) as [s6|] eqn:E6; cbn [obnd]; [|discriminate].
  destruct (take_n is_digit 4 s6) as [s7|] eqn:E7; cbn [obnd]; [|discriminate].
  destruct (strip_prefix [DASH] s7) as [s8|] eqn:E8; cbn [obnd]; [|discriminate].
  destruct (take_n is_digit 7 s8) as [s9|] eqn:E9; cbn [obnd]; [|discriminate].
  destruct (strip_prefix [DASH] s9) as [s10|] eqn:E10; cbn [obnd]; [|discriminate].
  destruct (find_call s10) as [k|] eqn:E11; cbn [obnd]; [|discriminate].
  intros E. inversion E; subst.
  exists s1, s2, s3, s4, nl, s5, s6, s7, s8, s9, s10, k. repeat split; assumption.
Qed.

(** * The declarative SAME grammar *)
Record Hdr (s org evt : bytes) (groups : list bytes) (tttt jjjhhmm call rest : bytes) : Prop := {
  hdr_shape : s = PREFIX_MESSAGE_START ++ org ++ [DASH] ++ evt ++ concat groups ++ [PLUS] ++ tttt
                  ++ [DASH] ++ jjjhhmm ++ [DASH] ++ call ++ [DASH] ++ rest;
  hdr_org : length org = 3%nat /\ forallb is_alpha org = true;
  hdr_evt : length evt = 3%nat /\ forallb is_alpha evt = true;
  hdr_groups : groups <> [] /\ Forall loc_group groups;
  hdr_tttt : length tttt = 4%nat /\ forallb is_digit tttt = true;
  hdr_jjj : length jjjhhmm = 7%nat /\ forallb is_digit jjjhhmm = true;
  hdr_call : (3 <= length call <= 8)%nat /\ no_newline call = true
}.

(** the text that the constructor stores for a decomposition *)
Definition hdr_text (org evt : bytes) (groups : list bytes) (tttt jjjhhmm call : bytes) : bytes :=
  PREFIX_MESSAGE_START ++ org ++ [DASH] ++ evt ++ concat groups ++ [PLUS] ++ tttt
  ++ [DASH] ++ jjjhhmm ++ [DASH] ++ call ++ [DASH].

Lemma concat_groups_length groups :
  Forall loc_group groups -> length (concat groups) = (7 * length groups)%nat.
Proof.
  induction 1 as [|g gs (d & -> & Hl & _) _ IH]; [reflexivity|].
  cbn [concat length]. rewrite app_length, IH. cbn [length]. lia.
Qed.

Lemma firstn_app_exact {A} (a b : list A) n : length a = n -> firstn n (a ++ b) = a.
Proof.
  intros <-. replace (length a) with (length a + 0)%nat by lia.
  rewrite firstn_app_2. cbn [firstn]. apply app_nil_r.
Qed.

(** soundness: whatever the matcher accepts has a decomposition, with these offsets *)
Theorem check_header_sound s ot n :
  check_header s = Some (ot, n) ->
  exists org evt groups tttt jjjhhmm call rest,
    Hdr s org evt groups tttt jjjhhmm call rest
    /\ ot = (12 + 7 * length groups)%nat
    /\ n = (ot + 14 + length call + 1)%nat
    /\ firstn n s = hdr_text org evt groups tttt jjjhhmm call
    /\ (forall k', (length call < k' <= 8)%nat -> call_ok (call ++ DASH :: rest) k' = false).
Proof.
  intros E. destruct (check_header_inv _ _ _ E)
    as (s1 & s2 & s3 & s4 & nl & s5 & s6 & s7 & s8 & s9 & s10 & k &
        E1 & E2 & E3 & E4 & E5 & E6 & E7 & E8 & E9 & E10 & E11 & -> & ->).
  apply strip_prefix_inv in E1, E3, E6, E8, E10.
  destruct (take_n_inv _ _ _ _ E2) as (org & -> & Horg).
  destruct (take_n_inv _ _ _ _ E4) as (evt & -> & Hevt).
  destruct (take_n_inv _ _ _ _ E7) as (tttt & -> & Ht).
  destruct (take_n_inv _ _ _ _ E9) as (jjj & -> & Hj).
  destruct (take_locs_inv (length s4) s4 _ _ (le_n _) E5) as (groups & -> & Hgl & Hg).
  destruct (find_call_inv _ _ E11) as (Hk & Hok & Hmax).
  destruct (call_ok_inv _ _ Hok) as (call & rest & -> & Hcl & Hnn).
  subst.
  exists org, evt, groups, tttt, jjj, call, rest.
  assert (Hdr (PREFIX_MESSAGE_START ++ org ++ [DASH] ++ evt ++ concat groups ++ [PLUS] ++ tttt
               ++ [DASH] ++ jjj ++ [DASH] ++ call ++ DASH :: rest) org evt groups tttt jjj call rest) as HH.
  { constructor; try assumption; try reflexivity.
    - split; [|exact Hg]. destruct groups; [discriminate|]. discriminate.
    - split; [lia|exact Hnn]. }
  split; [exact HH|]. rewrite <- Hgl. split; [reflexivity|]. split; [reflexivity|]. split.
  - match goal with |- firstn ?n ?big = _ =>
      assert (big = hdr_text org evt groups tttt jjj call ++ rest) as ->
        by (unfold hdr_text; repeat rewrite <- app_assoc; reflexivity)
    end.
    apply firstn_app_exact. unfold hdr_text.
    destruct Horg as [Ho _], Hevt as [He _], Ht as [Ht _], Hj as [Hj _].
    repeat rewrite app_length. rewrite (concat_groups_length groups Hg), Ho, He, Ht, Hj.
    cbn [length PREFIX_MESSAGE_START]. unfold bytes in *. lia.
  - exact Hmax.
Qed.

(** completeness: every decomposition is accepted; the callsign matched is the
    longest admissible one (>= the one of the given decomposition) *)
Theorem check_header_complete s org evt groups tttt jjjhhmm call rest :
  Hdr s org evt groups tttt jjjhhmm call rest ->
  exists k' : nat, (length call <= k' <= 8)%nat /\
    check_header s = Some ((12 + 7 * length groups)%nat,
                           (12 + 7 * length groups + 14 + k' + 1)%nat).
Proof.
  intros [-> [Ho1 Ho2] [He1 He2] [Hg1 Hg2] [Ht1 Ht2] [Hj1 Hj2] [Hc1 Hc2]].
  destruct (find_call_some (call ++ DASH :: rest) (length call) Hc1 (call_ok_app call rest Hc2))
    as (k' & Hf & Hk' & _).
  exists k'. split; [exact Hk'|].
  unfold check_header. rewrite strip_prefix_app. cbn [obnd].
  rewrite (take_n_app' _ _ _ _ Ho1 Ho2). cbn [obnd].
  change ([DASH] ++ evt ++ ?x) with ([DASH] ++ (evt ++ x)). rewrite strip_prefix_app. cbn [obnd].
  rewrite (take_n_app' _ _ _ _ He1 He2). cbn [obnd].
  rewrite (take_locs_app groups _ Hg2) by (cbn; unfold DASH, PLUS; lia).
  destruct groups as [|g gs]; [contradiction|]. cbn [length].
  rewrite strip_prefix_app. cbn [obnd].
  rewrite (take_n_app' _ _ _ _ Ht1 Ht2). cbn [obnd].
  change ([DASH] ++ jjjhhmm ++ ?x) with ([DASH] ++ (jjjhhmm ++ x)). rewrite strip_prefix_app. cbn [obnd].
  rewrite (take_n_app' _ _ _ _ Hj1 Hj2). cbn [obnd].
  change ([DASH] ++ call ++ ?x) with ([DASH] ++ (call ++ x)). rewrite strip_prefix_app. cbn [obnd].
  change (call ++ [DASH] ++ rest) with (call ++ DASH :: rest). rewrite Hf. cbn [obnd].
  reflexivity.
Qed.

(** * Constructors *)
Lemma header_new_ok_inv s h :
  header_new s = Ok h ->
  is_ascii s = true /\ exists n, check_header s = Some (h_offset_time h, n) /\ h_text h = firstn n s
                                 /\ h_parity h = 0 /\ h_voting h = 0.
Proof.
  unfold header_new. destruct (is_ascii s); cbn [negb]; [|discriminate].
  destruct (check_header s) as [[ot n]|]; [|discriminate].
  intros E. inversion E; subst. cbn. split; [reflexivity|]. exists n. repeat split.
Qed.

Lemma check_header_starts s r : check_header s = Some r -> starts_with PREFIX_MESSAGE_START s = true.
Proof.
  unfold check_header. destruct (strip_prefix PREFIX_MESSAGE_START s) eqn:E; [|discriminate].
  intros _. eapply strip_prefix_starts_with, E.
Qed.

Lemma hdr_text_nonempty org evt groups tttt jjj call : hdr_text org evt groups tttt jjj call <> [].
Proof. discriminate. Qed.

Lemma header_new_text_nonempty s h : header_new s = Ok h -> h_text h <> [].
Proof.
  intros E. destruct (header_new_ok_inv _ _ E) as (_ & n & Hc & -> & _).
  destruct (check_header_sound _ _ _ Hc) as (org & evt & gs & t & j & c & r & _ & _ & _ & -> & _).
  apply hdr_text_nonempty.
Qed.
