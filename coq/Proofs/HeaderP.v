(** Facts about the header matcher, constructors and accessors (C06). *)
From Sameold Require Import Base.Bytes Model.Header.
From Coq Require Import ZifyBool ZifyN ZifyNat.
Arguments N.add : simpl never.
Arguments N.sub : simpl never.
Arguments N.mul : simpl never.
Arguments N.leb : simpl never.
Arguments N.ltb : simpl never.
Arguments N.eqb : simpl never.

(** * Inversion of the primitive matchers *)
Lemma strip_prefix_inv pre s r : strip_prefix pre s = Some r -> s = pre ++ r.
Proof.
  revert s. induction pre as [|p pre IH]; intros s; cbn [strip_prefix app].
  - intros E; inversion E; reflexivity.
  - destruct s as [|c s]; [discriminate|]. destruct (N.eqb_spec p c) as [->|]; [|discriminate].
    intros E. rewrite (IH _ E). reflexivity.
Qed.

Lemma strip_prefix_app pre r : strip_prefix pre (pre ++ r) = Some r.
Proof.
  induction pre as [|p pre IH]; [reflexivity|]. cbn [strip_prefix app]. rewrite N.eqb_refl. exact IH.
Qed.

Lemma strip_prefix_starts_with pre s r : strip_prefix pre s = Some r -> starts_with pre s = true.
Proof.
  revert s. induction pre as [|p pre IH]; intros s; [reflexivity|].
  cbn [strip_prefix starts_with]. destruct s as [|c s]; [discriminate|].
  destruct (p =? c); [apply IH|discriminate].
Qed.

Lemma starts_with_app pre r : starts_with pre (pre ++ r) = true.
Proof.
  induction pre as [|p pre IH]; [reflexivity|]. cbn [starts_with app]. rewrite N.eqb_refl. exact IH.
Qed.

Lemma take_n_inv p n : forall s r, take_n p n s = Some r ->
  exists t, s = t ++ r /\ length t = n /\ forallb p t = true.
Proof.
  induction n as [|n IH]; intros s r; cbn [take_n].
  - intros E; inversion E; subst. exists []. repeat split.
  - destruct s as [|c s]; [discriminate|]. destruct (p c) eqn:Pc; [|discriminate].
    intros E. destruct (IH _ _ E) as (t & -> & Hl & Hp).
    exists (c :: t). cbn [app length forallb]. rewrite Pc, Hp, Hl. repeat split.
Qed.

Lemma take_n_app p t r : forallb p t = true -> take_n p (length t) (t ++ r) = Some r.
Proof.
  induction t as [|c t IH]; [reflexivity|]. cbn [forallb length take_n app].
  intros E. apply andb_prop in E. destruct E as [-> E]. apply IH, E.
Qed.

Lemma take_n_app' p n t r : length t = n -> forallb p t = true -> take_n p n (t ++ r) = Some r.
Proof. intros <-. apply take_n_app. Qed.

(** * Location groups *)
Definition loc_group (g : bytes) : Prop :=
  exists d, g = DASH :: d /\ length d = 6%nat /\ forallb is_digit d = true.

Lemma take_locs_inv : forall (fuel : nat) s n r, (length s <= fuel)%nat -> take_locs s = (n, r) ->
  exists groups, s = concat groups ++ r /\ length groups = n /\ Forall loc_group groups.
Proof.
  induction fuel as [|f IH]; intros s n r Hf.
  - destruct s; [|cbn in Hf; lia]. cbn. intros E; inversion E; subst. exists []. repeat split; constructor.
  - destruct s as [|c [|d1 [|d2 [|d3 [|d4 [|d5 [|d6 s']]]]]]];
      try (cbn [take_locs]; intros E; inversion E; subst; exists []; repeat split; constructor).
    cbn [take_locs].
    destruct ((c =? DASH) && is_digit d1 && is_digit d2 && is_digit d3 && is_digit d4
              && is_digit d5 && is_digit d6) eqn:G.
    + destruct (take_locs s') as [n' r'] eqn:E'. intros E; inversion E; subst.
      destruct (IH s' n' r) as (gs & -> & Hl & Hg); [cbn [length] in Hf; lia|exact E'|].
      exists ((c :: [d1; d2; d3; d4; d5; d6]) :: gs). split; [reflexivity|]. split; [cbn; lia|].
      constructor; [|exact Hg]. exists [d1; d2; d3; d4; d5; d6].
      assert (c = DASH) as -> by lia. split; [reflexivity|]. split; [reflexivity|].
      cbn [forallb]. lia.
    + intros E; inversion E; subst. exists []. repeat split; constructor.
Qed.

Lemma take_locs_stop s : match s with c :: _ => c <> DASH | [] => True end -> take_locs s = (O, s).
Proof.
  destruct s as [|c [|d1 [|d2 [|d3 [|d4 [|d5 [|d6 s']]]]]]]; try reflexivity.
  intros Hc. cbn [take_locs]. assert ((c =? DASH) = false) as -> by lia. reflexivity.
Qed.

Lemma take_locs_app groups r :
  Forall loc_group groups -> match r with c :: _ => c <> DASH | [] => True end ->
  take_locs (concat groups ++ r) = (length groups, r).
Proof.
  intros Hg Hr. induction Hg as [|g gs (d & -> & Hl & Hd) _ IH]; [apply take_locs_stop, Hr|].
  destruct d as [|d1 [|d2 [|d3 [|d4 [|d5 [|d6 [|]]]]]]]; try discriminate.
  cbn [concat app take_locs]. cbn [forallb] in Hd.
  assert ((DASH =? DASH) && is_digit d1 && is_digit d2 && is_digit d3 && is_digit d4
          && is_digit d5 && is_digit d6 = true) as -> by (rewrite N.eqb_refl; lia).
  cbn [app] in IH. rewrite IH. reflexivity.
Qed.

(** * The callsign *)
Definition no_newline (c : bytes) : bool := forallb (fun b => negb (b =? NEWLINE)) c.

Lemma call_ok_app c r : no_newline c = true -> call_ok (c ++ DASH :: r) (length c) = true.
Proof.
  intros Hc. unfold call_ok.
  rewrite app_length, firstn_app, Nat.sub_diag, firstn_all. cbn [firstn]. rewrite app_nil_r.
  fold (no_newline c). rewrite Hc.
  rewrite nth_error_app2, Nat.sub_diag by lia. cbn [nth_error]. rewrite N.eqb_refl.
  cbn [length]. lia.
Qed.

Lemma call_ok_inv s k : call_ok s k = true ->
  exists c r, s = c ++ DASH :: r /\ length c = k /\ no_newline c = true.
Proof.
  unfold call_ok. intros E. apply andb_prop in E. destruct E as [E E3].
  apply andb_prop in E. destruct E as [E1 E2].
  destruct (nth_error s k) as [d|] eqn:En; [|discriminate].
  assert (d = DASH) as -> by lia.
  apply nth_error_split in En. destruct En as (c & r & -> & <-).
  exists c, r. split; [reflexivity|]. split; [reflexivity|].
  rewrite firstn_app, Nat.sub_diag, firstn_all in E2. cbn [firstn] in E2. rewrite app_nil_r in E2. exact E2.
Qed.

Lemma find_call_inv s k : find_call s = Some k ->
  (3 <= k <= 8)%nat /\ call_ok s k = true /\
  forall k', (k < k' <= 8)%nat -> call_ok s k' = false.
Proof.
  unfold find_call. cbn [find].
  destruct (call_ok s 8) eqn:C8; [intros E; inversion E; subst; repeat split; try lia; intros; lia|].
  destruct (call_ok s 7) eqn:C7;
    [intros E; inversion E; subst; repeat split; try lia; intros k' Hk; assert (k' = 8)%nat as -> by lia; assumption|].
  destruct (call_ok s 6) eqn:C6;
    [intros E; inversion E; subst; repeat split; try lia; intros k' Hk;
     assert (k' = 8 \/ k' = 7)%nat as [-> | ->] by lia; assumption|].
  destruct (call_ok s 5) eqn:C5;
    [intros E; inversion E; subst; repeat split; try lia; intros k' Hk;
     assert (k' = 8 \/ k' = 7 \/ k' = 6)%nat as [-> | [-> | ->]] by lia; assumption|].
  destruct (call_ok s 4) eqn:C4;
    [intros E; inversion E; subst; repeat split; try lia; intros k' Hk;
     assert (k' = 8 \/ k' = 7 \/ k' = 6 \/ k' = 5)%nat as [-> | [-> | [-> | ->]]] by lia; assumption|].
  destruct (call_ok s 3) eqn:C3; [|discriminate].
  intros E; inversion E; subst; repeat split; try lia; intros k' Hk.
  assert (k' = 8 \/ k' = 7 \/ k' = 6 \/ k' = 5 \/ k' = 4)%nat as [-> | [-> | [-> | [-> | ->]]]] by lia; assumption.
Qed.

Lemma find_call_some s k : (3 <= k <= 8)%nat -> call_ok s k = true ->
  exists k', find_call s = Some k' /\ (k <= k' <= 8)%nat /\ call_ok s k' = true.
Proof.
  intros Hk Hc. unfold find_call. cbn [find].
  destruct (call_ok s 8) eqn:C8; [exists 8%nat; repeat split; try assumption; lia|].
  destruct (call_ok s 7) eqn:C7; [exists 7%nat; repeat split; try assumption; try lia;
    destruct (Nat.eq_dec k 8) as [->|]; [congruence|lia]|].
  destruct (call_ok s 6) eqn:C6; [exists 6%nat; repeat split; try assumption; try lia;
    destruct (Nat.eq_dec k 8) as [->|]; [congruence|]; destruct (Nat.eq_dec k 7) as [->|]; [congruence|lia]|].
  destruct (call_ok s 5) eqn:C5; [exists 5%nat; repeat split; try assumption; try lia;
    destruct (Nat.eq_dec k 8) as [->|]; [congruence|]; destruct (Nat.eq_dec k 7) as [->|]; [congruence|];
    destruct (Nat.eq_dec k 6) as [->|]; [congruence|lia]|].
  destruct (call_ok s 4) eqn:C4; [exists 4%nat; repeat split; try assumption; try lia;
    destruct (Nat.eq_dec k 8) as [->|]; [congruence|]; destruct (Nat.eq_dec k 7) as [->|]; [congruence|];
    destruct (Nat.eq_dec k 6) as [->|]; [congruence|]; destruct (Nat.eq_dec k 5) as [->|]; [congruence|lia]|].
  exists 3%nat.
  assert (k = 3)%nat as ->.
  { destruct (Nat.eq_dec k 8) as [->|]; [congruence|]. destruct (Nat.eq_dec k 7) as [->|]; [congruence|].
    destruct (Nat.eq_dec k 6) as [->|]; [congruence|]. destruct (Nat.eq_dec k 5) as [->|]; [congruence|].
    destruct (Nat.eq_dec k 4) as [->|]; [congruence|]. lia. }
  rewrite Hc. repeat split; try assumption; lia.
Qed.

(** * Step-by-step inversion of [check_header] *)
Lemma check_header_inv s ot n :
  check_header s = Some (ot, n) ->
  exists s1 s2 s3 s4 nl s5 s6 s7 s8 s9 s10 k,
    strip_prefix PREFIX_MESSAGE_START s = Some s1 /\
    take_n is_alpha 3 s1 = Some s2 /\
    strip_prefix [DASH] s2 = Some s3 /\
    take_n is_alpha 3 s3 = Some s4 /\
    take_locs s4 = (S nl, s5) /\
    strip_prefix [PLUS] s5 = Some s6 /\
    take_n is_digit 4 s6 = Some s7 /\
    strip_prefix [DASH] s7 = Some s8 /\
    take_n is_digit 7 s8 = Some s9 /\
    strip_prefix [DASH] s9 = Some s10 /\
    find_call s10 = Some k /\
    ot = (12 + 7 * S nl)%nat /\ n = (ot + 14 + k + 1)%nat.
Proof.
  unfold check_header.
  destruct (strip_prefix PREFIX_MESSAGE_START s) as [s1|] eqn:E1; cbn [obnd]; [|discriminate].
  destruct (take_n is_alpha 3 s1) as [s2|] eqn:E2; cbn [obnd]; [|discriminate].
  destruct (strip_prefix [DASH] s2) as [s3|] eqn:E3; cbn [obnd]; [|discriminate].
  destruct (take_n is_alpha 3 s3) as [s4|] eqn:E4; cbn [obnd]; [|discriminate].
  destruct (take_locs s4) as [nl s5] eqn:E5. destruct nl as [|nl]; [discriminate|].
  destruct (strip_prefix [PLUS] s5) as [s6|] eqn:E6; cbn [obnd]; [|discriminate].
  destruct (take_n is_digit 4 s6) as [s7|] eqn:E7; cbn [obnd]; [|discriminate].
  destruct (strip_prefix [DASH] s7) as [s8|] eqn:E8; cbn [obnd]; [|discriminate].
  destruct (take_n is_digit 7 s8) as [s9|] eqn:E9; cbn [obnd]; [|discriminate].
  destruct (strip_prefix [DASH] s9) as [s10|] eqn:E10; cbn [obnd]; [|discriminate].
  destruct (find_call s10) as [k|] eqn:E11; cbn [obnd]; [|discriminate].
  intros E. inversion E; subst.
  exists s1, s2, s3, s4, nl, s5, s6, s7, s8, s9, s10, k. repeat split; assumption.
Qed.

(** * The declarative SAME grammar *)
Record Hdr (s org evt : bytes) (groups : list bytes) (tttt jjjhhmm call rest : bytes) : Prop := {
  hdr_shape : s = PREFIX_MESSAGE_START ++ org ++ [DASH] ++ evt ++ concat groups ++ [PLUS] ++ tttt
                  ++ [DASH] ++ jjjhhmm ++ [DASH] ++ call ++ [DASH] ++ rest;
  hdr_org : length org = 3%nat /\ forallb is_alpha org = true;
  hdr_evt : length evt = 3%nat /\ forallb is_alpha evt = true;
  hdr_groups : groups <> [] /\ Forall loc_group groups;
  hdr_tttt : length tttt = 4%nat /\ forallb is_digit tttt = true;
  hdr_jjj : length jjjhhmm = 7%nat /\ forallb is_digit jjjhhmm = true;
  hdr_call : (3 <= length call <= 8)%nat /\ no_newline call = true
}.

(** the text that the constructor stores for a decomposition *)
Definition hdr_text (org evt : bytes) (groups : list bytes) (tttt jjjhhmm call : bytes) : bytes :=
  PREFIX_MESSAGE_START ++ org ++ [DASH] ++ evt ++ concat groups ++ [PLUS] ++ tttt
  ++ [DASH] ++ jjjhhmm ++ [DASH] ++ call ++ [DASH].

Lemma concat_groups_length groups :
  Forall loc_group groups -> length (concat groups) = (7 * length groups)%nat.
Proof.
  induction 1 as [|g gs (d & -> & Hl & _) _ IH]; [reflexivity|].
  cbn [concat length]. rewrite app_length, IH. cbn [length]. lia.
Qed.

Lemma firstn_app_exact {A} (a b : list A) n : length a = n -> firstn n (a ++ b) = a.
Proof.
  intros <-. replace (length a) with (length a + 0)%nat by lia.
  rewrite firstn_app_2. cbn [firstn]. apply app_nil_r.
Qed.

(** soundness: whatever the matcher accepts has a decomposition, with these offsets *)
Theorem check_header_sound s ot n :
  check_header s = Some (ot, n) ->
  exists org evt groups tttt jjjhhmm call rest,
    Hdr s org evt groups tttt jjjhhmm call rest
    /\ ot = (12 + 7 * length groups)%nat
    /\ n = (ot + 14 + length call + 1)%nat
    /\ firstn n s = hdr_text org evt groups tttt jjjhhmm call
    /\ (forall k', (length call < k' <= 8)%nat -> call_ok (call ++ DASH :: rest) k' = false).
Proof.
  intros E. destruct (check_header_inv _ _ _ E)
    as (s1 & s2 & s3 & s4 & nl & s5 & s6 & s7 & s8 & s9 & s10 & k &
        E1 & E2 & E3 & E4 & E5 & E6 & E7 & E8 & E9 & E10 & E11 & -> & ->).
  apply strip_prefix_inv in E1, E3, E6, E8, E10.
  destruct (take_n_inv _ _ _ _ E2) as (org & -> & Horg).
  destruct (take_n_inv _ _ _ _ E4) as (evt & -> & Hevt).
  destruct (take_n_inv _ _ _ _ E7) as (tttt & -> & Ht).
  destruct (take_n_inv _ _ _ _ E9) as (jjj & -> & Hj).
  destruct (take_locs_inv (length s4) s4 _ _ (le_n _) E5) as (groups & -> & Hgl & Hg).
  destruct (find_call_inv _ _ E11) as (Hk & Hok & Hmax).
  destruct (call_ok_inv _ _ Hok) as (call & rest & -> & Hcl & Hnn).
  subst.
  exists org, evt, groups, tttt, jjj, call, rest.
  assert (Hdr (PREFIX_MESSAGE_START ++ org ++ [DASH] ++ evt ++ concat groups ++ [PLUS] ++ tttt
               ++ [DASH] ++ jjj ++ [DASH] ++ call ++ DASH :: rest) org evt groups tttt jjj call rest) as HH.
  { constructor; try assumption; try reflexivity.
    - split; [|exact Hg]. destruct groups; [discriminate|]. discriminate.
    - split; [lia|exact Hnn]. }
  split; [exact HH|]. rewrite <- Hgl. split; [reflexivity|]. split; [reflexivity|]. split.
  - match goal with |- firstn ?n ?big = _ =>
      assert (big = hdr_text org evt groups tttt jjj call ++ rest) as ->
        by (unfold hdr_text; repeat rewrite <- app_assoc; reflexivity)
    end.
    apply firstn_app_exact. unfold hdr_text.
    destruct Horg as [Ho _], Hevt as [He _], Ht as [Ht _], Hj as [Hj _].
    repeat rewrite app_length. rewrite (concat_groups_length groups Hg), Ho, He, Ht, Hj.
    cbn [length PREFIX_MESSAGE_START]. unfold bytes in *. lia.
  - exact Hmax.
Qed.

(** completeness: every decomposition is accepted; the callsign matched is the
    longest admissible one (>= the one of the given decomposition) *)
Theorem check_header_complete s org evt groups tttt jjjhhmm call rest :
  Hdr s org evt groups tttt jjjhhmm call rest ->
  exists k' : nat, (length call <= k' <= 8)%nat /\
    check_header s = Some ((12 + 7 * length groups)%nat,
                           (12 + 7 * length groups + 14 + k' + 1)%nat).
Proof.
  intros [-> [Ho1 Ho2] [He1 He2] [Hg1 Hg2] [Ht1 Ht2] [Hj1 Hj2] [Hc1 Hc2]].
  destruct (find_call_some (call ++ DASH :: rest) (length call) Hc1 (call_ok_app call rest Hc2))
    as (k' & Hf & Hk' & _).
  exists k'. split; [exact Hk'|].
  unfold check_header. rewrite strip_prefix_app. cbn [obnd].
  rewrite (take_n_app' _ _ _ _ Ho1 Ho2). cbn [obnd].
  change ([DASH] ++ evt ++ ?x) with ([DASH] ++ (evt ++ x)). rewrite strip_prefix_app. cbn [obnd].
  rewrite (take_n_app' _ _ _ _ He1 He2). cbn [obnd].
  rewrite (take_locs_app groups _ Hg2) by (cbn; unfold DASH, PLUS; lia).
  destruct groups as [|g gs]; [contradiction|]. cbn [length].
  rewrite strip_prefix_app. cbn [obnd].
  rewrite (take_n_app' _ _ _ _ Ht1 Ht2). cbn [obnd].
  change ([DASH] ++ jjjhhmm ++ ?x) with ([DASH] ++ (jjjhhmm ++ x)). rewrite strip_prefix_app. cbn [obnd].
  rewrite (take_n_app' _ _ _ _ Hj1 Hj2). cbn [obnd].
  change ([DASH] ++ call ++ ?x) with ([DASH] ++ (call ++ x)). rewrite strip_prefix_app. cbn [obnd].
  change (call ++ [DASH] ++ rest) with (call ++ DASH :: rest). rewrite Hf. cbn [obnd].
  reflexivity.
Qed.

(** * Constructors *)
Lemma header_new_ok_inv s h :
  header_new s = Ok h ->
  is_ascii s = true /\ exists n, check_header s = Some (h_offset_time h, n) /\ h_text h = firstn n s
                                 /\ h_parity h = 0 /\ h_voting h = 0.
Proof.
  unfold header_new. destruct (is_ascii s); cbn [negb]; [|discriminate].
  destruct (check_header s) as [[ot n]|]; [|discriminate].
  intros E. inversion E; subst. cbn. split; [reflexivity|]. exists n. repeat split.
Qed.

Lemma check_header_starts s r : check_header s = Some r -> starts_with PREFIX_MESSAGE_START s = true.
Proof.
  unfold check_header. destruct (strip_prefix PREFIX_MESSAGE_START s) eqn:E; [|discriminate].
  intros _. eapply strip_prefix_starts_with, E.
Qed.

Lemma hdr_text_nonempty org evt groups tttt jjj call : hdr_text org evt groups tttt jjj call <> [].
Proof. discriminate. Qed.

Lemma header_new_text_nonempty s h : header_new s = Ok h -> h_text h <> [].
Proof.
  intros E. destruct (header_new_ok_inv _ _ E) as (_ & n & Hc & -> & _).
  destruct (check_header_sound _ _ _ Hc) as (org & evt & gs & t & j & c & r & _ & _ & _ & -> & _).
  apply hdr_text_nonempty.
Qed.

(** * Re-parsing the stored text *)
Lemma hdr_text_Hdr org evt groups tttt jjj call rest s :
  Hdr s org evt groups tttt jjj call rest ->
  Hdr (hdr_text org evt groups tttt jjj call) org evt groups tttt jjj call [].
Proof.
  intros [_ Ho He Hg Ht Hj Hc]. constructor; try assumption. unfold hdr_text. reflexivity.
Qed.

Lemma is_ascii_firstn n s : is_ascii s = true -> is_ascii (firstn n s) = true.
Proof.
  unfold is_ascii. revert s. induction n as [|n IH]; intros [|c s]; cbn [firstn forallb]; try reflexivity.
  intros E. apply andb_prop in E. destruct E as [-> E]. apply IH, E.
Qed.

Theorem header_reparse s h : header_new s = Ok h -> header_new (h_text h) = Ok h.
Proof.
  intros E. destruct (header_new_ok_inv _ _ E) as (Ha & n & Hc & Ht & Hp & Hv).
  destruct (check_header_sound _ _ _ Hc) as (org & evt & gs & t & j & c & r & HH & Hot & Hn & Hfn & _).
  pose proof (hdr_text_Hdr _ _ _ _ _ _ _ _ HH) as HH'.
  destruct (check_header_complete _ _ _ _ _ _ _ _ HH') as (k' & Hk' & Hc').
  (* the re-parsed callsign cannot be longer: the text ends right after it *)
  assert (k' = length c) as ->.
  { destruct (check_header_inv _ _ _ Hc')
      as (s1 & s2 & s3 & s4 & nl & s5 & s6 & s7 & s8 & s9 & s10 & k &
          E1 & E2 & E3 & E4 & E5 & E6 & E7 & E8 & E9 & E10 & E11 & Eot & En).
    destruct HH' as [_ [Ho1 Ho2] [He1 He2] [Hg1 Hg2] [Ht1 Ht2] [Hj1 Hj2] [Hc1 Hc2]].
    unfold hdr_text in E1. rewrite strip_prefix_app in E1. inversion E1; subst s1; clear E1.
    rewrite (take_n_app' _ _ _ _ Ho1 Ho2) in E2. inversion E2; subst s2; clear E2.
    cbn [app strip_prefix] in E3; rewrite ?N.eqb_refl in E3. inversion E3; subst s3; clear E3.
    rewrite (take_n_app' _ _ _ _ He1 He2) in E4. inversion E4; subst s4; clear E4.
    rewrite (take_locs_app gs _ Hg2) in E5 by (cbn; unfold DASH, PLUS; lia).
    inversion E5; subst s5; clear E5.
    cbn [app strip_prefix] in E6; rewrite ?N.eqb_refl in E6. inversion E6; subst s6; clear E6.
    rewrite (take_n_app' _ _ _ _ Ht1 Ht2) in E7. inversion E7; subst s7; clear E7.
    cbn [app strip_prefix] in E8; rewrite ?N.eqb_refl in E8. inversion E8; subst s8; clear E8.
    rewrite (take_n_app' _ _ _ _ Hj1 Hj2) in E9. inversion E9; subst s9; clear E9.
    cbn [app strip_prefix] in E10; rewrite ?N.eqb_refl in E10. inversion E10; subst s10; clear E10.
    assert (k = k') as <- by lia.
    destruct (find_call_inv _ _ E11) as (_ & Hok & _).
    unfold call_ok in Hok. apply andb_prop in Hok. destruct Hok as [Hok _].
    apply andb_prop in Hok. destruct Hok as [Hok _].
    rewrite app_length in Hok. cbn [length] in Hok.
    destruct (nth_error (c ++ [DASH]) k) eqn:En'; [|].
    - assert (k < length (c ++ [DASH]))%nat by (apply nth_error_Some; congruence).
      rewrite app_length in *. cbn [length] in *. lia.
    - apply find_call_inv in E11. destruct E11 as (_ & Hok' & _). unfold call_ok in Hok'.
      rewrite En' in Hok'. rewrite andb_false_r in Hok'. discriminate. }
  unfold header_new. rewrite Ht. rewrite (is_ascii_firstn n s Ha). cbn [negb].
  rewrite Hfn, Hc'. f_equal.
  assert (firstn (12 + 7 * length gs + 14 + length c + 1) (hdr_text org evt gs t j c)
          = hdr_text org evt gs t j c) as ->.
  { apply firstn_all2. unfold hdr_text.
    destruct HH as [_ [Ho _] [He _] [_ Hg] [Ht' _] [Hj _] _].
    repeat rewrite app_length. rewrite (concat_groups_length gs Hg), Ho, He, Ht', Hj.
    cbn [length PREFIX_MESSAGE_START]. unfold bytes in *. lia. }
  destruct h as [tx ot pa vo]. cbn [h_text h_offset_time h_parity h_voting] in *.
  subst. rewrite Hfn. reflexivity.
Qed.

(** * Non-ASCII input *)
Theorem header_new_non_ascii s : is_ascii s = false -> header_new s = Err NotAscii.
Proof. intros E. unfold header_new. rewrite E. reflexivity. Qed.

Theorem message_bytes_invalid_utf8 s e c :
  valid_utf8 s = false -> message_try_from_bytes s e c = Err NotAscii.
Proof. intros E. unfold message_try_from_bytes. rewrite E. reflexivity. Qed.

Theorem message_str_dispatch s :
  message_try_from_str s =
  if starts_with PREFIX_MESSAGE_START s then
    (if is_ascii s then
       match check_header s with
       | Some (ot, n) => Ok (SOM (mkHeader (firstn n s) ot 0 0))
       | None => Err Malformed
       end
     else Err NotAscii)
  else if starts_with PREFIX_EOM2 s then Ok EOM else Err UnrecognizedPrefix.
Proof.
  unfold message_try_from_str, header_new.
  destruct (starts_with PREFIX_MESSAGE_START s); [|reflexivity].
  destruct (is_ascii s); cbn [negb]; [|reflexivity].
  destruct (check_header s) as [[ot n]|]; reflexivity.
Qed.

(** * Accessors never panic and return exactly the grammar components *)
Definition dec (ds : bytes) : N := fold_left (fun a d => a * 10 + (d - 48)) ds 0.

Lemma slice_mid site (pre mid post : bytes) a b :
  length pre = a -> (a + length mid = b)%nat -> slice site a b (pre ++ mid ++ post) = Done mid.
Proof.
  intros <- <-. unfold slice.
  assert ((length pre <=? length pre + length mid)%nat
          && (length pre + length mid <=? length (pre ++ mid ++ post))%nat = true) as ->.
  { rewrite !app_length. lia. }
  rewrite skipn_app, skipn_all, Nat.sub_diag. cbn [skipn app].
  replace (length pre + length mid - length pre)%nat with (length mid) by lia.
  rewrite firstn_app_exact by reflexivity. reflexivity.
Qed.

Lemma split_on_nosep sep : forall d cur rest,
  forallb (fun c => negb (c =? sep)) d = true ->
  split_on sep cur (d ++ rest) = split_on sep (rev d ++ cur) rest.
Proof.
  induction d as [|c d IH]; intros cur rest; [reflexivity|].
  cbn [forallb app split_on rev]. intros E. apply andb_prop in E. destruct E as [E1 E2].
  destruct (c =? sep); [discriminate|]. rewrite IH by exact E2. rewrite <- app_assoc. reflexivity.
Qed.

Lemma digits_no_dash d : forallb is_digit d = true -> forallb (fun c => negb (c =? DASH)) d = true.
Proof.
  induction d as [|c d IH]; [reflexivity|]. cbn [forallb]. intros E.
  apply andb_prop in E. destruct E as [E1 E2]. rewrite (IH E2).
  unfold is_digit, DASH in *. lia.
Qed.

(** splitting "d1-d2-...-dn" at the dashes gives back the groups *)
Lemma split_groups : forall gs d cur,
  forallb is_digit d = true -> Forall loc_group gs ->
  split_on DASH cur (d ++ concat gs) = (rev cur ++ d) :: map (@tl N) gs.
Proof.
  induction gs as [|g gs IH]; intros d cur Hd Hg.
  - cbn [concat map]. rewrite split_on_nosep by (apply digits_no_dash, Hd).
    cbn [split_on]. rewrite rev_app_distr, rev_involutive. reflexivity.
  - inversion Hg as [|? ? (d' & -> & Hl & Hd') Hg']; subst.
    cbn [concat map tl]. rewrite split_on_nosep by (apply digits_no_dash, Hd).
    cbn [app split_on]. rewrite N.eqb_refl. rewrite rev_app_distr, rev_involutive. f_equal.
    rewrite (IH d' [] Hd' Hg'). reflexivity.
Qed.

Lemma parse2 a b max : is_digit a = true -> is_digit b = true -> 99 <= max ->
  parse_uint max [a; b] = Some (dec [a; b]).
Proof.
  intros Ha Hb Hm. unfold parse_uint, dec.
  assert ((a =? PLUS) = false) as -> by (unfold is_digit, PLUS in *; lia).
  cbn [fold_left forallb]. rewrite Ha, Hb. cbn [andb].
  assert ((0 * 10 + (a - 48)) * 10 + (b - 48) <=? max = true) as ->
    by (unfold is_digit in *; lia).
  reflexivity.
Qed.

Lemma parse3 a b c max : is_digit a = true -> is_digit b = true -> is_digit c = true -> 999 <= max ->
  parse_uint max [a; b; c] = Some (dec [a; b; c]).
Proof.
  intros Ha Hb Hc Hm. unfold parse_uint, dec.
  assert ((a =? PLUS) = false) as -> by (unfold is_digit, PLUS in *; lia).
  cbn [fold_left forallb]. rewrite Ha, Hb, Hc. cbn [andb].
  assert (((0 * 10 + (a - 48)) * 10 + (b - 48)) * 10 + (c - 48) <=? max = true) as ->
    by (unfold is_digit in *; lia).
  reflexivity.
Qed.

Theorem accessors_faithful h org evt groups t1 t2 t3 t4 j1 j2 j3 j4 j5 j6 j7 call :
  let tttt := [t1; t2; t3; t4] in
  let jjj := [j1; j2; j3; j4; j5; j6; j7] in
  h_text h = hdr_text org evt groups tttt jjj call ->
  h_offset_time h = (12 + 7 * length groups)%nat ->
  Hdr (h_text h) org evt groups tttt jjj call [] ->
  originator_str h = Done org
  /\ event_str h = Done evt
  /\ locations h = Done (map (@tl N) groups)
  /\ valid_duration_fields h = Done (dec [t1; t2], dec [t3; t4])
  /\ issue_daytime_fields h = Done (dec [j1; j2; j3], dec [j4; j5], dec [j6; j7])
  /\ callsign h = Done call.
Proof.
  intros tttt jjj Htx Hot [_ [Ho1 Ho2] [He1 He2] [Hg1 Hg2] [Ht1 Ht2] [Hj1 Hj2] [Hc1 Hc2]].
  pose proof (concat_groups_length groups Hg2) as Hcl.
  repeat split.
  - unfold originator_str. rewrite Htx. unfold hdr_text.
    apply slice_mid; [reflexivity|]. unfold OFFSET_ORG. lia.
  - unfold event_str. rewrite Htx. unfold hdr_text.
    rewrite (app_assoc _ org), (app_assoc _ [DASH]).
    apply slice_mid; [rewrite !app_length, Ho1; reflexivity|]. unfold OFFSET_EVT. lia.
  - unfold locations, location_str. rewrite Htx, Hot. unfold hdr_text.
    destruct groups as [|g gs]; [contradiction|].
    inversion Hg2 as [|? ? (d & -> & Hdl & Hdd) Hg2']; subst.
    cbn [concat].
    match goal with |- obind (slice 3 _ _ ?big) _ = _ =>
      replace big
        with ((PREFIX_MESSAGE_START ++ org ++ [DASH] ++ evt ++ [DASH]) ++ (d ++ concat gs) ++ ([PLUS] ++ tttt
               ++ [DASH] ++ jjj ++ [DASH] ++ call ++ [DASH]))
        by (repeat (rewrite <- app_assoc || rewrite <- app_comm_cons); cbn [app]; reflexivity)
    end.
    rewrite slice_mid.
    2:{ rewrite !app_length, Ho1, He1. reflexivity. }
    2:{ rewrite app_length, Hdl, (concat_groups_length gs Hg2'). unfold OFFSET_AREA_START. cbn [length PREFIX_MESSAGE_START]. unfold bytes in *. lia. }
    cbn [obind]. rewrite (split_groups gs d [] Hdd Hg2'). reflexivity.
  - unfold valid_duration_fields. rewrite Htx, Hot. unfold hdr_text.
    replace (PREFIX_MESSAGE_START ++ org ++ [DASH] ++ evt ++ concat groups ++ [PLUS] ++ tttt
               ++ [DASH] ++ jjj ++ [DASH] ++ call ++ [DASH])
      with ((PREFIX_MESSAGE_START ++ org ++ [DASH] ++ evt ++ concat groups ++ [PLUS]) ++ tttt
               ++ ([DASH] ++ jjj ++ [DASH] ++ call ++ [DASH]))
      by (repeat rewrite <- app_assoc; reflexivity).
    rewrite slice_mid.
    2:{ rewrite !app_length, Ho1, He1, Hcl. unfold OFFSET_FROMPLUS_VALIDTIME. cbn [length PREFIX_MESSAGE_START]. unfold bytes in *. lia. }
    2:{ cbn [length tttt]. lia. }
    cbn [obind]. unfold tttt in *. cbn [forallb] in Ht2.
    change (slice 5 0 2 [t1; t2; t3; t4]) with (Done (A:=bytes) [t1; t2]).
    change (slice 7 2 4 [t1; t2; t3; t4]) with (Done (A:=bytes) [t3; t4]). cbn [obind].
    rewrite (parse2 t1 t2 255), (parse2 t3 t4 255) by lia. reflexivity.
  - unfold issue_daytime_fields. rewrite Htx, Hot. unfold hdr_text.
    replace (PREFIX_MESSAGE_START ++ org ++ [DASH] ++ evt ++ concat groups ++ [PLUS] ++ tttt
               ++ [DASH] ++ jjj ++ [DASH] ++ call ++ [DASH])
      with ((PREFIX_MESSAGE_START ++ org ++ [DASH] ++ evt ++ concat groups ++ [PLUS] ++ tttt ++ [DASH]) ++ jjj
               ++ ([DASH] ++ call ++ [DASH]))
      by (repeat rewrite <- app_assoc; reflexivity).
    rewrite slice_mid.
    2:{ rewrite !app_length, Ho1, He1, Hcl. unfold OFFSET_FROMPLUS_ISSUETIME. cbn [length PREFIX_MESSAGE_START]. unfold bytes in *. lia. }
    2:{ cbn [length jjj]. lia. }
    cbn [obind]. unfold jjj in *. cbn [forallb] in Hj2.
    change (slice 10 0 3 [j1; j2; j3; j4; j5; j6; j7]) with (Done (A:=bytes) [j1; j2; j3]).
    change (slice 12 3 5 [j1; j2; j3; j4; j5; j6; j7]) with (Done (A:=bytes) [j4; j5]).
    change (slice 14 5 7 [j1; j2; j3; j4; j5; j6; j7]) with (Done (A:=bytes) [j6; j7]). cbn [obind].
    rewrite (parse3 j1 j2 j3 65535), (parse2 j4 j5 255), (parse2 j6 j7 255) by lia. reflexivity.
  - unfold callsign. rewrite Htx, Hot. unfold hdr_text.
    match goal with |- (if (?l <? _)%nat then _ else _) = _ =>
      assert ((l <? OFFSET_FROMEND_CALLSIGN_END)%nat = false) as ->
    end.
    { rewrite !app_length. cbn [length]. unfold OFFSET_FROMEND_CALLSIGN_END. lia. }
    replace (PREFIX_MESSAGE_START ++ org ++ [DASH] ++ evt ++ concat groups ++ [PLUS] ++ tttt
               ++ [DASH] ++ jjj ++ [DASH] ++ call ++ [DASH])
      with ((PREFIX_MESSAGE_START ++ org ++ [DASH] ++ evt ++ concat groups ++ [PLUS] ++ tttt ++ [DASH] ++ jjj
               ++ [DASH]) ++ call ++ [DASH])
      by (repeat rewrite <- app_assoc; reflexivity).
    apply slice_mid.
    + rewrite !app_length, Ho1, He1, Hcl. unfold OFFSET_FROMPLUS_CALLSIGN. cbn [length PREFIX_MESSAGE_START]. unfold bytes in *. lia.
    + rewrite !app_length, Ho1, He1, Hcl, Ht1, Hj1. unfold OFFSET_FROMEND_CALLSIGN_END, OFFSET_FROMPLUS_CALLSIGN. cbn [length PREFIX_MESSAGE_START]. unfold bytes in *. lia.
Qed.

Lemma length4 {A} (l : list A) : length l = 4%nat -> exists a b c d, l = [a; b; c; d].
Proof. destruct l as [|a [|b [|c [|d [|]]]]]; try discriminate. intros _. eauto. Qed.
Lemma length7 {A} (l : list A) : length l = 7%nat -> exists a b c d e f g, l = [a; b; c; d; e; f; g].
Proof. destruct l as [|a [|b [|c [|d [|e [|f [|g [|]]]]]]]]; try discriminate. intros _. eexists _,_,_,_,_,_,_. reflexivity. Qed.

(** everything the constructor accepts has the grammar's shape, stores exactly the
    matched prefix, and every accessor returns the corresponding component *)
Theorem header_new_faithful s h :
  header_new s = Ok h ->
  exists org evt groups t1 t2 t3 t4 j1 j2 j3 j4 j5 j6 j7 call rest,
    Hdr s org evt groups [t1; t2; t3; t4] [j1; j2; j3; j4; j5; j6; j7] call rest
    /\ h_text h = hdr_text org evt groups [t1; t2; t3; t4] [j1; j2; j3; j4; j5; j6; j7] call
    /\ s = h_text h ++ rest
    /\ originator_str h = Done org
    /\ event_str h = Done evt
    /\ locations h = Done (map (@tl N) groups)
    /\ valid_duration_fields h = Done (dec [t1; t2], dec [t3; t4])
    /\ issue_daytime_fields h = Done (dec [j1; j2; j3], dec [j4; j5], dec [j6; j7])
    /\ callsign h = Done call.
Proof.
  intros E. destruct (header_new_ok_inv _ _ E) as (Ha & n & Hc & Ht & _ & _).
  destruct (check_header_sound _ _ _ Hc) as (org & evt & gs & t & j & c & r & HH & Hot & Hn & Hfn & _).
  destruct (length4 t) as (t1 & t2 & t3 & t4 & ->); [apply HH|].
  destruct (length7 j) as (j1 & j2 & j3 & j4 & j5 & j6 & j7 & ->); [apply HH|].
  exists org, evt, gs, t1, t2, t3, t4, j1, j2, j3, j4, j5, j6, j7, c, r.
  rewrite Hfn in Ht. split; [exact HH|]. split; [exact Ht|]. split.
  { destruct HH as [Hs _ _ _ _ _ _]. rewrite Hs, Ht. unfold hdr_text.
    repeat rewrite <- app_assoc. reflexivity. }
  apply accessors_faithful; [exact Ht|exact Hot|].
  rewrite Ht. eapply hdr_text_Hdr, HH.
Qed.

(** the counters do not affect text, offsets or accessors *)
Lemma header_new_with_error_info_inv s errs counts h :
  header_new_with_error_info s errs counts = Ok h ->
  exists h0, header_new s = Ok h0 /\ h_text h = h_text h0 /\ h_offset_time h = h_offset_time h0.
Proof.
  unfold header_new_with_error_info, header_new_with_errors.
  destruct (header_new s) as [h0|]; [|discriminate]. intros E. inversion E; subst.
  exists h0. repeat split.
Qed.
