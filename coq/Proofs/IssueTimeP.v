(** C15: the issue time is reconstructed exactly within +/-90 days. *)
From Coq Require Import ZArith Bool Lia ZifyBool.
From Sameold Require Import Model.IssueTime.
Open Scope Z_scope.
Ltac Zify.zify_post_hook ::= Z.div_mod_to_equations.

Definition valid_yo (y o : Z) : Prop :=
  MIN_YEAR <= y <= MAX_YEAR /\ 1 <= o <= year_len y.

Lemma year_len_bounds y : 365 <= year_len y <= 366.
Proof. unfold year_len. destruct (is_leap y); lia. Qed.

Lemma days_before_year_step y : days_before_year (y + 1) = days_before_year y + year_len y.
Proof.
  unfold days_before_year, days_before_year_abs, year_len, is_leap.
  replace (y + 1 - 1) with y by lia.
  destruct ((y mod 4 =? 0) && (negb (y mod 100 =? 0) || (y mod 400 =? 0))) eqn:E; lia.
Qed.

Lemma days_before_year_mono2 y k : 2 <= k -> days_before_year (y + k) >= days_before_year y + 365 * k - 1 + 0 * k.
Proof.
  intros Hk. unfold days_before_year, days_before_year_abs. lia.
Qed.

Lemma from_yo_valid y o : valid_yo y o -> from_yo_opt y o = Some (day_number y o).
Proof.
  intros [[H1 H2] [H3 H4]]. unfold from_yo_opt.
  assert ((MIN_YEAR <=? y) && (y <=? MAX_YEAR) && (1 <=? o) && (o <=? year_len y) = true) as -> by lia.
  reflexivity.
Qed.

(** the year inferred by the +/-180-day rule is the true year *)
Theorem issue_time_exact yi oi h m yr or_ :
  valid_yo yi oi -> valid_yo yr or_ ->
  0 <= h < 24 -> 0 <= m < 60 ->
  -90 <= day_number yr or_ - day_number yi oi <= 90 ->
  calculate_issue_time oi h m yr or_ = Some (day_number yi oi * 86400 + h * 3600 + m * 60).
Proof.
  intros Vi Vr Hh Hm Hd.
  pose proof (year_len_bounds yi) as Li. pose proof (year_len_bounds yr) as Lr.
  destruct Vi as [Yi Oi]. destruct Vr as [Yr Or].
  unfold day_number in Hd.
  (* the two years differ by at most one *)
  assert (yr = yi \/ yr = yi + 1 \/ yi = yr + 1) as D.
  { destruct (Z_lt_le_dec (yi + 1) yr) as [G|G].
    - exfalso. pose proof (days_before_year_mono2 yi (yr - yi) ltac:(lia)) as M.
      replace (yi + (yr - yi)) with yr in M by lia. lia.
    - destruct (Z_lt_le_dec (yr + 1) yi) as [G'|G']; [|lia].
      exfalso. pose proof (days_before_year_mono2 yr (yi - yr) ltac:(lia)) as M.
      replace (yr + (yi - yr)) with yi in M by lia. lia. }
  unfold calculate_issue_time, yo_hms_to_utc, saturating_add1, saturating_sub1.
  unfold MIN_YEAR, MAX_YEAR, I32_MAX, I32_MIN in *.
  destruct D as [-> | [-> | ->]].
  - assert ((180 <=? or_ - oi) = false) as -> by lia.
    assert ((or_ - oi <=? -180) = false) as -> by lia.
    rewrite from_yo_valid by (unfold valid_yo, MIN_YEAR, MAX_YEAR; lia).
    assert ((0 <=? h) && (h <? 24) && (0 <=? m) && (m <? 60) && (0 <=? 0) && (0 <? 60) = true) as -> by lia.
    f_equal. lia.
  - rewrite days_before_year_step in Hd.
    assert ((180 <=? or_ - oi) = false) as -> by lia.
    assert ((or_ - oi <=? -180) = true) as -> by lia.
    replace (Z.max (yi + 1 - 1) (-2147483648)) with yi by lia.
    rewrite from_yo_valid by (unfold valid_yo, MIN_YEAR, MAX_YEAR; lia).
    assert ((0 <=? h) && (h <? 24) && (0 <=? m) && (m <? 60) && (0 <=? 0) && (0 <? 60) = true) as -> by lia.
    f_equal. lia.
  - rewrite days_before_year_step in Hd.
    assert ((180 <=? or_ - oi) = true) as -> by lia.
    replace (Z.min (yr + 1) 2147483647) with (yr + 1) by lia.
    rewrite from_yo_valid by (unfold valid_yo, MIN_YEAR, MAX_YEAR; lia).
    assert ((0 <=? h) && (h <? 24) && (0 <=? m) && (m <? 60) && (0 <=? 0) && (0 <? 60) = true) as -> by lia.
    f_equal. lia.
Qed.

(** the year the rule infers *)
Definition inferred_year (doy rx_year rx_doy : Z) : Z :=
  if 180 <=? rx_doy - doy then saturating_add1 rx_year
  else if rx_doy - doy <=? -180 then saturating_sub1 rx_year else rx_year.

(** impossible dates give an error (never a wrong time; the model has no panic site here) *)
Theorem invalid_dates_error doy h m yr or_ :
  doy <= 0 \/ doy > year_len (inferred_year doy yr or_) \/ h < 0 \/ h >= 24 \/ m < 0 \/ m >= 60 ->
  calculate_issue_time doy h m yr or_ = None.
Proof.
  intros H. unfold calculate_issue_time, yo_hms_to_utc. fold (inferred_year doy yr or_).
  unfold from_yo_opt.
  destruct ((MIN_YEAR <=? inferred_year doy yr or_) && (inferred_year doy yr or_ <=? MAX_YEAR)
            && (1 <=? doy) && (doy <=? year_len (inferred_year doy yr or_))) eqn:E; [|reflexivity].
  assert ((0 <=? h) && (h <? 24) && (0 <=? m) && (m <? 60) && (0 <=? 0) && (0 <? 60) = false) as -> by lia.
  reflexivity.
Qed.

(** conversely an answer is only ever given for a real calendar date and time of day *)
Theorem issue_time_some_inv doy h m yr or_ t :
  calculate_issue_time doy h m yr or_ = Some t ->
  let y := inferred_year doy yr or_ in
  valid_yo y doy /\ 0 <= h < 24 /\ 0 <= m < 60 /\ t = day_number y doy * 86400 + h * 3600 + m * 60.
Proof.
  unfold calculate_issue_time, yo_hms_to_utc. fold (inferred_year doy yr or_).
  set (y := inferred_year doy yr or_). unfold from_yo_opt.
  destruct ((MIN_YEAR <=? y) && (y <=? MAX_YEAR) && (1 <=? doy) && (doy <=? year_len y)) eqn:E; [|discriminate].
  destruct ((0 <=? h) && (h <? 24) && (0 <=? m) && (m <? 60) && (0 <=? 0) && (0 <? 60)) eqn:E2; [|discriminate].
  intros T. inversion T; subst. cbv zeta. unfold valid_yo. repeat split; lia.
Qed.

(** expiry: exactly when now is later than issue + validity duration *)
Theorem expired_iff yi oi h m hrs mins yr or_ sod ns :
  valid_yo yi oi -> valid_yo yr or_ ->
  0 <= h < 24 -> 0 <= m < 60 ->
  -90 <= day_number yr or_ - day_number yi oi <= 90 ->
  0 <= ns ->
  let issue := day_number yi oi * 86400 + h * 3600 + m * 60 in
  let now_s := day_number yr or_ * 86400 + sod in
  is_expired_at oi h m hrs mins yr or_ sod ns = true
  <-> (issue + (hrs * 60 + mins) * 60 < now_s \/ (issue + (hrs * 60 + mins) * 60 = now_s /\ 0 < ns)).
Proof.
  intros Vi Vr Hh Hm Hd Hns issue now_s. unfold is_expired_at.
  rewrite (issue_time_exact yi oi h m yr or_ Vi Vr Hh Hm Hd). fold issue. fold now_s.
  unfold valid_duration_s. lia.
Qed.

Theorem expired_false_when_no_issue_time doy h m hrs mins yr or_ sod ns :
  calculate_issue_time doy h m yr or_ = None ->
  is_expired_at doy h m hrs mins yr or_ sod ns = false.
Proof. intros E. unfold is_expired_at. rewrite E. reflexivity. Qed.
