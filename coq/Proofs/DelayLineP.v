(** C07, bit level: the squelch is a 32-symbol delay line whose two halves are ALIGNED.
    The correlator word and the power-flag history both hold the last 32 symbols; the byte handed
    to the framer is the OLDEST eight symbols of the line, and loss of carrier is decided on the
    power flag recorded with the oldest symbol — the first symbol of that very byte.  So a byte
    whose first symbol was received with power is never discarded, and nothing is emitted from
    symbols received without power: bursts end exactly where the data ends. *)
From Sameold Require Import Base.Bytes Model.Squelch Proofs.RobustP Proofs.QuiesceP.
From Coq Require Import ZifyBool ZifyN ZifyNat.
Arguments N.add : simpl never.
Arguments N.leb : simpl never.
Arguments N.ltb : simpl never.
Local Open Scope N_scope.

(** the last 32 symbols, oldest first: (hard bit, power >= close) *)
Definition line := list (bool * bool).

Definition aligned (s : sq) (g : line) : Prop :=
  length g = 32%nat /\ sq_fill s = HISTORY_SYMBOLS /\ word32 (sq_corr s)
  /\ (forall i, (i < 32)%nat -> N.testbit (sq_corr s) (N.of_nat i) = fst (nth i g (false, false)))
  /\ sq_phist s = map snd g.

Definition shift_in (g : line) (x : bool * bool) : line := tl g ++ [x].

Lemma nth_shift_in g x i : length g = 32%nat -> (i < 32)%nat ->
  nth i (shift_in g x) (false, false) = if (i <? 31)%nat then nth (S i) g (false, false) else x.
Proof.
  intros Hl Hi. unfold shift_in. destruct g as [|a g]; [discriminate|]. cbn [tl length] in *.
  destruct (Nat.ltb_spec i 31) as [H|H].
  - rewrite app_nth1 by lia. reflexivity.
  - rewrite app_nth2 by lia. replace (i - length g)%nat with 0%nat by lia. reflexivity.
Qed.

Lemma push_bit_testbit c b i : word32 c -> (i < 32)%nat ->
  N.testbit (push_bit c b) (N.of_nat i) = if (i <? 31)%nat then N.testbit c (N.of_nat (S i)) else b.
Proof.
  intros Hw Hi. unfold push_bit. rewrite N.lor_spec, N.shiftr_spec by apply N.le_0_l.
  destruct (Nat.ltb_spec i 31) as [H|H].
  - rewrite N.shiftl_spec_low by lia. rewrite orb_false_r. f_equal. lia.
  - assert (i = 31%nat) as -> by lia. rewrite Hw by lia. rewrite N.shiftl_spec_high by lia.
    change (N.of_nat 31 - 31) with 0. destruct b; reflexivity.
Qed.

(** one symbol through the squelch keeps the two halves aligned, whatever it outputs *)
Lemma sq_input_aligned me s g bit po pc :
  aligned s g -> aligned (snd (sq_input me s bit po pc)) (shift_in g (bit, pc)).
Proof.
  intros (Hl & Hf & Hw & Hc & Hp).
  assert (sq_corr (snd (sq_input me s bit po pc)) = push_bit (sq_corr s) bit
          /\ sq_fill (snd (sq_input me s bit po pc)) = HISTORY_SYMBOLS
          /\ sq_phist (snd (sq_input me s bit po pc)) = push_wrapping (sq_phist s) pc) as (E1 & E2 & E3).
  { unfold sq_input. fold (push_bit (sq_corr s) bit). rewrite Hf.
    change (N.min (HISTORY_SYMBOLS + 1) HISTORY_SYMBOLS) with HISTORY_SYMBOLS.
    change (HISTORY_SYMBOLS <? HISTORY_SYMBOLS) with false. cbv iota.
    match goal with |- context [if ?c then _ else _] => destruct c end.
    - destruct (sq_clock s) as [[|p]|]; repeat split; reflexivity.
    - destruct (sq_clock s) as [[|p]|]; [| |repeat split; reflexivity];
        (destruct (push_wrapping (sq_phist s) pc) as [|front ph] eqn:Eph; [repeat split; try reflexivity; exact (eq_sym Eph)|];
         destruct (negb front); repeat split; try reflexivity; exact (eq_sym Eph)). }
  unfold aligned. rewrite E1, E2, E3.
  split; [unfold shift_in; destruct g; [discriminate|]; cbn [tl length] in *; rewrite app_length; cbn [length]; lia|].
  split; [reflexivity|]. split; [apply push_word32, Hw|]. split.
  - intros i Hi. rewrite push_bit_testbit by assumption. rewrite nth_shift_in by assumption.
    destruct (Nat.ltb_spec i 31); [apply Hc; lia|reflexivity].
  - rewrite Hp. unfold push_wrapping, shift_in. rewrite app_length, map_length, Hl. cbn [length].
    change (POWER_HISTORY <? 32 + 1)%nat with true. cbv iota.
    destruct g as [|a g]; [discriminate|]. cbn [map tl app]. rewrite map_app. reflexivity.
Qed.

(** the byte handed on: the oldest eight symbols of the line, least significant bit first *)
Lemma ready_byte_is_oldest_eight me s g bit po pc r hb s' :
  aligned s g -> sq_input me s bit po pc = (SqReady r hb, s') ->
  hb < 256 /\ forall i, (i < 8)%nat -> N.testbit hb (N.of_nat i) = fst (nth i (shift_in g (bit, pc)) (false, false)).
Proof.
  intros Ha E. pose proof (sq_input_aligned me s g bit po pc Ha) as (_ & _ & _ & Hc' & _). rewrite E in Hc'. cbn [snd] in Hc'.
  assert (hb = sq_corr s' mod 256) as ->.
  { revert E. unfold sq_input. destruct Ha as (_ & Hf & _). rewrite Hf.
    change (N.min (HISTORY_SYMBOLS + 1) HISTORY_SYMBOLS) with HISTORY_SYMBOLS.
    change (HISTORY_SYMBOLS <? HISTORY_SYMBOLS) with false. cbv iota.
    match goal with |- context [if ?c then _ else _] => destruct c end.
    - destruct (sq_clock s) as [[|p]|]; intros X; inversion X; subst; reflexivity.
    - destruct (sq_clock s) as [[|p]|]; [| |intros X; discriminate];
        (destruct (push_wrapping (sq_phist s) pc) as [|front ph]; [intros X; discriminate|];
         destruct (negb front); intros X; inversion X; subst; reflexivity). }
  split; [apply N.mod_lt; discriminate|].
  intros i Hi. change 256 with (2 ^ 8). rewrite N.mod_pow2_bits_low by lia. apply Hc'. lia.
Qed.

(** loss of carrier is decided on the power flag of the oldest symbol of the line — the first symbol of
    the byte that is due next: with the byte clock running and no (re)synchronisation on this symbol,
    the squelch drops the carrier exactly when that flag is false *)
Lemma drop_decided_on_oldest_symbol me s g bit po pc c :
  aligned s g -> sq_clock s = Some c ->
  negb (sq_lock s) && (num_bit_errors SYNC_WORD (push_bit (sq_corr s) bit) <=? me) && po = false ->
  (fst (sq_input me s bit po pc) = SqDropped <-> snd (nth 0 (shift_in g (bit, pc)) (false, false)) = false).
Proof.
  intros Ha Hc Hns. pose proof (sq_input_aligned me s g bit po pc Ha) as (Hl' & _ & _ & _ & Hp').
  assert (sq_phist (snd (sq_input me s bit po pc)) = push_wrapping (sq_phist s) pc) as E3.
  { unfold sq_input. destruct Ha as (_ & Hf & _). rewrite Hf.
    change (N.min (HISTORY_SYMBOLS + 1) HISTORY_SYMBOLS) with HISTORY_SYMBOLS.
    change (HISTORY_SYMBOLS <? HISTORY_SYMBOLS) with false. cbv iota.
    match goal with |- context [if ?c then _ else _] => destruct c end.
    - destruct (sq_clock s) as [[|p]|]; reflexivity.
    - destruct (sq_clock s) as [[|p]|]; [| |reflexivity];
        (destruct (push_wrapping (sq_phist s) pc) as [|front ph]; [reflexivity|]; destruct (negb front); reflexivity). }
  rewrite E3 in Hp'.
  unfold sq_input. destruct Ha as (_ & Hf & _). rewrite Hf.
  change (N.min (HISTORY_SYMBOLS + 1) HISTORY_SYMBOLS) with HISTORY_SYMBOLS.
  change (HISTORY_SYMBOLS <? HISTORY_SYMBOLS) with false. cbv iota.
  fold (push_bit (sq_corr s) bit). rewrite Hns, Hc. rewrite Hp'.
  destruct (shift_in g (bit, pc)) as [|[b0 p0] rest]; [discriminate|]. cbn [map snd nth].
  destruct p0; cbn [negb fst].
  - split; [|discriminate]. destruct c as [|p]; discriminate.
  - split; reflexivity.
Qed.

(** the alignment is established by the first 32 symbols and never lost: every state in which the
    history is full is aligned with the list of the last 32 symbols *)
Theorem full_history_is_aligned me : forall (ts : list (bool * bool * bool)) s g,
  aligned s g ->
  aligned (fold_left (fun s t => snd (sq_input me s (fst (fst t)) (snd (fst t)) (snd t))) ts s)
          (fold_left (fun g t => shift_in g (fst (fst t), snd t)) ts g).
Proof.
  induction ts as [|[[b po] pc] ts IH]; intros s g Ha; cbn [fold_left fst snd]; [exact Ha|].
  apply IH. apply sq_input_aligned, Ha.
Qed.

(** * Every reachable squelch state is aligned with the symbols it has seen *)
From Sameold Require Import Proofs.SilenceP.

Definition paligned (s : sq) (g : line) : Prop :=
  (length g <= 32)%nat /\ sq_fill s = N.of_nat (length g) /\ word32 (sq_corr s)
  /\ (forall i, (i < length g)%nat -> N.testbit (sq_corr s) (N.of_nat (32 - length g + i)) = fst (nth i g (false, false)))
  /\ sq_phist s = map snd g.

Lemma paligned_full s g : paligned s g -> length g = 32%nat -> aligned s g.
Proof.
  intros (Hl & Hf & Hw & Hc & Hp) E. unfold aligned. rewrite E in *.
  split; [reflexivity|]. split; [exact Hf|]. split; [exact Hw|]. split; [|exact Hp].
  intros i Hi. specialize (Hc i Hi). replace (32 - 32 + i)%nat with i in Hc by lia. exact Hc.
Qed.

Lemma aligned_paligned s g : aligned s g -> paligned s g.
Proof.
  intros (Hl & Hf & Hw & Hc & Hp). unfold paligned. rewrite Hl.
  split; [lia|]. split; [exact Hf|]. split; [exact Hw|]. split; [|exact Hp].
  intros i Hi. replace (32 - 32 + i)%nat with i by lia. apply Hc, Hi.
Qed.

Definition grow (g : line) (x : bool * bool) : line :=
  if (length g <? 32)%nat then g ++ [x] else shift_in g x.

Lemma sq_input_paligned me s g bit po pc :
  sq_inv s -> paligned s g -> paligned (snd (sq_input me s bit po pc)) (grow g (bit, pc)).
Proof.
  intros Hi Hpa. unfold grow. destruct (Nat.ltb_spec (length g) 32) as [Hk|Hk].
  - destruct Hpa as (Hl & Hf & Hw & Hc & Hp).
    destruct (sq_input_corr me s bit po pc) as (E1 & E2).
    destruct (sq_input me s bit po pc) as [o s'] eqn:E.
    destruct (sq_input_inv _ _ _ _ _ _ _ Hi E) as (_ & E3 & _). cbn [snd] in *.
    unfold paligned. rewrite app_length. cbn [length]. rewrite E1, E2, E3, Hf.
    split; [lia|]. split; [unfold HISTORY_SYMBOLS; lia|]. split; [apply push_word32, Hw|]. split.
    + intros i Hi'. rewrite push_bit_testbit by (assumption || lia).
      destruct (Nat.ltb_spec (32 - (length g + 1) + i) 31) as [H|H].
      * rewrite app_nth1 by lia. replace (S (32 - (length g + 1) + i)) with (32 - length g + i)%nat by lia. apply Hc. lia.
      * rewrite app_nth2 by lia. replace (i - length g)%nat with 0%nat by lia. reflexivity.
    + rewrite Hp. unfold push_wrapping. rewrite app_length, map_length. cbn [length].
      destruct (Nat.ltb_spec POWER_HISTORY (length g + 1)) as [H|H]; [unfold POWER_HISTORY in H; lia|].
      rewrite map_app. reflexivity.
  - assert (length g = 32%nat) as E32 by (destruct Hpa as (Hl & _); lia).
    apply aligned_paligned, sq_input_aligned, paligned_full; assumption.
Qed.

Definition feed (me : N) (s : sq) (ts : list (bool * bool * bool)) : sq :=
  fold_left (fun s t => snd (sq_input me s (fst (fst t)) (snd (fst t)) (snd t))) ts s.
Definition line_of (g : line) (ts : list (bool * bool * bool)) : line :=
  fold_left (fun g t => grow g (fst (fst t), snd t)) ts g.

(** from a new squelch, after ANY symbols: the correlator and the power history hold exactly the last
    (at most 32) symbols, in step; once 32 have been seen the state is [aligned] for good *)
Theorem squelch_line_invariant me : forall ts s g,
  sq_inv s -> paligned s g -> paligned (feed me s ts) (line_of g ts) /\ sq_inv (feed me s ts).
Proof.
  induction ts as [|[[b po] pc] ts IH]; intros s g Hi Hp; cbn [feed line_of fold_left fst snd]; [split; assumption|].
  apply IH.
  - destruct (sq_input me s b po pc) as [o s'] eqn:E. cbn [snd].
    exact (proj1 (sq_input_inv _ _ _ _ _ _ _ Hi E)).
  - apply sq_input_paligned; assumption.
Qed.

Lemma paligned_init : paligned sq_init [].
Proof.
  unfold paligned. cbn [length sq_init sq_fill sq_corr sq_phist map].
  split; [lia|]. split; [reflexivity|]. split; [apply word32_0|]. split; [intros i Hi; lia|reflexivity].
Qed.

Corollary new_squelch_full_history_aligned me ts :
  sq_fill (feed me sq_init ts) = HISTORY_SYMBOLS -> aligned (feed me sq_init ts) (line_of [] ts).
Proof.
  intros Hf. destruct (squelch_line_invariant me ts sq_init [] sq_init_inv paligned_init) as [Hp _].
  apply paligned_full; [exact Hp|]. destruct Hp as (Hl & Hf' & _). rewrite Hf in Hf'. unfold HISTORY_SYMBOLS in Hf'. lia.
Qed.

(** * The byte clock: while the sync is locked the squelch hands on one byte every eight symbols, and
    successive bytes tile the received bit stream — none skipped, none overlapping *)
Definition front_power (g : line) (x : bool * bool) : bool := snd (nth 0 (shift_in g x) (false, false)).

(** one symbol with the sync locked, the byte clock running and power recorded with the oldest symbol *)
Lemma locked_step me s g bit po pc c :
  aligned s g -> sq_lock s = true -> sq_clock s = Some c -> c < 8 ->
  front_power g (bit, pc) = true ->
  exists hb s',
    sq_input me s bit po pc = ((if c =? 0 then SqReady false hb else SqReading), s')
    /\ sq_clock s' = Some ((c + 1) mod 8) /\ sq_lock s' = true /\ aligned s' (shift_in g (bit, pc))
    /\ (c = 0 -> hb < 256 /\ forall i, (i < 8)%nat -> N.testbit hb (N.of_nat i) = fst (nth i (shift_in g (bit, pc)) (false, false))).
Proof.
  intros Ha Hl Hc Hc8 Hfp.
  pose proof (sq_input_aligned me s g bit po pc Ha) as Ha'.
  pose proof (ready_byte_is_oldest_eight me s g bit po pc) as Hrb.
  destruct Ha as (Hlen & Hf & Hw & Hcorr & Hp).
  assert (push_wrapping (sq_phist s) pc = map snd (shift_in g (bit, pc))) as Eph.
  { rewrite Hp. unfold push_wrapping, shift_in. rewrite app_length, map_length, Hlen. cbn [length].
    change (POWER_HISTORY <? 32 + 1)%nat with true. cbv iota.
    destruct g as [|a g]; [discriminate|]. cbn [map tl app]. rewrite map_app. reflexivity. }
  revert Ha' Hrb. unfold sq_input. rewrite Hf.
  change (N.min (HISTORY_SYMBOLS + 1) HISTORY_SYMBOLS) with HISTORY_SYMBOLS.
  change (HISTORY_SYMBOLS <? HISTORY_SYMBOLS) with false. cbv iota.
  rewrite Hl, Hc. cbn [negb andb]. rewrite Eph.
  unfold front_power in Hfp.
  destruct (shift_in g (bit, pc)) as [|[b0 p0] rest] eqn:Eg; [cbn in Hfp; discriminate|].
  cbn [map snd nth] in *. subst p0. cbn [negb].
  destruct c as [|p].
  - cbn [N.eqb]. intros Ha' Hrb. eexists _, _. split; [reflexivity|].
    cbn [sq_clock sq_lock snd] in *. split; [reflexivity|]. split; [reflexivity|]. split; [exact Ha'|].
    intros _. eapply Hrb; [repeat split; assumption|reflexivity].
  - assert ((N.pos p =? 0) = false) as -> by reflexivity. intros Ha' _. exists 0. eexists. split; [reflexivity|].
    cbn [sq_clock sq_lock snd] in *. split; [reflexivity|]. split; [reflexivity|]. split; [exact Ha'|]. intros X; discriminate.
Qed.

(** the lines after 0..8 further symbols *)
Fixpoint lines_after (g : line) (xs : list (bool * bool)) : list line :=
  match xs with [] => [] | x :: r => shift_in g x :: lines_after (shift_in g x) r end.

(** eight symbols from a byte boundary: one byte, then seven symbols of reading, and a byte boundary again *)
Theorem one_byte_every_eight_symbols me : forall (xs : list (bool * bool * bool)) s g c,
  aligned s g -> sq_lock s = true -> sq_clock s = Some c -> c < 8 ->
  Forall (fun gl => snd (nth 0 gl (false, false)) = true) (lines_after g (map (fun t => (fst (fst t), snd t)) xs)) ->
  sq_lock (feed me s xs) = true /\ sq_clock (feed me s xs) = Some ((c + N.of_nat (length xs)) mod 8)
  /\ aligned (feed me s xs) (fold_left (fun g t => shift_in g (fst (fst t), snd t)) xs g).
Proof.
  induction xs as [|[[b po] pc] xs IH]; intros s g c Ha Hl Hc Hc8 Hf.
  - cbn [feed fold_left length]. split; [exact Hl|]. split; [|exact Ha]. rewrite Hc. f_equal. rewrite N.add_0_r. symmetry. apply N.mod_small. exact Hc8.
  - cbn [map lines_after fst snd] in Hf. inversion Hf as [|? ? Hf0 Hf']; subst.
    destruct (locked_step me s g b po pc c Ha Hl Hc Hc8 Hf0) as (hb & s1 & E & Hc1 & Hl1 & Ha1 & _).
    change (feed me s ((b, po, pc) :: xs)) with (feed me (snd (sq_input me s b po pc)) xs).
    rewrite E. cbn [snd fold_left fst length].
    destruct (IH s1 (shift_in g (b, pc)) ((c + 1) mod 8) Ha1 Hl1 Hc1 ltac:(apply N.mod_lt; discriminate) Hf') as (I1 & I2 & I3).
    split; [exact I1|]. split; [|exact I3]. rewrite I2. f_equal.
    rewrite N.add_mod_idemp_l by discriminate. f_equal. lia.
Qed.
