(** C17: no builder call, no construction step and no per-sample clamp can panic inside the
    documented domain. *)
From Sameold Require Import Base.Bytes Model.Config Model.Squelch.

Section ConfigP.
  Variable F : Type.
  Variable le : F -> F -> bool.
  Variables f0 f1 fhalf fmaxv : F.
  Hypothesis le_refl : forall x, le x x = true.
  Hypothesis le_trans : forall x y z, le x y = true -> le y z = true -> le x z = true.
  Hypothesis le_total : forall x y, le x y = true \/ le y x = true.
  Hypothesis c01 : le f0 f1 = true.
  Hypothesis c0h : le f0 fhalf = true.
  Hypothesis c0m : le f0 fmaxv = true.
  Variables (d_dc d_agc d_gmax d_tbu d_tbl d_dev d_sqo d_sqc d_sqbw d_relax d_regul : F).
  Hypothesis d_tbu_nonneg : le f0 d_tbu = true.

  Notation fclamp := (fclamp F le).
  Notation builder := (builder F).

  Lemma fclamp_done site x lo hi : le lo hi = true ->
    exists v, fclamp site x lo hi = Done v /\ le lo v = true /\ le v hi = true.
  Proof.
    intros H. unfold Config.fclamp. rewrite H. unfold lt.
    destruct (le lo x) eqn:E1; cbn [negb].
    - destruct (le x hi) eqn:E2; cbn [negb]; eexists; (split; [reflexivity|]); split; auto.
    - eexists. split; [reflexivity|]. split; [apply le_refl|exact H].
  Qed.

  (** what every sequence of setter calls maintains *)
  Definition eq_ok (e : eqcfg F) : Prop := (1 <= e_nfb F e)%nat /\ (e_nfb F e <= e_nff F e)%nat.
  Definition Inv (b : builder) : Prop :=
    le f0 (b_tbu F b) = true /\ match b_eq F b with Some e => eq_ok e | None => True end.

  Lemma eq_default_ok : eq_ok (eq_default F d_relax d_regul).
  Proof. unfold eq_ok, eq_default. cbn. lia. Qed.

  Lemma new_inv rate : Inv (builder_new F f0 d_dc d_agc d_gmax d_tbu d_tbl d_dev d_sqo d_sqc d_sqbw d_relax d_regul rate).
  Proof. split; [exact d_tbu_nonneg|apply eq_default_ok]. Qed.

  Lemma eq_set_order_ok e nff nfb : exists e', eq_set_order F e nff nfb = Done e' /\ eq_ok e'.
  Proof.
    unfold eq_set_order, nclamp.
    assert ((1 <=? Nat.max nff 1)%nat = true) as -> by (apply Nat.leb_le; lia).
    cbn [obind]. eexists. split; [reflexivity|]. unfold eq_ok. cbn [e_nfb e_nff].
    destruct (Nat.ltb_spec nfb 1); [lia|]. destruct (Nat.ltb_spec (Nat.max nff 1) nfb); lia.
  Qed.

  Lemma eq_set_relax_ok e x : eq_ok e -> exists e', eq_set_relax F le f0 f1 e x = Done e' /\ eq_ok e'.
  Proof.
    intros H. unfold eq_set_relax. destruct (fclamp_done 36 x f0 f1 c01) as (v & -> & _).
    cbn [obind]. eexists. split; [reflexivity|exact H].
  Qed.

  Lemma eq_set_regul_ok e x : eq_ok e -> exists e', eq_set_regul F le f0 fmaxv e x = Done e' /\ eq_ok e'.
  Proof.
    intros H. unfold eq_set_regul. destruct (fclamp_done 37 x f0 fmaxv c0m) as (v & -> & _).
    cbn [obind]. eexists. split; [reflexivity|exact H].
  Qed.

  Notation apply_call := (apply_call F le f0 f1 fhalf fmaxv d_relax d_regul).
  Notation apply_calls := (apply_calls F le f0 f1 fhalf fmaxv d_relax d_regul).

  (** no setter panics, whatever (non-NaN) argument it is given, and the invariant is kept *)
  Theorem apply_call_ok b c : Inv b -> exists b', apply_call b c = Done b' /\ Inv b' /\ b_rate F b' = b_rate F b.
  Proof.
    intros [Hu He]. destruct c; cbn [Config.apply_call].
    - eexists. split; [reflexivity|]. split; [split; assumption|reflexivity].
    - unfold set_agc_bw. destruct (fclamp_done 30 x f0 f1 c01) as (v & -> & _). cbn [obind].
      eexists. split; [reflexivity|]. split; [split; assumption|reflexivity].
    - eexists. split; [reflexivity|]. split; [split; assumption|reflexivity].
    - unfold set_timing_bw. destruct (fclamp_done 31 u f0 f1 c01) as (u' & -> & Hu1 & _). cbn [obind].
      destruct (fclamp_done 32 l f0 u' Hu1) as (l' & -> & _). cbn [obind].
      eexists. split; [reflexivity|]. split; [split; [exact Hu1|exact He]|reflexivity].
    - unfold set_maxdev. destruct (fclamp_done 33 x f0 fhalf c0h) as (v & -> & _). cbn [obind].
      eexists. split; [reflexivity|]. split; [split; assumption|reflexivity].
    - unfold set_squelch_power. destruct (fclamp_done 34 o f0 f1 c01) as (v & -> & _). cbn [obind].
      eexists. split; [reflexivity|]. split; [split; assumption|reflexivity].
    - eexists. split; [reflexivity|]. split; [split; assumption|reflexivity].
    - eexists. split; [reflexivity|]. split; [split; assumption|reflexivity].
    - eexists. split; [reflexivity|]. split; [split; assumption|reflexivity].
    - eexists. split; [reflexivity|]. split; [split; assumption|reflexivity].
    - eexists. split; [reflexivity|]. split; [split; [exact Hu|exact I]|reflexivity].
    - assert (exists e1, opt_apply order (fun e nn => eq_set_order F e (fst nn) (snd nn)) (eq_default F d_relax d_regul) = Done e1
                         /\ eq_ok e1) as (e1 & -> & H1).
      { destruct order as [[a b0]|]; cbn [opt_apply]; [apply eq_set_order_ok|eexists; split; [reflexivity|apply eq_default_ok]]. }
      cbn [obind].
      assert (exists e2, opt_apply relax (eq_set_relax F le f0 f1) e1 = Done e2 /\ eq_ok e2) as (e2 & -> & H2).
      { destruct relax; cbn [opt_apply]; [apply eq_set_relax_ok, H1|eexists; split; [reflexivity|exact H1]]. }
      cbn [obind].
      assert (exists e3, opt_apply regul (eq_set_regul F le f0 fmaxv) e2 = Done e3 /\ eq_ok e3) as (e3 & -> & H3).
      { destruct regul; cbn [opt_apply]; [apply eq_set_regul_ok, H2|eexists; split; [reflexivity|exact H2]]. }
      cbn [obind]. eexists. split; [reflexivity|]. split; [split; [exact Hu|exact H3]|reflexivity].
  Qed.

  Theorem apply_calls_ok : forall cs b, Inv b -> exists b', apply_calls b cs = Done b' /\ Inv b' /\ b_rate F b' = b_rate F b.
  Proof.
    induction cs as [|c cs IH]; intros b Hi; cbn [Config.apply_calls].
    - eexists. split; [reflexivity|]. split; [exact Hi|reflexivity].
    - destruct (apply_call_ok b c Hi) as (b1 & -> & Hi1 & Hr1). cbn [obind].
      destruct (IH b1 Hi1) as (b2 & E & Hi2 & Hr2). exists b2. split; [exact E|]. split; [exact Hi2|congruence].
  Qed.

  (** construction: with at least one matched-filter tap nothing panics; the DC blocker gets a
      window of at least one sample WHATEVER the float product came to (0.0 "disabled", tiny
      lengths at low rates, NaN -> 0 under [as usize]) *)
  Theorem build_ok b ntaps dcraw bw :
    Inv b -> (1 <= ntaps)%nat ->
    exists l, build F le f0 f1 fhalf d_relax d_regul b ntaps dcraw bw = Done l
              /\ (1 <= l_dc l)%nat /\ l_demod l = ntaps /\ (1 <= l_fb l <= l_ff l)%nat.
  Proof.
    intros [Hu He] Hn. unfold build.
    assert (window_new 40 (Nat.max 1 dcraw) = Done (Nat.max 1 dcraw)) as ->.
    { unfold window_new. destruct (Nat.ltb_spec 0 (Nat.max 1 dcraw)); [reflexivity|lia]. }
    cbn [obind]. destruct (fclamp_done 41 bw f0 f1 c01) as (v1 & -> & _). cbn [obind].
    assert (window_new 42 ntaps = Done ntaps) as ->.
    { unfold window_new. destruct (Nat.ltb_spec 0 ntaps); [reflexivity|lia]. }
    cbn [obind]. destruct (fclamp_done 43 (b_maxdev F b) f0 fhalf c0h) as (v2 & -> & _). cbn [obind].
    destruct (fclamp_done 44 (b_sqbw F b) f0 f1 c01) as (v3 & -> & _). cbn [obind].
    assert (exists e, match b_eq F b with Some e => Done e | None => disabled_equalizer F le f0 f1 d_relax d_regul end = Done e
                      /\ eq_ok e) as (e & -> & [E1 E2]).
    { destruct (b_eq F b) as [e|]; [exists e; split; [reflexivity|exact He]|].
      unfold disabled_equalizer. destruct (eq_set_order_ok (eq_default F d_relax d_regul) 1 1) as (e1 & -> & H1).
      cbn [obind]. apply eq_set_relax_ok, H1. }
    cbn [obind]. unfold from_identity, window_new.
    destruct (Nat.ltb_spec 0 (e_nff F e)); [|lia]. destruct (Nat.ltb_spec 0 (e_nfb F e)); [|lia].
    cbn [obind]. eexists. split; [reflexivity|]. cbn [l_dc l_demod l_ff l_fb]. repeat split; lia.
  Qed.

  (** per-sample clamps: the AGC's needs the documented min <= max; the timing loop's needs
      period_min <= period_max, which holds because they are avg -/+ a non-negative deviation *)
  Theorem agc_clamp_ok b gain : le (b_gmin F b) (b_gmax F b) = true ->
    exists v, agc_input_clamp F le b gain = Done v.
  Proof. intros H. destruct (fclamp_done 50 gain _ _ H) as (v & E & _). exists v. exact E. Qed.

  Theorem timing_clamp_ok avg pmin pmax : le pmin pmax = true -> exists v, timing_clamp F le avg pmin pmax = Done v.
  Proof. intros H. destruct (fclamp_done 51 avg _ _ H) as (v & E & _). exists v. exact E. Qed.
End ConfigP.

(** the squelch's [power_history.front().expect(..)] can never fail: a value was just pushed *)
Lemma push_wrapping_nonempty l b : push_wrapping l b <> [].
Proof.
  unfold push_wrapping. destruct (POWER_HISTORY <? length (l ++ [b]))%nat eqn:E.
  - destruct l as [|a l]; [cbv in E; discriminate|]. cbn [app tl]. destruct l; discriminate.
  - destruct l; discriminate.
Qed.

Theorem squelch_never_panics me s bit po pc : fst (sq_input me s bit po pc) <> SqPanic.
Proof.
  unfold sq_input.
  pose proof (push_wrapping_nonempty (sq_phist s) pc) as Hne.
  destruct (push_wrapping (sq_phist s) pc) as [|front ph]; [contradiction|].
  destruct (N.min (sq_fill s + 1) HISTORY_SYMBOLS <? HISTORY_SYMBOLS); [discriminate|].
  destruct (negb (sq_lock s) && (num_bit_errors SYNC_WORD _ <=? me) && po).
  - destruct (sq_clock s) as [[|p]|]; cbn [fst]; discriminate.
  - destruct (sq_clock s) as [[|p]|]; cbn [fst].
    + destruct (negb front); cbn [fst]; discriminate.
    + destruct (negb front); cbn [fst]; discriminate.
    + discriminate.
Qed.
