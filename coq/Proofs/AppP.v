(** samedec's control flow (C11, C12, C19) over any receiver that behaves like an iterator. *)
From Sameold Require Import Base.Bytes Model.Header Model.App.

Section AppP.
  Variables (RX sample : Type).
  Variable next_msg : RX -> list sample -> option message * RX * list sample.
  Variable flush : RX -> option message * RX.

  (** what an iterator over a borrowed source guarantees *)
  Hypothesis next_suffix : forall rx inp m rx' rest,
    next_msg rx inp = (m, rx', rest) -> exists c, inp = c ++ rest.
  (** [next()] returns None only when the source is exhausted, and then asking again changes nothing *)
  Hypothesis next_none : forall rx inp rx' rest,
    next_msg rx inp = (None, rx', rest) -> rest = [] /\ next_msg rx' [] = (None, rx', []).

  Notation app := (app RX sample next_msg flush).
  Notation out := (out sample).

  (** * The specification: decode and print, nothing else *)
  Fixpoint spec (fuel : nat) (rx : RX) (input : list sample) (ph : phase) (acc : list message) : option (list message) :=
    match fuel with
    | O => None
    | S f =>
      match ph with
      | Waiting =>
        match next_msg rx input with
        | (Some m, rx', rest) => spec f rx' rest (Alerting (Some m)) acc
        | (None, rx', rest) =>
          match flush rx' with
          | (Some m, rx'') => spec f rx'' rest (Alerting (Some m)) acc
          | (None, _) => Some acc
          end
        end
      | Alerting None => spec f rx input Waiting acc
      | Alerting (Some m) => spec f rx input Waiting (acc ++ [m])
      end
    end.

  (** C11 / C19: whatever the child configuration and whatever the spawn oracle answers (every
      spawn failing, some failing, none), samedec's standard output is the specification's *)
  Theorem stdout_is_spec : forall fuel hc ok k pos rx inp ph (o o1 : out),
    app fuel false hc ok k pos rx inp ph o = Some o1 ->
    exists n, spec n rx inp ph (o_stdout _ o) = Some (o_stdout _ o1).
  Proof.
    induction fuel as [|f IH]; intros hc ok k pos rx inp ph o o1 E; [discriminate|].
    cbn [App.app] in E. destruct ph as [|[m|]].
    - destruct (next_msg rx inp) as [[[m|] rx'] rest] eqn:En.
      + destruct (IH _ _ _ _ _ _ _ _ _ E) as (n & Hn). exists (S n). cbn [spec]. rewrite En. exact Hn.
      + destruct (flush rx') as [[m|] rx''] eqn:Ef.
        * destruct (IH _ _ _ _ _ _ _ _ _ E) as (n & Hn). exists (S n). cbn [spec]. rewrite En, Ef. exact Hn.
        * inversion E; subst. exists 1%nat. cbn [spec]. rewrite En, Ef. reflexivity.
    - destruct m as [hdr|].
      + unfold emit in E. cbn [negb] in E.
        destruct hc; cbn [negb] in E.
        * destruct (ok k).
          -- destruct (next_msg rx inp) as [[m' rx'] rest] eqn:En.
             destruct (IH _ _ _ _ _ _ _ _ _ E) as (n & Hn). cbn [o_stdout record_spawn] in Hn.
             destruct m' as [m'|].
             ++ (* the next message arrived while the child ran *)
                exists (S (S n)). cbn [spec]. rewrite En. exact Hn.
             ++ (* end of input while the child ran *)
                destruct (next_none _ _ _ _ En) as [-> Hagain].
                destruct n as [|[|n2]]; cbn [spec] in Hn; try discriminate.
                rewrite Hagain in Hn.
                exists (S (S n2)). cbn [spec]. rewrite En. exact Hn.
          -- destruct (IH _ _ _ _ _ _ _ _ _ E) as (n & Hn). cbn [o_stdout record_spawn] in Hn.
             exists (S n). cbn [spec]. exact Hn.
        * destruct (IH _ _ _ _ _ _ _ _ _ E) as (n & Hn). exists (S n). cbn [spec]. exact Hn.
      + unfold emit in E. destruct (IH _ _ _ _ _ _ _ _ _ E) as (n & Hn). exists (S n). cbn [spec]. exact Hn.
    - destruct (IH _ _ _ _ _ _ _ _ _ E) as (n & Hn). exists (S n). cbn [spec]. exact Hn.
  Qed.

  (** the specification is deterministic in its fuel: more calls never change a finished run *)
  Lemma spec_mono : forall n rx inp ph acc r, spec n rx inp ph acc = Some r -> spec (S n) rx inp ph acc = Some r.
  Proof.
    induction n as [|n IH]; intros rx inp ph acc r E; [discriminate|].
    cbn [spec] in E. change (spec (S (S n)) rx inp ph acc) with
      (match ph with
       | Waiting => match next_msg rx inp with
                    | (Some m, rx', rest) => spec (S n) rx' rest (Alerting (Some m)) acc
                    | (None, rx', rest) => match flush rx' with
                                           | (Some m, rx'') => spec (S n) rx'' rest (Alerting (Some m)) acc
                                           | (None, _) => Some acc end end
       | Alerting None => spec (S n) rx inp Waiting acc
       | Alerting (Some m) => spec (S n) rx inp Waiting (acc ++ [m])
       end).
    destruct ph as [|[m|]].
    - destruct (next_msg rx inp) as [[[m|] rx'] rest]; [apply IH, E|].
      destruct (flush rx') as [[m|] rx'']; [apply IH, E|exact E].
    - apply IH, E.
    - apply IH, E.
  Qed.

  (** hence two finished runs — with any two child configurations and oracles — print the same *)
  Corollary stdout_independent_of_child : forall f1 f2 hc1 hc2 ok1 ok2 rx inp (o1 o2 : out),
    run RX sample next_msg flush f1 false hc1 ok1 rx inp = Some o1 ->
    run RX sample next_msg flush f2 false hc2 ok2 rx inp = Some o2 ->
    o_stdout _ o1 = o_stdout _ o2.
  Proof.
    intros f1 f2 hc1 hc2 ok1 ok2 rx inp o1 o2 E1 E2. unfold run in *.
    destruct (stdout_is_spec _ _ _ _ _ _ _ _ _ _ E1) as (n1 & H1).
    destruct (stdout_is_spec _ _ _ _ _ _ _ _ _ _ E2) as (n2 & H2).
    cbn [o_stdout] in *.
    assert (forall a b r, spec a rx inp Waiting [] = Some r -> spec (a + b) rx inp Waiting [] = Some r) as Hadd.
    { intros a b r Ha. induction b as [|b IHb]; [rewrite Nat.add_0_r; exact Ha|].
      rewrite Nat.add_succ_r. apply spec_mono, IHb. }
    pose proof (Hadd n1 n2 _ H1) as A. pose proof (Hadd n2 n1 _ H2) as B.
    rewrite Nat.add_comm in B. rewrite A in B. inversion B. reflexivity.
  Qed.

  (** --quiet prints nothing *)
  Theorem quiet_prints_nothing : forall fuel hc ok k pos rx inp ph (o o1 : out),
    app fuel true hc ok k pos rx inp ph o = Some o1 -> o_stdout _ o1 = o_stdout _ o.
  Proof.
    induction fuel as [|f IH]; intros hc ok k pos rx inp ph o o1 E; [discriminate|].
    cbn [App.app] in E. destruct ph as [|[m|]].
    - destruct (next_msg rx inp) as [[[m|] rx'] rest]; [apply (IH _ _ _ _ _ _ _ _ _ E)|].
      destruct (flush rx') as [[m|] rx'']; [apply (IH _ _ _ _ _ _ _ _ _ E)|inversion E; reflexivity].
    - unfold emit in E. destruct m as [hdr|]; [|apply (IH _ _ _ _ _ _ _ _ _ E)].
      destruct hc; cbn [negb] in E; [|apply (IH _ _ _ _ _ _ _ _ _ E)].
      destruct (ok k).
      + destruct (next_msg rx inp) as [[m' rx'] rest]. rewrite (IH _ _ _ _ _ _ _ _ _ E). reflexivity.
      + rewrite (IH _ _ _ _ _ _ _ _ _ E). reflexivity.
    - apply (IH _ _ _ _ _ _ _ _ _ E).
  Qed.

  (** * C12: one spawn attempt per printed StartOfMessage, in order; the audio each child gets *)
  Fixpoint soms_of (l : list message) : list header :=
    match l with [] => [] | SOM h :: r => h :: soms_of r | EOM :: r => soms_of r end.

  Lemma soms_of_app a b : soms_of (a ++ b) = soms_of a ++ soms_of b.
  Proof. induction a as [|[h|] a IH]; simpl; rewrite ?IH; reflexivity. Qed.

  Theorem one_spawn_per_som : forall fuel ok k pos rx inp ph (o o1 : out),
    app fuel false true ok k pos rx inp ph o = Some o1 ->
    map (sp_header sample) (o_spawns _ o) = soms_of (o_stdout _ o) ->
    map (sp_header sample) (o_spawns _ o1) = soms_of (o_stdout _ o1).
  Proof.
    induction fuel as [|f IH]; intros ok k pos rx inp ph o o1 E Hi; [discriminate|].
    cbn [App.app] in E. destruct ph as [|[m|]].
    - destruct (next_msg rx inp) as [[[m|] rx'] rest]; [apply (IH _ _ _ _ _ _ _ _ E Hi)|].
      destruct (flush rx') as [[m|] rx'']; [apply (IH _ _ _ _ _ _ _ _ E Hi)|inversion E; subst; exact Hi].
    - unfold emit in E. destruct m as [hdr|]; cbn [negb] in E.
      + destruct (ok k).
        * destruct (next_msg rx inp) as [[m' rx'] rest]. apply (IH _ _ _ _ _ _ _ _ E).
          cbn [record_spawn o_spawns o_stdout]. rewrite map_app, soms_of_app, Hi. reflexivity.
        * apply (IH _ _ _ _ _ _ _ _ E). cbn [record_spawn o_spawns o_stdout]. rewrite map_app, soms_of_app, Hi. reflexivity.
      + apply (IH _ _ _ _ _ _ _ _ E). cbn [o_spawns o_stdout]. rewrite soms_of_app, Hi. cbn [soms_of]. rewrite app_nil_r. reflexivity.
    - apply (IH _ _ _ _ _ _ _ _ E Hi).
  Qed.

  Lemma skipn_add {A} a b : forall l : list A, skipn (a + b) l = skipn b (skipn a l).
  Proof. induction a as [|a IH]; intros l; [reflexivity|]. destruct l; [destruct b; reflexivity|]. cbn [Nat.add skipn]. apply IH. Qed.

  Lemma consumed_spec c rest : consumed sample (c ++ rest) rest = c.
  Proof.
    unfold consumed. rewrite app_length, Nat.add_sub. rewrite firstn_app, Nat.sub_diag, firstn_all. cbn [firstn]. apply app_nil_r.
  Qed.

  (** every child receives a CONTIGUOUS run of the original input, starting exactly at the number
      of samples consumed when its StartOfMessage was returned and ending with the sample that
      completed the next message (or at the end of input) *)
  Definition child_ok (inp0 : list sample) (r : spawn_rec sample) : Prop :=
    match sp_child _ r with
    | Some (p, fed) => firstn (length fed) (skipn p inp0) = fed
    | None => True
    end.

  Theorem child_audio_contiguous : forall fuel q hc ok k pos rx inp ph (o o1 : out) inp0,
    app fuel q hc ok k pos rx inp ph o = Some o1 ->
    inp = skipn pos inp0 -> (pos <= length inp0)%nat ->
    Forall (child_ok inp0) (o_spawns _ o) ->
    Forall (child_ok inp0) (o_spawns _ o1).
  Proof.
    induction fuel as [|f IH]; intros q hc ok k pos rx inp ph o o1 inp0 E Hs Hp Hc; [discriminate|].
    assert (forall rx0 m rx' rest, next_msg rx0 inp = (m, rx', rest) ->
              rest = skipn (pos + length (consumed sample inp rest)) inp0
              /\ (pos + length (consumed sample inp rest) <= length inp0)%nat
              /\ firstn (length (consumed sample inp rest)) (skipn pos inp0) = consumed sample inp rest) as Hstep.
    { intros rx0 m rx' rest En. destruct (next_suffix _ _ _ _ _ En) as (c & Hc0).
      rewrite Hc0, consumed_spec. rewrite Hs in Hc0.
      assert (skipn (pos + length c) inp0 = rest) as Hr.
      { rewrite skipn_add, Hc0. rewrite skipn_app, Nat.sub_diag, skipn_all. reflexivity. }
      split; [symmetry; exact Hr|]. split.
      - assert (length (skipn pos inp0) = (length c + length rest)%nat) as Hl by (rewrite Hc0, app_length; reflexivity).
        rewrite skipn_length in Hl. lia.
      - rewrite Hc0, firstn_app, Nat.sub_diag, firstn_all. cbn [firstn]. apply app_nil_r. }
    cbn [App.app] in E. destruct ph as [|[m|]].
    - destruct (next_msg rx inp) as [[[m|] rx'] rest] eqn:En.
      + destruct (Hstep _ _ _ _ En) as (H1 & H2 & _). eapply IH; [exact E|exact H1|exact H2|exact Hc].
      + destruct (flush rx') as [[m|] rx''].
        * destruct (Hstep _ _ _ _ En) as (H1 & H2 & _). eapply IH; [exact E|exact H1|exact H2|exact Hc].
        * inversion E; subst. exact Hc.
    - assert (Forall (child_ok inp0) (o_spawns _ (emit sample q m o))) as Hc1.
      { unfold emit. destruct q; exact Hc. }
      destruct m as [hdr|]; [|eapply IH; [exact E|exact Hs|exact Hp|exact Hc1]].
      destruct (negb hc); [eapply IH; [exact E|exact Hs|exact Hp|exact Hc1]|].
      destruct (ok k).
      + destruct (next_msg rx inp) as [[m' rx'] rest] eqn:En.
        destruct (Hstep _ _ _ _ En) as (H1 & H2 & H3).
        eapply IH; [exact E|exact H1|exact H2|].
        cbn [record_spawn o_spawns]. apply Forall_app. split; [exact Hc1|].
        constructor; [|constructor]. unfold child_ok. cbn [sp_child]. exact H3.
      + eapply IH; [exact E|exact Hs|exact Hp|].
        cbn [record_spawn o_spawns]. apply Forall_app. split; [exact Hc1|]. constructor; [exact I|constructor].
    - eapply IH; [exact E|exact Hs|exact Hp|exact Hc].
  Qed.
End AppP.

(** * The receiver model is such a transducer *)
From Sameold Require Import Model.Combiner Model.Framer Model.Squelch Model.Assembler Model.Receiver
  Proofs.ReceiverP Proofs.FlushP.

Section OverReceiver.
  Variable c : rcfg.
  Variable fuel : nat.
  Definition rx_next (s : rx) (inp : list item) : option message * rx * list item := next_message fuel c s inp.

  Lemma process_suffix s src oe s' rest : process c s src = (oe, s', rest) -> exists consumed, src = consumed ++ rest.
  Proof.
    unfold process. destruct (pop_event s) as [[e s1]|].
    - intros E; inversion E; subst. exists []. reflexivity.
    - revert s. induction src as [|i src IH]; intros s; cbn [process_loop].
      + intros E; inversion E; subst. exists []. reflexivity.
      + destruct i as [|t].
        * intros E. destruct (IH _ E) as (cs & ->). exists (NoTick :: cs). reflexivity.
        * destruct (pop_event (step_item c s (Tick t))) as [[e s1]|].
          -- intros E; inversion E; subst. exists [Tick t]. reflexivity.
          -- intros E. destruct (IH _ E) as (cs & ->). exists (Tick t :: cs). reflexivity.
  Qed.

  Lemma rx_next_suffix : forall s inp m s' rest, rx_next s inp = (m, s', rest) -> exists cs, inp = cs ++ rest.
  Proof.
    unfold rx_next. induction fuel as [|f IH]; intros s inp m s' rest; cbn [next_message].
    - intros E; inversion E; subst. exists []. reflexivity.
    - destruct (process c s inp) as [[oe s1] r1] eqn:Ep. destruct (process_suffix _ _ _ _ _ Ep) as (c1 & ->).
      destruct oe as [e|].
      + destruct (msg_of e).
        * intros E; inversion E; subst. exists c1. reflexivity.
        * intros E. destruct (IH _ _ _ _ _ E) as (c2 & ->). exists (c1 ++ c2). apply app_assoc.
      + intros E; inversion E; subst. exists c1. reflexivity.
  Qed.
End OverReceiver.

(** * samedec over the receiver model: the iterator contract holds with enough calls *)
Section ReceiverInstance.
  Variable c : rcfg.
  (** the items the DSP makes of flush()'s zero padding, as a function of the state (oracle) *)
  Variable pad : rx -> list item.

  Lemma step_core_two_events k i : (length (snd (step_core c k i)) <= 2)%nat.
  Proof.
    unfold step_core. destruct i as [|t]; [cbn; lia|].
    destruct (linklayer_symbol c (r_sq k) (r_fr k) t) as [[[l sq'] fr'] u].
    destruct (transportlayer c (r_asm k) l (sq_symcount sq') (r_samples k + 1) (r_force_eom k)) as [[ot asm'] force'].
    destruct (negb (link_eqb l (r_link k))); destruct ot as [t'|]; try destruct (transport_eqb t' (r_transport k));
      simpl; lia.
  Qed.

  Lemma run_core_event_bound : forall src k, (length (fst (run_core c k src)) <= 2 * length src)%nat.
  Proof.
    induction src as [|i src IH]; intros k; cbn [run_core fst length]; [lia|].
    pose proof (step_core_two_events k i) as H2. destruct (step_core c k i) as [k1 evs]. cbn [snd] in H2.
    specialize (IH k1). destruct (run_core c k1 src) as [evs' kf]. cbn [fst] in *. rewrite app_length. lia.
  Qed.

  Definition enough (s : rx) (src : list item) : nat := S (length (r_queue s) + 2 * length src).

  Definition rxm_next (s : rx) (src : list item) : option message * rx * list item :=
    next_message (enough s src) c s src.
  Definition rxm_flush (s : rx) : option message * rx := flush (enough s (pad s)) c s (pad s).

  (** with enough calls [next_message] only gives up when the source is exhausted and nothing is queued *)
  Lemma next_message_none : forall fuel s src s' rest,
    (length (r_queue s ++ fst (run_core c (r_core s) src)) < fuel)%nat ->
    next_message fuel c s src = (None, s', rest) ->
    rest = [] /\ r_queue s' = [].
  Proof.
    induction fuel as [|f IH]; intros s src s' rest Hf E; [lia|].
    cbn [next_message] in E. pose proof (process_spec c s src) as P.
    destruct (process c s src) as [[oe s1] r1]. destruct oe as [e|].
    - destruct P as (P1 & _). destruct (msg_of e); [discriminate|].
      apply (IH s1 r1 s' rest); [|exact E]. cbv zeta in P1. rewrite P1 in Hf. cbn [length] in Hf. lia.
    - destruct P as (_ & P2 & P3 & _). inversion E; subst. split; try assumption; try reflexivity.
  Qed.

  Lemma rxm_next_none s src s' rest :
    rxm_next s src = (None, s', rest) -> rest = [] /\ rxm_next s' [] = (None, s', []).
  Proof.
    unfold rxm_next. intros E.
    assert (length (r_queue s ++ fst (run_core c (r_core s) src)) < enough s src)%nat as Hf.
    { unfold enough. rewrite app_length. pose proof (run_core_event_bound src (r_core s)). lia. }
    destruct (next_message_none _ _ _ _ _ Hf E) as [-> Hq]. split; [reflexivity|].
    unfold enough. cbn [length Nat.mul Nat.add]. rewrite Hq. cbn [length Nat.add next_message].
    unfold process, pop_event. rewrite Hq. cbn [process_loop]. reflexivity.
  Qed.

  Lemma rxm_next_suffix s src m s' rest : rxm_next s src = (m, s', rest) -> exists cs, src = cs ++ rest.
  Proof. unfold rxm_next. apply rx_next_suffix. Qed.

  (** so every theorem about samedec's control flow holds with the receiver model plugged in *)
  Theorem samedec_over_receiver_stdout : forall f1 f2 hc1 hc2 ok1 ok2 s inp o1 o2,
    run rx item rxm_next rxm_flush f1 false hc1 ok1 s inp = Some o1 ->
    run rx item rxm_next rxm_flush f2 false hc2 ok2 s inp = Some o2 ->
    o_stdout _ o1 = o_stdout _ o2.
  Proof. exact (stdout_independent_of_child rx item rxm_next rxm_flush rxm_next_none). Qed.

  Theorem samedec_over_receiver_audio : forall fuel q hc ok k pos s inp ph o o1 inp0,
    app rx item rxm_next rxm_flush fuel q hc ok k pos s inp ph o = Some o1 ->
    inp = skipn pos inp0 -> (pos <= length inp0)%nat ->
    Forall (child_ok item inp0) (o_spawns _ o) ->
    Forall (child_ok item inp0) (o_spawns _ o1).
  Proof. exact (child_audio_contiguous rx item rxm_next rxm_flush rxm_next_suffix). Qed.
End ReceiverInstance.
