(** C02, lossy transmissions: any TWO header bursts (whichever of the three were heard) followed,
    after the hold has run out, by two or three trailer bursts give exactly one StartOfMessage and
    then exactly one EndOfMessage — for all burst contents satisfying the stated combine facts and all
    times inside the stated intervals.  Built from two phase lemmas (header phase: the state it
    leaves; trailer phase: from any such state), which also give the three-header / two-trailer case. *)
From Sameold Require Import Base.Bytes Model.Header Model.Combiner Model.Assembler
  Proofs.Vote Proofs.HeaderP Proofs.CombinerP Proofs.AssemblerP Proofs.TransmissionP.
From Coq Require Import ZifyBool ZifyN ZifyNat.
Arguments N.add : simpl never.
Arguments N.leb : simpl never.
Arguments N.ltb : simpl never.
Local Opaque MAX_MESSAGE_LENGTH.

Notation HD := MAX_HISTORY_DURATION.
Notation IB := MAX_INTERBURST_SYMBOLS.

(** * Trailer phase: from the state a header leaves (two live entries, the header held) *)
Section TrailerPhase.
  Variables (x y n1 n2 n3 : bytes) (h : header) (prevX : option (timed message)).
  Variables (ta tb d tf u1 u2 u3 : N) (pb polls4 polls5 polls6 : list N).
  Hypothesis Hn1 : n1 <> []. Hypothesis Hn2 : n2 <> []. Hypothesis Hn3 : n3 <> [].
  Hypothesis Htext : h_text h <> PREFIX_MESSAGE_END.
  Hypothesis C4 : dup_or_none h (combine [trunc x; trunc y; trunc n1]).
  Hypothesis C5 : combine [trunc y; trunc n1; trunc n2] = Some (Ok EOM).
  Hypothesis C6 : combine [trunc n1; trunc n2; trunc n3] = Some (Ok EOM).
  Hypothesis Tab : ta <= tb.
  Hypothesis Td : d <= tf. Hypothesis Ttf : ta <= tf.
  Hypothesis Tfu : tf <= u1. Hypothesis U12 : u1 <= u2. Hypothesis U23 : u2 <= u3.
  Hypothesis Win : u3 < ta + HD.
  Hypothesis Pb : Forall (fun n => n < ta + HD) pb.
  Hypothesis P4 : Forall (fun n => n < ta + HD) polls4.
  Hypothesis P5 : Forall (fun n => n < ta + HD) polls5.

  Definition held : asm := mkAsm [entry x ta; entry y tb] (Some (mkTimed (Ok (SOM h)) d)) prevX.

  Definition trailer2_ops : list aop :=
    OIdle tf :: map OIdle pb ++ OBurst n1 u1 :: map OIdle polls4 ++ OBurst n2 u2 :: map OIdle polls5.
  Definition trailer3_ops : list aop := trailer2_ops ++ OBurst n3 u3 :: map OIdle polls6.

  Ltac tlia := clear - Tab Td Ttf Tfu U12 U23 Win; pose proof MIS_le_MHD; pose proof MHD_pos; pose proof MIS_pos; lia.

  Lemma noop_msgs' s polls rest :
    Forall (fun n => (forall p, a_pending s = Some p -> n < t_deadline p)
                     /\ Forall (fun e => n < t_deadline e) (a_history s)) polls ->
    (length (a_history s) <= 2)%nat ->
    msgs (fst (asm_run s (map OIdle polls ++ rest))) = msgs (fst (asm_run s rest)).
  Proof.
    intros Hf Hl. rewrite asm_run_app. cbn [fst snd]. rewrite msgs_app.
    rewrite polls_noop by assumption. cbn [fst snd]. rewrite msgs_idle_out. reflexivity.
  Qed.

  (** the state after the second trailer burst and the polls that follow it *)
  Definition after_eom : asm :=
    mkAsm [entry n1 u1; entry n2 u2] None (Some (mkTimed EOM (u2 + HD))).

  Lemma trailer2_run :
    msgs (fst (asm_run held trailer2_ops)) = [(tf, Ok (SOM h)); (u2, Ok EOM)]
    /\ snd (asm_run held trailer2_ops) = after_eom.
  Proof.
    unfold trailer2_ops, held.
    (* the poll that releases the header *)
    rewrite asm_run_cons. cbn [asm_op op_time fst snd].
    rewrite (idle_fire_live _ tf (SOM h) d); [|reflexivity|exact Td| |cbn [a_history length]; repeat constructor].
    2:{ constructor; [unfold entry; cbn [t_deadline]; tlia|]. constructor; [unfold entry; cbn [t_deadline]; tlia|constructor]. }
    cbn [fst snd a_history].
    rewrite asm_run_app. cbn [fst snd].
    rewrite polls_noop.
    2:{ eapply Forall_impl; [|exact Pb]. cbn. intros n Hn0. split; [intros p Hp; discriminate|].
        constructor; [unfold entry; cbn [t_deadline]; exact Hn0|].
        constructor; [unfold entry; cbn [t_deadline]; clear - Tab Hn0; lia|constructor]. }
    2:{ cbn [a_history length]; repeat constructor. }
    cbn [fst snd].
    (* trailer burst 1: votes to the header again (or to nothing), suppressed as a duplicate *)
    rewrite asm_run_cons. cbn [asm_op op_time fst snd].
    assert (prune_previous (Some (mkTimed (SOM h) (tf + HD))) u1 = Some (mkTimed (SOM h) (tf + HD))) as Pr1.
    { unfold prune_previous, is_expired_at. cbn [t_deadline]. assert ((tf + HD <=? u1) = false) as -> by tlia. reflexivity. }
    rewrite (burst_suppressed _ n1 u1 Hn1); [| | cbn [a_history length]; repeat constructor | reflexivity | ].
    2:{ constructor; [unfold entry; cbn [t_deadline]; tlia|]. constructor; [unfold entry; cbn [t_deadline]; tlia|constructor]. }
    2:{ cbn [a_history a_previous app map t_data entry]. rewrite Pr1. apply dedup_dup_or_none, C4. }
    cbn [fst snd a_history a_previous app keep_last2]. rewrite Pr1.
    rewrite asm_run_app. cbn [fst snd].
    rewrite polls_noop.
    2:{ eapply Forall_impl; [|exact P4]. cbn. intros n Hn0. split; [intros p Hp; discriminate|].
        constructor; [unfold entry; cbn [t_deadline]; clear - Tab Hn0; lia|].
        constructor; [unfold entry; cbn [t_deadline]; clear - Tab Td Ttf Tfu U12 U23 Win Hn0; lia|constructor]. }
    2:{ cbn [a_history length]; repeat constructor. }
    cbn [fst snd].
    (* trailer burst 2: establishes the EndOfMessage, returned at once *)
    rewrite asm_run_cons. cbn [asm_op op_time fst snd].
    assert (prune_previous (Some (mkTimed (SOM h) (tf + HD))) u2 = Some (mkTimed (SOM h) (tf + HD))) as Pr2.
    { unfold prune_previous, is_expired_at. cbn [t_deadline]. assert ((tf + HD <=? u2) = false) as -> by tlia. reflexivity. }
    rewrite (burst_eom_now _ n2 u2 Hn2); [| | cbn [a_history length]; repeat constructor | reflexivity | ].
    2:{ constructor; [unfold entry; cbn [t_deadline]; tlia|]. constructor; [unfold entry; cbn [t_deadline]; tlia|constructor]. }
    2:{ cbn [a_history a_previous app map t_data entry]. rewrite Pr2, C5.
        cbn [deduplicate is_not_duplicate t_data message_as_str].
        destruct (list_eqb (h_text h) PREFIX_MESSAGE_END) eqn:E; [|reflexivity].
        exfalso. apply Htext. apply list_eqb_true, E. }
    cbn [fst snd a_history app keep_last2].
    rewrite polls_noop.
    2:{ eapply Forall_impl; [|exact P5]. cbn. intros n Hn0. split; [intros p Hp; discriminate|].
        constructor; [unfold entry; cbn [t_deadline]; clear - Tab Td Ttf Tfu U12 U23 Win Hn0; lia|].
        constructor; [unfold entry; cbn [t_deadline]; clear - Tab Td Ttf Tfu U12 U23 Win Hn0; lia|constructor]. }
    2:{ cbn [a_history length]; repeat constructor. }
    cbn [fst snd]. split; [|reflexivity].
    cbn [msgs]. rewrite msgs_app, msgs_idle_out. cbn [app msgs]. rewrite msgs_app, msgs_idle_out. cbn [app msgs].
    rewrite msgs_idle_out. reflexivity.
  Qed.

  Theorem trailer2_exact : msgs (fst (asm_run held trailer2_ops)) = [(tf, Ok (SOM h)); (u2, Ok EOM)].
  Proof. exact (proj1 trailer2_run). Qed.

  Theorem trailer3_exact : msgs (fst (asm_run held trailer3_ops)) = [(tf, Ok (SOM h)); (u2, Ok EOM)].
  Proof.
    unfold trailer3_ops. rewrite asm_run_app. cbn [fst]. rewrite msgs_app.
    destruct trailer2_run as [-> ->]. unfold after_eom.
    (* trailer burst 3: duplicate of the EndOfMessage just reported *)
    rewrite asm_run_cons. cbn [asm_op op_time fst snd].
    rewrite (burst_duplicate_eom _ n3 u3 (u2 + HD) Hn3); [| | cbn [a_history length]; repeat constructor | reflexivity | reflexivity | | ].
    2:{ constructor; [unfold entry; cbn [t_deadline]; tlia|]. constructor; [unfold entry; cbn [t_deadline]; tlia|constructor]. }
    2:{ tlia. }
    2:{ cbn [a_history app map t_data entry]. exact C6. }
    cbn [fst snd msgs]. rewrite polls_msgs. reflexivity.
  Qed.
End TrailerPhase.

(** * Header phase with two bursts: what it leaves *)
Section HeaderPhase2.
  Variables (prev0 : option (timed message)) (x y : bytes) (h : header).
  Variables (ta tb : N) (polls1 pa : list N).
  Hypothesis Hx : x <> []. Hypothesis Hy : y <> [].
  Hypothesis Hnd : nd h (prune_previous prev0 ta).
  Hypothesis Htext : h_text h <> PREFIX_MESSAGE_END.
  Hypothesis C1 : combine [trunc x] = None.
  Hypothesis C3 : combine [trunc x; trunc y] = Some (Ok (SOM h)).
  Hypothesis Tab : ta <= tb.
  Hypothesis Win1 : tb < ta + HD.
  Hypothesis P1 : Forall (fun n => n < ta + HD) polls1.
  Hypothesis Pa : Forall (fun n => n < tb + IB /\ n < ta + HD) pa.

  Definition header2_ops : list aop := OBurst x ta :: map OIdle polls1 ++ OBurst y tb :: map OIdle pa.

  Lemma header2_run : exists prev',
    msgs (fst (asm_run (mkAsm [] None prev0) header2_ops)) = []
    /\ snd (asm_run (mkAsm [] None prev0) header2_ops) = held x y h prev' ta tb (tb + IB).
  Proof.
    unfold header2_ops.
    rewrite asm_run_cons. cbn [asm_op op_time fst snd].
    destruct (burst_from_empty (mkAsm [] None prev0) x ta h Hx) as (o1 & pend1 & prev1 & E1 & Hn1' & _ & _ & _ & Hnone1 & Hmsg1);
      [constructor|cbn [a_history length]; repeat constructor|reflexivity|exact Hnd|exact Htext| |].
    { cbn [a_history app map t_data entry]. intros h2 Hh2. rewrite C1 in Hh2. discriminate. }
    cbn [a_history app map t_data entry] in Hnone1, Hmsg1.
    assert (pend1 = None) as -> by (apply Hnone1; left; exact C1).
    assert (msgs [(ta, o1)] = []) as M1.
    { cbn [msgs]. destruct o1 as [| |r]; try reflexivity. destruct (Hmsg1 r eq_refl) as [_ Hc]. rewrite C1 in Hc. discriminate. }
    rewrite E1. cbn [fst snd a_history app keep_last2].
    rewrite asm_run_app. cbn [fst snd].
    rewrite polls_noop.
    2:{ eapply Forall_impl; [|exact P1]. cbn. intros n Hn0. split; [intros p Hp; discriminate|].
        constructor; [unfold entry; cbn [t_deadline]; exact Hn0|constructor]. }
    2:{ cbn [a_history length]; repeat constructor. }
    cbn [fst snd].
    rewrite asm_run_cons. cbn [asm_op op_time fst snd].
    rewrite (burst_establishes _ y tb h Hy);
      [| constructor; [unfold entry; cbn [t_deadline]; exact Win1|constructor]
       | cbn [a_history length]; repeat constructor | exact I | exact Hn1' | exact C3].
    cbn [fst snd a_history app keep_last2].
    rewrite polls_noop.
    2:{ eapply Forall_impl; [|exact Pa]. cbn. intros n [Hn0 Hn0']. split.
        - intros p Hp. inversion Hp; subst. cbn [t_deadline]. exact Hn0.
        - constructor; [unfold entry; cbn [t_deadline]; exact Hn0'|].
          constructor; [unfold entry; cbn [t_deadline]; clear - Tab Hn0'; lia|constructor]. }
    2:{ cbn [a_history length]; repeat constructor. }
    cbn [fst snd]. eexists. split; [|reflexivity].
    change ((ta, o1) :: ?r) with ([(ta, o1)] ++ r). rewrite !msgs_app, M1, !msgs_idle_out. cbn [msgs app].
    rewrite msgs_idle_out. reflexivity.
  Qed.
End HeaderPhase2.

(** * Two header bursts, then two or three trailer bursts *)
Section Lossy.
  Variables (prev0 : option (timed message)) (x y n1 n2 n3 : bytes) (h : header).
  Variables (ta tb tf u1 u2 u3 : N) (polls1 pa pb polls4 polls5 polls6 : list N).
  Hypothesis Hx : x <> []. Hypothesis Hy : y <> [].
  Hypothesis Hn1 : n1 <> []. Hypothesis Hn2 : n2 <> []. Hypothesis Hn3 : n3 <> [].
  Hypothesis Hnd : nd h (prune_previous prev0 ta).
  Hypothesis Htext : h_text h <> PREFIX_MESSAGE_END.
  Hypothesis C1 : combine [trunc x] = None.
  Hypothesis C3 : combine [trunc x; trunc y] = Some (Ok (SOM h)).
  Hypothesis C4 : dup_or_none h (combine [trunc x; trunc y; trunc n1]).
  Hypothesis C5 : combine [trunc y; trunc n1; trunc n2] = Some (Ok EOM).
  Hypothesis C6 : combine [trunc n1; trunc n2; trunc n3] = Some (Ok EOM).
  Hypothesis Tab : ta <= tb.
  Hypothesis Tf : tb + IB <= tf.
  Hypothesis Tfu : tf <= u1. Hypothesis U12 : u1 <= u2. Hypothesis U23 : u2 <= u3.
  Hypothesis Win : u3 < ta + HD.
  Hypothesis P1 : Forall (fun n => n < ta + HD) polls1.
  Hypothesis Pa : Forall (fun n => n < tb + IB /\ n < ta + HD) pa.
  Hypothesis Pb : Forall (fun n => n < ta + HD) pb.
  Hypothesis P4 : Forall (fun n => n < ta + HD) polls4.
  Hypothesis P5 : Forall (fun n => n < ta + HD) polls5.

  Definition lossy_ops (third : bool) : list aop :=
    header2_ops x y ta tb polls1 pa
    ++ (if third then trailer3_ops n1 n2 n3 tf u1 u2 u3 pb polls4 polls5 polls6
        else trailer2_ops n1 n2 tf u1 u2 pb polls4 polls5).

  Theorem lossy_transmission_exact third :
    msgs (fst (asm_run (mkAsm [] None prev0) (lossy_ops third))) = [(tf, Ok (SOM h)); (u2, Ok EOM)].
  Proof.
    assert (tb < ta + HD) as Win1 by (clear - Tab Tf Tfu U12 U23 Win; pose proof MIS_pos; lia).
    unfold lossy_ops. rewrite asm_run_app. cbn [fst]. rewrite msgs_app.
    destruct (header2_run prev0 x y h ta tb polls1 pa Hx Hy Hnd Htext C1 C3 Tab Win1 P1 Pa) as (prev' & -> & ->).
    assert (ta <= tf) as Ttf by (clear - Tab Tf; pose proof MIS_pos; lia).
    cbn [app]. destruct third.
    - apply trailer3_exact; assumption.
    - apply (trailer2_exact x y n1 n2 h prev' ta tb (tb + IB) tf u1 u2 u3); assumption.
  Qed.
End Lossy.

(** instance: ANY two intact copies of a canonical header (whichever of the three bursts were heard),
    the hold released by polling before the trailer, then two ([third = false]) or three bursts that
    begin "NN" — whatever follows the NN in each: exactly one StartOfMessage with the transmitted text,
    at the first poll 682 symbols after the second header burst, and exactly one EndOfMessage, in the
    call that delivers the second trailer burst *)
Theorem clean_lossy_transmission H h0 prev0 n1 n2 n3 ta tb tf u1 u2 u3 polls1 pa pb polls4 polls5 polls6 third :
  header_new H = Ok h0 -> h_text h0 = H -> forallb is_allowed_byte H = true ->
  (length H <= MAX_MESSAGE_LENGTH)%nat -> nd h0 (prune_previous prev0 ta) ->
  starts_NN n1 -> starts_NN n2 -> starts_NN n3 -> all_bytes n1 = true ->
  ta <= tb -> tb + IB <= tf -> tf <= u1 -> u1 <= u2 -> u2 <= u3 -> u3 < ta + HD ->
  Forall (fun n => n < ta + HD) polls1 ->
  Forall (fun n => n < tb + IB /\ n < ta + HD) pa ->
  Forall (fun n => n < ta + HD) pb ->
  Forall (fun n => n < ta + HD) polls4 ->
  Forall (fun n => n < ta + HD) polls5 ->
  msgs (fst (asm_run (mkAsm [] None prev0)
              (lossy_ops H H n1 n2 n3 ta tb tf u1 u2 u3 polls1 pa pb polls4 polls5 polls6 third)))
  = [(tf, Ok (SOM (mkHeader H (h_offset_time h0) (parity_spec H []) (voting_spec H [])))); (u2, Ok EOM)].
Proof.
  intros Hnew Htext Hall Hlen Hnd S1 S2 S3 Hb1 Tab Tf Tfu U12 U23 Win Q1 Qa Qb Q4 Q5.
  assert (H <> []) as HHne by (rewrite <- Htext; eapply header_new_text_nonempty, Hnew).
  assert (all_bytes H = true) as HHb by (apply ascii_all_bytes, forallb_allowed_ascii, Hall).
  pose proof (trunc_short H Hlen) as TH.
  pose proof (starts_NN_nonempty _ S1) as N1. pose proof (starts_NN_nonempty _ S2) as N2. pose proof (starts_NN_nonempty _ S3) as N3.
  pose proof (starts_NN_trunc _ S1) as S1t. pose proof (starts_NN_trunc _ S2) as S2t. pose proof (starts_NN_trunc _ S3) as S3t.
  pose proof (combine_two_good P2 H [] h0 Hnew Htext Hall Hlen eq_refl) as C3.
  cbn [arr] in C3. rewrite combine_HH_empty in C3.
  set (h := mkHeader H (h_offset_time h0) (parity_spec H []) (voting_spec H [])) in *.
  destruct (header_new_ok_inv _ _ Hnew) as (_ & n & Hchk & _).
  pose proof (check_header_starts H _ Hchk) as Hs.
  apply (lossy_transmission_exact prev0 H H n1 n2 n3 h ta tb tf u1 u2 u3 polls1 pa pb polls4 polls5 polls6);
    try assumption.
  - unfold nd, is_not_duplicate in *. cbn [message_as_str h h_text] in *. rewrite Htext in Hnd. exact Hnd.
  - cbn [h h_text]. intros E. rewrite E in Hs. discriminate.
  - rewrite TH. destruct H as [|c0 Hr]; [contradiction|]. apply combine_single_not_NN.
    cbn [starts_with PREFIX_MESSAGE_START] in Hs. apply andb_prop in Hs. destruct Hs as [Hc _].
    apply N.eqb_eq in Hc. subst c0. discriminate.
  - rewrite TH. exact C3.
  - rewrite TH. right.
    pose proof (combine_two_good P2 H (trunc n1) h0 Hnew Htext Hall Hlen (all_bytes_firstn _ _ Hb1)) as C4.
    cbn [arr] in C4. eexists. split; [exact C4|reflexivity].
  - rewrite TH. apply combine_X_NN; assumption.
  - apply combine_NN; [cbn [length]; lia|repeat constructor; assumption].
Qed.

(** * Header phase with three bursts: what it leaves *)
Section HeaderPhase3.
  Variables (prev0 : option (timed message)) (b1 b2 b3 : bytes) (h : header).
  Variables (t1 t2 t3 : N) (polls1 polls2 pa : list N).
  Hypothesis Hb1 : b1 <> []. Hypothesis Hb2 : b2 <> []. Hypothesis Hb3 : b3 <> [].
  Hypothesis Hnd : nd h (prune_previous prev0 t1).
  Hypothesis Htext : h_text h <> PREFIX_MESSAGE_END.
  Hypothesis C1 : combine [trunc b1] = None.
  Hypothesis C2 : combine [trunc b1; trunc b2] <> Some (Ok EOM).
  Hypothesis C2v : votes_le [trunc b1; trunc b2] h.
  Hypothesis C3 : combine [trunc b1; trunc b2; trunc b3] = Some (Ok (SOM h)).
  Hypothesis T12 : t1 <= t2. Hypothesis T23 : t2 <= t3.
  Hypothesis Win1 : t3 < t1 + HD.
  Hypothesis P1 : Forall (fun n => n < t1 + HD) polls1.
  Hypothesis P2 : Forall (fun n => n < t2 + IB /\ n < t1 + HD) polls2.
  Hypothesis Pa : Forall (fun n => n < t3 + IB /\ n < t2 + HD) pa.

  Definition header3_ops : list aop :=
    OBurst b1 t1 :: map OIdle polls1 ++ OBurst b2 t2 :: map OIdle polls2 ++ OBurst b3 t3 :: map OIdle pa.

  Lemma header3_run : exists prev',
    msgs (fst (asm_run (mkAsm [] None prev0) header3_ops)) = []
    /\ snd (asm_run (mkAsm [] None prev0) header3_ops) = held b2 b3 h prev' t2 t3 (t3 + IB).
  Proof.
    unfold header3_ops.
    (* burst 1 *)
    rewrite asm_run_cons. cbn [asm_op op_time fst snd].
    destruct (burst_from_empty (mkAsm [] None prev0) b1 t1 h Hb1) as (o1 & pend1 & prev1 & E1 & Hn1' & _ & _ & _ & Hnone1 & Hmsg1);
      [constructor|cbn [a_history length]; repeat constructor|reflexivity|exact Hnd|exact Htext| |].
    { cbn [a_history app map t_data entry]. intros h2 Hh2. rewrite C1 in Hh2. discriminate. }
    cbn [a_history app map t_data entry] in Hnone1, Hmsg1.
    assert (pend1 = None) as -> by (apply Hnone1; left; exact C1).
    assert (msgs [(t1, o1)] = []) as M1.
    { cbn [msgs]. destruct o1 as [| |r]; try reflexivity. destruct (Hmsg1 r eq_refl) as [_ Hc]. rewrite C1 in Hc. discriminate. }
    rewrite E1. cbn [fst snd a_history app keep_last2].
    rewrite asm_run_app. cbn [fst snd].
    rewrite polls_noop.
    2:{ eapply Forall_impl; [|exact P1]. cbn. intros n Hn0. split; [intros p Hp; discriminate|].
        constructor; [unfold entry; cbn [t_deadline]; exact Hn0|constructor]. }
    2:{ cbn [a_history length]; repeat constructor. }
    cbn [fst snd].
    (* burst 2 *)
    rewrite asm_run_cons. cbn [asm_op op_time fst snd].
    destruct (burst_from_empty (mkAsm [entry b1 t1] None prev1) b2 t2 h Hb2)
      as (o2 & pend2 & prev2 & E2 & Hn2' & _ & Hw2 & Hd2 & _ & Hmsg2);
      [constructor; [unfold entry; cbn [t_deadline]; clear - T12 T23 Win1; lia|constructor]|cbn [a_history length]; repeat constructor
       |reflexivity|apply nd_prune, Hn1'|exact Htext|exact C2v|].
    cbn [a_history app map t_data entry] in Hmsg2.
    assert (msgs [(t2, o2)] = []) as M2.
    { cbn [msgs]. destruct o2 as [| |r]; try reflexivity. destruct (Hmsg2 r eq_refl) as [_ Hc]. exfalso. exact (C2 Hc). }
    rewrite E2. cbn [fst snd a_history app keep_last2].
    rewrite asm_run_app. cbn [fst snd].
    rewrite polls_noop.
    2:{ eapply Forall_impl; [|exact P2]. cbn. intros n [Hn0 Hn0']. split.
        - intros p Hp. rewrite (Hd2 p Hp). exact Hn0.
        - constructor; [unfold entry; cbn [t_deadline]; exact Hn0'|].
          constructor; [unfold entry; cbn [t_deadline]; clear - T12 Hn0'; lia|constructor]. }
    2:{ cbn [a_history length]; repeat constructor. }
    cbn [fst snd].
    (* burst 3 *)
    rewrite asm_run_cons. cbn [asm_op op_time fst snd].
    rewrite (burst_establishes _ b3 t3 h Hb3);
      [| constructor; [unfold entry; cbn [t_deadline]; exact Win1|];
         constructor; [unfold entry; cbn [t_deadline]; clear - T12 T23 Win1; lia|constructor]
       | cbn [a_history length]; repeat constructor | exact Hw2 | exact Hn2' | exact C3].
    cbn [fst snd a_history app keep_last2].
    rewrite polls_noop.
    2:{ eapply Forall_impl; [|exact Pa]. cbn. intros n [Hn0 Hn0']. split.
        - intros p Hp. inversion Hp; subst. cbn [t_deadline]. exact Hn0.
        - constructor; [unfold entry; cbn [t_deadline]; exact Hn0'|].
          constructor; [unfold entry; cbn [t_deadline]; clear - T23 Hn0'; lia|constructor]. }
    2:{ cbn [a_history length]; repeat constructor. }
    cbn [fst snd]. eexists. split; [|reflexivity].
    change ((t1, o1) :: ?r) with ([(t1, o1)] ++ r). rewrite msgs_app, M1. cbn [app].
    rewrite msgs_app, msgs_idle_out. cbn [app].
    change ((t2, o2) :: ?r) with ([(t2, o2)] ++ r). rewrite msgs_app, M2. cbn [app].
    rewrite msgs_app, msgs_idle_out. cbn [app msgs]. rewrite msgs_idle_out. reflexivity.
  Qed.
End HeaderPhase3.

(** * Three header bursts, then only two trailer bursts *)
Section ThreeTwo.
  Variables (prev0 : option (timed message)) (b1 b2 b3 n1 n2 : bytes) (h : header).
  Variables (t1 t2 t3 tf u1 u2 : N) (polls1 polls2 pa pb polls4 polls5 : list N).
  Hypothesis Hb1 : b1 <> []. Hypothesis Hb2 : b2 <> []. Hypothesis Hb3 : b3 <> [].
  Hypothesis Hn1 : n1 <> []. Hypothesis Hn2 : n2 <> [].
  Hypothesis Hnd : nd h (prune_previous prev0 t1).
  Hypothesis Htext : h_text h <> PREFIX_MESSAGE_END.
  Hypothesis C1 : combine [trunc b1] = None.
  Hypothesis C2 : combine [trunc b1; trunc b2] <> Some (Ok EOM).
  Hypothesis C2v : votes_le [trunc b1; trunc b2] h.
  Hypothesis C3 : combine [trunc b1; trunc b2; trunc b3] = Some (Ok (SOM h)).
  Hypothesis C4 : dup_or_none h (combine [trunc b2; trunc b3; trunc n1]).
  Hypothesis C5 : combine [trunc b3; trunc n1; trunc n2] = Some (Ok EOM).
  Hypothesis T12 : t1 <= t2. Hypothesis T23 : t2 <= t3.
  Hypothesis Tf : t3 + IB <= tf.
  Hypothesis Tfu : tf <= u1. Hypothesis U12 : u1 <= u2.
  Hypothesis Win : u2 < t2 + HD.
  Hypothesis Win1 : t3 < t1 + HD.
  Hypothesis P1 : Forall (fun n => n < t1 + HD) polls1.
  Hypothesis P2 : Forall (fun n => n < t2 + IB /\ n < t1 + HD) polls2.
  Hypothesis Pa : Forall (fun n => n < t3 + IB /\ n < t2 + HD) pa.
  Hypothesis Pb : Forall (fun n => n < t2 + HD) pb.
  Hypothesis P4 : Forall (fun n => n < t2 + HD) polls4.
  Hypothesis P5 : Forall (fun n => n < t2 + HD) polls5.

  Definition three_two_ops : list aop :=
    header3_ops b1 b2 b3 t1 t2 t3 polls1 polls2 pa ++ trailer2_ops n1 n2 tf u1 u2 pb polls4 polls5.

  Theorem three_headers_two_trailers_exact :
    msgs (fst (asm_run (mkAsm [] None prev0) three_two_ops)) = [(tf, Ok (SOM h)); (u2, Ok EOM)].
  Proof.
    unfold three_two_ops. rewrite asm_run_app. cbn [fst]. rewrite msgs_app.
    destruct (header3_run prev0 b1 b2 b3 h t1 t2 t3 polls1 polls2 pa Hb1 Hb2 Hb3 Hnd Htext C1 C2 C2v C3 T12 T23 Win1 P1 P2 Pa)
      as (prev' & -> & ->).
    assert (t2 <= tf) as Ttf by (clear - T23 Tf; pose proof MIS_pos; lia).
    assert (u2 <= u2) as U22 by lia.
    cbn [app]. apply (trailer2_exact b2 b3 n1 n2 h prev' t2 t3 (t3 + IB) tf u1 u2 u2); assumption.
  Qed.
End ThreeTwo.
