(** C12: the child's environment is total on accepted headers and restates the header's fields. *)
From Sameold Require Import Base.Bytes Model.Header Model.Events Model.IssueTime Model.App Proofs.HeaderP.
Local Open Scope N_scope.

Lemma locations_done_location_str h l : locations h = Done l -> exists s, location_str h = Done s.
Proof. unfold locations. destruct (location_str h) as [s|k]; [eexists; reflexivity|discriminate]. Qed.

(** for EVERY header the constructor accepts (from any string) the environment is built without
    a panic, and each variable is the corresponding grammar component *)
Theorem env_total_and_faithful s h rate y d :
  header_new s = Ok h ->
  exists org evt groups t1 t2 t3 t4 j1 j2 j3 j4 j5 j6 j7 call rest e,
    Hdr s org evt groups [t1; t2; t3; t4] [j1; j2; j3; j4; j5; j6; j7] call rest
    /\ build_env h rate y d = Done e
    /\ env_rate e = rate /\ env_msg e = h_text h /\ env_org e = org /\ env_evt e = evt
    /\ env_originator e = originator_display (originator_from_org_and_call org call)
    /\ env_event e = event_display (event_from evt)
    /\ env_significance e = sig_code_str (snd (event_from evt))
    /\ env_sig_num e = decimal_N (sig_as_u8 (snd (event_from evt)))
    /\ env_locations e = join_with SPACE (map (@tl N) groups)
    /\ match calculate_issue_time (Z.of_N (dec [j1; j2; j3])) (Z.of_N (dec [j4; j5])) (Z.of_N (dec [j6; j7])) y d with
       | Some t => env_issuetime e = decimal_Z t
                   /\ env_purgetime e = decimal_Z (t + (Z.of_N (dec [t1; t2]) * 3600 + Z.of_N (dec [t3; t4]) * 60))%Z
       | None => env_issuetime e = [] /\ env_purgetime e = []
       end.
Proof.
  intros E.
  destruct (header_new_faithful s h E) as (org & evt & gs & t1 & t2 & t3 & t4 & j1 & j2 & j3 & j4 & j5 & j6 & j7 & call & rest
                                            & HH & Ht & Hs & Ho & He & Hl & Hv & Hi & Hc).
  destruct (locations_done_location_str h _ Hl) as (ls & Hls).
  exists org, evt, gs, t1, t2, t3, t4, j1, j2, j3, j4, j5, j6, j7, call, rest.
  unfold build_env, issue_unix. rewrite Hi. cbn [obind]. rewrite Hv. cbn [obind]. rewrite Hl. cbn [obind].
  rewrite Ho. cbn [obind]. rewrite Hc. cbn [obind]. rewrite He. cbn [obind].
  unfold is_national. rewrite Hls, He. cbn [obind fst snd].
  destruct (calculate_issue_time _ _ _ y d) as [t|];
    eexists; (split; [exact HH|]); (split; [reflexivity|]); cbn [env_rate env_msg env_org env_evt env_originator env_event
      env_significance env_sig_num env_locations env_issuetime env_purgetime]; repeat split; reflexivity.
Qed.

(** the locations can be read back from the space-separated variable *)
Lemma split_on_join (sep : N) : forall (l : list bytes) cur,
  l <> [] -> Forall (fun x => forallb (fun c => negb (c =? sep)) x = true) l ->
  split_on sep cur (join_with sep l) = match l with x :: r => (rev cur ++ x) :: r | [] => [] end.
Proof.
  assert (forall x cur rest, forallb (fun c => negb (c =? sep)) x = true ->
            split_on sep cur (x ++ rest) = split_on sep (rev x ++ cur) rest) as Hrun.
  { induction x as [|c x IH]; intros cur rest Hx; [reflexivity|]. cbn [forallb] in Hx. apply andb_prop in Hx. destruct Hx as [Hc Hx].
    simpl. destruct (c =? sep); [discriminate|]. rewrite IH by exact Hx. rewrite <- app_assoc. reflexivity. }
  induction l as [|x l IH]; intros cur Hne Hf; [contradiction|].
  inversion Hf as [|? ? Hx Hl]; subst. destruct l as [|y l'].
  - cbn [join_with]. rewrite <- (app_nil_r x) at 1. rewrite Hrun by exact Hx. cbn [split_on]. rewrite rev_app_distr, rev_involutive. reflexivity.
  - change (join_with sep (x :: y :: l')) with (x ++ sep :: join_with sep (y :: l')).
    rewrite Hrun by exact Hx. cbn [split_on]. rewrite N.eqb_refl. rewrite rev_app_distr, rev_involutive. f_equal.
    rewrite (IH [] ltac:(discriminate) Hl). reflexivity.
Qed.

Corollary locations_recoverable (l : list bytes) :
  l <> [] -> Forall (fun x => forallb (fun c => negb (c =? SPACE)) x = true) l ->
  split_on SPACE [] (join_with SPACE l) = l.
Proof. intros Hne Hf. rewrite (split_on_join SPACE l [] Hne Hf). destruct l; [contradiction|reflexivity]. Qed.
