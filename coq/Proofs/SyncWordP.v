(** C07 (bit level): on a clean transmission the preamble correlator can only fire at true byte
    boundaries, provided the preamble error budget is at most 6 (default 2; samedec allows 0..5). *)
From Sameold Require Import Base.Bytes Model.Squelch.
From Coq Require Import ZifyBool ZifyN ZifyNat.

(** bit [t] (0-based) of a byte string sent least significant bit first *)
Definition bit_of (s : list N) (t : nat) : bool := N.testbit (nth (t / 8) s 0) (N.of_nat (t mod 8)).

(** the correlator register after [t] bits of the stream (newest bit at position 31), from an empty register *)
Fixpoint corr_after (s : list N) (t : nat) : N :=
  match t with O => 0 | S k => N.lor (N.shiftr (corr_after s k) 1) (N.shiftl (b2n (bit_of s k)) 31) end.

Definition errs (s : list N) (t : nat) : N := num_bit_errors SYNC_WORD (corr_after s t).

Definition PRE8 : list N := repeat 171 8.
Definition START : list N := [90; 67; 90; 67; 45].   (* "ZCZC-" *)
Definition ENDM : list N := [78; 78; 78; 78].        (* "NNNN" *)

(** the documented ambiguity of the sync word inside the preamble: 0 at byte boundaries, 24/8 elsewhere *)
Lemma ambiguity_in_preamble :
  map (errs (PRE8 ++ START)) (seq 32 9) = [0; 24; 8; 24; 8; 24; 8; 24; 0].
Proof. vm_compute. reflexivity. Qed.

(** every position that is not a byte boundary, from the first possible sync (32 bits in) to four
    bytes past the end of the preamble, is at least 7 bit errors away from the sync word *)
Lemma misaligned_far_start :
  forallb (fun t => if (t mod 8 =? 0)%nat then true else 7 <=? errs (PRE8 ++ START) t) (seq 32 65) = true.
Proof. vm_compute. reflexivity. Qed.

Lemma misaligned_far_end :
  forallb (fun t => if (t mod 8 =? 0)%nat then true else 7 <=? errs (PRE8 ++ ENDM ++ [32]) t) (seq 32 65) = true.
Proof. vm_compute. reflexivity. Qed.

(** the squelch only reports a (re)synchronisation when the register is within the budget *)
Lemma resync_needs_match me s bit po pc hb s' :
  sq_input me s bit po pc = (SqReady true hb, s') ->
  num_bit_errors SYNC_WORD (N.lor (N.shiftr (sq_corr s) 1) (N.shiftl (b2n bit) 31)) <= me.
Proof.
  unfold sq_input.
  destruct (N.min (sq_fill s + 1) HISTORY_SYMBOLS <? HISTORY_SYMBOLS); [discriminate|].
  destruct (negb (sq_lock s) && (num_bit_errors SYNC_WORD _ <=? me) && po) eqn:E.
  - intros _. apply andb_prop in E. destruct E as [E _]. apply andb_prop in E. destruct E as [_ E]. lia.
  - destruct (sq_clock s) as [c|].
    + destruct (push_wrapping (sq_phist s) pc) as [|front ph]; [discriminate|].
      destruct (negb front); [discriminate|]. destruct c; discriminate.
    + discriminate.
Qed.

(** hence: while the bits of a clean header burst (eight or more preamble bytes, then "ZCZC-")
    pass through the correlator, with a budget of at most 6 the squelch cannot (re)synchronise at
    any position that is not a byte boundary — whatever its other state (clock, lock, power) *)
Theorem no_misaligned_sync_start me s t po pc hb s' :
  me <= 6 -> (32 <= t < 96)%nat -> (S t mod 8 <> 0)%nat ->
  sq_corr s = corr_after (PRE8 ++ START) t ->
  sq_input me s (bit_of (PRE8 ++ START) t) po pc <> (SqReady true hb, s').
Proof.
  intros Hme Ht Hmis Hc E. apply resync_needs_match in E. rewrite Hc in E.
  change (N.lor (N.shiftr (corr_after (PRE8 ++ START) t) 1) (N.shiftl (b2n (bit_of (PRE8 ++ START) t)) 31))
    with (corr_after (PRE8 ++ START) (S t)) in E.
  pose proof misaligned_far_start as F. rewrite forallb_forall in F.
  specialize (F (S t)). assert (In (S t) (seq 32 65)) as Hin by (apply in_seq; lia).
  specialize (F Hin). destruct (Nat.eqb_spec (S t mod 8) 0) as [H0|H0]; [contradiction|].
  unfold errs in F. lia.
Qed.

Theorem no_misaligned_sync_end me s t po pc hb s' :
  me <= 6 -> (32 <= t < 96)%nat -> (S t mod 8 <> 0)%nat ->
  sq_corr s = corr_after (PRE8 ++ ENDM ++ [32]) t ->
  sq_input me s (bit_of (PRE8 ++ ENDM ++ [32]) t) po pc <> (SqReady true hb, s').
Proof.
  intros Hme Ht Hmis Hc E. apply resync_needs_match in E. rewrite Hc in E.
  change (N.lor (N.shiftr (corr_after (PRE8 ++ ENDM ++ [32]) t) 1) (N.shiftl (b2n (bit_of (PRE8 ++ ENDM ++ [32]) t)) 31))
    with (corr_after (PRE8 ++ ENDM ++ [32]) (S t)) in E.
  pose proof misaligned_far_end as F. rewrite forallb_forall in F.
  specialize (F (S t)). assert (In (S t) (seq 32 65)) as Hin by (apply in_seq; lia).
  specialize (F Hin). destruct (Nat.eqb_spec (S t mod 8) 0) as [H0|H0]; [contradiction|].
  unfold errs in F. lia.
Qed.

(** the bound is tight: two bits into the first data byte the register is exactly 7 errors from
    the sync word, so with the budget at 7 a misaligned re-synchronisation is possible *)
Example budget_seven_is_too_much : errs (PRE8 ++ START) 66 = 7 /\ errs (PRE8 ++ ENDM ++ [32]) 66 = 7.
Proof. vm_compute. split; reflexivity. Qed.
