(** C10 (discrete half): whatever reachable state hostile audio leaves the link layer in,
    32 symbols of silence return it to the unsynchronised, unlocked, idle configuration —
    the receiver is never left deaf by its own state machine. *)
From Sameold Require Import Base.Bytes Model.Header Model.Combiner Model.Framer Model.Squelch
  Model.Assembler Model.Receiver.
From Coq Require Import ZifyBool ZifyN ZifyNat.
Arguments N.add : simpl never.
Arguments N.leb : simpl never.
Arguments N.ltb : simpl never.

(** a symbol of silence: power below both thresholds *)
Definition silent (t : tick) : Prop := t_popen t = false /\ t_pclose t = false.

Definition all_false (l : list bool) : Prop := forallb negb l = true.

(** the last [n] entries of the power history are false *)
Definition suffix_false (n : nat) (l : list bool) : Prop :=
  exists a b, l = a ++ b /\ length b = n /\ all_false b.

Lemma all_false_app a b : all_false a -> all_false b -> all_false (a ++ b).
Proof. unfold all_false. rewrite forallb_app. intros -> ->. reflexivity. Qed.

Lemma push_wrapping_length l b : (length l <= POWER_HISTORY)%nat -> (length (push_wrapping l b) <= POWER_HISTORY)%nat.
Proof.
  intros H. unfold push_wrapping.
  destruct (Nat.ltb_spec POWER_HISTORY (length (l ++ [b]))) as [Hb|Hb].
  - destruct l as [|a l]; cbn [app tl length] in *; [lia|]. rewrite app_length in *. cbn [length] in *. lia.
  - exact Hb.
Qed.

Lemma push_false_suffix n l :
  (length l <= POWER_HISTORY)%nat -> suffix_false n l ->
  suffix_false (Nat.min (S n) POWER_HISTORY) (push_wrapping l false).
Proof.
  intros Hl (a & b & -> & Hn & Hb). unfold push_wrapping. rewrite app_length in Hl.
  destruct (Nat.ltb_spec POWER_HISTORY (length ((a ++ b) ++ [false]))) as [Hbig|Hsmall].
  - rewrite !app_length in Hbig. cbn [length] in Hbig.
    destruct a as [|x a].
    + cbn [app length] in *. destruct b as [|y b]; [cbn [length] in *; unfold POWER_HISTORY in *; lia|].
      cbn [app tl]. exists [], (b ++ [false]). split; [reflexivity|]. split.
      * rewrite app_length. cbn [length] in *. lia.
      * apply all_false_app; [|reflexivity]. unfold all_false in *. cbn [forallb] in Hb.
        apply andb_prop in Hb. tauto.
    + cbn [app tl length] in *. exists a, (b ++ [false]). split; [rewrite app_assoc; reflexivity|]. split.
      * rewrite app_length. cbn [length]. lia.
      * apply all_false_app; [exact Hb|reflexivity].
  - rewrite !app_length in Hsmall. cbn [length] in Hsmall.
    exists a, (b ++ [false]). split; [rewrite app_assoc; reflexivity|]. split.
    + rewrite app_length. cbn [length]. lia.
    + apply all_false_app; [exact Hb|reflexivity].
Qed.

Lemma suffix_full_all_false l :
  (length l <= POWER_HISTORY)%nat -> suffix_false POWER_HISTORY l -> all_false l.
Proof.
  intros Hl (a & b & -> & Hn & Hb). rewrite app_length in Hl.
  destruct a as [|x a]; [exact Hb|]. cbn [length] in Hl. lia.
Qed.

(** what every reachable squelch state satisfies *)
Definition sq_inv (s : sq) : Prop :=
  (sq_clock s = None -> sq_lock s = false)
  /\ (sq_fill s < HISTORY_SYMBOLS -> sq_clock s = None)
  /\ (length (sq_phist s) <= POWER_HISTORY)%nat.

Lemma sq_init_inv : sq_inv sq_init.
Proof. repeat split; cbn; intros; try reflexivity; lia. Qed.

Lemma sq_input_inv me s bit po pc o s' :
  sq_inv s -> sq_input me s bit po pc = (o, s') ->
  sq_inv s' /\ sq_phist s' = push_wrapping (sq_phist s) pc
  /\ (o = SqNoCarrier \/ o = SqDropped -> sq_clock s' = None)
  /\ (forall r h, o = SqReady r h -> exists c, sq_clock s' = Some c)
  /\ (o = SqReading -> exists c, sq_clock s' = Some c)
  /\ o <> SqPanic.
Proof.
  intros (I1 & I2 & I3). unfold sq_input.
  pose proof (push_wrapping_length (sq_phist s) pc I3) as Hlen.
  assert (forall c l, sq_inv (mkSq (N.lor (N.shiftr (sq_corr s) 1) (N.shiftl (b2n bit) 31))
                                   (N.min (sq_fill s + 1) HISTORY_SYMBOLS) (push_wrapping (sq_phist s) pc) c l (sq_symcount s + 1))
          <-> ((c = None -> l = false) /\ (N.min (sq_fill s + 1) HISTORY_SYMBOLS < HISTORY_SYMBOLS -> c = None))) as Hinv.
  { intros c l. unfold sq_inv. cbn [sq_clock sq_lock sq_fill sq_phist]. tauto. }
  destruct (N.ltb_spec (N.min (sq_fill s + 1) HISTORY_SYMBOLS) HISTORY_SYMBOLS) as [Hf|Hf].
  - intros E. inversion E; subst. split.
    + apply Hinv. split; [exact I1|]. intros _. apply I2. unfold HISTORY_SYMBOLS in *. lia.
    + cbn [sq_phist sq_clock]. split; [reflexivity|]. split; [intros _; apply I2; unfold HISTORY_SYMBOLS in *; lia|].
      split; [intros; discriminate|]. split; [intros; discriminate|discriminate].
  - assert (forall c l, (c = None -> l = false) ->
              sq_inv (mkSq (N.lor (N.shiftr (sq_corr s) 1) (N.shiftl (b2n bit) 31))
                           (N.min (sq_fill s + 1) HISTORY_SYMBOLS) (push_wrapping (sq_phist s) pc) c l (sq_symcount s + 1))) as Hok.
    { intros c l H. apply Hinv. split; [exact H|]. intros Hlt. lia. }
    destruct (negb (sq_lock s) && (num_bit_errors SYNC_WORD _ <=? me) && po) eqn:Esync.
    + (* (re)synchronise: the clock is set *)
      assert (forall adj, exists o1 s1,
                (match Some 0 with
                 | None => (SqNoCarrier, mkSq (N.lor (N.shiftr (sq_corr s) 1) (N.shiftl (b2n bit) 31)) (N.min (sq_fill s + 1) HISTORY_SYMBOLS) (push_wrapping (sq_phist s) pc) None (sq_lock s) (sq_symcount s + 1))
                 | Some 0 => (SqReady adj (N.lor (N.shiftr (sq_corr s) 1) (N.shiftl (b2n bit) 31) mod 256), mkSq (N.lor (N.shiftr (sq_corr s) 1) (N.shiftl (b2n bit) 31)) (N.min (sq_fill s + 1) HISTORY_SYMBOLS) (push_wrapping (sq_phist s) pc) (Some 1) (sq_lock s) (sq_symcount s + 1))
                 | Some c => (SqReading, mkSq (N.lor (N.shiftr (sq_corr s) 1) (N.shiftl (b2n bit) 31)) (N.min (sq_fill s + 1) HISTORY_SYMBOLS) (push_wrapping (sq_phist s) pc) (Some ((c + 1) mod 8)) (sq_lock s) (sq_symcount s + 1))
                 end) = (o1, s1)) as _ by (intros; eexists _, _; reflexivity).
      destruct (sq_clock s) as [[|p]|]; intros E; inversion E; subst; (split; [apply Hok; intros; discriminate|]);
        cbn [sq_phist sq_clock]; (split; [reflexivity|]); (split; [intros [H|H]; discriminate|]);
        (split; [intros; eexists; reflexivity|]); (split; [intros; discriminate|discriminate]).
    + destruct (sq_clock s) as [c|] eqn:Ec.
      * destruct (push_wrapping (sq_phist s) pc) as [|front ph] eqn:Ep.
        { exfalso. unfold push_wrapping in Ep. destruct (POWER_HISTORY <? length (sq_phist s ++ [pc]))%nat eqn:El.
          - destruct (sq_phist s) as [|a [|b l]]; cbn in El, Ep; try discriminate.
          - destruct (sq_phist s); discriminate. }
        destruct (negb front).
        -- intros E; inversion E; subst. split; [apply Hok; reflexivity|]. cbn [sq_phist sq_clock].
           split; [reflexivity|]. split; [reflexivity|]. split; [intros; discriminate|]. split; [intros; discriminate|discriminate].
        -- destruct c as [|p]; intros E; inversion E; subst; (split; [apply Hok; intros; discriminate|]);
             cbn [sq_phist sq_clock]; (split; [reflexivity|]); (split; [intros [H|H]; discriminate|]);
             (split; [intros; eexists; reflexivity|]); (split; [intros; eexists; reflexivity|discriminate]).
      * intros E; inversion E; subst. split; [apply Hok; exact I1|]. cbn [sq_phist sq_clock].
        split; [reflexivity|]. split; [reflexivity|]. split; [intros; discriminate|]. split; [intros; discriminate|discriminate].
Qed.

Lemma sq_end_inv s : (length (sq_phist s) <= POWER_HISTORY)%nat -> sq_inv (sq_end s).
Proof. intros H. unfold sq_inv, sq_end. cbn [sq_clock sq_lock sq_fill sq_phist]. repeat split; auto. Qed.

(** one symbol through the link layer keeps the invariant; the power history only ever gets the
    new close-threshold flag pushed *)
Lemma linklayer_inv c s f t l s' f' u :
  sq_inv s -> linklayer_symbol c s f t = (l, s', f', u) ->
  sq_inv s' /\ sq_phist s' = push_wrapping (sq_phist s) (t_pclose t).
Proof.
  intros Hi. unfold linklayer_symbol.
  destruct (sq_input (preamble_max_errors c) s (t_bit t) (t_popen t) (t_pclose t)) as [o s1] eqn:E.
  destruct (sq_input_inv _ _ _ _ _ _ _ Hi E) as (I & Hp & Hn & Hr & Hrd & Hnp).
  destruct I as (J1 & J2 & J3).
  destruct o as [| | |rs hb|].
  - destruct (framer_end f) as [l0 f0]. intros X; inversion X; subst. split; [repeat split; assumption|exact Hp].
  - destruct (framer_end f) as [l0 f0]. intros X; inversion X; subst. split; [apply sq_end_inv, J3|exact Hp].
  - intros X; inversion X; subst. split; [repeat split; assumption|exact Hp].
  - destruct (framer_input (fc c) f (t_eq t) rs) as [l0 f0].
    destruct (Hr rs hb eq_refl) as (cl & Hcl).
    destruct l0 as [| | |b]; intros X; inversion X; subst.
    + split; [apply sq_end_inv, J3|exact Hp].
    + split; [repeat split; assumption|exact Hp].
    + split; [|exact Hp]. unfold sq_inv, sq_set_lock. cbn [sq_clock sq_lock sq_fill sq_phist].
      repeat split; [intros E0; rewrite Hcl in E0; discriminate|exact J2|exact J3].
    + split; [apply sq_end_inv, J3|exact Hp].
  - exfalso. apply Hnp. reflexivity.
Qed.

(** a SILENT symbol when the whole power history (after the push) is false: the carrier is
    dropped, or was never there — either way no byte clock, no lock, framer idle *)
Lemma linklayer_silent_recovers c s f t l s' f' u :
  sq_inv s -> silent t -> all_false (push_wrapping (sq_phist s) false) ->
  linklayer_symbol c s f t = (l, s', f', u) ->
  sq_clock s' = None /\ sq_lock s' = false /\ f' = FIdle.
Proof.
  intros Hi [Hpo Hpc] Haf. unfold linklayer_symbol. rewrite Hpo, Hpc.
  destruct (sq_input (preamble_max_errors c) s (t_bit t) false false) as [o s1] eqn:E.
  destruct (sq_input_inv _ _ _ _ _ _ _ Hi E) as ((J1 & J2 & J3) & Hp & Hn & Hr & Hrd & Hnp).
  (* with power below the open threshold and an all-false history the squelch can only say NoCarrier or Dropped *)
  assert (o = SqNoCarrier \/ o = SqDropped) as Ho.
  { revert E. unfold sq_input. rewrite !andb_false_r.
    destruct (N.min (sq_fill s + 1) HISTORY_SYMBOLS <? HISTORY_SYMBOLS); [intros X; inversion X; left; reflexivity|].
    destruct (sq_clock s) as [cl|].
    - destruct (push_wrapping (sq_phist s) false) as [|front ph] eqn:Ep; [intros X; inversion X; subst; exfalso; apply Hnp; reflexivity|].
      unfold all_false in Haf. cbn [forallb] in Haf. apply andb_prop in Haf. destruct Haf as [Hfr _].
      destruct front; [discriminate|]. cbn [negb]. intros X; inversion X; right; reflexivity.
    - intros X; inversion X; left; reflexivity. }
  destruct Ho as [-> | ->].
  - destruct f as [|w cnt|msg inv]; cbn [framer_end]; intros X; inversion X; subst;
      (split; [apply Hn; left; reflexivity|]); (split; [apply J1, Hn; left; reflexivity|reflexivity]).
  - destruct f as [|w cnt|msg inv]; cbn [framer_end]; intros X; inversion X; subst; repeat split; reflexivity.
Qed.

(** the link layer over a list of symbols *)
Fixpoint link_run (c : rcfg) (s : sq) (f : fstate) (ts : list tick) : sq * fstate :=
  match ts with
  | [] => (s, f)
  | t :: r => let '(_, s', f', _) := linklayer_symbol c s f t in link_run c s' f' r
  end.

Lemma link_run_silent_suffix c : forall ts s f n,
  sq_inv s -> Forall silent ts -> suffix_false n (sq_phist s) ->
  let '(s', f') := link_run c s f ts in
  sq_inv s' /\ suffix_false (Nat.min (n + length ts) POWER_HISTORY) (sq_phist s').
Proof.
  induction ts as [|t ts IH]; intros s f n Hi Hs Hn; cbn [link_run length].
  - split; [exact Hi|]. destruct Hi as (_ & _ & Hl). destruct Hn as (a & b & E & Hb & Hf).
    rewrite Nat.add_0_r. assert (n <= POWER_HISTORY)%nat by (rewrite E, app_length in Hl; lia).
    rewrite Nat.min_l by assumption. exists a, b. repeat split; assumption.
  - inversion Hs as [|? ? Ht Hs']; subst.
    destruct (linklayer_symbol c s f t) as [[[l s1] f1] u] eqn:E.
    destruct (linklayer_inv _ _ _ _ _ _ _ _ Hi E) as (Hi1 & Hp1).
    destruct Ht as [_ Hpc]. rewrite Hpc in Hp1.
    pose proof (push_false_suffix n (sq_phist s) (proj2 (proj2 Hi)) Hn) as Hs1. rewrite <- Hp1 in Hs1.
    specialize (IH s1 f1 _ Hi1 Hs' Hs1). destruct (link_run c s1 f1 ts) as [s2 f2].
    destruct IH as (I2 & S2). split; [exact I2|].
    replace (Nat.min (n + S (length ts)) POWER_HISTORY) with (Nat.min (Nat.min (S n) POWER_HISTORY + length ts) POWER_HISTORY); [exact S2|].
    unfold POWER_HISTORY. lia.
Qed.

(** ** Recovery: from any state satisfying the invariant (every reachable state does), 32 silent
    symbols leave the squelch unsynchronised and unlocked and the framer idle — whatever the
    bits, whatever the equaliser says *)
Theorem silence_recovers c ts t s f :
  sq_inv s -> Forall silent ts -> (31 <= length ts)%nat -> silent t ->
  let '(s', f') := link_run c s f (ts ++ [t]) in
  sq_clock s' = None /\ sq_lock s' = false /\ f' = FIdle /\ sq_inv s'.
Proof.
  intros Hi Hs Hl Ht.
  assert (forall a b s0 f0, link_run c s0 f0 (a ++ b) = let '(s1, f1) := link_run c s0 f0 a in link_run c s1 f1 b) as Happ.
  { induction a as [|x a IH]; intros b s0 f0; cbn [app link_run]; [reflexivity|].
    destruct (linklayer_symbol c s0 f0 x) as [[[l0 s1] f1] u0]. apply IH. }
  rewrite Happ.
  pose proof (link_run_silent_suffix c ts s f 0 Hi Hs) as H0.
  assert (suffix_false 0 (sq_phist s)) as Hz by (exists (sq_phist s), []; rewrite app_nil_r; repeat split; reflexivity).
  specialize (H0 Hz). destruct (link_run c s f ts) as [s1 f1]. destruct H0 as (I1 & S1).
  cbn [link_run]. destruct (linklayer_symbol c s1 f1 t) as [[[l s2] f2] u] eqn:E.
  destruct (linklayer_inv _ _ _ _ _ _ _ _ I1 E) as (I2 & _).
  assert (all_false (push_wrapping (sq_phist s1) false)) as Haf.
  { apply suffix_full_all_false; [apply push_wrapping_length, I1|].
    assert (suffix_false (Nat.min (length ts) POWER_HISTORY) (sq_phist s1)) as S1' by exact S1.
    pose proof (push_false_suffix _ _ (proj2 (proj2 I1)) S1') as P.
    replace (Nat.min (S (Nat.min (length ts) POWER_HISTORY)) POWER_HISTORY) with POWER_HISTORY in P; [exact P|].
    unfold POWER_HISTORY. lia. }
  destruct (linklayer_silent_recovers _ _ _ _ _ _ _ _ I1 Ht Haf E) as (R1 & R2 & R3).
  split; [exact R1|split; [exact R2|split; [exact R3|exact I2]]].
Qed.

(** every state reached from the initial one by ANY symbols satisfies the invariant *)
Theorem reachable_inv c : forall ts s f, sq_inv s -> sq_inv (fst (link_run c s f ts)).
Proof.
  induction ts as [|t ts IH]; intros s f Hi; cbn [link_run fst]; [exact Hi|].
  destruct (linklayer_symbol c s f t) as [[[l s1] f1] u] eqn:E.
  apply IH. eapply linklayer_inv; eassumption.
Qed.

(** and from the recovered configuration the receiver synchronises again exactly as a new one
    would as far as the squelch's control state is concerned: the gate
    [not locked && errors <= max && power >= open] is open to the next preamble *)
Theorem recovered_can_sync me s bit pc :
  sq_clock s = None -> sq_lock s = false -> sq_fill s = HISTORY_SYMBOLS ->
  num_bit_errors SYNC_WORD (N.lor (N.shiftr (sq_corr s) 1) (N.shiftl (b2n bit) 31)) <= me ->
  exists hb s', sq_input me s bit true pc = (SqReady true hb, s') /\ sq_clock s' = Some 1.
Proof.
  intros Hc Hl Hf He. unfold sq_input. rewrite Hc, Hl, Hf.
  change (N.min (HISTORY_SYMBOLS + 1) HISTORY_SYMBOLS <? HISTORY_SYMBOLS) with false. cbn [negb andb].
  assert ((num_bit_errors SYNC_WORD (N.lor (N.shiftr (sq_corr s) 1) (N.shiftl (b2n bit) 31)) <=? me) = true) as -> by lia.
  cbn [andb]. eexists _, _. split; [reflexivity|reflexivity].
Qed.
