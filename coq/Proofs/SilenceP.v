(** Every reachable state of the discrete receiver becomes [quiesced] (QuiesceP) under silence,
    except for the 135 s end-of-message timer, which is resolved by its own theorem (ClosedP):
    32 silent symbols idle the link layer, at most 683 more release whatever the assembler holds,
    and 5652 after that every record it keeps has expired. *)
From Sameold Require Import Base.Bytes Model.Header Model.Combiner Model.Framer Model.Squelch
  Model.Assembler Model.Receiver Proofs.AssemblerP Proofs.RobustP Proofs.ShiftP Proofs.QuiesceP.
From Coq Require Import ZifyBool ZifyN ZifyNat.
Arguments N.add : simpl never.
Arguments N.leb : simpl never.
Arguments N.ltb : simpl never.
Local Open Scope N_scope.

Notation HD := MAX_HISTORY_DURATION.
Notation IB := MAX_INTERBURST_SYMBOLS.

Lemma IB_ge_1 : 1 <= IB.
Proof. apply N.leb_le. vm_compute. reflexivity. Qed.

Definition sym (k : core) : N := sq_symcount (r_sq k).

(** * Deadlines the assembler holds are bounded relative to the symbol counter *)
Definition asm_bounded (a : asm) (now : N) : Prop :=
  Forall (fun e => t_deadline e <= now + HD) (a_history a)
  /\ (forall p, a_pending a = Some p -> t_deadline p <= now + IB)
  /\ (forall q, a_previous a = Some q -> t_deadline q <= now + HD).

Lemma keep_last2_Forall {A} (P : A -> Prop) (l : list A) : Forall P l -> Forall P (keep_last2 l).
Proof.
  induction l as [|a l IH]; intros H; [exact H|].
  destruct l as [|b [|c l']]; [exact H|exact H|].
  change (keep_last2 (a :: b :: c :: l')) with (keep_last2 (b :: c :: l')). apply IH. inversion H; assumption.
Qed.

Lemma prune_history_Forall (P : timed bytes -> Prop) h now : Forall P h -> Forall P (prune_history h now).
Proof.
  intros H. unfold prune_history. apply keep_last2_Forall. apply Forall_forall. intros x Hx.
  apply filter_In in Hx. rewrite Forall_forall in H. apply H, Hx.
Qed.

Lemma idle_analysis a n :
  a_history (snd (asm_idle a n)) = prune_history (a_history a) n
  /\ ((exists p, a_pending a = Some p /\ t_deadline p <= n /\ a_pending (snd (asm_idle a n)) = None
        /\ (a_previous (snd (asm_idle a n)) = a_previous a
            \/ exists m, a_previous (snd (asm_idle a n)) = Some (mkTimed m (n + HD))))
      \/ ((forall p, a_pending a = Some p -> n < t_deadline p)
          /\ a_pending (snd (asm_idle a n)) = a_pending a
          /\ a_previous (snd (asm_idle a n)) = a_previous a)).
Proof.
  unfold asm_idle, pending_poll, is_expired_at.
  destruct (a_pending a) as [p|] eqn:Ep.
  - destruct (N.leb_spec (t_deadline p) n) as [Hd|Hd].
    + destruct (t_data p) as [m|e]; cbn [snd a_history a_pending a_previous]; (split; [reflexivity|]); left; exists p;
        (split; [reflexivity|]); (split; [exact Hd|]); (split; [reflexivity|]).
      * right. exists m. reflexivity.
      * left. reflexivity.
    + cbn [snd a_history a_pending a_previous]. split; [reflexivity|]. right.
      split; [intros q Hq; inversion Hq; subst; exact Hd|]. split; reflexivity.
  - cbn [snd a_history a_pending a_previous]. split; [reflexivity|]. right.
    split; [intros q Hq; discriminate|]. split; reflexivity.
Qed.

Lemma asm_bounded_weaken a now n : asm_bounded a now -> now <= n -> asm_bounded a n.
Proof.
  intros (H1 & H2 & H3) Hn. split; [|split].
  - eapply Forall_impl; [|exact H1]. cbv beta. intros e He. lia.
  - intros p Hp. specialize (H2 p Hp). lia.
  - intros q Hq. specialize (H3 q Hq). lia.
Qed.

Lemma asm_idle_bounded a n : asm_bounded a n -> asm_bounded (snd (asm_idle a n)) n.
Proof.
  intros (H1 & H2 & H3). destruct (idle_analysis a n) as (Eh & Hc). split; [|split].
  - rewrite Eh. apply prune_history_Forall, H1.
  - destruct Hc as [(p & _ & _ & Hn & _)|(_ & Hp & _)]; [rewrite Hn; intros q Hq; discriminate|rewrite Hp; exact H2].
  - destruct Hc as [(p & _ & _ & _ & [Hq|(m & Hq)])|(_ & _ & Hq)]; rewrite Hq; try exact H3.
    intros q Hq'. inversion Hq'; subst. cbn [t_deadline]. lia.
Qed.

Lemma asm_assemble_bounded a b n : asm_bounded a n -> asm_bounded (snd (asm_assemble a b n)) n.
Proof.
  intros Hb. destruct b as [|b0 b']; [apply asm_idle_bounded, Hb|].
  rewrite assemble_unfold by discriminate. apply asm_idle_bounded.
  destruct Hb as (H1 & H2 & H3). split; [|split]; cbn [a_history a_pending a_previous].
  - apply Forall_app. split; [apply prune_history_Forall, H1|]. constructor; [cbn [t_deadline]; lia|constructor].
  - match goal with |- context [deduplicate ?p ?r] => destruct (deduplicate p r) as [msg|] end; [|exact H2].
    destruct (accept_cases (a_pending a) msg n) as [E|E]; rewrite E; [exact H2|].
    intros p Hp. inversion Hp; subst. cbn [t_deadline]. destruct msg as [[h|]|e]; lia.
  - intros q Hq. unfold prune_previous in Hq. destruct (a_previous a) as [m|]; [|discriminate].
    destruct (is_expired_at m n); [discriminate|]. apply H3. exact Hq.
Qed.

(** * What every reachable state satisfies *)
Definition RI (k : core) : Prop :=
  sq_inv (r_sq k) /\ word32 (sq_corr (r_sq k)) /\ asm_bounded (r_asm k) (sym k)
  /\ sq_fill (r_sq k) <= HISTORY_SYMBOLS.

Lemma RI_init : RI core_init.
Proof.
  split; [apply sq_init_inv|]. split; [apply word32_0|]. split; [|cbn; unfold HISTORY_SYMBOLS; lia].
  split; [constructor|]. split; intros x Hx; discriminate.
Qed.

Lemma sq_input_corr me s b po pc :
  sq_corr (snd (sq_input me s b po pc)) = push_bit (sq_corr s) b
  /\ sq_fill (snd (sq_input me s b po pc)) = N.min (sq_fill s + 1) HISTORY_SYMBOLS.
Proof.
  unfold sq_input. fold (push_bit (sq_corr s) b).
  destruct (N.min (sq_fill s + 1) HISTORY_SYMBOLS <? HISTORY_SYMBOLS); [split; reflexivity|].
  match goal with |- context [if ?c then _ else _] => destruct c end.
  - destruct (sq_clock s) as [[|p]|]; split; reflexivity.
  - destruct (sq_clock s) as [[|p]|]; [| |split; reflexivity];
      (destruct (push_wrapping (sq_phist s) pc) as [|front ph]; [split; reflexivity|]; destruct (negb front); split; reflexivity).
Qed.

Lemma linklayer_corr c s f t l s' f' u :
  linklayer_symbol c s f t = (l, s', f', u) ->
  sq_corr s' = push_bit (sq_corr s) (t_bit t) /\ sq_fill s' = N.min (sq_fill s + 1) HISTORY_SYMBOLS.
Proof.
  unfold linklayer_symbol.
  pose proof (sq_input_corr (preamble_max_errors c) s (t_bit t) (t_popen t) (t_pclose t)) as Hs.
  destruct (sq_input (preamble_max_errors c) s (t_bit t) (t_popen t) (t_pclose t)) as [o s1]. cbn [snd] in Hs.
  destruct o as [| | |rs hb|]; try (destruct (framer_end f) as [l0 f0]; intros X; inversion X; subst; exact Hs).
  destruct (framer_input (fc c) f (t_eq t) rs) as [l0 f0].
  destruct l0; intros X; inversion X; subst; exact Hs.
Qed.

Lemma transport_bounded c a l n samples force ot a' f' now :
  asm_bounded a now -> now <= n -> transportlayer c a l n samples force = (ot, a', f') -> asm_bounded a' n.
Proof.
  intros Hb Hn. pose proof (asm_bounded_weaken a now n Hb Hn) as Hb'. unfold transportlayer.
  destruct l as [| | |b].
  - destruct (match force with Some tm => tm <? samples | None => false end).
    + intros X; inversion X; subst; exact Hb'.
    + pose proof (asm_idle_bounded a n Hb') as Hi. destruct (asm_idle a n) as [t0 a0]. intros X; inversion X; subst. exact Hi.
  - destruct (match force with Some tm => tm <? samples | None => false end); intros X; inversion X; subst; exact Hb'.
  - destruct (match force with Some tm => tm <? samples | None => false end); intros X; inversion X; subst; exact Hb'.
  - pose proof (asm_assemble_bounded a b n Hb') as Hi. destruct (asm_assemble a b n) as [t0 a0]. intros X; inversion X; subst. exact Hi.
Qed.

Lemma step_RI c k i : RI k -> RI (fst (step_core c k i)).
Proof.
  intros (Hi & Hw & Hb & Hf). unfold step_core. destruct i as [|t]; [cbn [fst]; split; [exact Hi|split; [exact Hw|split; [exact Hb|exact Hf]]]|].
  destruct (linklayer_symbol c (r_sq k) (r_fr k) t) as [[[l sq'] fr'] u] eqn:El.
  destruct (linklayer_inv _ _ _ _ _ _ _ _ Hi El) as (Hi' & _).
  destruct (linklayer_corr _ _ _ _ _ _ _ _ El) as (Hc' & Hf0).
  assert (sq_fill sq' <= HISTORY_SYMBOLS) as Hf' by (rewrite Hf0; unfold HISTORY_SYMBOLS; lia).
  pose proof (linklayer_symcount _ _ _ _ _ _ _ _ El) as Hs'.
  destruct (transportlayer c (r_asm k) l (sq_symcount sq') (r_samples k + 1) (r_force_eom k)) as [[ot a'] f'] eqn:Et.
  assert (asm_bounded a' (sq_symcount sq')) as Hb'.
  { eapply transport_bounded; [exact Hb| |exact Et]. unfold sym. lia. }
  assert (word32 (sq_corr sq')) as Hw' by (rewrite Hc'; apply push_word32, Hw).
  destruct ot as [t'|]; [destruct (transport_eqb t' (r_transport k))|]; cbn [fst]; (split; [exact Hi'|split; [exact Hw'|split; [exact Hb'|exact Hf']]]).
Qed.

Theorem reachable_RI c : forall src k, RI k -> RI (snd (run_core c k src)).
Proof.
  induction src as [|i src IH]; intros k Hk; cbn [run_core]; [exact Hk|].
  pose proof (step_RI c k i Hk) as Hk'. destruct (step_core c k i) as [k' e]. cbn [fst] in Hk'.
  specialize (IH k' Hk'). destruct (run_core c k' src) as [e' kf]. exact IH.
Qed.

(** * Phase 1: 32 silent symbols idle the link layer *)
Definition linkcalm (k : core) : Prop :=
  sq_clock (r_sq k) = None /\ sq_lock (r_sq k) = false /\ r_fr k = FIdle
  /\ sq_fill (r_sq k) = HISTORY_SYMBOLS /\ word32 (sq_corr (r_sq k))
  /\ sq_phist (r_sq k) = repeat false POWER_HISTORY.

Lemma step_core_link c k t l s' f' u :
  linklayer_symbol c (r_sq k) (r_fr k) t = (l, s', f', u) ->
  r_sq (fst (step_core c k (Tick t))) = s' /\ r_fr (fst (step_core c k (Tick t))) = f'.
Proof.
  intros El. unfold step_core. rewrite El.
  destruct (transportlayer c (r_asm k) l (sq_symcount s') (r_samples k + 1) (r_force_eom k)) as [[ot a'] fo'].
  destruct ot as [t'|]; [destruct (transport_eqb t' (r_transport k))|]; split; reflexivity.
Qed.

Lemma run_core_link c : forall ts k,
  (r_sq (snd (run_core c k (map Tick ts))), r_fr (snd (run_core c k (map Tick ts))))
  = link_run c (r_sq k) (r_fr k) ts.
Proof.
  induction ts as [|t ts IH]; intros k; cbn [map run_core link_run]; [reflexivity|].
  destruct (linklayer_symbol c (r_sq k) (r_fr k) t) as [[[l sq'] fr'] u] eqn:El.
  destruct (step_core_link c k t l sq' fr' u El) as [E1 E2].
  destruct (step_core c k (Tick t)) as [k1 e1]. cbn [fst] in E1, E2.
  specialize (IH k1). rewrite E1, E2 in IH.
  destruct (run_core c k1 (map Tick ts)) as [e kf]. cbn [snd] in *. exact IH.
Qed.

Lemma link_run_fill c : forall ts s f,
  sq_fill s <= HISTORY_SYMBOLS ->
  N.min (sq_fill s + N.of_nat (length ts)) HISTORY_SYMBOLS = sq_fill (fst (link_run c s f ts)).
Proof.
  induction ts as [|t ts IH]; intros s f Hs; cbn [link_run length fst].
  - unfold HISTORY_SYMBOLS in *. lia.
  - destruct (linklayer_symbol c s f t) as [[[l s1] f1] u] eqn:E.
    destruct (linklayer_corr _ _ _ _ _ _ _ _ E) as (_ & Hf).
    rewrite <- (IH s1 f1) by (rewrite Hf; unfold HISTORY_SYMBOLS; lia). rewrite Hf. unfold HISTORY_SYMBOLS in *. lia.
Qed.

Lemma all_false_repeat l : all_false l -> l = repeat false (length l).
Proof.
  unfold all_false. induction l as [|b l IH]; [reflexivity|]. cbn [forallb length repeat].
  intros H. apply andb_prop in H. destruct H as [Hb Hl]. destruct b; [discriminate|]. f_equal. apply IH, Hl.
Qed.

Lemma silence_calms_link c k ts :
  RI k -> Forall silent ts -> (32 <= length ts)%nat -> linkcalm (snd (run_core c k (map Tick ts))).
Proof.
  intros (Hi & Hw & Hb & Hfill) Hs Hl.
  pose proof (reachable_RI c (map Tick ts) k (conj Hi (conj Hw (conj Hb Hfill)))) as (Hi' & Hw' & _).
  pose proof (run_core_link c ts k) as E.
  destruct (exists_last (l := ts)) as (ts0 & t & ->); [intros ->; cbn in Hl; lia|].
  apply Forall_app in Hs. destruct Hs as [Hs0 Ht]. inversion Ht as [|? ? Ht' _]; subst.
  rewrite app_length in Hl. cbn [length] in Hl.
  pose proof (silence_recovers c ts0 t (r_sq k) (r_fr k) Hi Hs0 ltac:(lia) Ht') as R.
  pose proof (link_run_silent_suffix c (ts0 ++ [t]) (r_sq k) (r_fr k) 0 Hi) as S.
  assert (Forall silent (ts0 ++ [t])) as Hall by (apply Forall_app; split; [exact Hs0|constructor; [exact Ht'|constructor]]).
  assert (suffix_false 0 (sq_phist (r_sq k))) as Hz by (exists (sq_phist (r_sq k)), []; rewrite app_nil_r; repeat split; reflexivity).
  specialize (S Hall Hz).
  pose proof (link_run_fill c (ts0 ++ [t]) (r_sq k) (r_fr k)) as F.
  destruct (link_run c (r_sq k) (r_fr k) (ts0 ++ [t])) as [s' f'] eqn:El. cbn [fst] in F.
  destruct R as (R1 & R2 & R3 & R4). destruct S as (_ & S2).
  inversion E as [[E1 E2]]. unfold linkcalm. rewrite E1, E2.
  split; [exact R1|]. split; [exact R2|]. split; [exact R3|].
  split.
  { rewrite <- F by exact Hfill. rewrite app_length. cbn [length]. unfold HISTORY_SYMBOLS in *. lia. }
  split; [rewrite <- E1; exact Hw'|].
  rewrite app_length in S2. cbn [length] in S2.
  replace (Nat.min (0 + (length ts0 + 1)) POWER_HISTORY) with POWER_HISTORY in S2 by (unfold POWER_HISTORY; lia).
  destruct R4 as (_ & _ & Hlen).
  pose proof (suffix_full_all_false _ Hlen S2) as Haf.
  destruct S2 as (a & b & Eab & Hbl & _).
  assert (length (sq_phist s') = POWER_HISTORY) as Hl32.
  { rewrite Eab, app_length in *. lia. }
  rewrite (all_false_repeat _ Haf), Hl32. reflexivity.
Qed.

(** * Phase 2: with the link idle every symbol polls the assembler, or fires the timer *)
Definition next_sq (k : core) (t : tick) : sq :=
  mkSq (push_bit (sq_corr (r_sq k)) (t_bit t)) HISTORY_SYMBOLS (repeat false POWER_HISTORY) None false (sym k + 1).

Lemma linkcalm_link c k t : linkcalm k -> silent t ->
  linklayer_symbol c (r_sq k) (r_fr k) t = (LNoCarrier, next_sq k t, FIdle, false).
Proof.
  destruct k as [s f a l tr n fo]. destruct s as [corr fill ph cl lk sy].
  unfold linkcalm, silent, next_sq, sym. cbn [r_sq r_fr sq_corr sq_fill sq_phist sq_clock sq_lock sq_symcount].
  intros (-> & -> & -> & -> & _ & ->) [Hpo Hpc].
  unfold linklayer_symbol, sq_input. rewrite Hpo, Hpc.
  cbn [sq_corr sq_fill sq_phist sq_clock sq_lock sq_symcount]. rewrite andb_false_r.
  fold (push_bit corr (t_bit t)).
  change (N.min (HISTORY_SYMBOLS + 1) HISTORY_SYMBOLS) with HISTORY_SYMBOLS.
  change (HISTORY_SYMBOLS <? HISTORY_SYMBOLS) with false. cbv iota.
  assert (push_wrapping (repeat false POWER_HISTORY) false = repeat false POWER_HISTORY) as -> by (vm_compute; reflexivity).
  reflexivity.
Qed.

Lemma next_sq_calm k t : word32 (sq_corr (r_sq k)) ->
  sq_clock (next_sq k t) = None /\ sq_lock (next_sq k t) = false /\ sq_fill (next_sq k t) = HISTORY_SYMBOLS
  /\ word32 (sq_corr (next_sq k t)) /\ sq_phist (next_sq k t) = repeat false POWER_HISTORY.
Proof. intros Hw. repeat split. cbn [next_sq sq_corr]. apply push_word32, Hw. Qed.

Definition timer_fires (k : core) : bool :=
  match r_force_eom k with Some tm => tm <? r_samples k + 1 | None => false end.

(** one silent symbol on a link-calm state, in closed form *)
Lemma linkcalm_step c k t : linkcalm k -> silent t ->
  exists tr' evs,
    step_core c k (Tick t) =
      (mkCore (next_sq k t) FIdle
              (if timer_fires k then r_asm k else snd (asm_idle (r_asm k) (sym k + 1)))
              LNoCarrier tr' (r_samples k + 1)
              (if timer_fires k then None
               else match fst (asm_idle (r_asm k) (sym k + 1)) with
                    | TMessage (Ok (SOM _)) => Some (r_samples k + 1 + MAX_MESSAGE_DURATION_SECS * input_rate c)
                    | TMessage (Ok EOM) => None
                    | _ => r_force_eom k
                    end), evs)
    /\ (timer_fires k = false -> fst (asm_idle (r_asm k) (sym k + 1)) = TIdle -> tr' = TIdle).
Proof.
  intros Hc Hs. unfold step_core. rewrite (linkcalm_link c k t Hc Hs).
  assert (forall l0, (if negb (link_eqb LNoCarrier l0) then LNoCarrier else l0) = LNoCarrier) as Hl by (intros [| | |b]; reflexivity).
  rewrite Hl. unfold transportlayer, timer_fires.
  change (sq_symcount (next_sq k t)) with (sym k + 1).
  destruct (match r_force_eom k with Some tm => tm <? r_samples k + 1 | None => false end).
  - destruct (transport_eqb (TMessage (Ok EOM)) (r_transport k)); eexists _, _; (split; [reflexivity|intros X; discriminate]).
  - destruct (asm_idle (r_asm k) (sym k + 1)) as [t0 a0]. cbn [fst snd].
    destruct (transport_eqb t0 (r_transport k)) eqn:Eq; eexists _, _; (split; [reflexivity|]); intros _ ->.
    + destruct (r_transport k) as [| |r]; [reflexivity|discriminate|discriminate].
    + reflexivity.
Qed.

Definition P2 (t0 : N) (k : core) : Prop :=
  linkcalm k /\ t0 <= sym k
  /\ Forall (fun e => t_deadline e <= t0 + HD) (a_history (r_asm k))
  /\ (forall p, a_pending (r_asm k) = Some p ->
        t_deadline p <= t0 + IB
        /\ (sym k < t_deadline p
            \/ (r_force_eom k = None /\ (t_deadline p = sym k \/ sym k <= t0 + 1))
            \/ sym k <= t0))
  /\ (forall q, a_previous (r_asm k) = Some q -> t_deadline q <= t0 + IB + 1 + HD).

Lemma P2_start k : linkcalm k -> asm_bounded (r_asm k) (sym k) -> P2 (sym k) k.
Proof.
  intros Hc (H1 & H2 & H3). split; [exact Hc|]. split; [lia|]. split; [exact H1|]. split.
  - intros p Hp. split; [apply H2, Hp|]. right. right. lia.
  - intros q Hq. specialize (H3 q Hq). lia.
Qed.

Lemma P2_step c t0 k t :
  P2 t0 k -> silent t ->
  P2 t0 (fst (step_core c k (Tick t)))
  /\ sym (fst (step_core c k (Tick t))) = sym k + 1
  /\ r_link (fst (step_core c k (Tick t))) = LNoCarrier
  /\ (r_force_eom k = None -> stale (r_asm k) (sym k) ->
        r_transport (fst (step_core c k (Tick t))) = TIdle
        /\ r_force_eom (fst (step_core c k (Tick t))) = None
        /\ stale (r_asm (fst (step_core c k (Tick t)))) (sym k + 1)).
Proof.
  intros (Hc & Ht0 & Hh & Hp & Hq) Hs.
  destruct (linkcalm_step c k t Hc Hs) as (tr' & evs & E & Htr). rewrite E. cbn [fst].
  pose proof IB_ge_1 as Hib.
  destruct Hc as (_ & _ & _ & _ & Hw & _).
  destruct (next_sq_calm k t Hw) as (C1 & C2 & C3 & C4 & C5).
  assert (linkcalm (mkCore (next_sq k t) FIdle
            (if timer_fires k then r_asm k else snd (asm_idle (r_asm k) (sym k + 1))) LNoCarrier tr' (r_samples k + 1)
            (if timer_fires k then None
             else match fst (asm_idle (r_asm k) (sym k + 1)) with
                  | TMessage (Ok (SOM _)) => Some (r_samples k + 1 + MAX_MESSAGE_DURATION_SECS * input_rate c)
                  | TMessage (Ok EOM) => None
                  | _ => r_force_eom k
                  end))) as Hc'.
  { unfold linkcalm. cbn [r_sq r_fr]. repeat split; assumption. }
  split; [|split; [reflexivity|split; [reflexivity|]]].
  - (* the invariant *)
    split; [exact Hc'|]. unfold sym in *. cbn [r_sq r_asm r_force_eom next_sq sq_symcount]. unfold sym.
    split; [lia|].
    destruct (timer_fires k) eqn:Etf.
    + (* the timer fired: the assembler was not polled *)
      split; [exact Hh|]. split; [|exact Hq].
      intros p Ep. destruct (Hp p Ep) as (Hd & Hcase). split; [exact Hd|].
      assert (r_force_eom k <> None) as Hfo by (unfold timer_fires in Etf; destruct (r_force_eom k); [discriminate|discriminate]).
      destruct Hcase as [Hlt|[(Hn & _)|Hle]].
      * destruct (N.eq_dec (t_deadline p) (sq_symcount (r_sq k) + 1)) as [He|He]; [right; left; split; [reflexivity|left; exact He]|left; lia].
      * contradiction.
      * right. left. split; [reflexivity|right; lia].
    + (* the assembler was polled at sym + 1 *)
      destruct (idle_analysis (r_asm k) (sq_symcount (r_sq k) + 1)) as (Eh & Hcases).
      split; [rewrite Eh; apply prune_history_Forall, Hh|].
      destruct Hcases as [(p & Ep & Hdue & Hnone & Hprev)|(Hnot & Hsame & Hprev)].
      * split; [rewrite Hnone; intros q Hq'; discriminate|].
        destruct Hprev as [Hprev|(m & Hprev)]; rewrite Hprev; [exact Hq|].
        intros q Hq'. inversion Hq'; subst. cbn [t_deadline].
        destruct (Hp p Ep) as (Hd & Hcase). destruct Hcase as [Hlt|[(_ & [He|Hle])|Hle]]; lia.
      * split; [|rewrite Hprev; exact Hq].
        rewrite Hsame. intros p Ep. destruct (Hp p Ep) as (Hd & _). split; [exact Hd|]. left. apply Hnot, Ep.
  - (* no timer armed and nothing left in the assembler: a plain idle poll *)
    intros Hfo Hst. cbn [r_transport r_force_eom r_asm].
    assert (timer_fires k = false) as Etf by (unfold timer_fires; rewrite Hfo; reflexivity). rewrite Etf.
    destruct (stale_idle (r_asm k) (sym k) (sym k + 1) Hst ltac:(lia)) as [Hi Hst'].
    rewrite Hi. split; [apply Htr; [exact Etf|exact Hi]|]. split; [exact Hfo|exact Hst'].
Qed.

Lemma P2_run c t0 : forall ts k,
  P2 t0 k -> Forall silent ts ->
  P2 t0 (snd (run_core c k (map Tick ts)))
  /\ sym (snd (run_core c k (map Tick ts))) = sym k + N.of_nat (length ts).
Proof.
  induction ts as [|t ts IH]; intros k Hp Hs; cbn [map run_core length].
  - cbn [snd]. split; [exact Hp|lia].
  - inversion Hs as [|? ? Ht Hs']; subst.
    destruct (P2_step c t0 k t Hp Ht) as (Hp' & Hsym & _).
    destruct (step_core c k (Tick t)) as [k1 e1]. cbn [fst] in *.
    destruct (IH k1 Hp' Hs') as (Hp'' & Hsym'').
    destruct (run_core c k1 (map Tick ts)) as [e2 kf]. cbn [snd] in *.
    split; [exact Hp''|]. rewrite Hsym'', Hsym. lia.
Qed.

Lemma P2_stale t0 k : P2 t0 k -> t0 + IB + 1 + HD <= sym k -> stale (r_asm k) (sym k).
Proof.
  intros (_ & _ & Hh & Hp & Hq) Hn. pose proof IB_ge_1 as Hib. split; [|split].
  - eapply Forall_impl; [|exact Hh]. cbv beta. intros e He. lia.
  - destruct (a_pending (r_asm k)) as [p|] eqn:Ep; [|reflexivity]. exfalso.
    destruct (Hp p eq_refl) as (Hd & [H|[(_ & [H|H])|H]]); lia.
  - intros q Eq. specialize (Hq q Eq). lia.
Qed.

(** ** Silence quiesces every reachable state, up to the end-of-message timer *)
Theorem silence_quiesces c k ts1 ts2 t :
  RI k -> Forall silent ts1 -> Forall silent ts2 -> silent t ->
  (32 <= length ts1)%nat -> IB + 1 + HD <= N.of_nat (length ts2) ->
  r_force_eom (snd (run_core c k (map Tick (ts1 ++ ts2)))) = None ->
  quiesced (snd (run_core c k (map Tick (ts1 ++ ts2 ++ [t])))).
Proof.
  intros Hri H1 H2 Ht Hl1 Hl2 Hfo.
  assert (forall k0 a b, snd (run_core c k0 (a ++ b)) = snd (run_core c (snd (run_core c k0 a)) b)) as Happ.
  { intros k0 a. revert k0. induction a as [|i a IH]; intros k0 b; cbn [app run_core snd]; [reflexivity|].
    destruct (step_core c k0 i) as [k1 e1]. specialize (IH k1 b).
    destruct (run_core c k1 (a ++ b)) as [e2 k2]. destruct (run_core c k1 a) as [e3 k3]. cbn [snd] in *. exact IH. }
  rewrite app_assoc, map_app, Happ. rewrite map_app, Happ in Hfo |- *.
  set (k1 := snd (run_core c k (map Tick ts1))) in *.
  pose proof (silence_calms_link c k ts1 Hri H1 Hl1) as Hc1. fold k1 in Hc1.
  pose proof (reachable_RI c (map Tick ts1) k Hri) as (_ & _ & Hb1 & _). fold k1 in Hb1.
  pose proof (P2_start k1 Hc1 Hb1) as Hp1.
  destruct (P2_run c (sym k1) ts2 k1 Hp1 H2) as (Hp2 & Hsym2).
  set (k2 := snd (run_core c k1 (map Tick ts2))) in *.
  assert (stale (r_asm k2) (sym k2)) as Hst2 by (apply (P2_stale (sym k1)); [exact Hp2|lia]).
  cbn [map run_core].
  destruct (P2_step c (sym k1) k2 t Hp2 Ht) as (Hp3 & Hsym3 & Hlink3 & Hrest).
  destruct (Hrest Hfo Hst2) as (Htr3 & Hfo3 & Hst3).
  destruct (step_core c k2 (Tick t)) as [k3 e3]. cbn [fst snd] in *.
  destruct Hp3 as ((C1 & C2 & C3 & C4 & C5 & C6) & _).
  unfold quiesced. split; [unfold calm; repeat split; assumption|].
  split; [unfold sym in Hsym3, Hst3; rewrite Hsym3; exact Hst3|].
  split; [exact C4|]. split; [exact C5|exact C6].
Qed.

(** ** C10, discrete receiver, end to end.  Whatever [hostile] input a new receiver has seen:
    after enough silence to idle the link and expire the assembler's records (6367 symbols), with
    no end-of-message timer left armed, 32 further silent symbols and then ANY input [src] produce
    exactly the events a new receiver produces on the same 32 symbols and [src], with the
    timestamps offset by the samples consumed before. *)
Theorem hostile_audio_has_no_lasting_effect c hostile ts1 ts2 t sil src :
  Forall silent ts1 -> Forall silent ts2 -> silent t ->
  (32 <= length ts1)%nat -> IB + 1 + HD <= N.of_nat (length ts2) ->
  r_force_eom (snd (run_core c core_init (hostile ++ map Tick (ts1 ++ ts2)))) = None ->
  length sil = 32%nat -> Forall silent sil ->
  let k := snd (run_core c core_init (hostile ++ map Tick (ts1 ++ ts2 ++ [t]))) in
  fst (run_core c k (map Tick sil ++ src))
  = map (shift_ev (r_samples k)) (fst (run_core c core_init (map Tick sil ++ src))).
Proof.
  intros H1 H2 Ht Hl1 Hl2 Hfo Hl Hs k.
  assert (forall k0 a b, snd (run_core c k0 (a ++ b)) = snd (run_core c (snd (run_core c k0 a)) b)) as Happ.
  { intros k0 a. revert k0. induction a as [|i a IH]; intros k0 b; cbn [app run_core snd]; [reflexivity|].
    destruct (step_core c k0 i) as [k1 e1]. specialize (IH k1 b).
    destruct (run_core c k1 (a ++ b)) as [e2 k2]. destruct (run_core c k1 a) as [e3 k3]. cbn [snd] in *. exact IH. }
  apply quiesced_receiver_is_as_new; [|exact Hl|exact Hs].
  unfold k. rewrite Happ. rewrite Happ in Hfo.
  apply silence_quiesces; try assumption.
  apply reachable_RI, RI_init.
Qed.

(** ** The premises are satisfiable by a non-trivial history: 48 loud symbols carrying the preamble
    pattern (the squelch synchronises: byte clock running, framer searching), then silence *)
Definition quiet_tick : tick := mkTick false false false 0.
Definition loud_tick (b : bool) : tick := mkTick b true true 171.
Definition preamble_bits : list bool := [true; true; false; true; false; true; false; true].   (* 0xAB, LSb first *)
Definition hostile_example : list item :=
  map Tick (map loud_tick (preamble_bits ++ preamble_bits ++ preamble_bits ++ preamble_bits ++ preamble_bits ++ preamble_bits)).
Definition example_cfg : rcfg := mkRcfg 2 (mkFcfg 2 5) 22050.

Example hostile_example_is_not_calm :
  sq_clock (r_sq (snd (run_core example_cfg core_init hostile_example))) <> None
  /\ r_fr (snd (run_core example_cfg core_init hostile_example)) <> FIdle.
Proof. vm_compute. split; discriminate. Qed.

Example no_lasting_effect_premises_hold :
  let ts1 := repeat quiet_tick 32 in
  let ts2 := repeat quiet_tick (N.to_nat (IB + 1 + HD)) in
  Forall silent ts1 /\ Forall silent ts2 /\ silent quiet_tick
  /\ (32 <= length ts1)%nat /\ IB + 1 + HD <= N.of_nat (length ts2)
  /\ r_force_eom (snd (run_core example_cfg core_init (hostile_example ++ map Tick (ts1 ++ ts2)))) = None.
Proof.
  cbv zeta.
  assert (forall n, Forall silent (repeat quiet_tick n)) as Hs.
  { intros n. apply Forall_forall. intros x Hx. apply repeat_spec in Hx. subst. split; reflexivity. }
  split; [apply Hs|]. split; [apply Hs|]. split; [split; reflexivity|].
  split; [rewrite repeat_length; lia|]. split; [rewrite repeat_length; lia|].
  vm_compute. reflexivity.
Qed.
