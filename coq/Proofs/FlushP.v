(** C14: nothing is lost at end of input.  (1) [flush()] = the first successfully decoded
    message of what the zero padding makes the receiver produce, queued events first, and
    repeated calls continue from there; (2) on a quiet channel (carrier dropped, framer idle)
    every symbol polls the assembler, so a held message is delivered once enough symbols arrive. *)
From Sameold Require Import Base.Bytes Model.Header Model.Combiner Model.Framer Model.Squelch
  Model.Assembler Model.Receiver Proofs.ReceiverP Proofs.AssemblerP Proofs.ClosureP.
From Coq Require Import ZifyBool ZifyN ZifyNat.
Arguments N.add : simpl never.
Arguments N.leb : simpl never.
Arguments N.ltb : simpl never.

Fixpoint first_msg (evs : list event) : option message :=
  match evs with
  | [] => None
  | e :: r => match msg_of e with Some m => Some m | None => first_msg r end
  end.

Fixpoint after_first_msg (evs : list event) : list event :=
  match evs with
  | [] => []
  | e :: r => match msg_of e with Some _ => r | None => after_first_msg r end
  end.

(** with enough calls: the result is the first Ok message among (queued events ++ events of
    the padding); what is left queued and still to come is exactly what followed it *)
Theorem next_message_spec c : forall fuel s src,
  let all := r_queue s ++ fst (run_core c (r_core s) src) in
  (length all < fuel)%nat ->
  let '(m, s', rest) := next_message fuel c s src in
  m = first_msg all
  /\ r_queue s' ++ fst (run_core c (r_core s') rest) = after_first_msg all.
Proof.
  induction fuel as [|f IH]; intros s src all Hf; [lia|].
  cbn [next_message]. pose proof (process_spec c s src) as P.
  destruct (process c s src) as [[oe s1] rest]. destruct oe as [e|].
  - destruct P as (P1 & _). fold all in P1.
    destruct (msg_of e) as [m|] eqn:Em.
    + rewrite P1. cbn [first_msg after_first_msg]. rewrite Em. split; reflexivity.
    + specialize (IH s1 rest). cbv zeta in IH.
      assert (length (r_queue s1 ++ fst (run_core c (r_core s1) rest)) < f)%nat as Hf'.
      { rewrite P1 in Hf. cbn [length] in Hf. lia. }
      specialize (IH Hf'). destruct (next_message f c s1 rest) as [[m s'] rest'].
      rewrite P1. cbn [first_msg after_first_msg]. rewrite Em. exact IH.
  - destruct P as (P1 & P2 & P3 & P4). fold all in P1. rewrite P1. cbn [first_msg after_first_msg].
    rewrite P3, P2. cbn [run_core fst app]. split; reflexivity.
Qed.

(** * Quiet-channel symbols poll the assembler *)
Definition quiet_item (i : item) : Prop := match i with NoTick => True | Tick t => t_popen t = false end.

Fixpoint ticks_in (l : list item) : N :=
  match l with [] => 0 | NoTick :: r => ticks_in r | Tick _ :: r => 1 + ticks_in r end.

Lemma sq_input_quiet me s bit pc :
  sq_clock s = None ->
  exists s', sq_input me s bit false pc = (SqNoCarrier, s') /\ sq_clock s' = None
             /\ sq_symcount s' = sq_symcount s + 1.
Proof.
  intros Hc. unfold sq_input. rewrite Hc.
  destruct (N.min (sq_fill s + 1) HISTORY_SYMBOLS <? HISTORY_SYMBOLS).
  - eexists. split; [reflexivity|]. split; reflexivity.
  - rewrite andb_false_r. eexists. split; [reflexivity|]. split; reflexivity.
Qed.

Definition msg_event (m : message) (tm : N) : event := mkEvent (WTransport (TMessage (Ok m))) tm.

(** one symbol on a quiet channel: the assembler is polled at the new symbol count and whatever
    it returns becomes the transport state, reported as an event if it differs from the last *)
Lemma step_quiet c k t :
  sq_clock (r_sq k) = None -> r_fr k = FIdle -> r_force_eom k = None -> t_popen t = false ->
  exists k' evs, step_core c k (Tick t) = (k', evs)
    /\ sq_clock (r_sq k') = None /\ r_fr k' = FIdle
    /\ sq_symcount (r_sq k') = sq_symcount (r_sq k) + 1
    /\ r_asm k' = snd (asm_idle (r_asm k) (sq_symcount (r_sq k) + 1))
    /\ r_transport k' = fst (asm_idle (r_asm k) (sq_symcount (r_sq k) + 1))
    /\ (fst (asm_idle (r_asm k) (sq_symcount (r_sq k) + 1)) <> r_transport k ->
        In (mkEvent (WTransport (fst (asm_idle (r_asm k) (sq_symcount (r_sq k) + 1)))) (r_samples k + 1)) evs)
    /\ ((forall r, fst (asm_idle (r_asm k) (sq_symcount (r_sq k) + 1)) <> TMessage r) -> r_force_eom k' = None).
Proof.
  intros Hc Hf Hfe Hpo. unfold step_core, linklayer_symbol. rewrite Hpo.
  destruct (sq_input_quiet (preamble_max_errors c) (r_sq k) (t_bit t) (t_pclose t) Hc) as (s1 & -> & Hc1 & Hs1).
  rewrite Hf. cbn [framer_end]. unfold transportlayer. rewrite Hfe, Hs1.
  destruct (asm_idle (r_asm k) (sq_symcount (r_sq k) + 1)) as [t' a'] eqn:Ea. cbn [fst snd].
  destruct (transport_eqb t' (r_transport k)) eqn:Et.
  - apply transport_eqb_eq in Et.
    eexists _, _. split; [reflexivity|]. cbn [r_sq r_fr r_asm r_transport r_force_eom].
    repeat split; try assumption; try reflexivity.
    + symmetry. exact Et.
    + intros Hne. contradiction.
    + intros Hn. destruct t' as [| |[[hh|]|e]]; try reflexivity; exfalso; eapply Hn; reflexivity.
  - eexists _, _. split; [reflexivity|]. cbn [r_sq r_fr r_asm r_transport r_force_eom].
    repeat split; try assumption; try reflexivity.
    + intros _. apply in_or_app. right. left. reflexivity.
    + intros Hn. destruct t' as [| |[[hh|]|e]]; try reflexivity; exfalso; eapply Hn; reflexivity.
Qed.

Theorem idle_ticks_release c : forall items k p m,
  sq_clock (r_sq k) = None -> r_fr k = FIdle -> r_force_eom k = None ->
  a_pending (r_asm k) = Some p -> t_data p = Ok m -> r_transport k <> TMessage (Ok m) ->
  Forall quiet_item items ->
  t_deadline p <= sq_symcount (r_sq k) + ticks_in items ->
  1 <= ticks_in items ->
  exists tm, In (msg_event m tm) (fst (run_core c k items)).
Proof.
  induction items as [|i items IH]; intros k p m Hc Hf Hfe Hp Hd Htr Hq Hdl H1; [cbn [ticks_in] in H1; lia|].
  inversion Hq as [|? ? Hqi Hq']; subst. cbn [run_core].
  destruct i as [|t].
  - cbn [step_core]. cbn [ticks_in] in *.
    specialize (IH (mkCore (r_sq k) (r_fr k) (r_asm k) (r_link k) (r_transport k) (r_samples k + 1) (r_force_eom k)) p m).
    cbn [r_sq r_fr r_asm r_transport r_force_eom] in IH.
    destruct (IH Hc Hf Hfe Hp Hd Htr Hq' Hdl H1) as (tm & Hin).
    destruct (run_core c _ items) as [evs kf]. cbn [fst app] in *. exists tm. exact Hin.
  - cbn [quiet_item] in Hqi. cbn [ticks_in] in *.
    destruct (step_quiet c k t Hc Hf Hfe Hqi) as (k1 & evs1 & -> & I1 & I2 & I3 & I4 & I5 & I6 & I7).
    set (sc := sq_symcount (r_sq k) + 1) in *.
    destruct (N.le_gt_cases (t_deadline p) sc) as [Hdue|Hnot].
    + destruct (idle_fire (r_asm k) sc p Hp Hdue) as [Ef _]. rewrite Ef, Hd in I6.
      destruct (run_core c k1 items) as [evs kf]. cbn [fst]. eexists. apply in_or_app. left.
      apply I6. intros E. apply Htr. symmetry. exact E.
    + assert (forall q, a_pending (r_asm k) = Some q -> sc < t_deadline q) as Hq2.
      { intros q Hq2. rewrite Hp in Hq2. inversion Hq2; subst. exact Hnot. }
      destruct (idle_hold (r_asm k) sc Hq2) as (Hpe & _ & Hnm).
      assert (1 <= ticks_in items) as H1' by (unfold sc in *; lia).
      destruct (IH k1 p m I1 I2 (I7 Hnm)) as (tm & Hin); try assumption.
      * rewrite I4. rewrite Hpe. exact Hp.
      * rewrite I5. intros E. exact (Hnm _ E).
      * rewrite I3. fold sc. lia.
      * destruct (run_core c k1 items) as [evs kf]. cbn [fst] in *. exists tm. apply in_or_app. right. exact Hin.
Qed.
