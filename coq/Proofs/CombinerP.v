(** Message-level facts about [estimate_message] / [combine]. *)
From Sameold Require Import Base.Bytes Model.Header Model.Combiner Proofs.Vote Proofs.HeaderP.
From Coq Require Import ZifyBool ZifyN ZifyNat.
Arguments N.add : simpl never.
Arguments N.sub : simpl never.
Arguments N.mul : simpl never.
Arguments N.leb : simpl never.
Arguments N.ltb : simpl never.
Arguments N.eqb : simpl never.
Local Opaque MAX_MESSAGE_LENGTH.

(** * Small facts about bytes (finite sweeps over 0..255, lifted) *)
Lemma sweep256 (P : N -> bool) :
  forallb P all_bytes_list = true -> forall a, a < 256 -> P a = true.
Proof. intros S a Ha. rewrite forallb_forall in S. apply S, in_all_bytes_list, Ha. Qed.

Lemma allowed_lt128 c : is_allowed_byte c = true -> c < 128.
Proof. unfold is_allowed_byte. lia. Qed.

Lemma mask7_small c : c < 128 -> mask7 c = c.
Proof.
  intros H.
  pose proof (sweep256 (fun c => implb (c <? 128) (mask7 c =? c)) eq_refl c) as S.
  cbv beta in S. lia.
Qed.

Lemma msb_small c : c < 128 -> msb c = false.
Proof.
  intros H.
  pose proof (sweep256 (fun c => implb (c <? 128) (negb (msb c))) eq_refl c) as S.
  cbv beta in S. destruct (msb c); [|reflexivity]. lia.
Qed.

Lemma mask7_lt128 x : x < 256 -> mask7 x < 128.
Proof.
  intros H. pose proof (sweep256 (fun c => mask7 c <? 128) eq_refl x H) as S. cbv beta in S. lia.
Qed.

Lemma zero_not_allowed : is_allowed_byte 0 = false.
Proof. reflexivity. Qed.

Lemma forallb_allowed_ascii H : forallb is_allowed_byte H = true -> is_ascii H = true.
Proof.
  unfold is_ascii. induction H as [|h H IH]; cbn [forallb]; [reflexivity|].
  intros E. apply andb_prop in E. destruct E as [E1 E2].
  apply allowed_lt128 in E1. rewrite (IH E2). lia.
Qed.

Lemma valid_utf8_ascii s : is_ascii s = true -> valid_utf8 s = true.
Proof.
  unfold is_ascii. induction s as [|c s IH]; [reflexivity|].
  cbn [forallb valid_utf8]. intros E. apply andb_prop in E. destruct E as [E1 E2].
  rewrite E1. apply IH, E2.
Qed.

(** * The three arrangements of two copies of [H] and a third burst [X] *)
Inductive pos3 := P0 | P1 | P2.
Definition arr (p : pos3) (H X : bytes) : list bytes :=
  match p with P0 => [X; H; H] | P1 => [H; X; H] | P2 => [H; H; X] end.

(** errors charged at a position where the good byte is [h] and the third burst has [x] *)
Definition E_byte (h x : N) : N := disagreements2 h (mask7 x) + b2n (msb x).

Lemma step_HHX h x :
  is_allowed_byte h = true -> x < 256 ->
  estimate_step [h; h; x] = Some (h, 3, E_byte h x) /\
  estimate_step [h; x; h] = Some (h, 3, E_byte h x) /\
  estimate_step [x; h; h] = Some (h, 3, E_byte h x).
Proof.
  intros Hh Hx. pose proof (allowed_lt128 h Hh) as Hh128.
  assert (h < 256) as Hh256 by lia.
  pose proof (mask7_lt128 x Hx) as Hm. assert (mask7 x < 256) as Hm256 by lia.
  destruct (vote3_two_equal_value h (mask7 x) Hh256 Hm256) as (V1 & V2 & V3).
  destruct (vote3_two_equal_errs h (mask7 x) Hh256 Hm256) as (E1 & E2 & E3).
  unfold estimate_step. cbn [map existsb length].
  rewrite (mask7_small h Hh128), (msb_small h Hh128). cbn [orb].
  repeat split.
  - rewrite (surjective_pairing (bit_vote_correct h h (mask7 x))), V1, E1, Hh.
    rewrite orb_false_r. reflexivity.
  - rewrite (surjective_pairing (bit_vote_correct h (mask7 x) h)), V2, E2, Hh.
    rewrite orb_false_r. reflexivity.
  - rewrite (surjective_pairing (bit_vote_correct (mask7 x) h h)), V3, E3, Hh.
    rewrite orb_false_r. reflexivity.
Qed.

Lemma step_HH h :
  is_allowed_byte h = true -> estimate_step [h; h] = Some (h, 2, 0).
Proof.
  intros Hh. pose proof (allowed_lt128 h Hh) as Hh128. assert (h < 256) as Hh256 by lia.
  unfold estimate_step. cbn [map existsb length].
  rewrite (mask7_small h Hh128), (msb_small h Hh128). cbn [orb].
  rewrite (vote2_spec h h Hh256 Hh256), N.eqb_refl, disagreements2_same, Hh. reflexivity.
Qed.

Lemma step_X x :
  estimate_step [x] =
  if is_allowed_byte (mask7 x) then Some (mask7 x, 1, b2n (msb x)) else None.
Proof.
  unfold estimate_step. cbn [map existsb length]. rewrite orb_false_r.
  destruct (is_allowed_byte (mask7 x)); reflexivity.
Qed.

Lemma heads_arr_cc p h H x X :
  heads (arr p (h :: H) (x :: X)) =
  match p with P0 => [x; h; h] | P1 => [h; x; h] | P2 => [h; h; x] end.
Proof. destruct p; reflexivity. Qed.
Lemma tails_arr_cc p h H x X : tails (arr p (h :: H) (x :: X)) = arr p H X.
Proof. destruct p; reflexivity. Qed.
Lemma heads_arr_cn p h H : heads (arr p (h :: H) []) = [h; h].
Proof. destruct p; reflexivity. Qed.
Lemma tails_arr_cn p h H : tails (arr p (h :: H) []) = arr p H [].
Proof. destruct p; reflexivity. Qed.
Lemma heads_arr_nc p x X : heads (arr p [] (x :: X)) = [x].
Proof. destruct p; reflexivity. Qed.
Lemma tails_arr_nc p x X : tails (arr p [] (x :: X)) = arr p [] X.
Proof. destruct p; reflexivity. Qed.
Lemma heads_arr_nn p : heads (arr p [] []) = [].
Proof. destruct p; reflexivity. Qed.

Definition e_byte (e : N * N * N) : N := fst (fst e).
Definition e_count (e : N * N * N) : N := snd (fst e).
Definition e_errs (e : N * N * N) : N := snd e.

(** what the estimator produces on the positions covered by [H] *)
Fixpoint zipHX (H X : bytes) : list (N * N * N) :=
  match H with
  | [] => []
  | h :: H' =>
    match X with
    | [] => (h, 2, 0) :: zipHX H' []
    | x :: X' => (h, 3, E_byte h x) :: zipHX H' X'
    end
  end.

Lemma est_tail_single p : forall fuel X,
  Forall (fun e => e_count e = 1) (estimate_loop fuel (arr p [] X)).
Proof.
  induction fuel as [|f IH]; intros X; cbn [estimate_loop]; [constructor|].
  destruct X as [|x X].
  - rewrite heads_arr_nn. cbn. constructor.
  - rewrite heads_arr_nc, step_X, tails_arr_nc.
    destruct (is_allowed_byte (mask7 x)); constructor; [reflexivity|apply IH].
Qed.

Lemma est_HHX p : forall H X fuel,
  (length H <= fuel)%nat -> forallb is_allowed_byte H = true -> all_bytes X = true ->
  exists tl, estimate_loop fuel (arr p H X) = zipHX H X ++ tl
             /\ Forall (fun e => e_count e = 1) tl.
Proof.
  induction H as [|h H IH]; intros X fuel Hlen Hall HX.
  - exists (estimate_loop fuel (arr p [] X)). split; [reflexivity|apply est_tail_single].
  - destruct fuel as [|f]; [cbn [length] in Hlen; lia|].
    cbn [forallb] in Hall. apply andb_prop in Hall. destruct Hall as [Hh Hall].
    cbn [length] in Hlen. assert (length H <= f)%nat as Hlen' by lia.
    cbn [estimate_loop zipHX]. destruct X as [|x X].
    + rewrite heads_arr_cn, (step_HH h Hh), tails_arr_cn.
      destruct (IH [] f Hlen' Hall eq_refl) as (tl & E & F).
      exists tl. rewrite E. split; [reflexivity|exact F].
    + unfold all_bytes in HX. cbn [forallb] in HX. apply andb_prop in HX. destruct HX as [Hx HX].
      assert (x < 256) as Hx' by (unfold is_byte in Hx; lia).
      destruct (step_HHX h x Hh Hx') as (S1 & S2 & S3).
      rewrite heads_arr_cc, tails_arr_cc.
      destruct (IH X f Hlen' Hall HX) as (tl & E & F).
      exists tl. rewrite E. split; [|exact F].
      destruct p; [rewrite S3|rewrite S2|rewrite S1]; reflexivity.
Qed.

(** specification of the two counters *)
Fixpoint parity_spec (H X : bytes) : N :=
  match H, X with
  | h :: H', x :: X' => E_byte h x + parity_spec H' X'
  | _, _ => 0
  end.
Definition voting_spec (H X : bytes) : N := N.of_nat (Nat.min (length H) (length X)).

Lemma zipHX_bytes H X : map e_byte (zipHX H X) = H.
Proof.
  revert X. induction H as [|h H IH]; intros X; [reflexivity|].
  cbn [zipHX]. destruct X; cbn [map]; rewrite IH; reflexivity.
Qed.

Lemma zipHX_counts_ge2 H X : Forall (fun c => 2 <= c) (map e_count (zipHX H X)).
Proof.
  revert X. induction H as [|h H IH]; intros X; [constructor|].
  cbn [zipHX]. destruct X; cbn [map]; constructor; try apply IH; cbn; lia.
Qed.

Lemma truncate_app src1 src2 c1 c2 :
  length src1 = length c1 -> Forall (fun c => 2 <= c) c1 ->
  match c2 with [] => True | c :: _ => c < 2 end ->
  truncate_with_reference (src1 ++ src2) (c1 ++ c2) 2 = src1.
Proof.
  revert c1. induction src1 as [|s src1 IH]; intros c1 Hl Hc Ht.
  - destruct c1; [|discriminate]. cbn [app].
    destruct src2 as [|s2 src2]; [destruct c2; reflexivity|].
    destruct c2 as [|c c2]; [reflexivity|]. cbn [truncate_with_reference].
    apply N.ltb_lt in Ht. rewrite Ht. reflexivity.
  - destruct c1 as [|c c1]; [discriminate|]. cbn [app truncate_with_reference].
    inversion Hc as [|? ? Hc1 Hc2]; subst.
    assert ((c <? 2) = false) as -> by lia.
    f_equal. apply IH; [cbn [length] in Hl; lia|assumption|assumption].
Qed.

Lemma zip_sum_parity H X r :
  zip_sum (fun e => e) (map e_errs (zipHX H X) ++ r) H = parity_spec H X.
Proof.
  revert X. induction H as [|h H IH]; intros X.
  - cbn [zipHX map app]. destruct r; reflexivity.
  - cbn [zipHX]. destruct X as [|x X]; cbn [map app zip_sum parity_spec e_errs snd].
    + rewrite IH. destruct H; reflexivity.
    + rewrite IH. reflexivity.
Qed.

Lemma zip_sum_voting H X r :
  zip_sum (fun c => b2n (MIN_BURSTS_FOR_VOTING <=? c)) (map e_count (zipHX H X) ++ r) H
  = voting_spec H X.
Proof.
  unfold voting_spec. revert X. induction H as [|h H IH]; intros X.
  - cbn [zipHX map app]. destruct r; reflexivity.
  - cbn [zipHX]. destruct X as [|x X]; cbn [map app zip_sum e_count fst snd length Nat.min].
    + rewrite IH. destruct H; reflexivity.
    + rewrite IH. change (b2n (MIN_BURSTS_FOR_VOTING <=? 3)) with 1. lia.
Qed.

(** * C03: two good copies decide the header, whatever the third burst is *)
Theorem combine_two_good p H X h0 :
  header_new H = Ok h0 -> h_text h0 = H ->
  forallb is_allowed_byte H = true ->
  (length H <= MAX_MESSAGE_LENGTH)%nat ->
  all_bytes X = true ->
  combine (arr p H X) =
  Some (Ok (SOM (mkHeader H (h_offset_time h0) (parity_spec H X) (voting_spec H X)))).
Proof.
  intros Hnew Htext Hall Hlen HX.
  destruct (header_new_ok_inv _ _ Hnew) as (Hascii & n & Hchk & _ & _ & _).
  destruct (est_HHX p H X MAX_MESSAGE_LENGTH Hlen Hall HX) as (tl & E & F).
  unfold combine, estimate_message.
  assert (firstn 3 (arr p H X) = arr p H X) as -> by (destruct p; reflexivity).
  rewrite E. rewrite !map_app.
  change (map (fun e : N * N * N => fst (fst e))) with (map e_byte).
  change (map (fun e : N * N * N => snd (fst e))) with (map e_count).
  change (map (fun e : N * N * N => snd e)) with (map e_errs).
  rewrite zipHX_bytes.
  destruct H as [|h H'] eqn:EH.
  { exfalso. unfold header_new in Hnew. cbn in Hnew. discriminate. }
  rewrite <- EH in *. clear EH h H'.
  assert (exists h H', H ++ map e_byte tl = h :: H') as (h' & H'' & Enz).
  { destruct H as [|a b]; [cbn in Hnew; discriminate|]. eexists _, _. reflexivity. }
  rewrite Enz. rewrite <- Enz. clear Enz h' H''.
  rewrite truncate_app.
  2:{ rewrite map_length. clear. revert X. induction H as [|h H IH]; intros X; [reflexivity|].
      cbn [zipHX]. destruct X; cbn [length]; f_equal; apply IH. }
  2:{ apply zipHX_counts_ge2. }
  2:{ destruct tl as [|e tl]; [exact I|]. cbn [map]. inversion F as [|? ? F1 F2]; subst. rewrite F1. lia. }
  unfold message_try_from_bytes.
  rewrite (valid_utf8_ascii H Hascii). cbn [negb].
  rewrite (check_header_starts H _ Hchk).
  unfold header_new_with_error_info, header_new_with_errors. rewrite Hnew.
  cbn [h_text h_offset_time h_parity h_voting]. rewrite Htext.
  rewrite (zip_sum_parity H X), (zip_sum_voting H X). reflexivity.
Qed.

(** * General characterisation: every output position is the vote of a column *)
Definition column (i : nat) (bs : list bytes) : bytes :=
  flat_map (fun b => match nth_error b i with Some c => [c] | None => [] end) bs.

Lemma heads_column bs : heads bs = column 0 bs.
Proof.
  unfold heads, column. induction bs as [|b bs IH]; [reflexivity|].
  cbn [flat_map]. rewrite IH. destruct b; reflexivity.
Qed.

Lemma column_tails i bs : column i (tails bs) = column (S i) bs.
Proof.
  unfold column, tails. induction bs as [|b bs IH]; [reflexivity|].
  cbn [map flat_map]. rewrite IH. f_equal. destruct b as [|c b]; [destruct i; reflexivity|reflexivity].
Qed.

Lemma estimate_loop_nth : forall fuel bs i e,
  nth_error (estimate_loop fuel bs) i = Some e -> estimate_step (column i bs) = Some e.
Proof.
  induction fuel as [|f IH]; intros bs i e; cbn [estimate_loop].
  - destruct i; discriminate.
  - destruct (estimate_step (heads bs)) as [e0|] eqn:E0.
    + destruct i as [|j]; cbn [nth_error].
      * intros E. inversion E; subst. rewrite <- heads_column. exact E0.
      * intros E. apply IH in E. rewrite column_tails in E. exact E.
    + destruct i; discriminate.
Qed.

Lemma estimate_loop_length fuel bs : (length (estimate_loop fuel bs) <= fuel)%nat.
Proof.
  revert bs. induction fuel as [|f IH]; intros bs; cbn [estimate_loop]; [cbn; lia|].
  destruct (estimate_step (heads bs)); cbn [length]; [specialize (IH (tails bs))|]; lia.
Qed.

(** what one column vote means, stated without reference to the implementation's formulas *)
Definition col_agreed (col : bytes) (v : N) : Prop :=
  match map mask7 col with
  | [a; b] => a = v /\ b = v
  | [a; b; c] => forall i, N.testbit v i = maj (N.testbit a i) (N.testbit b i) (N.testbit c i)
  | _ => False
  end.

Definition col_disagree (col : bytes) : N :=
  match map mask7 col with
  | [a; b] => disagreements2 a b
  | [a; b; c] => disagreements3 a b c
  | _ => 0
  end + b2n (existsb msb col).

Lemma estimate_step_spec col v c e :
  all_bytes col = true -> estimate_step col = Some (v, c, e) ->
  c = N.of_nat (length col) /\ is_allowed_byte v = true /\
  (2 <= c -> col_agreed col v /\ e = col_disagree col).
Proof.
  intros Hb. unfold estimate_step, col_agreed, col_disagree.
  assert (Forall (fun x => x < 256) (map mask7 col)) as Hm.
  { unfold all_bytes in Hb. rewrite forallb_forall in Hb. apply Forall_forall.
    intros x Hx. apply in_map_iff in Hx. destruct Hx as (y & <- & Hy).
    specialize (Hb _ Hy). unfold is_byte in Hb. pose proof (mask7_lt128 y). lia. }
  rewrite <- (map_length mask7 col).
  destruct (map mask7 col) as [|a [|b [|c0 [|d m]]]]; try discriminate.
  - destruct (is_allowed_byte a) eqn:A; [|discriminate]. intros E; inversion E; subst.
    split; [reflexivity|]. split; [exact A|]. cbn [length N.of_nat]. intros; lia.
  - inversion Hm as [|? ? Ha Hm']; subst. inversion Hm' as [|? ? Hb' _]; subst.
    rewrite (vote2_spec a b Ha Hb').
    destruct (N.eqb_spec a b) as [->|Hne].
    + destruct (is_allowed_byte b) eqn:A; [|discriminate]. intros E; inversion E; subst.
      split; [reflexivity|]. split; [exact A|]. intros _. split; [split; reflexivity|].
      unfold msb. lia.
    + rewrite zero_not_allowed. discriminate.
  - inversion Hm as [|? ? Ha Hm']; subst. inversion Hm' as [|? ? Hb' Hm'']; subst.
    inversion Hm'' as [|? ? Hc _]; subst.
    rewrite (surjective_pairing (bit_vote_correct a b c0)).
    destruct (is_allowed_byte (fst (bit_vote_correct a b c0))) eqn:A; [|discriminate].
    intros E; injection E as <- <- <-. split; [reflexivity|]. split; [exact A|]. intros _. split.
    + intros i. apply vote3_testbit; assumption.
    + f_equal. exact (vote3_errs a b c0 Ha Hb' Hc).
Qed.

(** * Prefixes and the counters *)
Fixpoint take_while {A} (p : A -> bool) (l : list A) : list A :=
  match l with [] => [] | x :: r => if p x then x :: take_while p r else [] end.

Definition prefix {A} (p l : list A) : Prop := exists r, l = p ++ r.

Lemma prefix_nth {A} (p l : list A) i e : prefix p l -> nth_error p i = Some e -> nth_error l i = Some e.
Proof.
  intros (r & ->) E. rewrite nth_error_app1; [exact E|]. apply nth_error_Some. congruence.
Qed.

Lemma take_while_prefix {A} (p : A -> bool) l : prefix (take_while p l) l.
Proof.
  induction l as [|x l (r & IH)]; [exists []; reflexivity|]. cbn [take_while].
  destruct (p x); [exists r; cbn; congruence|exists (x :: l); reflexivity].
Qed.

Lemma firstn_prefix {A} n (l : list A) : prefix (firstn n l) l.
Proof. exists (skipn n l). symmetry. apply firstn_skipn. Qed.

Lemma prefix_trans {A} (a b c : list A) : prefix a b -> prefix b c -> prefix a c.
Proof. intros (r1 & ->) (r2 & ->). exists (r1 ++ r2). apply app_assoc_reverse. Qed.

Lemma take_while_forall {A} (p : A -> bool) l : Forall (fun x => p x = true) (take_while p l).
Proof.
  induction l as [|x l IH]; [constructor|]. cbn [take_while].
  destruct (p x) eqn:E; constructor; assumption.
Qed.

Lemma truncate_entries l :
  truncate_with_reference (map e_byte l) (map e_count l) 2
  = map e_byte (take_while (fun e => 2 <=? e_count e) l).
Proof.
  induction l as [|e l IH]; [reflexivity|]. cbn [map truncate_with_reference take_while].
  destruct (N.ltb_spec (e_count e) 2) as [H|H].
  - assert ((2 <=? e_count e) = false) as -> by lia. reflexivity.
  - assert ((2 <=? e_count e) = true) as -> by lia. cbn [map]. rewrite IH. reflexivity.
Qed.

Definition Nsum (l : list N) : N := fold_right N.add 0 l.

Lemma zip_sum_prefix {A B} (f : N -> N) (g : A -> N) (k : A -> B) p l :
  prefix p l -> zip_sum f (map g l) (map k p) = Nsum (map (fun x => f (g x)) p).
Proof.
  intros (r & ->). induction p as [|x p IH]; cbn [map app zip_sum Nsum fold_right].
  - destruct (map g r); reflexivity.
  - rewrite IH. reflexivity.
Qed.

Lemma firstn_map {A B} (f : A -> B) n l : firstn n (map f l) = map f (firstn n l).
Proof. revert l. induction n; intros [|x l]; cbn; try reflexivity. rewrite IHn. reflexivity. Qed.

(** * Any header that [combine] produces is backed by its bursts *)
Theorem combine_som_entries bs h :
  (length bs <= 3)%nat ->
  combine bs = Some (Ok (SOM h)) ->
  exists entries : list (N * N * N),
    h_text h = map e_byte entries /\ entries <> []
    /\ (forall i e, nth_error entries i = Some e ->
          estimate_step (column i bs) = Some e /\ 2 <= e_count e)
    /\ h_parity h = Nsum (map e_errs entries)
    /\ h_voting h = Nsum (map (fun e => b2n (3 <=? e_count e)) entries).
Proof.
  intros Hlen. unfold combine, estimate_message.
  rewrite (firstn_all2 (n:=3) bs) by exact Hlen.
  set (l := estimate_loop MAX_MESSAGE_LENGTH bs).
  change (map (fun e : N * N * N => fst (fst e)) l) with (map e_byte l).
  change (map (fun e : N * N * N => snd (fst e)) l) with (map e_count l).
  change (map (fun e : N * N * N => snd e) l) with (map e_errs l).
  destruct (map e_byte l) as [|m0 ms] eqn:Emsg; [discriminate|]. rewrite <- Emsg. clear Emsg m0 ms.
  rewrite truncate_entries.
  set (tw := take_while (fun e => 2 <=? e_count e) l).
  assert (message_try_from_bytes (map e_byte tw) (map e_errs l) (map e_count l) = Ok (SOM h)
          -> exists entries, h_text h = map e_byte entries /\ entries <> []
             /\ (forall i e, nth_error entries i = Some e ->
                   estimate_step (column i bs) = Some e /\ 2 <= e_count e)
             /\ h_parity h = Nsum (map e_errs entries)
             /\ h_voting h = Nsum (map (fun e => b2n (3 <=? e_count e)) entries)) as Main.
  { unfold message_try_from_bytes.
    destruct (valid_utf8 (map e_byte tw)); cbn [negb]; [|discriminate].
    destruct (starts_with PREFIX_MESSAGE_START (map e_byte tw)).
    2:{ destruct (starts_with PREFIX_EOM2 (map e_byte tw)); discriminate. }
    unfold header_new_with_error_info, header_new_with_errors.
    destruct (header_new (map e_byte tw)) as [h1|] eqn:Hn; [|discriminate].
    destruct (header_new_ok_inv _ _ Hn) as (_ & n & _ & Ht & _ & _).
    cbn [h_text h_offset_time h_parity h_voting]. intros E. inversion E; subst h; clear E.
    cbn [h_text h_offset_time h_parity h_voting].
    rewrite Ht, firstn_map. set (entries := firstn n tw).
    assert (prefix entries l) as Hp.
    { eapply prefix_trans; [apply firstn_prefix|apply take_while_prefix]. }
    exists entries. split; [reflexivity|]. split.
    { pose proof (header_new_text_nonempty _ _ Hn) as Hne. rewrite Ht, firstn_map in Hne.
      fold entries in Hne. intros ->. apply Hne. reflexivity. }
    split; [|split].
    - intros i e Hi. split.
      + apply (estimate_loop_nth MAX_MESSAGE_LENGTH). eapply prefix_nth; eassumption.
      + assert (Forall (fun e => (2 <=? e_count e) = true) entries) as Fa.
        { apply Forall_forall. intros x Hx. unfold entries in Hx.
          pose proof (take_while_forall (fun e => 2 <=? e_count e) l) as Ftw.
          rewrite Forall_forall in Ftw. apply Ftw.
          destruct (firstn_prefix n tw) as (r & Er). fold tw. rewrite Er. apply in_or_app. left. exact Hx. }
        rewrite Forall_forall in Fa. apply N.leb_le. apply Fa. eapply nth_error_In, Hi.
    - apply (zip_sum_prefix (fun e => e) e_errs e_byte). exact Hp.
    - apply (zip_sum_prefix (fun c => b2n (MIN_BURSTS_FOR_VOTING <=? c)) e_count e_byte). exact Hp. }
  destruct (message_try_from_bytes (map e_byte tw) (map e_errs l) (map e_count l)) as [m|e] eqn:Em.
  - intros E. inversion E; subst m. apply Main. reflexivity.
  - destruct (message_prefix_is_eom (map e_byte l)); [discriminate|].
    destruct (map e_byte tw); discriminate.
Qed.

(** a single burst never yields a header *)
Theorem combine_one_never_header A :
  combine [A] = None \/ combine [A] = Some (Ok EOM).
Proof.
  destruct (combine [A]) as [[[h|]|e]|] eqn:E; [|right; reflexivity| |left; reflexivity].
  - exfalso. destruct (combine_som_entries [A] h) as (en & Ht & Hne & Hen & _); [cbn; lia|exact E|].
    destruct en as [|e0 en]; [contradiction|].
    destruct (Hen O e0 eq_refl) as (Hs & Hc).
    destruct e0 as [[v c] er]. unfold column in Hs. cbn [flat_map] in Hs.
    unfold e_count in Hc. cbn [fst snd] in Hc.
    rewrite app_nil_r in Hs. destruct (nth_error A 0) as [a|].
    + rewrite step_X in Hs. destruct (is_allowed_byte (mask7 a)); [|discriminate].
      inversion Hs; subst. lia.
    + cbn in Hs. discriminate.
  - exfalso.
    pose proof (est_tail_single P2 MAX_MESSAGE_LENGTH A) as F.
    assert (forall l : list (N*N*N), Forall (fun e => e_count e = 1) l ->
             truncate_with_reference (map e_byte l) (map e_count l) 2 = []) as T.
    { intros l Fl. destruct l as [|x l]; [reflexivity|]. cbn [map truncate_with_reference].
      inversion Fl as [|? ? F1 _]; subst. rewrite F1. reflexivity. }
    (* [arr P2 [] X = [[];[];X]] has the same heads/tails behaviour as [[X]] *)
    assert (forall fuel X, estimate_loop fuel [X] = estimate_loop fuel (arr P2 [] X)) as Same.
    { induction fuel as [|f IHf]; intros X; [reflexivity|]. cbn [estimate_loop].
      assert (heads [X] = heads (arr P2 [] X)) as -> by (destruct X; reflexivity).
      destruct (estimate_step _); [|reflexivity]. f_equal.
      assert (tails (arr P2 [] X) = arr P2 [] (tl X)) as -> by reflexivity.
      apply IHf. }
    unfold combine, estimate_message in E. cbn [firstn] in E. rewrite Same in E.
    set (l := estimate_loop MAX_MESSAGE_LENGTH (arr P2 [] A)) in *.
    change (map (fun e : N * N * N => fst (fst e)) l) with (map e_byte l) in E.
    change (map (fun e : N * N * N => snd (fst e)) l) with (map e_count l) in E.
    destruct (map e_byte l) as [|m0 ms] eqn:Em; [discriminate|]. rewrite <- Em in E.
    change MIN_BURSTS_FOR_FULL_MESSAGE with 2 in E. rewrite (T l F) in E.
    destruct (message_try_from_bytes [] _ (map e_count l)); [discriminate|].
    destruct (message_prefix_is_eom (map e_byte l)); discriminate.
Qed.

(** * The same facts stated against columns of the bursts, not against the estimator *)
Definition index_sum (n : nat) (f : nat -> N) : N := Nsum (map f (seq 0 n)).

Lemma Nsum_map_nth {A} (g : A -> N) : forall (l : list A) (f : nat -> N) k,
  (forall i e, nth_error l i = Some e -> g e = f (k + i)%nat) ->
  Nsum (map g l) = Nsum (map f (seq k (length l))).
Proof.
  induction l as [|x l IH]; intros f k Hf; [reflexivity|].
  cbn [map length seq Nsum fold_right]. f_equal.
  - rewrite (Hf O x eq_refl). f_equal. lia.
  - apply IH. intros i e Hi. rewrite (Hf (S i) e Hi). f_equal. lia.
Qed.

Lemma column_all_bytes i bs :
  Forall (fun b => all_bytes b = true) bs -> all_bytes (column i bs) = true.
Proof.
  unfold column, all_bytes. induction 1 as [|b bs Hb _ IH]; [reflexivity|].
  cbn [flat_map]. rewrite forallb_app, IH, andb_true_r.
  destruct (nth_error b i) as [c|] eqn:E; [|reflexivity]. cbn [forallb]. rewrite andb_true_r.
  unfold all_bytes in Hb. rewrite forallb_forall in Hb. apply Hb. eapply nth_error_In, E.
Qed.

Theorem combine_som_backed bs h :
  (length bs <= 3)%nat -> Forall (fun b => all_bytes b = true) bs ->
  combine bs = Some (Ok (SOM h)) ->
  h_text h <> []
  /\ (forall i c, nth_error (h_text h) i = Some c ->
        (2 <= length (column i bs))%nat /\ col_agreed (column i bs) c /\ is_allowed_byte c = true)
  /\ h_parity h = index_sum (length (h_text h)) (fun i => col_disagree (column i bs))
  /\ h_voting h = index_sum (length (h_text h))
                    (fun i => b2n (3 <=? N.of_nat (length (column i bs)))).
Proof.
  intros Hlen Hb E.
  destruct (combine_som_entries bs h Hlen E) as (en & Ht & Hne & Hen & Hp & Hv).
  assert (forall i e, nth_error en i = Some e ->
            e_count e = N.of_nat (length (column i bs)) /\ 2 <= e_count e
            /\ is_allowed_byte (e_byte e) = true
            /\ col_agreed (column i bs) (e_byte e) /\ e_errs e = col_disagree (column i bs)) as Key.
  { intros i [[v c] er] Hi. destruct (Hen _ _ Hi) as (Hs & Hc).
    destruct (estimate_step_spec _ _ _ _ (column_all_bytes i bs Hb) Hs) as (Hc1 & Ha & Hrest).
    unfold e_count, e_byte, e_errs in *. cbn [fst snd] in *.
    destruct (Hrest Hc) as (Hag & He). repeat split; assumption. }
  split; [rewrite Ht; destruct en; [contradiction|discriminate]|]. split; [|split].
  - intros i c Hi. rewrite Ht in Hi. rewrite nth_error_map in Hi.
    destruct (nth_error en i) as [e|] eqn:Ee; [|discriminate]. cbn [option_map] in Hi.
    inversion Hi; subst c. destruct (Key _ _ Ee) as (K1 & K2 & K3 & K4 & _).
    split; [lia|]. split; assumption.
  - rewrite Hp, Ht, map_length. unfold index_sum. apply Nsum_map_nth.
    intros i e Hi. destruct (Key _ _ Hi) as (_ & _ & _ & _ & K). exact K.
  - rewrite Hv, Ht, map_length. unfold index_sum. apply Nsum_map_nth.
    intros i e Hi. destruct (Key _ _ Hi) as (K & _). cbn [Nat.add]. rewrite K. reflexivity.
Qed.

(** two bursts: a header is built only from bytes on which both agree *)
Theorem combine_two_only_agreed A B h :
  all_bytes A = true -> all_bytes B = true ->
  combine [A; B] = Some (Ok (SOM h)) ->
  forall i c, nth_error (h_text h) i = Some c ->
    exists a b, nth_error A i = Some a /\ nth_error B i = Some b /\ mask7 a = c /\ mask7 b = c.
Proof.
  intros HA HB E i c Hi.
  destruct (combine_som_backed [A; B] h) as (_ & Hcol & _); [cbn; lia|repeat constructor; assumption|exact E|].
  destruct (Hcol i c Hi) as (Hl & Hag & _).
  unfold column in *. cbn [flat_map] in *. rewrite app_nil_r in *.
  destruct (nth_error A i) as [a|], (nth_error B i) as [b|]; cbn [app length] in Hl; try lia.
  unfold col_agreed in Hag. cbn [app map] in Hag. destruct Hag as [Ha Hb'].
  exists a, b. repeat split; assumption.
Qed.
