(** Time-shift invariance.  The assembler only ever compares deadlines with the clock and adds
    constants to the clock, so its behaviour depends on time DIFFERENCES only: shifting every
    stored deadline and every call time by the same amount changes nothing but the times.
    The same holds for the whole discrete receiver (sample counter, symbol counter, forced
    end-of-message deadline).  Used by QuiesceP to show that hostile audio has no lasting effect. *)
From Sameold Require Import Base.Bytes Model.Header Model.Combiner Model.Framer Model.Squelch
  Model.Assembler Model.Receiver Proofs.AssemblerP.
From Coq Require Import ZifyBool ZifyN ZifyNat.
Arguments N.add : simpl never.
Arguments N.leb : simpl never.
Arguments N.ltb : simpl never.
Local Open Scope N_scope.

(** * The assembler *)
Definition sh {A} (d : N) (t : timed A) : timed A := mkTimed (t_data t) (t_deadline t + d).

Definition shift_asm (d : N) (s : asm) : asm :=
  mkAsm (map (sh d) (a_history s)) (option_map (sh d) (a_pending s)) (option_map (sh d) (a_previous s)).

Definition shift_op (d : N) (o : aop) : aop :=
  match o with OIdle n => OIdle (n + d) | OBurst b n => OBurst b (n + d) end.

Lemma expired_shift {A} d (t : timed A) now : is_expired_at (sh d t) (now + d) = is_expired_at t now.
Proof. unfold is_expired_at, sh. cbn [t_deadline]. lia. Qed.

Lemma filter_shift d now (h : list (timed bytes)) :
  filter (fun e => negb (is_expired_at e (now + d))) (map (sh d) h)
  = map (sh d) (filter (fun e => negb (is_expired_at e now)) h).
Proof.
  induction h as [|e h IH]; [reflexivity|]. cbn [map filter]. rewrite expired_shift, IH.
  destruct (negb (is_expired_at e now)); reflexivity.
Qed.

Lemma keep_last2_map {A B} (f : A -> B) (l : list A) : keep_last2 (map f l) = map f (keep_last2 l).
Proof.
  induction l as [|a l IH]; [reflexivity|].
  destruct l as [|b [|c l']]; [reflexivity|reflexivity|].
  change (keep_last2 (map f (a :: b :: c :: l'))) with (keep_last2 (map f (b :: c :: l'))).
  change (keep_last2 (a :: b :: c :: l')) with (keep_last2 (b :: c :: l')). exact IH.
Qed.

Lemma prune_history_shift d now h :
  prune_history (map (sh d) h) (now + d) = map (sh d) (prune_history h now).
Proof. unfold prune_history. rewrite filter_shift, keep_last2_map. reflexivity. Qed.

Lemma prune_previous_shift d now p :
  prune_previous (option_map (sh d) p) (now + d) = option_map (sh d) (prune_previous p now).
Proof.
  destruct p as [m|]; [|reflexivity]. cbn [option_map prune_previous]. rewrite expired_shift.
  destruct (is_expired_at m now); reflexivity.
Qed.

Lemma pending_accept_shift d now p msg :
  pending_accept (option_map (sh d) p) msg (now + d) = option_map (sh d) (pending_accept p msg now).
Proof.
  assert (forall K, now + d + K = now + K + d) as Hc by (intros; lia).
  unfold pending_accept. destruct p as [old|]; cbn [option_map].
  - cbn [sh t_data].
    match goal with |- context [if ?c then _ else _] => destruct c end; cbn [option_map]; [|reflexivity].
    destruct msg as [[h|]|e]; unfold sh; cbn [t_data t_deadline]; rewrite ?Hc; reflexivity.
  - destruct msg as [[h|]|e]; unfold sh; cbn [t_data t_deadline]; rewrite ?Hc; reflexivity.
Qed.

Lemma pending_poll_shift d now p :
  pending_poll (option_map (sh d) p) (now + d)
  = (fst (pending_poll p now), option_map (sh d) (snd (pending_poll p now))).
Proof.
  destruct p as [t|]; [|reflexivity]. cbn [option_map pending_poll]. rewrite expired_shift.
  destruct (is_expired_at t now); reflexivity.
Qed.

Lemma map_data_sh {A} d (h : list (timed A)) : map t_data (map (sh d) h) = map t_data h.
Proof. rewrite map_map. apply map_ext. intros a. reflexivity. Qed.

Lemma asm_idle_shift d s now :
  asm_idle (shift_asm d s) (now + d) = (fst (asm_idle s now), shift_asm d (snd (asm_idle s now))).
Proof.
  assert (forall K, now + d + K = now + K + d) as Hc by (intros; lia).
  unfold asm_idle, shift_asm. cbn [a_history a_pending a_previous].
  rewrite prune_history_shift, pending_poll_shift.
  destruct (pending_poll (a_pending s) now) as [[[m|e]|] p]; cbn [fst snd a_history a_pending a_previous option_map].
  - unfold sh at 3. cbn [t_data t_deadline]. rewrite Hc. reflexivity.
  - reflexivity.
  - destruct (prune_history (a_history s) now); reflexivity.
Qed.

Lemma asm_assemble_shift d s b now :
  asm_assemble (shift_asm d s) b (now + d)
  = (fst (asm_assemble s b now), shift_asm d (snd (asm_assemble s b now))).
Proof.
  assert (forall K, now + d + K = now + K + d) as Hc by (intros; lia).
  destruct b as [|b0 b']; [apply asm_idle_shift|].
  assert (forall p r, deduplicate (option_map (sh d) p) r = deduplicate p r) as Hd.
  { intros p r. destruct r as [[m|e]|]; [|reflexivity|reflexivity]. destruct p; reflexivity. }
  destruct s as [hist pend prev]. unfold shift_asm at 1. unfold asm_assemble.
  cbn [a_history a_pending a_previous].
  rewrite prune_history_shift, prune_previous_shift, Hc.
  set (h := prune_history hist now). set (pv := prune_previous prev now).
  set (e := mkTimed (firstn MAX_MESSAGE_LENGTH (b0 :: b')) (now + MAX_HISTORY_DURATION)).
  change (mkTimed (firstn MAX_MESSAGE_LENGTH (b0 :: b')) (now + MAX_HISTORY_DURATION + d)) with (sh d e).
  replace (map (sh d) h ++ [sh d e]) with (map (sh d) (h ++ [e])) by (rewrite map_app; reflexivity).
  rewrite map_data_sh, Hd.
  rewrite <- asm_idle_shift. f_equal. unfold shift_asm. cbn [a_history a_pending a_previous]. f_equal.
  destruct (deduplicate pv (combine (map t_data (h ++ [e])))) as [msg|]; [apply pending_accept_shift|reflexivity].
Qed.

Lemma asm_op_shift d s o :
  asm_op (shift_asm d s) (shift_op d o) = (fst (asm_op s o), shift_asm d (snd (asm_op s o))).
Proof. destruct o as [n|b n]; cbn [shift_op asm_op]; [apply asm_idle_shift|apply asm_assemble_shift]. Qed.

Definition shift_out (d : N) (x : N * transport) : N * transport := (fst x + d, snd x).

Theorem asm_run_shift d : forall ops s,
  asm_run (shift_asm d s) (map (shift_op d) ops)
  = (map (shift_out d) (fst (asm_run s ops)), shift_asm d (snd (asm_run s ops))).
Proof.
  induction ops as [|o ops IH]; intros s; [reflexivity|].
  cbn [map asm_run]. rewrite asm_op_shift. destruct (asm_op s o) as [t s1]. cbn [fst snd].
  rewrite IH. destruct (asm_run s1 ops) as [ts s2]. cbn [fst snd map]. unfold shift_out at 1. cbn [fst snd].
  destruct o; reflexivity.
Qed.

Lemma shift_asm_init d : shift_asm d asm_init = asm_init.
Proof. reflexivity. Qed.

(** what a new assembler returns does not depend on when it is started *)
Corollary new_assembler_time_invariant d ops :
  map snd (fst (asm_run asm_init (map (shift_op d) ops))) = map snd (fst (asm_run asm_init ops)).
Proof.
  rewrite <- (shift_asm_init d) at 1. rewrite asm_run_shift. cbn [fst]. rewrite map_map. reflexivity.
Qed.

(** * The squelch and the link layer: the symbol counter is only ever incremented and handed on *)
Definition sq_shift (d : N) (s : sq) : sq :=
  mkSq (sq_corr s) (sq_fill s) (sq_phist s) (sq_clock s) (sq_lock s) (sq_symcount s + d).

Lemma sq_input_shift me d s b po pc :
  sq_input me (sq_shift d s) b po pc
  = (fst (sq_input me s b po pc), sq_shift d (snd (sq_input me s b po pc))).
Proof.
  assert (sq_symcount s + d + 1 = sq_symcount s + 1 + d) as Hc by lia.
  unfold sq_input, sq_shift. cbn [sq_corr sq_fill sq_phist sq_clock sq_lock sq_symcount]. rewrite Hc.
  destruct (N.min (sq_fill s + 1) HISTORY_SYMBOLS <? HISTORY_SYMBOLS); [reflexivity|].
  match goal with |- context [if ?c then _ else _] => destruct c end.
  - destruct (sq_clock s) as [[|p]|]; reflexivity.
  - destruct (sq_clock s) as [[|p]|]; [| |reflexivity];
      (destruct (push_wrapping (sq_phist s) pc) as [|front ph]; [reflexivity|]; destruct (negb front); reflexivity).
Qed.

Lemma sq_input_symcount me s b po pc :
  sq_symcount (snd (sq_input me s b po pc)) = sq_symcount s + 1.
Proof.
  unfold sq_input.
  destruct (N.min (sq_fill s + 1) HISTORY_SYMBOLS <? HISTORY_SYMBOLS); [reflexivity|].
  match goal with |- context [if ?c then _ else _] => destruct c end.
  - destruct (sq_clock s) as [[|p]|]; reflexivity.
  - destruct (sq_clock s) as [[|p]|]; [| |reflexivity];
      (destruct (push_wrapping (sq_phist s) pc) as [|front ph]; [reflexivity|]; destruct (negb front); reflexivity).
Qed.

Lemma linklayer_shift c d s f t l s' f' u :
  linklayer_symbol c s f t = (l, s', f', u) ->
  linklayer_symbol c (sq_shift d s) f t = (l, sq_shift d s', f', u).
Proof.
  unfold linklayer_symbol. rewrite sq_input_shift.
  destruct (sq_input (preamble_max_errors c) s (t_bit t) (t_popen t) (t_pclose t)) as [o s1]. cbn [fst snd].
  destruct o as [| | |rs hb|]; try (destruct (framer_end f) as [l0 f0]; intros X; inversion X; subst; reflexivity).
  destruct (framer_input (fc c) f (t_eq t) rs) as [l0 f0].
  destruct l0; intros X; inversion X; subst; reflexivity.
Qed.

Lemma linklayer_symcount c s f t l s' f' u :
  linklayer_symbol c s f t = (l, s', f', u) -> sq_symcount s' = sq_symcount s + 1.
Proof.
  unfold linklayer_symbol.
  pose proof (sq_input_symcount (preamble_max_errors c) s (t_bit t) (t_popen t) (t_pclose t)) as Hs.
  destruct (sq_input (preamble_max_errors c) s (t_bit t) (t_popen t) (t_pclose t)) as [o s1]. cbn [snd] in Hs.
  destruct o as [| | |rs hb|]; try (destruct (framer_end f) as [l0 f0]; intros X; inversion X; subst; exact Hs).
  destruct (framer_input (fc c) f (t_eq t) rs) as [l0 f0].
  destruct l0; intros X; inversion X; subst; exact Hs.
Qed.

(** * Observational equivalence of assemblers up to a clock offset *)
Definition asm_eqv (dy : N) (a1 a2 : asm) (now : N) : Prop :=
  forall ops, mono now ops ->
    map snd (fst (asm_run a1 (map (shift_op dy) ops))) = map snd (fst (asm_run a2 ops)).

Lemma asm_eqv_weaken dy a1 a2 now now' : asm_eqv dy a1 a2 now -> now <= now' -> asm_eqv dy a1 a2 now'.
Proof.
  intros H Hn ops Hm. apply H. destruct ops as [|o r]; [exact I|]. destruct Hm as [H1 H2]. split; [lia|exact H2].
Qed.

Lemma asm_eqv_step dy a1 a2 now o :
  asm_eqv dy a1 a2 now -> now <= op_time o ->
  fst (asm_op a1 (shift_op dy o)) = fst (asm_op a2 o)
  /\ asm_eqv dy (snd (asm_op a1 (shift_op dy o))) (snd (asm_op a2 o)) (op_time o).
Proof.
  intros H Hn. split.
  - specialize (H [o] (conj Hn I)). cbn [map asm_run] in H.
    destruct (asm_op a1 (shift_op dy o)) as [t1 b1]. destruct (asm_op a2 o) as [t2 b2].
    cbn [fst snd map] in *. injection H as H. exact H.
  - intros ops Hm. specialize (H (o :: ops) (conj Hn Hm)). cbn [map asm_run] in H.
    destruct (asm_op a1 (shift_op dy o)) as [t1 b1]. destruct (asm_op a2 o) as [t2 b2]. cbn [snd].
    destruct (asm_run b1 (map (shift_op dy) ops)) as [ts1 c1]. destruct (asm_run b2 ops) as [ts2 c2].
    cbn [fst snd map] in *. injection H as _ H. exact H.
Qed.

Lemma shift_asm_eqv dy a now : asm_eqv dy (shift_asm dy a) a now.
Proof. intros ops _. rewrite asm_run_shift. cbn [fst]. rewrite map_map. reflexivity. Qed.

(** * The discrete receiver *)
Definition plus (ds : N) (t : N) : N := t + ds.
Definition shift_ev (ds : N) (e : event) : event := mkEvent (ev_what e) (ev_time e + ds).

Lemma transport_sim c dy ds a1 a2 now l sym n force ot a2' f2' :
  asm_eqv dy a1 a2 now -> now <= sym ->
  transportlayer c a2 l sym n force = (ot, a2', f2') ->
  exists a1', transportlayer c a1 l (sym + dy) (n + ds) (option_map (plus ds) force) = (ot, a1', option_map (plus ds) f2')
              /\ asm_eqv dy a1' a2' sym.
Proof.
  intros He Hn. unfold transportlayer.
  assert (forall K, n + ds + K = plus ds (n + K)) as Hc by (intros; unfold plus; lia).
  assert ((match option_map (plus ds) force with Some tm => tm <? n + ds | None => false end)
          = (match force with Some tm => tm <? n | None => false end)) as Ht.
  { destruct force as [tm|]; [|reflexivity]. cbn [option_map]. unfold plus. lia. }
  rewrite Ht.
  pose proof (asm_eqv_step dy a1 a2 now (OIdle sym) He Hn) as [Hi1 Hi2].
  cbn [shift_op asm_op op_time] in Hi1, Hi2.
  destruct l as [| | |b].
  - destruct (match force with Some tm => tm <? n | None => false end).
    + intros X; inversion X; subst. eexists. split; [reflexivity|]. eapply asm_eqv_weaken; eassumption.
    + destruct (asm_idle a1 (sym + dy)) as [t1 b1]. destruct (asm_idle a2 sym) as [t2 b2]. cbn [fst snd] in *. subst t1.
      intros X; inversion X; subst. eexists. split; [|exact Hi2].
      destruct t2 as [| |[[h|]|e]]; cbn [option_map]; rewrite ?Hc; reflexivity.
  - destruct (match force with Some tm => tm <? n | None => false end);
      intros X; inversion X; subst; (eexists; split; [reflexivity|eapply asm_eqv_weaken; eassumption]).
  - destruct (match force with Some tm => tm <? n | None => false end);
      intros X; inversion X; subst; (eexists; split; [reflexivity|eapply asm_eqv_weaken; eassumption]).
  - pose proof (asm_eqv_step dy a1 a2 now (OBurst b sym) He Hn) as [Hb1 Hb2].
    cbn [shift_op asm_op op_time] in Hb1, Hb2.
    destruct (asm_assemble a1 b (sym + dy)) as [t1 b1]. destruct (asm_assemble a2 b sym) as [t2 b2]. cbn [fst snd] in *. subst t1.
    intros X; inversion X; subst. eexists. split; [|exact Hb2].
    destruct t2 as [| |[[h|]|e]]; cbn [option_map]; rewrite ?Hc; reflexivity.
Qed.

Definition sim (ds dy : N) (k1 k2 : core) : Prop :=
  r_sq k1 = sq_shift dy (r_sq k2) /\ r_fr k1 = r_fr k2 /\ r_link k1 = r_link k2
  /\ r_transport k1 = r_transport k2 /\ r_samples k1 = r_samples k2 + ds
  /\ r_force_eom k1 = option_map (plus ds) (r_force_eom k2)
  /\ asm_eqv dy (r_asm k1) (r_asm k2) (sq_symcount (r_sq k2)).

Lemma step_sim c ds dy k1 k2 i :
  sim ds dy k1 k2 ->
  sim ds dy (fst (step_core c k1 i)) (fst (step_core c k2 i))
  /\ snd (step_core c k1 i) = map (shift_ev ds) (snd (step_core c k2 i)).
Proof.
  destruct k1 as [sq1 fr1 a1 l1 t1 n1 fo1]. destruct k2 as [sq2 fr2 a2 l2 t2 n2 fo2].
  unfold sim. cbn [r_sq r_fr r_asm r_link r_transport r_samples r_force_eom].
  intros (-> & -> & -> & -> & -> & -> & He).
  assert (n2 + ds + 1 = n2 + 1 + ds) as Hc by lia.
  destruct i as [|t]; unfold step_core; cbn [r_sq r_fr r_asm r_link r_transport r_samples r_force_eom].
  - cbn [fst snd map r_sq r_fr r_asm r_link r_transport r_samples r_force_eom]. repeat split; try reflexivity; [lia|exact He].
  - destruct (linklayer_symbol c sq2 fr2 t) as [[[l sq'] fr'] u] eqn:El.
    rewrite (linklayer_shift c dy _ _ _ _ _ _ _ El).
    pose proof (linklayer_symcount _ _ _ _ _ _ _ _ El) as Hsym.
    destruct (transportlayer c a2 l (sq_symcount sq') (n2 + 1) fo2) as [[ot a2'] f2'] eqn:Et.
    assert (sq_symcount sq2 <= sq_symcount sq') as Hle by lia.
    destruct (transport_sim c dy ds a1 a2 _ l _ (n2 + 1) fo2 ot a2' f2' He Hle Et) as (a1' & Et1 & He').
    change (sq_symcount (sq_shift dy sq')) with (sq_symcount sq' + dy). rewrite Hc, Et1.
    assert (forall (x : list event), (if negb (link_eqb l l2) then [mkEvent (WLink l) (n2 + 1 + ds)] else [])
              = map (shift_ev ds) (if negb (link_eqb l l2) then [mkEvent (WLink l) (n2 + 1)] else [])) as He1.
    { intros _. destruct (negb (link_eqb l l2)); reflexivity. }
    rewrite (He1 []).
    destruct ot as [t'|].
    + destruct (transport_eqb t' t2); cbn [fst snd r_sq r_fr r_asm r_link r_transport r_samples r_force_eom].
      * repeat split; try reflexivity. exact He'.
      * split; [repeat split; try reflexivity; exact He'|]. rewrite map_app. reflexivity.
    + cbn [fst snd r_sq r_fr r_asm r_link r_transport r_samples r_force_eom]. repeat split; try reflexivity. exact He'.
Qed.

Theorem run_sim c ds dy : forall src k1 k2,
  sim ds dy k1 k2 ->
  fst (run_core c k1 src) = map (shift_ev ds) (fst (run_core c k2 src))
  /\ sim ds dy (snd (run_core c k1 src)) (snd (run_core c k2 src)).
Proof.
  induction src as [|i src IH]; intros k1 k2 Hs; cbn [run_core].
  - split; [reflexivity|exact Hs].
  - destruct (step_sim c ds dy k1 k2 i Hs) as [Hs' Hev].
    destruct (step_core c k1 i) as [k1' e1]. destruct (step_core c k2 i) as [k2' e2]. cbn [fst snd] in *.
    destruct (IH k1' k2' Hs') as [Hev' Hs''].
    destruct (run_core c k1' src) as [e1' kf1]. destruct (run_core c k2' src) as [e2' kf2]. cbn [fst snd] in *.
    split; [|exact Hs'']. rewrite map_app, Hev, Hev'. reflexivity.
Qed.

(** ** Time-shift invariance of the whole discrete receiver: adding [ds] to the sample counter and
    the forced end-of-message deadline, and [dy] to the symbol counter and every deadline the
    assembler holds, changes nothing but the event timestamps, for EVERY item stream *)
Definition shift_core (ds dy : N) (k : core) : core :=
  mkCore (sq_shift dy (r_sq k)) (r_fr k) (shift_asm dy (r_asm k)) (r_link k) (r_transport k)
         (r_samples k + ds) (option_map (plus ds) (r_force_eom k)).

Theorem receiver_time_shift c ds dy k src :
  fst (run_core c (shift_core ds dy k) src) = map (shift_ev ds) (fst (run_core c k src)).
Proof.
  apply (run_sim c ds dy src). unfold sim, shift_core. cbn [r_sq r_fr r_asm r_link r_transport r_samples r_force_eom].
  repeat split; try reflexivity. apply shift_asm_eqv.
Qed.
