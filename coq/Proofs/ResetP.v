(** C18: reset() re-establishes exactly what the constructor builds, for EVERY state with the
    receiver's structural shape (every mutable field arbitrary). *)
From Sameold Require Import Base.Bytes Model.ResetShape.

Section ResetP.
  Variables (zero one int0 ffalse none empty idle_framer asm_empty no_carrier tr_idle enabled_feedback : N).
  Variable initial_gain : N -> N -> N.
  Variable alphabeta : N -> N * N.
  Variable is_training : N -> bool.

  Lemma zeros_length w : zeros zero w = zeros_n zero (length w).
  Proof. unfold zeros, zeros_n. induction w as [|x w IH]; [reflexivity|]. cbn [map length repeat]. rewrite IH. reflexivity. Qed.

  Lemma identity_length : forall w w', length w = length w' -> identity zero one w = identity zero one w'.
  Proof.
    induction w as [|x w IH]; intros [|y w'] H; try discriminate; [reflexivity|].
    cbn [length] in H. injection H as H.
    destruct w as [|x2 w2], w' as [|y2 w2']; try discriminate; [reflexivity|].
    change (identity zero one (x :: x2 :: w2)) with (zero :: identity zero one (x2 :: w2)).
    change (identity zero one (y :: y2 :: w2')) with (zero :: identity zero one (y2 :: w2')).
    f_equal. apply IH. exact H.
  Qed.

  Lemma identity_n_length w : identity zero one w = identity_n zero one (length w).
  Proof. unfold identity_n. apply identity_length. rewrite repeat_length. reflexivity. Qed.

  Notation reset := (receiver_reset zero one int0 ffalse none empty idle_framer asm_empty no_carrier tr_idle
                                    enabled_feedback initial_gain alphabeta is_training).
  Notation fresh := (fresh zero one int0 ffalse none empty idle_framer asm_empty no_carrier tr_idle
                           enabled_feedback initial_gain alphabeta).
  Notation shape_ok := (shape_ok enabled_feedback is_training).

  Theorem reset_is_fresh x : shape_ok x -> reset x = fresh (config_of x).
  Proof.
    intros (H1 & H2 & H3 & H4 & H5 & H6).
    destruct x as [ff fb ag de sy sq e fr a bwu bwl rate sc lk tr q tc ut fe].
    destruct ff as [ffw ffi ffs ffc0], fb as [fbw fbi fbs fbc0], ag as [ab amin amax al agn], de as [dw dm ds],
             sy as [spt pmin pmax al0 be0 pav pin th tcn], sq as [me po pc st dt pb pp sh ph sc2 scl sl],
             e as [rx rg tt ffc fbc ffw2 fbw2 md], fr as [fs flb fmp fmi], a as [ah ast ap].
    cbn [x_dc_ff x_dc_fb x_agc x_demod x_sym x_squelch x_eq x_framer x_asm ma_window ma_inv_len eq_ff_coeff
         eq_fb_coeff eq_ff_wind eq_fb_wind sy_ted_hist eq_mode] in *.
    unfold receiver_reset, ResetShape.fresh, config_of.
    cbn [x_dc_ff x_dc_fb x_agc x_demod x_sym x_squelch x_eq x_framer x_asm x_bw_unlocked x_bw_locked x_rate
         p_dc_len p_dc_inv_len p_agc_bw p_gmin p_gmax p_demod_len p_mark p_space p_spt p_pmin p_pmax
         p_max_errors p_popen p_pclose p_sync_to p_pt_bw p_relax p_regul p_train_to p_nff p_nfb
         p_max_prefix p_max_invalid p_bw_unlocked p_bw_locked p_rate
         ma_window ma_inv_len ma_sum ma_since ag_bandwidth ag_min ag_max de_window de_mark de_space
         sy_spt sy_pmin sy_pmax sq_max_errors sq_popen sq_pclose sq_sync_to sq_pt_bw
         eq_relax eq_regul eq_train_to eq_ff_wind eq_fb_wind fr_max_prefix fr_max_invalid].
    unfold sym_set_bandwidth. cbn [sy_spt sy_pmin sy_pmax sy_pavg sy_pinst sy_ted_hist sy_ted_count].
    destruct (alphabeta bwu) as [al1 be1].
    unfold sym_reset, mavg_reset, agc_reset, demod_reset, squelch_reset, eq_reset, framer_reset, assembler_reset.
    cbn [sy_spt sy_pmin sy_pmax sy_alpha sy_beta sy_pavg sy_pinst sy_ted_hist sy_ted_count
         ma_window ma_inv_len ma_sum ma_since ag_bandwidth ag_min ag_max de_window de_mark de_space
         sq_max_errors sq_popen sq_pclose sq_sync_to sq_pt_bw eq_relax eq_regul eq_train_to
         eq_ff_coeff eq_fb_coeff eq_ff_wind eq_fb_wind eq_mode fr_max_prefix fr_max_invalid].
    rewrite !zeros_length, !identity_n_length. rewrite H1, H2, H3, H4, H5.
    assert ((if is_training md then enabled_feedback else md) = enabled_feedback) as ->.
    { destruct H6 as [-> | ->]; [reflexivity|]. destruct (is_training enabled_feedback); reflexivity. }
    reflexivity.
  Qed.

  (** hence: any deterministic continuation behaves identically *)
  Corollary same_behaviour {A B} (run : receiver -> A -> B) x input :
    shape_ok x -> run (reset x) input = run (fresh (config_of x)) input.
  Proof. intros H. rewrite (reset_is_fresh x H). reflexivity. Qed.

  (** the shape is established by the constructor ... *)
  Lemma fresh_shape p : shape_ok (fresh p).
  Proof.
    unfold ResetShape.fresh. destruct (alphabeta (p_bw_unlocked p)) as [a b].
    unfold ResetShape.shape_ok. cbn [x_dc_ff x_dc_fb x_eq x_sym ma_window ma_inv_len eq_ff_coeff eq_fb_coeff
                                     eq_ff_wind eq_fb_wind sy_ted_hist eq_mode].
    repeat split; try reflexivity.
    - unfold identity_n, zeros_n. rewrite repeat_length. generalize (p_nff p). intros n.
      assert (forall w, length (identity zero one w) = length w) as L.
      { induction w as [|x [|y w] IH]; try reflexivity. change (identity zero one (x :: y :: w)) with (zero :: identity zero one (y :: w)).
        cbn [length] in *. rewrite IH. reflexivity. }
      rewrite L, repeat_length. reflexivity.
    - unfold identity_n, zeros_n. rewrite repeat_length.
      assert (forall w, length (identity zero one w) = length w) as L.
      { induction w as [|x [|y w] IH]; try reflexivity. change (identity zero one (x :: y :: w)) with (zero :: identity zero one (y :: w)).
        cbn [length] in *. rewrite IH. reflexivity. }
      rewrite L, repeat_length. reflexivity.
    - right. reflexivity.
  Qed.

  (** ... and the configuration read back from a fresh receiver is the one it was built from *)
  Lemma config_of_fresh p : config_of (fresh p) = p.
  Proof.
    unfold ResetShape.fresh. destruct (alphabeta (p_bw_unlocked p)) as [a b].
    unfold config_of. cbn. unfold zeros_n. rewrite !repeat_length. destruct p; reflexivity.
  Qed.

  (** reset is idempotent and a reset of a fresh receiver changes nothing *)
  Corollary reset_fresh p : reset (fresh p) = fresh p.
  Proof. rewrite (reset_is_fresh _ (fresh_shape p)), config_of_fresh. reflexivity. Qed.
End ResetP.
