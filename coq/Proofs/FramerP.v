(** C07 (byte level) and C09 (burst bound): facts about the framer automaton. *)
From Sameold Require Import Base.Bytes Model.Header Model.Combiner Model.Framer.
From Coq Require Import ZifyBool ZifyN ZifyNat.
Arguments N.add : simpl never.
Arguments N.sub : simpl never.
Arguments N.mul : simpl never.
Arguments N.leb : simpl never.
Arguments N.ltb : simpl never.
Arguments N.eqb : simpl never.
Arguments N.min : simpl never.

Definition lastn {A} (n : nat) (l : list A) : list A := skipn (length l - n) l.

Lemma lastn_snoc4 {A} (l : list A) (d : A) :
  (4 <= length l)%nat -> lastn 4 (l ++ [d]) = tl (lastn 4 l) ++ [d].
Proof.
  intros H. unfold lastn. rewrite app_length. cbn [length].
  replace (length l + 1 - 4)%nat with (S (length l - 4)) by lia.
  rewrite skipn_app.
  replace (S (length l - 4) - length l)%nat with O by lia. cbn [skipn].
  f_equal. remember (length l - 4)%nat as k.
  assert (k < length l)%nat as Hk by lia. clear Heqk H.
  revert l Hk. induction k as [|k IH]; intros [|x l] Hk; cbn [length] in Hk; try lia.
  - reflexivity.
  - cbn [skipn]. destruct l as [|y l']; [cbn [length] in Hk; lia|]. apply (IH (y :: l')). cbn [length] in *. lia.
Qed.

Lemma lastn_length {A} n (l : list A) : (n <= length l)%nat -> length (lastn n l) = n.
Proof. intros H. unfold lastn. rewrite skipn_length. lia. Qed.

Lemma lastn_suffix {A} n (l : list A) : exists pre, l = pre ++ lastn n l.
Proof. exists (firstn (length l - n) l). unfold lastn. symmetry. apply firstn_skipn. Qed.

(** number of disallowed characters *)
Fixpoint count_invalid (l : bytes) : N :=
  match l with [] => 0 | d :: r => b2n (negb (is_allowed_byte d)) + count_invalid r end.

Lemma count_invalid_app a b : count_invalid (a ++ b) = count_invalid a + count_invalid b.
Proof. induction a as [|x a IH]; cbn [app count_invalid]; [lia|]. rewrite IH. lia. Qed.

(** windows: the four bytes ending at position [i] of the (zero-padded) history *)
Definition window (hist : bytes) (i : nat) : bytes := lastn 4 (firstn i hist).

(** no window ending in (4, n] is within the prefix budget *)
Definition nomatch (c : fcfg) (hist : bytes) (n : nat) : Prop :=
  forall i, (4 < i <= n)%nat -> max_prefix_bit_errors c < prefix_errors (window hist i).

(** relation between the padded history since the last restart and the framer state *)
Definition FInv (c : fcfg) (hist : bytes) (s : fstate) : Prop :=
  (4 <= length hist)%nat /\
  match s with
  | FIdle => True
  | FPrefixSearch w cnt =>
    w = lastn 4 hist /\ cnt = N.of_nat (length hist - 4) /\ nomatch c hist (length hist)
  | FDataRead msg inv =>
    exists pre, hist = pre ++ msg
      /\ (4 <= length msg < MAX_BURST_LENGTH)%nat
      /\ prefix_errors (firstn 4 msg) <= max_prefix_bit_errors c
      /\ nomatch c hist (length pre + 3)
      /\ inv = count_invalid (skipn 4 msg)
      /\ inv <= max_invalid_bytes c
  end.

Lemma max_burst_gt4 : (4 < MAX_BURST_LENGTH)%nat.
Proof. apply Nat.ltb_lt. vm_compute. reflexivity. Qed.

Lemma window_snoc hist d i : (i <= length hist)%nat -> window (hist ++ [d]) i = window hist i.
Proof. intros H. unfold window. rewrite firstn_app. replace (i - length hist)%nat with O by lia. cbn [firstn]. rewrite app_nil_r. reflexivity. Qed.

Lemma window_full hist : window hist (length hist) = lastn 4 hist.
Proof. unfold window. rewrite firstn_all. reflexivity. Qed.

Lemma nomatch_snoc c hist d n : (n <= length hist)%nat -> nomatch c hist n -> nomatch c (hist ++ [d]) n.
Proof. intros Hn H i Hi. rewrite window_snoc by lia. apply H, Hi. Qed.

(** what a step may emit, relative to the history *including* the new byte *)
Definition burst_ok (c : fcfg) (hist' : bytes) (l : link) : Prop :=
  match l with
  | LBurst b =>
    exists pre post, hist' = pre ++ b ++ post /\ (length post <= 1)%nat
      /\ (4 <= length b <= MAX_BURST_LENGTH)%nat
      /\ prefix_errors (firstn 4 b) <= max_prefix_bit_errors c
      /\ nomatch c hist' (length pre + 3)
      /\ count_invalid (skipn 4 b) <= max_invalid_bytes c
      /\ (post <> [] -> count_invalid (skipn 4 b ++ post) = max_invalid_bytes c + 1)
      /\ (post = [] -> length b = MAX_BURST_LENGTH)
  | _ => True
  end.

Theorem framer_step_inv c hist s d l s' :
  FInv c hist s -> framer_step c s d = (l, s') ->
  FInv c (hist ++ [d]) s' /\ burst_ok c (hist ++ [d]) l.
Proof.
  intros [Hlen Hs] E. assert (4 <= length (hist ++ [d]))%nat as Hlen' by (rewrite app_length; cbn; lia).
  destruct s as [|w cnt|msg inv]; cbn [framer_step] in E.
  - inversion E; subst. split; [split; [exact Hlen'|exact I]|exact I].
  - destruct Hs as (Hw & Hc & Hn).
    assert (tl w ++ [d] = lastn 4 (hist ++ [d])) as Hw'.
    { rewrite Hw. symmetry. apply lastn_snoc4. exact Hlen. }
    destruct (N.leb_spec (prefix_errors (tl w ++ [d])) (max_prefix_bit_errors c)) as [Hm|Hm].
    + inversion E; subst l s'. split; [|exact I]. split; [exact Hlen'|].
      destruct (lastn_suffix 4 (hist ++ [d])) as (pre & Hpre).
      exists pre. rewrite Hw'.
      assert (length (lastn 4 (hist ++ [d])) = 4%nat) as L4 by (apply lastn_length; exact Hlen').
      split; [exact Hpre|]. split; [pose proof max_burst_gt4; lia|]. split.
      { rewrite firstn_all2 by lia. rewrite <- Hw'. exact Hm. }
      split.
      { assert (length pre + 3 = length hist)%nat as ->.
        { apply (f_equal (@length N)) in Hpre. rewrite !app_length, L4 in Hpre. cbn [length] in Hpre. lia. }
        apply nomatch_snoc; [lia|exact Hn]. }
      rewrite skipn_all2 by lia. cbn. split; [reflexivity|lia].
    + destruct (N.ltb_spec PREFIX_SEARCH_LEN (cnt + 1)) as [Hg|Hg]; inversion E; subst l s'.
      * split; [split; [exact Hlen'|exact I]|exact I].
      * split; [|exact I]. split; [exact Hlen'|]. split; [exact Hw'|]. split.
        { rewrite app_length. cbn [length]. lia. }
        intros i Hi. rewrite app_length in Hi. cbn [length] in Hi.
        destruct (Nat.eq_dec i (length hist + 1)) as [->|Hne].
        -- replace (length hist + 1)%nat with (length (hist ++ [d])) by (rewrite app_length; reflexivity).
           rewrite window_full, <- Hw'. exact Hm.
        -- rewrite window_snoc by lia. apply Hn. lia.
  - destruct Hs as (pre & Hh & Hl & Hp & Hn & Hi & Hib).
    destruct (N.ltb_spec (max_invalid_bytes c) (inv + b2n (negb (is_allowed_byte d)))) as [Ho|Ho].
    + (* too many invalid bytes: the burst ends, excluding [d] *)
      cbn [framer_end] in E. inversion E; subst l s'. split; [split; [exact Hlen'|exact I]|].
      exists pre, [d]. rewrite Hh, <- app_assoc. split; [reflexivity|]. split; [cbn; lia|].
      split; [lia|]. split; [exact Hp|]. split.
      { rewrite app_assoc, <- Hh. apply nomatch_snoc; [|exact Hn].
        rewrite Hh, app_length. lia. }
      split; [lia|]. split.
      { intros _. pose proof (count_invalid_app (skipn 4 msg) [d]) as CA. cbn [count_invalid] in CA.
        destruct (is_allowed_byte d); cbn [negb b2n] in *; unfold bytes, byte in *; lia. }
      intros Hcontra. discriminate.
    + destruct (Nat.leb_spec MAX_BURST_LENGTH (length (msg ++ [d]))) as [Hmx|Hmx].
      * cbn [framer_end] in E. inversion E; subst l s'. split; [split; [exact Hlen'|exact I]|].
        exists pre, []. rewrite app_nil_r, Hh, <- app_assoc. split; [reflexivity|]. split; [cbn; lia|].
        rewrite app_length in *. cbn [length] in *.
        split; [lia|]. split.
        { rewrite firstn_app. replace (4 - length msg)%nat with O by lia. cbn [firstn]. rewrite app_nil_r. exact Hp. }
        split.
        { rewrite app_assoc, <- Hh. apply nomatch_snoc; [|exact Hn]. rewrite Hh, app_length. lia. }
        split.
        { rewrite skipn_app. replace (4 - length msg)%nat with O by lia. change (skipn 0 [d]) with [d].
          pose proof (count_invalid_app (skipn 4 msg) [d]) as CA. cbn [count_invalid] in CA. lia. }
        split; [intros Hc; contradiction|]. intros _. lia.
      * inversion E; subst l s'. split; [|exact I]. split; [exact Hlen'|].
        exists pre. rewrite Hh, <- app_assoc. split; [reflexivity|].
        rewrite app_length in *. cbn [length] in *. split; [lia|]. split.
        { rewrite firstn_app. replace (4 - length msg)%nat with O by lia. cbn [firstn]. rewrite app_nil_r. exact Hp. }
        split.
        { rewrite app_assoc, <- Hh. apply nomatch_snoc; [|exact Hn]. rewrite Hh, app_length. lia. }
        rewrite skipn_app. replace (4 - length msg)%nat with O by lia. change (skipn 0 [d]) with [d].
        pose proof (count_invalid_app (skipn 4 msg) [d]) as CA. cbn [count_invalid] in CA. split; lia.
Qed.

(** the state right after a restart (before the restart's own byte is consumed) *)
Lemma FInv_restart c : FInv c ZERO_WORD (FPrefixSearch ZERO_WORD 0).
Proof.
  split; [cbn; lia|]. split; [reflexivity|]. split; [reflexivity|].
  intros i Hi. cbn [length ZERO_WORD] in Hi. lia.
Qed.

(** * A whole session: the bytes [ds] delivered after a restart *)
Theorem framer_session c : forall ds hist s ls s',
  FInv c hist s -> framer_steps c s ds = (ls, s') ->
  FInv c (hist ++ ds) s' /\
  forall j l, nth_error ls j = Some l -> burst_ok c (hist ++ firstn (S j) ds) l.
Proof.
  induction ds as [|d ds IH]; intros hist s ls s' Hinv E; cbn [framer_steps] in E.
  - inversion E; subst. rewrite app_nil_r. split; [exact Hinv|]. intros j l Hj. destruct j; discriminate.
  - destruct (framer_step c s d) as [l1 s1] eqn:E1.
    destruct (framer_steps c s1 ds) as [ls2 s2] eqn:E2. inversion E; subst ls s'.
    destruct (framer_step_inv c hist s d l1 s1 Hinv E1) as [Hinv1 Hb1].
    destruct (IH (hist ++ [d]) s1 ls2 s2 Hinv1 E2) as [Hinv2 Hb2].
    rewrite <- app_assoc in Hinv2. split; [exact Hinv2|].
    intros [|j] l Hj; cbn [nth_error] in Hj.
    + inversion Hj; subst l. cbn [firstn]. exact Hb1.
    + specialize (Hb2 j l Hj). rewrite <- app_assoc in Hb2. exact Hb2.
Qed.

(** at most one burst per session: after a burst the framer is idle until the next restart *)
Lemma framer_idle_steps c ds : framer_steps c FIdle ds = (map (fun _ => LNoCarrier) ds, FIdle).
Proof. induction ds as [|d ds IH]; [reflexivity|]. cbn [framer_steps framer_step map]. rewrite IH. reflexivity. Qed.

Lemma framer_step_burst_idle c s d b s' : framer_step c s d = (LBurst b, s') -> s' = FIdle.
Proof.
  destruct s as [|w cnt|msg inv]; cbn [framer_step].
  - intros E; inversion E.
  - destruct (_ <=? _); [intros E; inversion E|]. destruct (_ <? _); intros E; inversion E.
  - destruct (_ <? _); cbn [framer_end]; [intros E; inversion E; reflexivity|].
    destruct (_ <=? _)%nat; cbn [framer_end]; intros E; inversion E; reflexivity.
Qed.

Theorem framer_one_burst_per_session c : forall ds s ls s' j b,
  framer_steps c s ds = (ls, s') -> nth_error ls j = Some (LBurst b) ->
  forall k l, (j < k)%nat -> nth_error ls k = Some l -> l = LNoCarrier.
Proof.
  induction ds as [|d ds IH]; intros s ls s' j b E Hj k l Hk Hl; cbn [framer_steps] in E.
  - inversion E; subst. destruct j; discriminate.
  - destruct (framer_step c s d) as [l1 s1] eqn:E1.
    destruct (framer_steps c s1 ds) as [ls2 s2] eqn:E2. inversion E; subst ls s'.
    destruct j as [|j]; cbn [nth_error] in Hj.
    + inversion Hj; subst l1. apply framer_step_burst_idle in E1. subst s1.
      rewrite framer_idle_steps in E2. inversion E2; subst ls2 s2.
      destruct k as [|k]; [lia|]. cbn [nth_error] in Hl.
      rewrite nth_error_map in Hl. destruct (nth_error ds k); inversion Hl. reflexivity.
    + destruct k as [|k]; [lia|]. cbn [nth_error] in Hl.
      eapply (IH s1 ls2 s2 j b E2 Hj k l); [lia|exact Hl].
Qed.


(** * Giving up: a preamble not followed by a prefix within the search length *)
Lemma search_step_nomatch c hist w cnt d :
  FInv c hist (FPrefixSearch w cnt) ->
  max_prefix_bit_errors c < prefix_errors (window (hist ++ [d]) (length hist + 1)) ->
  framer_step c (FPrefixSearch w cnt) d =
  if PREFIX_SEARCH_LEN <? cnt + 1 then (LNoCarrier, FIdle)
  else (LSearching, FPrefixSearch (tl w ++ [d]) (cnt + 1)).
Proof.
  intros (Hlen & Hw & Hc & Hn) Hm. cbn [framer_step].
  assert (tl w ++ [d] = window (hist ++ [d]) (length hist + 1)) as ->.
  { rewrite Hw, <- lastn_snoc4 by exact Hlen.
    replace (length hist + 1)%nat with (length (hist ++ [d])) by (rewrite app_length; reflexivity).
    symmetry. apply window_full. }
  assert ((prefix_errors (window (hist ++ [d]) (length hist + 1)) <=? max_prefix_bit_errors c) = false) as -> by lia.
  destruct (PREFIX_SEARCH_LEN <? cnt + 1); reflexivity.
Qed.

Lemma search_run c : forall ds hist w cnt,
  FInv c hist (FPrefixSearch w cnt) ->
  nomatch c (hist ++ ds) (length hist + length ds) ->
  cnt + N.of_nat (length ds) <= PREFIX_SEARCH_LEN ->
  exists w', framer_steps c (FPrefixSearch w cnt) ds
             = (map (fun _ => LSearching) ds, FPrefixSearch w' (cnt + N.of_nat (length ds)))
             /\ FInv c (hist ++ ds) (FPrefixSearch w' (cnt + N.of_nat (length ds))).
Proof.
  induction ds as [|d ds IH]; intros hist w cnt Hinv Hn Hc.
  - exists w. cbn [framer_steps map length N.of_nat]. rewrite N.add_0_r, app_nil_r. split; [reflexivity|exact Hinv].
  - cbn [length] in *.
    assert (max_prefix_bit_errors c < prefix_errors (window (hist ++ [d]) (length hist + 1))) as Hm.
    { specialize (Hn (length hist + 1)%nat). destruct Hinv as (Hl & _).
      replace (window (hist ++ d :: ds) (length hist + 1)) with (window (hist ++ [d]) (length hist + 1)) in Hn.
      - apply Hn. lia.
      - unfold window. f_equal. change (d :: ds) with ([d] ++ ds). rewrite app_assoc.
        rewrite (firstn_app (length hist + 1) (hist ++ [d]) ds).
        replace (length hist + 1 - length (hist ++ [d]))%nat with O by (rewrite app_length; cbn; lia).
        cbn [firstn]. rewrite app_nil_r. reflexivity. }
    pose proof (search_step_nomatch c hist w cnt d Hinv Hm) as Hs.
    assert ((PREFIX_SEARCH_LEN <? cnt + 1) = false) as Hf by lia. rewrite Hf in Hs.
    destruct (framer_step_inv c hist _ d _ _ Hinv Hs) as [Hinv1 _].
    destruct (IH (hist ++ [d]) (tl w ++ [d]) (cnt + 1) Hinv1) as (w' & E & Hinv2).
    + rewrite <- app_assoc. rewrite app_length. cbn [length app].
      replace (length hist + 1 + length ds)%nat with (length hist + S (length ds))%nat by lia. exact Hn.
    + lia.
    + exists w'. cbn [framer_steps]. rewrite Hs, E. cbn [map].
      replace (cnt + 1 + N.of_nat (length ds)) with (cnt + N.of_nat (S (length ds))) by lia.
      split; [reflexivity|]. rewrite <- app_assoc in Hinv2.
      replace (cnt + 1 + N.of_nat (length ds)) with (cnt + N.of_nat (S (length ds))) in Hinv2 by lia.
      exact Hinv2.
Qed.

Theorem framer_abandon c ds d :
  N.of_nat (length ds) = PREFIX_SEARCH_LEN ->
  nomatch c (ZERO_WORD ++ ds ++ [d]) (4 + length ds + 1) ->
  framer_steps c (FPrefixSearch ZERO_WORD 0) (ds ++ [d])
  = (map (fun _ => LSearching) ds ++ [LNoCarrier], FIdle).
Proof.
  intros Hl Hn.
  destruct (search_run c ds ZERO_WORD ZERO_WORD 0 (FInv_restart c)) as (w' & E & Hinv).
  - intros i Hi. cbn [length ZERO_WORD] in Hi.
    specialize (Hn i ltac:(cbn [length ZERO_WORD]; lia)).
    replace (window (ZERO_WORD ++ ds) i) with (window (ZERO_WORD ++ ds ++ [d]) i); [exact Hn|].
    rewrite app_assoc. apply window_snoc. rewrite app_length. cbn [length ZERO_WORD]. lia.
  - lia.
  - assert (forall a b s l1 s1, framer_steps c s a = (l1, s1) ->
              framer_steps c s (a ++ b) = (l1 ++ fst (framer_steps c s1 b), snd (framer_steps c s1 b))) as App.
    { induction a as [|x a IHa]; intros b s l1 s1 Ea; cbn [framer_steps app] in *.
      - inversion Ea; subst. destruct (framer_steps c s1 b); reflexivity.
      - destruct (framer_step c s x) as [lx sx]. destruct (framer_steps c sx a) as [la sa] eqn:Esa.
        inversion Ea; subst. rewrite (IHa b sx la s1 Esa). reflexivity. }
    rewrite (App _ [d] _ _ _ E). cbn [framer_steps].
    assert (max_prefix_bit_errors c < prefix_errors (window ((ZERO_WORD ++ ds) ++ [d]) (length (ZERO_WORD ++ ds) + 1))) as Hm.
    { rewrite <- app_assoc. apply Hn. rewrite app_length. cbn [length ZERO_WORD]. lia. }
    rewrite (search_step_nomatch c _ _ _ d Hinv Hm).
    assert ((PREFIX_SEARCH_LEN <? 0 + N.of_nat (length ds) + 1) = true) as -> by lia.
    reflexivity.
Qed.

(** * No zero padding can appear in a burst when the session starts with four preamble
    bytes (which the equalizer's training forces after every re-synchronisation) *)
Definition PRE4 : bytes := [171; 171; 171; 171].

Lemma padded_windows_far :
  forallb (fun w => 7 <? prefix_errors w)
    [[0;0;0;171]; [0;0;171;171]; [0;171;171;171]; [171;171;171;171]] = true.
Proof. vm_compute. reflexivity. Qed.

Theorem no_padding_after_training c ds :
  max_prefix_bit_errors c <= 7 ->
  nomatch c (ZERO_WORD ++ PRE4 ++ ds) 8.
Proof.
  intros Hb i Hi. assert (i = 5 \/ i = 6 \/ i = 7 \/ i = 8)%nat as D by lia.
  pose proof padded_windows_far as P. cbn [forallb] in P.
  destruct D as [-> | [-> | [-> | ->]]]; unfold window, lastn; cbn [ZERO_WORD PRE4 app firstn length Nat.sub skipn]; lia.
Qed.
