(** C13: streaming — results independent of chunking and call schedule; nothing read ahead. *)
From Sameold Require Import Base.Bytes Model.Header Model.Combiner Model.Framer Model.Squelch
  Model.Assembler Model.Receiver.
From Coq Require Import ZifyBool ZifyN ZifyNat.
Arguments N.add : simpl never.

(** * One pass is compositional in the input *)
Theorem run_core_app c : forall xs ys k,
  run_core c k (xs ++ ys) =
  let '(e1, k1) := run_core c k xs in
  let '(e2, k2) := run_core c k1 ys in (e1 ++ e2, k2).
Proof.
  induction xs as [|x xs IH]; intros ys k; cbn [app run_core].
  - destruct (run_core c k ys); reflexivity.
  - destruct (step_core c k x) as [k' ev]. rewrite IH.
    destruct (run_core c k' xs) as [e1 k1]. destruct (run_core c k1 ys) as [e2 k2].
    rewrite app_assoc. reflexivity.
Qed.

(** * [process] delivers exactly the next event of the single pass *)
Lemma process_loop_spec c : forall src k,
  match process_loop c (mkRx k []) src with
  | (None, s', rest) =>
    fst (run_core c k src) = [] /\ rest = [] /\ r_queue s' = [] /\ r_core s' = snd (run_core c k src)
  | (Some e, s', rest) =>
    fst (run_core c k src) = e :: r_queue s' ++ fst (run_core c (r_core s') rest)
    /\ snd (run_core c (r_core s') rest) = snd (run_core c k src)
    /\ exists consumed, src = consumed ++ rest
         /\ r_samples (r_core s') = r_samples k + N.of_nat (length consumed)
         /\ ev_time e = r_samples (r_core s')
  end.
Proof.
  induction src as [|i src IH]; intros k; cbn [process_loop run_core].
  - repeat split.
  - unfold step_item. cbn [r_core r_queue app].
    destruct (step_core c k i) as [k' evs] eqn:Es.
    assert (r_samples k' = r_samples k + 1 /\ Forall (fun e => ev_time e = r_samples k + 1) evs) as [Hk' Hev].
    { clear IH. unfold step_core in Es. destruct i as [|t].
      - inversion Es; subst. cbn. split; [reflexivity|constructor].
      - destruct (linklayer_symbol c (r_sq k) (r_fr k) t) as [[[l sq'] fr'] u].
        destruct (transportlayer c (r_asm k) l (sq_symcount sq') (r_samples k + 1) (r_force_eom k)) as [[ot asm'] force'].
        destruct ot as [t'|]; [destruct (transport_eqb t' (r_transport k))|]; inversion Es; subst; cbn [r_samples];
          (split; [reflexivity|]); destruct (negb (link_eqb l (r_link k))); repeat constructor. }
    destruct i as [|t].
    + (* no tick: no events *)
      assert (evs = []) as -> by (unfold step_core in Es; inversion Es; reflexivity).
      specialize (IH k'). destruct (process_loop c (mkRx k' []) src) as [[oe s'] rest].
      destruct (run_core c k' src) as [evs' kf]. cbn [fst snd app] in *.
      destruct oe as [e|].
      * destruct IH as (H1 & H2 & consumed & Hc & Hs & Ht). repeat split; try assumption.
        exists (NoTick :: consumed). cbn [app length]. rewrite Hc. split; [reflexivity|]. split; [|exact Ht]. lia.
      * exact IH.
    + destruct evs as [|e evs].
      * cbn [pop_event r_queue]. specialize (IH k'). destruct (process_loop c (mkRx k' []) src) as [[oe s'] rest].
        destruct (run_core c k' src) as [evs' kf]. cbn [fst snd app] in *.
        destruct oe as [e|].
        -- destruct IH as (H1 & H2 & consumed & Hc & Hs & Ht). repeat split; try assumption.
           exists (Tick t :: consumed). cbn [app length]. rewrite Hc. split; [reflexivity|]. split; [|exact Ht]. lia.
        -- exact IH.
      * destruct (run_core c k' src) as [evs' kf] eqn:Er.
        cbn [pop_event fst snd app r_core r_queue]. rewrite Er. cbn [fst snd].
        split; [reflexivity|]. split; [reflexivity|].
        exists [Tick t]. cbn [app length]. split; [reflexivity|]. split; [lia|].
        inversion Hev as [|? ? He _]; subst. lia.
Qed.

(** general form, with events already queued *)
Theorem process_spec c s src :
  let all := r_queue s ++ fst (run_core c (r_core s) src) in
  match process c s src with
  | (None, s', rest) =>
    all = [] /\ rest = [] /\ r_queue s' = [] /\ r_core s' = snd (run_core c (r_core s) src)
  | (Some e, s', rest) =>
    all = e :: r_queue s' ++ fst (run_core c (r_core s') rest)
    /\ snd (run_core c (r_core s') rest) = snd (run_core c (r_core s) src)
  end.
Proof.
  unfold process, pop_event. destruct s as [k q]. cbn [r_queue r_core].
  destruct q as [|e q].
  - pose proof (process_loop_spec c src k) as H.
    destruct (process_loop c (mkRx k []) src) as [[oe s'] rest]. destruct oe as [e|]; cbn [app].
    + destruct H as (H1 & H2 & _). split; assumption.
    + exact H.
  - cbn [r_queue r_core app]. split; reflexivity.
Qed.

(** * Any schedule of [next()] calls over any partition into chunks *)
(** repeatedly call [process] on the current chunk; move to the next chunk when it returns None *)
Fixpoint sched (fuel : nat) (c : rcfg) (s : rx) (cur : list item) (chunks : list (list item))
  : list event * rx :=
  match fuel with
  | O => ([], s)
  | S f =>
    match process c s cur with
    | (Some e, s', rest) => let '(es, sf) := sched f c s' rest chunks in (e :: es, sf)
    | (None, s', _) =>
      match chunks with
      | [] => ([], s')
      | ch :: chs => sched f c s' ch chs
      end
    end
  end.

Lemma sched_prefix c : forall fuel s cur chunks,
  let all := r_queue s ++ fst (run_core c (r_core s) (cur ++ concat chunks)) in
  exists tl, all = fst (sched fuel c s cur chunks) ++ tl.
Proof.
  induction fuel as [|f IH]; intros s cur chunks all; [exists all; reflexivity|].
  cbn [sched]. pose proof (process_spec c s cur) as P.
  destruct (process c s cur) as [[oe s'] rest]. destruct oe as [e|].
  - destruct P as (P1 & P2).
    destruct (sched f c s' rest chunks) as [es sf] eqn:Es. cbn [fst].
    destruct (IH s' rest chunks) as (tl & Htl). rewrite Es in Htl. cbn [fst] in Htl.
    exists tl. unfold all. rewrite run_core_app.
    destruct (run_core c (r_core s) cur) as [e1 k1] eqn:E1. cbn [fst snd] in *.
    destruct (run_core c k1 (concat chunks)) as [e2 k2] eqn:E2. cbn [fst].
    rewrite app_assoc, P1. cbn [app]. f_equal.
    rewrite run_core_app in Htl. destruct (run_core c (r_core s') rest) as [e1' k1'] eqn:E1'. cbn [fst snd] in *.
    subst k1'. rewrite E2 in Htl. cbn [fst] in Htl. rewrite <- Htl. rewrite <- !app_assoc. reflexivity.
  - destruct P as (P1 & P2 & P3 & P4). destruct chunks as [|ch chs].
    + exists all. reflexivity.
    + destruct (IH s' ch chs) as (tl & Htl). exists tl. unfold all.
      rewrite run_core_app. destruct (run_core c (r_core s) cur) as [e1 k1] eqn:E1. cbn [fst snd] in *.
      apply app_eq_nil in P1. destruct P1 as [-> ->]. cbn [app concat].
      rewrite P3, P4 in Htl. cbn [app] in Htl.
      destruct (run_core c k1 (ch ++ concat chs)) as [e2 k2]. cbn [fst] in *. exact Htl.
Qed.

(** with enough calls, every schedule delivers exactly the events of the single pass,
    in order, and ends in the same state *)
Theorem sched_complete c : forall fuel s cur chunks,
  let all := r_queue s ++ fst (run_core c (r_core s) (cur ++ concat chunks)) in
  (length all + length chunks < fuel)%nat ->
  sched fuel c s cur chunks =
  (all, mkRx (snd (run_core c (r_core s) (cur ++ concat chunks))) []).
Proof.
  induction fuel as [|f IH]; intros s cur chunks all Hf; [lia|].
  cbn [sched]. pose proof (process_spec c s cur) as P.
  destruct (process c s cur) as [[oe s'] rest]. destruct oe as [e|].
  - destruct P as (P1 & P2).
    assert (all = e :: (r_queue s' ++ fst (run_core c (r_core s') (rest ++ concat chunks)))
            /\ snd (run_core c (r_core s') (rest ++ concat chunks)) = snd (run_core c (r_core s) (cur ++ concat chunks))) as [Hall Hst].
    { unfold all. rewrite !run_core_app.
      destruct (run_core c (r_core s) cur) as [e1 k1] eqn:E1. cbn [fst snd] in *.
      destruct (run_core c (r_core s') rest) as [e1' k1'] eqn:E1'. cbn [fst snd] in *. subst k1'.
      destruct (run_core c k1 (concat chunks)) as [e2 k2]. cbn [fst snd].
      rewrite app_assoc, P1. cbn [app]. rewrite <- !app_assoc. split; reflexivity. }
    rewrite IH.
    + rewrite Hall, Hst. reflexivity.
    + rewrite Hall in Hf. cbn [length] in Hf. lia.
  - destruct P as (P1 & P2 & P3 & P4). destruct chunks as [|ch chs].
    + unfold all. cbn [concat]. rewrite app_nil_r, P1. f_equal. destruct s' as [k' q']. cbn in *. subst. reflexivity.
    + assert (all = r_queue s' ++ fst (run_core c (r_core s') (ch ++ concat chs))
              /\ snd (run_core c (r_core s') (ch ++ concat chs)) = snd (run_core c (r_core s) (cur ++ concat (ch :: chs)))) as [Hall Hst].
      { unfold all. cbn [concat]. rewrite (run_core_app c cur).
        destruct (run_core c (r_core s) cur) as [e1 k1] eqn:E1. cbn [fst snd] in *.
        apply app_eq_nil in P1. destruct P1 as [-> ->]. rewrite P3, P4. cbn [app].
        destruct (run_core c k1 (ch ++ concat chs)) as [e2 k2]. split; reflexivity. }
      rewrite IH.
      * rewrite Hall, Hst. reflexivity.
      * rewrite <- Hall. cbn [length] in Hf. lia.
Qed.

(** * Nothing is read ahead; timestamps count consumed samples and never decrease *)
Theorem no_read_ahead c k src e s' rest :
  process c (mkRx k []) src = (Some e, s', rest) ->
  exists consumed, src = consumed ++ rest
    /\ r_samples (r_core s') = r_samples k + N.of_nat (length consumed)
    /\ ev_time e = r_samples (r_core s').
Proof.
  unfold process. cbn [pop_event r_queue]. intros E.
  pose proof (process_loop_spec c src k) as H. rewrite E in H.
  destruct H as (_ & _ & H). exact H.
Qed.

Lemma step_core_times c k i k' evs :
  step_core c k i = (k', evs) ->
  r_samples k' = r_samples k + 1 /\ Forall (fun e => ev_time e = r_samples k + 1) evs.
Proof.
  unfold step_core. destruct i as [|t].
  - intros E; inversion E; subst. cbn. split; [reflexivity|constructor].
  - destruct (linklayer_symbol c (r_sq k) (r_fr k) t) as [[[l sq'] fr'] u].
    destruct (transportlayer c (r_asm k) l (sq_symcount sq') (r_samples k + 1) (r_force_eom k)) as [[ot asm'] force'].
    destruct ot as [t'|]; [destruct (transport_eqb t' (r_transport k))|]; intros E; inversion E; subst; cbn [r_samples];
      (split; [reflexivity|]); destruct (negb (link_eqb l (r_link k))); repeat constructor.
Qed.

(** events of a pass carry non-decreasing timestamps within (start, start + length] *)
Fixpoint sorted_from (lo : N) (evs : list event) : Prop :=
  match evs with
  | [] => True
  | e :: r => lo <= ev_time e /\ sorted_from (ev_time e) r
  end.

Lemma sorted_from_weaken lo lo' evs : lo' <= lo -> sorted_from lo evs -> sorted_from lo' evs.
Proof. destruct evs; cbn; [trivial|]. intros H [H1 H2]. split; [lia|exact H2]. Qed.

Lemma sorted_from_app lo a b hi :
  sorted_from lo a -> Forall (fun e => ev_time e <= hi) a -> lo <= hi -> sorted_from hi b -> sorted_from lo (a ++ b).
Proof.
  revert lo. induction a as [|x a IH]; intros lo Ha Hb Hl Hsb; cbn [app].
  - eapply sorted_from_weaken; eassumption.
  - destruct Ha as [H1 H2]. inversion Hb as [|? ? Hx Hb']; subst. split; [exact H1|].
    apply IH; assumption.
Qed.

Theorem timestamps_monotone c : forall src k,
  sorted_from (r_samples k) (fst (run_core c k src))
  /\ Forall (fun e => r_samples k < ev_time e <= r_samples k + N.of_nat (length src)) (fst (run_core c k src))
  /\ r_samples (snd (run_core c k src)) = r_samples k + N.of_nat (length src).
Proof.
  induction src as [|i src IH]; intros k; cbn [run_core].
  - cbn. repeat split; [constructor|lia].
  - destruct (step_core c k i) as [k' evs] eqn:Es.
    destruct (step_core_times c k i k' evs Es) as [Hk' Hev].
    destruct (IH k') as (S1 & S2 & S3). destruct (run_core c k' src) as [evs' kf]. cbn [fst snd length] in *.
    split; [|split].
    + apply (sorted_from_app _ _ _ (r_samples k')).
      * clear -Hev. assert (forall lo, lo <= r_samples k + 1 -> sorted_from lo evs) as G.
        { induction Hev as [|e evs He _ IHe]; intros lo Hlo; cbn; [trivial|]. split; [lia|]. apply IHe. lia. }
        apply G. lia.
      * eapply Forall_impl; [|exact Hev]. cbn. intros e He. lia.
      * lia.
      * exact S1.
    + apply Forall_app. split.
      * eapply Forall_impl; [|exact Hev]. cbn. intros e He. lia.
      * eapply Forall_impl; [|exact S2]. cbn. intros e He. lia.
    + lia.
Qed.
