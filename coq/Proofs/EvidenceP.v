(** C04: no StartOfMessage without evidence — for every item stream (= all audio). *)
From Coq Require Import Sorted.
From Sameold Require Import Base.Bytes Model.Header Model.Combiner Model.Framer Model.Squelch
  Model.Assembler Model.Receiver.
From Coq Require Import ZifyBool ZifyN ZifyNat.
Arguments N.add : simpl never.
Arguments N.leb : simpl never.
Arguments N.ltb : simpl never.
Local Opaque MAX_MESSAGE_LENGTH.

Definition trunc (b : bytes) : bytes := firstn MAX_MESSAGE_LENGTH b.

(** [w] is a run of consecutive elements of [l] *)
Definition is_window {A} (w l : list A) : Prop := exists a b, l = a ++ w ++ b.

(** the header is what [combine] makes of at most three consecutive reported bursts *)
Definition justified_msg (log : list bytes) (m : message) : Prop :=
  exists w, is_window w (map trunc log) /\ (length w <= 3)%nat /\ combine w = Some (Ok m).
Definition justified_som (log : list bytes) (h : header) : Prop := justified_msg log (SOM h).

(** walk an event list: bursts extend the log, every StartOfMessage must be justified by the log so far *)
Fixpoint justified_events (log : list bytes) (evs : list event) : Prop :=
  match evs with
  | [] => True
  | e :: r =>
    match ev_what e with
    | WLink (LBurst b) => justified_events (log ++ [b]) r
    | WTransport (TMessage (Ok (SOM h))) => justified_som log h /\ justified_events log r
    | _ => justified_events log r
    end
  end.

Fixpoint bursts_of (evs : list event) : list bytes :=
  match evs with
  | [] => []
  | e :: r => match ev_what e with WLink (LBurst b) => b :: bursts_of r | _ => bursts_of r end
  end.

Lemma justified_events_app log a b :
  justified_events log a -> justified_events (log ++ bursts_of a) b -> justified_events log (a ++ b).
Proof.
  revert log. induction a as [|e a IH]; intros log Ha Hb; cbn [app bursts_of justified_events] in *.
  - rewrite app_nil_r in Hb. exact Hb.
  - destruct (ev_what e) as [[| | |bb]|[| |[[hh|]|er]]]; try (apply IH; assumption).
    + apply IH; [exact Ha|].
      replace ((log ++ [bb]) ++ bursts_of a) with (log ++ bb :: bursts_of a)
        by (rewrite <- app_assoc; reflexivity). exact Hb.
    + destruct Ha as [H1 H2]. split; [exact H1|]. apply IH; assumption.
Qed.

Lemma justified_msg_mono log b m : justified_msg log m -> justified_msg (log ++ [b]) m.
Proof.
  intros (w & (a & c & Hw) & Hl & Hc). exists w. split; [|split; assumption].
  exists a, (c ++ [trunc b]). rewrite map_app, Hw. cbn [map]. rewrite <- !app_assoc. reflexivity.
Qed.

Lemma justified_som_mono log b h : justified_som log h -> justified_som (log ++ [b]) h.
Proof. apply justified_msg_mono. Qed.

(** * Assembler invariants *)
Definition dl_le (x y : timed bytes) : Prop := t_deadline x <= t_deadline y.

Definition hist_ok (log : list bytes) (now : N) (hist : list (timed bytes)) : Prop :=
  (exists a, map trunc log = a ++ map t_data hist)
  /\ StronglySorted dl_le hist
  /\ Forall (fun e => t_deadline e <= now + MAX_HISTORY_DURATION) hist.

Definition pend_ok (log : list bytes) (p : option (timed msg_result)) : Prop :=
  forall t m, p = Some t -> t_data t = Ok m -> justified_msg log m.

Lemma skipn_sorted {A} (R : A -> A -> Prop) k l : StronglySorted R l -> StronglySorted R (skipn k l).
Proof.
  revert l. induction k as [|k IH]; intros l H; [exact H|]. destruct l as [|x l]; [constructor|].
  cbn [skipn]. apply IH. inversion H; assumption.
Qed.

Lemma skipn_forall {A} (P : A -> Prop) k l : Forall P l -> Forall P (skipn k l).
Proof.
  revert l. induction k as [|k IH]; intros l H; [exact H|]. destruct l as [|x l]; [constructor|].
  cbn [skipn]. apply IH. inversion H; assumption.
Qed.

Lemma filter_sorted_suffix now hist :
  StronglySorted dl_le hist ->
  exists k, filter (fun e => negb (is_expired_at e now)) hist = skipn k hist.
Proof.
  induction 1 as [|x r Hs IH Hx]; [exists O; reflexivity|].
  cbn [filter]. unfold is_expired_at at 1. destruct (N.leb_spec (t_deadline x) now) as [He|He]; cbn [negb].
  - destruct IH as (k & Hk). exists (S k). exact Hk.
  - exists O. cbn [skipn]. f_equal.
    clear IH Hs. induction r as [|y r IHr]; [reflexivity|]. inversion Hx as [|? ? Hy Hr]; subst.
    cbn [filter]. unfold is_expired_at at 1. unfold dl_le in Hy.
    assert ((t_deadline y <=? now) = false) as -> by lia. cbn [negb]. f_equal. apply IHr, Hr.
Qed.

Lemma keep_last2_suffix {A} (l : list A) : exists k, keep_last2 l = skipn k l /\ (length (keep_last2 l) <= 2)%nat.
Proof.
  induction l as [|x l IH]; [exists O; split; [reflexivity|cbn; lia]|].
  destruct l as [|y [|z l']].
  - exists O. split; [reflexivity|cbn; lia].
  - exists O. split; [reflexivity|cbn; lia].
  - destruct IH as (k & Hk & Hl). exists (S k). split; [exact Hk|exact Hl].
Qed.

Lemma prune_history_suffix h now :
  StronglySorted dl_le h ->
  exists k, prune_history h now = skipn k h /\ (length (prune_history h now) <= 2)%nat.
Proof.
  intros Hs. unfold prune_history.
  destruct (filter_sorted_suffix now h Hs) as (k1 & ->).
  destruct (keep_last2_suffix (skipn k1 h)) as (k2 & Hk2 & Hl).
  exists (k1 + k2)%nat. split; [|exact Hl]. rewrite Hk2.
  clear. revert h. induction k1 as [|k1 IH]; intros h; [reflexivity|].
  destruct h as [|x h]; [destruct k2; reflexivity|]. cbn [skipn Nat.add]. apply IH.
Qed.

Lemma hist_ok_skipn log now now' k h :
  now <= now' -> hist_ok log now h -> hist_ok log now' (skipn k h).
Proof.
  intros Hn ((a & Ha) & Hs & Hf). split; [|split].
  - exists (a ++ map t_data (firstn k h)). rewrite <- app_assoc, <- map_app, firstn_skipn. exact Ha.
  - apply skipn_sorted, Hs.
  - apply skipn_forall. eapply Forall_impl; [|exact Hf]. cbn. intros e He. lia.
Qed.

Lemma pending_poll_ok log p now o p' :
  pend_ok log p -> pending_poll p now = (o, p') ->
  pend_ok log p' /\ forall m, o = Some (Ok m) -> justified_msg log m.
Proof.
  intros Hp. unfold pending_poll. destruct p as [t|].
  - destruct (is_expired_at t now); intros E; inversion E; subst.
    + split; [intros t' h' Hn; discriminate|]. intros h Hh. inversion Hh as [Hd]. eapply Hp; [reflexivity|exact Hd].
    + split; [exact Hp|]. intros h Hh; discriminate.
  - intros E; inversion E; subst. split; [exact Hp|]. intros h Hh; discriminate.
Qed.

Lemma asm_idle_ok log now0 now s t s' :
  now0 <= now -> hist_ok log now0 (a_history s) -> pend_ok log (a_pending s) ->
  asm_idle s now = (t, s') ->
  hist_ok log now (a_history s') /\ pend_ok log (a_pending s')
  /\ forall m, t = TMessage (Ok m) -> justified_msg log m.
Proof.
  intros Hn Hh Hp. unfold asm_idle.
  destruct (prune_history_suffix (a_history s) now (proj1 (proj2 Hh))) as (k & Hk & _).
  rewrite Hk. pose proof (hist_ok_skipn log now0 now k _ Hn Hh) as Hh'.
  destruct (pending_poll (a_pending s) now) as [o p'] eqn:Ep.
  destruct (pending_poll_ok log _ now o p' Hp Ep) as [Hp' Ho].
  destruct o as [[m|e]|]; intros E; inversion E; subst; cbn [a_history a_pending]; (split; [exact Hh'|split; [exact Hp'|]]).
  - intros h Hh2. inversion Hh2; subst. apply Ho. reflexivity.
  - intros h Hh2. discriminate.
  - intros h Hh2. destruct (skipn k (a_history s)); discriminate.
Qed.

Lemma pending_accept_ok log p msg now :
  pend_ok log p -> (forall m, msg = Ok m -> justified_msg log m) ->
  pend_ok log (pending_accept p msg now).
Proof.
  intros Hp Hm. unfold pending_accept.
  assert (forall d, pend_ok log (Some (mkTimed msg d))) as Hnew.
  { intros d t h Ht Hd. inversion Ht; subst. cbn [t_data] in Hd. apply Hm, Hd. }
  destruct p as [old|].
  - match goal with |- pend_ok _ (if ?c then _ else _) => destruct c end.
    + destruct msg as [[hh|]|e]; apply Hnew.
    + exact Hp.
  - destruct msg as [[hh|]|e]; apply Hnew.
Qed.

Lemma sorted_snoc hist x now now' :
  now <= now' -> StronglySorted dl_le hist ->
  Forall (fun e => t_deadline e <= now + MAX_HISTORY_DURATION) hist ->
  t_deadline x = now' + MAX_HISTORY_DURATION ->
  StronglySorted dl_le (hist ++ [x]).
Proof.
  intros Hn Hs Hf Hx. induction Hs as [|y r Hr IH Hy]; cbn [app].
  - constructor; constructor.
  - inversion Hf as [|? ? Hfy Hfr]; subst. constructor; [apply IH, Hfr|].
    apply Forall_app. split; [exact Hy|]. constructor; [|constructor]. unfold dl_le. lia.
Qed.

Lemma asm_assemble_ok log now0 now s b t s' :
  now0 <= now -> hist_ok log now0 (a_history s) -> pend_ok log (a_pending s) -> b <> [] ->
  asm_assemble s b now = (t, s') ->
  hist_ok (log ++ [b]) now (a_history s') /\ pend_ok (log ++ [b]) (a_pending s')
  /\ forall m, t = TMessage (Ok m) -> justified_msg (log ++ [b]) m.
Proof.
  intros Hn Hh Hp Hb. unfold asm_assemble. destruct b as [|b0 b']; [contradiction|].
  set (b := b0 :: b') in *.
  destruct (prune_history_suffix (a_history s) now (proj1 (proj2 Hh))) as (k & Hk & Hl2).
  rewrite Hk in *. pose proof (hist_ok_skipn log now0 now k _ Hn Hh) as ((a & Ha) & Hs & Hf).
  set (h := skipn k (a_history s)) in *.
  set (h' := h ++ [mkTimed (firstn MAX_MESSAGE_LENGTH b) (now + MAX_HISTORY_DURATION)]).
  assert (hist_ok (log ++ [b]) now h') as Hh'.
  { split; [|split].
    - exists a. unfold h'. rewrite !map_app, Ha. cbn [map t_data]. rewrite <- app_assoc. reflexivity.
    - eapply (sorted_snoc h _ now now); [lia|exact Hs|exact Hf|reflexivity].
    - apply Forall_app. split; [exact Hf|]. constructor; [cbn; lia|constructor]. }
  assert (pend_ok (log ++ [b]) (a_pending s)) as Hp1.
  { intros t0 h0 H1 H2. apply justified_msg_mono. eapply Hp; eassumption. }
  set (pend := match deduplicate (prune_previous (a_previous s) now) (combine (map t_data h')) with
               | Some msg => pending_accept (a_pending s) msg now
               | None => a_pending s end).
  assert (pend_ok (log ++ [b]) pend) as Hp2.
  { unfold pend. destruct (deduplicate _ _) as [msg|] eqn:Ed; [|exact Hp1].
    apply pending_accept_ok; [exact Hp1|]. intros hh ->.
    exists (map t_data h'). split; [|split].
    - destruct Hh' as ((a' & Ha') & _). exists a', []. rewrite app_nil_r. exact Ha'.
    - unfold h'. rewrite map_length, app_length. cbn [length]. lia.
    - unfold deduplicate in Ed. destruct (combine (map t_data h')) as [[m|e]|]; try discriminate.
      destruct (is_not_duplicate _ m); inversion Ed; reflexivity. }
  intros E.
  eapply (asm_idle_ok (log ++ [b]) now now (mkAsm h' pend (prune_previous (a_previous s) now))); [lia|exact Hh'|exact Hp2|exact E].
Qed.

(** * Link-layer facts needed to know that an assembled burst was reported *)
Lemma link_eqb_refl l : link_eqb l l = true.
Proof.
  destruct l; try reflexivity. cbn. induction b as [|x b IH]; [reflexivity|]. cbn [list_eqb]. rewrite N.eqb_refl. exact IH.
Qed.

Lemma list_eqb_eq a b : list_eqb a b = true -> a = b.
Proof.
  revert b. induction a as [|x a IH]; intros [|y b]; cbn [list_eqb]; try discriminate; [reflexivity|].
  intros E. apply andb_prop in E. destruct E as [E1 E2]. apply N.eqb_eq in E1. f_equal; [exact E1|apply IH, E2].
Qed.

Lemma link_eqb_eq a b : link_eqb a b = true -> a = b.
Proof. destruct a, b; cbn [link_eqb]; try discriminate; try reflexivity. intros E. f_equal. apply list_eqb_eq, E. Qed.

(** the framer never reads an empty message, and a burst leaves it idle *)
Definition fr_ok (f : fstate) : Prop := match f with FDataRead msg _ => msg <> [] | _ => True end.

Lemma framer_end_ok f l f' : fr_ok f -> framer_end f = (l, f') ->
  f' = FIdle /\ (forall b, l = LBurst b -> b <> []) /\ (f = FIdle -> l = LNoCarrier).
Proof.
  destruct f as [|w c|msg inv]; cbn [framer_end fr_ok]; intros H E; inversion E; subst;
    (split; [reflexivity|split]); try (intros b Hb; discriminate); try reflexivity; try (intros; discriminate).
  intros b Hb. inversion Hb; subst. exact H.
Qed.

Lemma framer_step_ok c f d l f' : fr_ok f -> framer_step c f d = (l, f') ->
  fr_ok f' /\ (forall b, l = LBurst b -> b <> [] /\ f' = FIdle) /\ (f = FIdle -> l = LNoCarrier /\ f' = FIdle).
Proof.
  destruct f as [|w cnt|msg inv]; cbn [framer_step fr_ok]; intros H.
  - intros E; inversion E; subst. repeat split; try exact I; intros; discriminate.
  - destruct (_ <=? _).
    + intros E; inversion E; subst. cbn [fr_ok]. split; [destruct (tl w); discriminate|]. split; intros; discriminate.
    + destruct (_ <? _); intros E; inversion E; subst; cbn [fr_ok]; (split; [exact I|]); split; intros; discriminate.
  - destruct (_ <? _); cbn [framer_end].
    + intros E; inversion E; subst. cbn [fr_ok]. split; [exact I|]. split; [|intros; discriminate].
      intros b Hb. inversion Hb; subst. split; [exact H|reflexivity].
    + destruct (_ <=? _)%nat; cbn [framer_end]; intros E; inversion E; subst; cbn [fr_ok].
      * split; [exact I|]. split; [|intros; discriminate]. intros b Hb. inversion Hb; subst.
        split; [destruct msg; discriminate|reflexivity].
      * split; [destruct msg; discriminate|]. split; intros; discriminate.
Qed.

Lemma framer_input_ok c f d r l f' : fr_ok f -> framer_input c f d r = (l, f') ->
  fr_ok f' /\ (forall b, l = LBurst b -> b <> []) /\ (f = FIdle -> forall b, l <> LBurst b).
Proof.
  intros H. unfold framer_input. destruct r.
  - destruct (framer_step c (FPrefixSearch ZERO_WORD 0) d) as [l2 f2] eqn:E2.
    destruct (framer_end f) as [lo fo] eqn:Eo. cbn [fst snd]. intros E. injection E as El Ef. subst f'.
    destruct (framer_step_ok c (FPrefixSearch ZERO_WORD 0) d l2 f2 I E2) as (Hf2 & _ & _). split; [exact Hf2|].
    destruct (framer_end_ok f lo fo H Eo) as (_ & Hb & Hidle). split.
    + intros b Hb'. destruct lo; try (subst l; discriminate). subst l. inversion Hb'; subst. apply (Hb b). reflexivity.
    + intros Hi b Hb'. rewrite (Hidle Hi) in El. subst l. discriminate.
  - intros E. destruct (framer_step_ok c f d l f' H E) as (H1 & H2 & H3). split; [exact H1|]. split.
    + intros b Hb. apply (H2 b Hb).
    + intros Hi b Hb. destruct (H3 Hi) as [Hl _]. rewrite Hl in Hb. discriminate.
Qed.

Lemma sq_input_symcount me s b po pc o s' : sq_input me s b po pc = (o, s') -> sq_symcount s' = sq_symcount s + 1.
Proof.
  unfold sq_input.
  repeat match goal with
         | |- context [if ?c then _ else _] => destruct c
         | |- context [match sq_clock s with _ => _ end] => destruct (sq_clock s) as [[|?]|]
         | |- context [match push_wrapping ?a ?b with _ => _ end] => destruct (push_wrapping a b) as [|[] ?]
         end; intros E; inversion E; reflexivity.
Qed.

Definition fr_not_reading (f : fstate) : Prop := match f with FDataRead _ _ => False | _ => True end.

Lemma restart_word_far d : 11 <= prefix_errors [0; 0; 0; d].
Proof.
  unfold prefix_errors, PREFIX_START, PREFIX_END. cbn [bit_distance].
  change (popcount (N.lxor 0 90)) with 4. change (popcount (N.lxor 0 67)) with 3.
  change (popcount (N.lxor 0 78)) with 4. lia.
Qed.

Lemma framer_input_link c f d r l f' :
  max_prefix_bit_errors c <= 7 -> fr_ok f -> framer_input c f d r = (l, f') ->
  fr_ok f'
  /\ (forall b, l = LBurst b -> b <> [] /\ fr_not_reading f')
  /\ (fr_not_reading f -> forall b, l <> LBurst b).
Proof.
  intros Hb H E. destruct (framer_input_ok c f d r l f' H E) as (H1 & H2 & _). split; [exact H1|].
  unfold framer_input in E. destruct r.
  - destruct (framer_end f) as [lo fo] eqn:Eo. cbn [fst snd] in E. injection E as El Ef.
    assert (fr_not_reading f') as Hnr.
    { subst f'. cbn [framer_step ZERO_WORD tl app snd]. pose proof (restart_word_far d).
      assert ((prefix_errors [0; 0; 0; d] <=? max_prefix_bit_errors c) = false) as -> by lia.
      destruct (PREFIX_SEARCH_LEN <? 0 + 1); exact I. }
    split.
    + intros b Hl. split; [apply (H2 b Hl)|exact Hnr].
    + intros Hf b Hl. destruct f; cbn [framer_end fr_not_reading] in *; try contradiction; inversion Eo; subst; discriminate.
  - split.
    + intros b Hl. split; [apply (H2 b Hl)|]. subst l.
      destruct (framer_step_ok c f d _ f' H E) as (_ & Hx & _). destruct (Hx b eq_refl) as [_ ->]. exact I.
    + intros Hf b Hl. destruct f as [|w cnt|msg inv]; cbn [fr_not_reading] in Hf; try contradiction; cbn [framer_step] in E.
      * inversion E; subst; discriminate.
      * destruct (_ <=? _); [inversion E; subst; discriminate|]. destruct (_ <? _); inversion E; subst; discriminate.
Qed.

Lemma linklayer_symbol_ok c s f t l s' f' u :
  max_prefix_bit_errors (fc c) <= 7 -> fr_ok f ->
  linklayer_symbol c s f t = (l, s', f', u) ->
  fr_ok f'
  /\ (forall b, l = LBurst b -> b <> [] /\ fr_not_reading f')
  /\ (fr_not_reading f -> forall b, l <> LBurst b)
  /\ sq_symcount s' = sq_symcount s + 1.
Proof.
  intros Hb H. unfold linklayer_symbol.
  destruct (sq_input (preamble_max_errors c) s (t_bit t) (t_popen t) (t_pclose t)) as [o s1] eqn:Es.
  pose proof (sq_input_symcount _ _ _ _ _ _ _ Es) as Hc.
  assert (forall lx fx, framer_end f = (lx, fx) ->
            fr_ok fx /\ (forall b, lx = LBurst b -> b <> [] /\ fr_not_reading fx)
            /\ (fr_not_reading f -> forall b, lx <> LBurst b)) as Hend.
  { intros lx fx Ee. destruct (framer_end_ok f lx fx H Ee) as (-> & Hx & _). split; [exact I|]. split.
    - intros b Hl. split; [apply (Hx b Hl)|exact I].
    - intros Hf b Hl. destruct f; cbn [framer_end fr_not_reading] in *; try contradiction; inversion Ee; subst; discriminate. }
  destruct o as [| | |resync hb|].
  - destruct (framer_end f) as [lx fx] eqn:Ee. intros E; inversion E; subst.
    destruct (Hend _ _ eq_refl) as (A & B & C). repeat split; try assumption; try (apply B; assumption); apply (B b H0).
  - destruct (framer_end f) as [lx fx] eqn:Ee. intros E; inversion E; subst.
    destruct (Hend _ _ eq_refl) as (A & B & C). repeat split; try assumption; try (apply (B b H0)).
  - intros E; inversion E; subst. split; [exact H|]. split; [|split; [|exact Hc]].
    + intros b Hl. destruct f'; discriminate.
    + intros _ b Hl. destruct f'; discriminate.
  - destruct (framer_input (fc c) f (t_eq t) resync) as [lx fx] eqn:Ei.
    destruct (framer_input_link (fc c) f (t_eq t) resync lx fx Hb H Ei) as (A & B & C).
    intros E; inversion E; subst. split; [exact A|]. split; [exact B|]. split; [exact C|].
    destruct l; cbn [sq_set_lock sq_end sq_symcount]; exact Hc.
  - destruct (framer_end f) as [lx fx] eqn:Ee. intros E; inversion E; subst.
    destruct (Hend _ _ eq_refl) as (A & B & C). repeat split; try assumption; try (apply (B b H0)).
Qed.

(** * The receiver invariant *)
Definition CInv (k : core) (log : list bytes) : Prop :=
  hist_ok log (sq_symcount (r_sq k)) (a_history (r_asm k))
  /\ pend_ok log (a_pending (r_asm k))
  /\ fr_ok (r_fr k)
  /\ (forall b, r_link k = LBurst b -> fr_not_reading (r_fr k)).

Lemma CInv_init : CInv core_init [].
Proof.
  split; [|split; [|split]].
  - split; [exists []; reflexivity|]. split; constructor.
  - intros t h Hn; discriminate.
  - exact I.
  - intros b Hl; discriminate.
Qed.

(** every successfully decoded message event of a step is what [combine] makes of at most three
    consecutive reported bursts, or it is the forced EndOfMessage of an armed, elapsed timer *)
Definition msg_justified (k : core) (log : list bytes) (m : message) : Prop :=
  justified_msg log m \/ (m = EOM /\ exists tm, r_force_eom k = Some tm /\ tm < r_samples k + 1).

Theorem step_core_justified_gen c k log i k' evs :
  max_prefix_bit_errors (fc c) <= 7 ->
  CInv k log -> step_core c k i = (k', evs) ->
  CInv k' (log ++ bursts_of evs) /\ justified_events log evs
  /\ (forall e m, In e evs -> ev_what e = WTransport (TMessage (Ok m)) -> msg_justified k (log ++ bursts_of evs) m).
Proof.
  intros Hb (Hh & Hp & Hf & Hl). unfold step_core. destruct i as [|t].
  - intros E; inversion E; subst. cbn [bursts_of justified_events r_sq r_asm r_fr r_link]. rewrite app_nil_r.
    split; [|split; [exact I|intros e m []]]. split; [exact Hh|]. split; [exact Hp|]. split; [exact Hf|exact Hl].
  - destruct (linklayer_symbol c (r_sq k) (r_fr k) t) as [[[l sq'] fr'] u] eqn:El.
    destruct (linklayer_symbol_ok c _ _ t l sq' fr' u Hb Hf El) as (Hf' & Hbl & Hnb & Hsc).
    (* the link state handed to the transport layer is always the one last reported *)
    assert ((if negb (link_eqb l (r_link k)) then l else r_link k) = l) as Hlink.
    { destruct (link_eqb l (r_link k)) eqn:Eq; cbn [negb]; [symmetry; apply link_eqb_eq, Eq|reflexivity]. }
    (* a burst is always a change of link state, hence always reported *)
    assert (forall b, l = LBurst b -> negb (link_eqb l (r_link k)) = true) as Hrep.
    { intros b ->. destruct (link_eqb (LBurst b) (r_link k)) eqn:Eq; [|reflexivity].
      apply link_eqb_eq in Eq. exfalso. eapply (Hnb (Hl b (eq_sym Eq))). reflexivity. }
    set (n := r_samples k + 1).
    set (e1 := if negb (link_eqb l (r_link k)) then [mkEvent (WLink l) n] else []).
    set (log1 := log ++ bursts_of e1).
    assert (justified_events log e1) as Je1.
    { unfold e1. destruct (negb (link_eqb l (r_link k))); [|exact I]. cbn [justified_events ev_what].
      destruct l; exact I. }
    (* transport layer *)
    unfold transportlayer.
    assert (exists ot asm' , (match l with
              | LBurst b => let '(t0, a') := asm_assemble (r_asm k) b (sq_symcount sq') in (Some t0, a')
              | _ => if match r_force_eom k with Some tm => tm <? n | None => false end
                     then (Some (TMessage (Ok EOM)), r_asm k)
                     else match l with
                          | LNoCarrier => let '(t0, a') := asm_idle (r_asm k) (sq_symcount sq') in (Some t0, a')
                          | _ => (None, r_asm k) end
              end) = (ot, asm')
            /\ hist_ok log1 (sq_symcount sq') (a_history asm') /\ pend_ok log1 (a_pending asm')
            /\ (forall t0 m, ot = Some t0 -> t0 = TMessage (Ok m) -> msg_justified k log1 m)) as (ot & asm' & Et & Hh' & Hp' & Hj).
    { assert (sq_symcount (r_sq k) <= sq_symcount sq') as Hmono by lia.
      assert (forall lg, hist_ok lg (sq_symcount (r_sq k)) (a_history (r_asm k)) -> hist_ok lg (sq_symcount sq') (a_history (r_asm k))) as Hup.
      { intros lg (A1 & A2 & A3). split; [exact A1|]. split; [exact A2|]. eapply Forall_impl; [|exact A3]. cbn. intros e He. lia. }
      destruct l as [| | |b].
      - (* NoCarrier *)
        assert (log1 = log) as -> by (unfold log1, e1; destruct (negb _); cbn [bursts_of ev_what]; apply app_nil_r).
        assert (forall m, (match r_force_eom k with Some tm => tm <? n | None => false end) = true ->
                  Some (TMessage (Ok EOM)) = Some (TMessage (Ok m)) -> msg_justified k log m) as Hforced.
        { intros m Hto Hm. inversion Hm; subst m. right. split; [reflexivity|].
          destruct (r_force_eom k) as [tm|]; [|discriminate]. exists tm. split; [reflexivity|]. unfold n in Hto. lia. }
        destruct (match r_force_eom k with Some tm => tm <? n | None => false end) eqn:Eto.
        + eexists _, _. split; [reflexivity|]. split; [apply Hup, Hh|]. split; [exact Hp|]. intros t0 m Ht ->. apply Hforced; [reflexivity|exact Ht].
        + destruct (asm_idle (r_asm k) (sq_symcount sq')) as [t0 a'] eqn:Ea.
          destruct (asm_idle_ok log _ _ _ _ _ Hmono Hh Hp Ea) as (B1 & B2 & B3).
          eexists _, _. split; [reflexivity|]. split; [exact B1|]. split; [exact B2|].
          intros t1 m Ht Hm. inversion Ht; subst. left. apply B3. reflexivity.
      - assert (log1 = log) as -> by (unfold log1, e1; destruct (negb _); cbn [bursts_of ev_what]; apply app_nil_r).
        destruct (match r_force_eom k with Some tm => tm <? n | None => false end) eqn:Eto;
          eexists _, _; (split; [reflexivity|]); (split; [apply Hup, Hh|]); (split; [exact Hp|]); intros t0 m Ht Hm; try discriminate.
        assert (m = EOM) as -> by congruence. right. split; [reflexivity|].
        destruct (r_force_eom k) as [tm|]; [|discriminate]. exists tm. split; [reflexivity|]. unfold n in Eto. lia.
      - assert (log1 = log) as -> by (unfold log1, e1; destruct (negb _); cbn [bursts_of ev_what]; apply app_nil_r).
        destruct (match r_force_eom k with Some tm => tm <? n | None => false end) eqn:Eto;
          eexists _, _; (split; [reflexivity|]); (split; [apply Hup, Hh|]); (split; [exact Hp|]); intros t0 m Ht Hm; try discriminate.
        assert (m = EOM) as -> by congruence. right. split; [reflexivity|].
        destruct (r_force_eom k) as [tm|]; [|discriminate]. exists tm. split; [reflexivity|]. unfold n in Eto. lia.
      - (* Burst: it was just logged *)
        assert (log1 = log ++ [b]) as ->.
        { unfold log1, e1. rewrite (Hrep b eq_refl). reflexivity. }
        destruct (Hbl b eq_refl) as [Hne _].
        destruct (asm_assemble (r_asm k) b (sq_symcount sq')) as [t0 a'] eqn:Ea.
        destruct (asm_assemble_ok log _ _ _ b _ _ Hmono Hh Hp Hne Ea) as (B1 & B2 & B3).
        eexists _, _. split; [reflexivity|]. split; [exact B1|]. split; [exact B2|].
        intros t1 m Ht Hm. inversion Ht; subst. left. apply B3. reflexivity. }
    rewrite Et. clear Et.
    set (force' := match ot with
                   | Some (TMessage (Ok (SOM _))) => Some (n + MAX_MESSAGE_DURATION_SECS * input_rate c)
                   | Some (TMessage (Ok EOM)) => None | _ => r_force_eom k end).
    assert (forall tr q, CInv (mkCore sq' fr' asm' (if negb (link_eqb l (r_link k)) then l else r_link k) tr n q) log1) as Hinv.
    { intros tr q. split; [exact Hh'|]. split; [exact Hp'|]. split; [exact Hf'|].
      cbn [r_link r_fr]. rewrite Hlink. intros b Hlb. apply (Hbl b Hlb). }
    assert (forall e m, In e e1 -> ev_what e <> WTransport (TMessage (Ok m))) as Hnm1.
    { intros e m He. unfold e1 in He. destruct (negb _); [|destruct He]. destruct He as [<-|[]]. cbn [ev_what]. discriminate. }
    destruct ot as [t'|].
    + destruct (transport_eqb t' (r_transport k)).
      * intros E; inversion E; subst. split; [apply Hinv|split; [exact Je1|]].
        intros e m He Hm. exfalso. exact (Hnm1 e m He Hm).
      * assert (bursts_of (e1 ++ [mkEvent (WTransport t') n]) = bursts_of e1) as Hbo.
        { unfold e1. destruct (negb _); cbn [app bursts_of ev_what]; [destruct l; reflexivity|reflexivity]. }
        intros E; inversion E; subst. split; [|split].
        -- rewrite Hbo. apply Hinv.
        -- apply justified_events_app; [exact Je1|]. fold log1. cbn [justified_events ev_what].
           destruct t' as [| |[[h|]|er]]; try exact I. split; [|exact I].
           destruct (Hj _ (SOM h) eq_refl eq_refl) as [Hx|[Hx _]]; [exact Hx|discriminate].
        -- rewrite Hbo. fold log1. intros e m He Hm. apply in_app_or in He. destruct He as [He|[<-|[]]].
           ++ exfalso. exact (Hnm1 e m He Hm).
           ++ cbn [ev_what] in Hm. inversion Hm; subst t'. eapply Hj; reflexivity.
    + intros E; inversion E; subst. split; [apply Hinv|split; [exact Je1|]].
      intros e m He Hm. exfalso. exact (Hnm1 e m He Hm).
Qed.

Theorem step_core_justified c k log i k' evs :
  max_prefix_bit_errors (fc c) <= 7 ->
  CInv k log -> step_core c k i = (k', evs) ->
  CInv k' (log ++ bursts_of evs) /\ justified_events log evs.
Proof.
  intros Hb Hi E. destruct (step_core_justified_gen c k log i k' evs Hb Hi E) as (A & B & _). split; assumption.
Qed.

Theorem run_core_justified c : forall src k log,
  max_prefix_bit_errors (fc c) <= 7 -> CInv k log ->
  justified_events log (fst (run_core c k src)).
Proof.
  induction src as [|i src IH]; intros k log Hb Hinv; cbn [run_core]; [exact I|].
  destruct (step_core c k i) as [k' evs] eqn:Es.
  destruct (step_core_justified c k log i k' evs Hb Hinv Es) as [Hinv' Hj].
  specialize (IH k' _ Hb Hinv'). destruct (run_core c k' src) as [evs' kf]. cbn [fst] in *.
  apply justified_events_app; assumption.
Qed.

(** every StartOfMessage of every run from a fresh receiver is justified by the bursts
    reported before it — whatever the audio was *)
Theorem no_som_without_evidence c src :
  max_prefix_bit_errors (fc c) <= 7 ->
  justified_events [] (fst (run_core c core_init src)).
Proof. intros Hb. apply run_core_justified; [exact Hb|apply CInv_init]. Qed.

(** * Consequences *)
Lemma window_nil {A} (w : list A) : is_window w [] -> w = [].
Proof. intros (a & b & H). symmetry in H. apply app_eq_nil in H. destruct H as [_ H]. apply app_eq_nil in H. apply H. Qed.

Lemma window_single {A} (w : list A) x : is_window w [x] -> w = [] \/ w = [x].
Proof.
  intros (a & b & H). destruct a as [|y a]; cbn [app] in H.
  - destruct w as [|z w]; [left; reflexivity|]. cbn [app] in H. inversion H as [[Hz Hw]]. symmetry in Hw.
    apply app_eq_nil in Hw. destruct Hw as [-> _]. right; reflexivity.
  - inversion H as [[Hy Ha]]. symmetry in Ha. apply app_eq_nil in Ha. destruct Ha as [_ Ha].
    apply app_eq_nil in Ha. left. apply Ha.
Qed.

Lemma combine_nil : combine [] = None.
Proof. Transparent MAX_MESSAGE_LENGTH. vm_compute. reflexivity. Opaque MAX_MESSAGE_LENGTH. Qed.

From Sameold Require Import Proofs.Vote Proofs.HeaderP Proofs.CombinerP.

(** no burst reported => no StartOfMessage; exactly one burst => no StartOfMessage *)
Theorem no_bursts_no_som h : ~ justified_som [] h.
Proof.
  intros (w & Hw & _ & Hc). cbn [map] in Hw. apply window_nil in Hw. subst w. rewrite combine_nil in Hc. discriminate.
Qed.

Theorem one_burst_no_som b h : ~ justified_som [b] h.
Proof.
  intros (w & Hw & _ & Hc). cbn [map] in Hw. apply window_single in Hw. destruct Hw as [-> | ->].
  - rewrite combine_nil in Hc. discriminate.
  - destruct (combine_one_never_header (trunc b)) as [E|E]; rewrite E in Hc; discriminate.
Qed.

(** a justified header is backed byte by byte: at least two of the run's bursts carry each
    reported byte (equal if two, bitwise majority if three) *)
Theorem justified_means_backed log h :
  Forall (fun b => all_bytes b = true) log -> justified_som log h ->
  exists w, is_window w (map trunc log) /\ (length w <= 3)%nat
    /\ forall i c, nth_error (h_text h) i = Some c ->
         (2 <= length (column i w))%nat /\ col_agreed (column i w) c.
Proof.
  intros Hb (w & Hw & Hl & Hc). exists w. split; [exact Hw|]. split; [exact Hl|].
  assert (Forall (fun b => all_bytes b = true) w) as Hbw.
  { destruct Hw as (a & b & Ha). apply Forall_forall. intros x Hx.
    assert (In x (map trunc log)) as Hin by (rewrite Ha; apply in_or_app; right; apply in_or_app; left; exact Hx).
    apply in_map_iff in Hin. destruct Hin as (y & <- & Hy). rewrite Forall_forall in Hb. specialize (Hb y Hy).
    unfold all_bytes, trunc in *. rewrite forallb_forall in *. intros z Hz. apply Hb.
    clear -Hz. revert y Hz. generalize MAX_MESSAGE_LENGTH as n. induction n as [|n IH]; intros y Hz; [destruct Hz|].
    destruct y as [|y0 y]; [destruct Hz|]. cbn [firstn] in Hz. destruct Hz as [->|Hz]; [left; reflexivity|right; apply IH, Hz]. }
  destruct (combine_som_backed w h Hl Hbw Hc) as (_ & Hcol & _). intros i c Hi.
  destruct (Hcol i c Hi) as (A & B & _). split; assumption.
Qed.
